import Clikit.Model.Question
/-!
Helper lemmas for C18 (`Clikit.Question`): splitting, stripping, `pyInt` on decimal
numerals, the validator's loop.
-/
namespace Clikit.Question

/-! ### `split` -/

theorem splitAux_no_sep (sep : Char) (s : Str) (h : sep ∉ s) : splitAux sep s = (s, []) := by
  induction s with
  | nil => rfl
  | cons c r ih =>
    have hc : (c == sep) = false := by
      simp only [List.mem_cons, not_or] at h
      simpa using fun e => h.1 e.symm
    have hr : sep ∉ r := fun hm => h (List.mem_cons_of_mem _ hm)
    simp [splitAux, hc, ih hr]

theorem splitOn_no_sep (sep : Char) (s : Str) (h : sep ∉ s) : splitOn sep s = [s] := by
  simp [splitOn, splitAux_no_sep sep s h]

theorem splitOn_append_sep (sep : Char) (p r : Str) (h : sep ∉ p) :
    splitOn sep (p ++ sep :: r) = p :: splitOn sep r := by
  induction p with
  | nil => simp [splitOn, splitAux]
  | cons c p ih =>
    have hc : (c == sep) = false := by
      simp only [List.mem_cons, not_or] at h
      simpa using fun e => h.1 e.symm
    have hp : sep ∉ p := fun hm => h (List.mem_cons_of_mem _ hm)
    have := ih hp
    simp only [splitOn, List.cons.injEq] at this
    simp [splitOn, splitAux, hc, this.1, this.2]

/-- `sep.join(parts)` -/
def joinWith (sep : Char) : List Str → Str
  | [] => []
  | [p] => p
  | p :: q :: r => p ++ sep :: joinWith sep (q :: r)

theorem splitOn_joinWith (sep : Char) (parts : List Str) (hne : parts ≠ [])
    (h : ∀ p ∈ parts, sep ∉ p) : splitOn sep (joinWith sep parts) = parts := by
  induction parts with
  | nil => exact absurd rfl hne
  | cons p rest ih =>
    cases rest with
    | nil => simpa [joinWith] using splitOn_no_sep sep p (h p (by simp))
    | cons q r =>
      rw [joinWith, splitOn_append_sep sep p _ (h p (by simp)),
        ih (by simp) (fun x hx => h x (List.mem_cons_of_mem _ hx))]

/-! ### `strip` -/

theorem dropWhile_none (p : Char → Bool) (s : Str) (h : ∀ c ∈ s, p c = false) :
    s.dropWhile p = s := by
  cases s with
  | nil => rfl
  | cons c r => simp [List.dropWhile, h c (by simp)]

theorem stripWith_none (p : Char → Bool) (s : Str) (h : ∀ c ∈ s, p c = false) :
    stripWith p s = s := by
  unfold stripWith
  rw [dropWhile_none p s h, dropWhile_none p s.reverse (fun c hc => h c (List.mem_reverse.mp hc))]
  simp

/-! ### `int()` on decimal numerals -/

theorem isDigit_range {c : Char} (h : c.isDigit = true) : 48 ≤ c.toNat ∧ c.toNat ≤ 57 := by
  simp [Char.isDigit] at h
  have h1 : (48 : UInt32).toNat ≤ c.val.toNat := UInt32.le_iff_toNat_le.mp h.1
  have h2 : c.val.toNat ≤ (57 : UInt32).toNat := UInt32.le_iff_toNat_le.mp h.2
  exact ⟨h1, h2⟩

theorem digitVal_of_isDigit {c : Char} (h : c.isDigit = true) : digitVal c = some (c.toNat - 48) := by
  have ⟨h1, h2⟩ := isDigit_range h
  have : (decide (48 ≤ c.toNat) && decide (c.toNat < 48 + 10)) = true := by
    simp; omega
  simp [digitVal, decimalZeros, this]

theorem digitsValue_of_isDigit (s : Str) (acc : Nat) (h : ∀ c ∈ s, c.isDigit = true) :
    digitsValue s acc = some (Nat.ofDigitChars 10 s acc) := by
  induction s generalizing acc with
  | nil => simp [digitsValue]
  | cons c r ih =>
    simp only [digitsValue, digitVal_of_isDigit (h c (by simp)), Nat.ofDigitChars_cons]
    exact ih _ (fun x hx => h x (List.mem_cons_of_mem _ hx))

/-- `int(str(n)) == n` on the natural numbers, for the model of `int()` -/
theorem pyNat_toDigits (n : Nat) : pyNat (Nat.toDigits 10 n) = some n := by
  have hd : ∀ c ∈ Nat.toDigits 10 n, c.isDigit = true :=
    fun c hc => Nat.isDigit_of_mem_toDigits (by decide) (by decide) hc
  have hu : '_' ∉ Nat.toDigits 10 n := Nat.underscore_not_in_toDigits
  have hf : (Nat.toDigits 10 n).filter (· != '_') = Nat.toDigits 10 n := by
    apply List.filter_eq_self.mpr
    intro c hc
    simp only [bne_iff_ne, ne_eq]
    exact fun e => hu (e ▸ hc)
  have hne : (Nat.toDigits 10 n).isEmpty = false := by
    cases h : Nat.toDigits 10 n with
    | nil => exact absurd h Nat.toDigits_ne_nil
    | cons _ _ => rfl
  have hall : (Nat.toDigits 10 n).all (fun c => (digitVal c).isSome) = true := by
    simp only [List.all_eq_true]
    intro c hc
    simp [digitVal_of_isDigit (hd c hc)]
  simp [pyNat, splitOn_no_sep '_' _ hu, hne, hall, hf, digitsValue_of_isDigit _ 0 hd]

theorem pyInt_toDigits (n : Nat) : pyInt (Nat.toDigits 10 n) = some (n : Int) := by
  have hd : ∀ c ∈ Nat.toDigits 10 n, c.isDigit = true :=
    fun c hc => Nat.isDigit_of_mem_toDigits (by decide) (by decide) hc
  have hs : ∀ c ∈ Nat.toDigits 10 n, isIntSpace c = false := by
    intro c hc
    have ⟨h1, h2⟩ := isDigit_range (hd c hc)
    simp [isIntSpace, isPySpace]
    omega
  have hh : ∀ x, (Nat.toDigits 10 n).head? = some x → x.isDigit = true := by
    intro x hx
    exact hd x (List.mem_of_mem_head? hx)
  have hm : (Nat.toDigits 10 n).head? ≠ some '-' := fun e => by
    have := hh _ e; simp at this
  have hp : (Nat.toDigits 10 n).head? ≠ some '+' := fun e => by
    have := hh _ e; simp at this
  simp [pyInt, stripWith_none _ _ hs, hm, hp, pyNat_toDigits]

/-! ### the validator -/

section validator
variable (toInt : Str → Option Int) (choices : List Str)

theorem validateOne_mem {v c : Str} (h : validateOne toInt choices v = .ok c) : c ∈ choices := by
  unfold validateOne at h
  split at h
  · cases h
  · split at h
    · next c' hf => cases h; exact List.mem_of_find?_eq_some hf
    · split at h
      · cases h
      · split at h
        · split at h
          · next c' hg => cases h; exact List.mem_of_getElem? hg
          · cases h
        · cases h

/-- the guard `0 <= value < len(values)` is sufficient: indexing never fails -/
theorem validateOne_no_indexError (v : Str) :
    validateOne toInt choices v ≠ .error (.other "IndexError") := by
  unfold validateOne
  split
  · simp
  · split
    · simp
    · split
      · simp
      · next i hi =>
        split
        · next hr =>
          have : i.toNat < choices.length := by omega
          simp [List.getElem?_eq_getElem this]
        · simp

/-- every failure of the per-value step is a `ValueError` -/
theorem validateOne_error {v : Str} {e : Err} (h : validateOne toInt choices v = .error e) :
    e = .valueError := by
  unfold validateOne at h
  split at h
  · cases h; rfl
  · split at h
    · cases h
    · split at h
      · cases h; rfl
      · next i hi =>
        split at h
        · next hr =>
          have : i.toNat < choices.length := by omega
          simp [List.getElem?_eq_getElem this] at h
        · cases h; rfl

theorem validateAll_mem {vs cs : List Str} (h : validateAll toInt choices vs = .ok cs) :
    ∀ c ∈ cs, c ∈ choices := by
  induction vs generalizing cs with
  | nil => simp [validateAll] at h; subst h; simp
  | cons v r ih =>
    unfold validateAll at h
    split at h
    · cases h
    · next c hc =>
      split at h
      · cases h
      · next cs' hcs =>
        cases h
        intro x hx
        rcases List.mem_cons.mp hx with rfl | hx
        · exact validateOne_mem toInt choices hc
        · exact ih hcs x hx

theorem validateAll_length {vs cs : List Str} (h : validateAll toInt choices vs = .ok cs) :
    cs.length = vs.length := by
  induction vs generalizing cs with
  | nil => simp [validateAll] at h; subst h; rfl
  | cons v r ih =>
    unfold validateAll at h
    split at h
    · cases h
    · split at h
      · cases h
      · next cs' hcs => cases h; simp [ih hcs]

theorem validateAll_error {vs : List Str} {e : Err} (h : validateAll toInt choices vs = .error e) :
    e = .valueError := by
  induction vs with
  | nil => simp [validateAll] at h
  | cons v r ih =>
    unfold validateAll at h
    split at h
    · next e' he => cases h; exact validateOne_error toInt choices he
    · split at h
      · next e' he => cases h; exact ih he
      · cases h

/-- the loop is the pointwise application of the per-value step -/
theorem validateAll_ok_of_forall {vs : List Str} (f : Str → Str)
    (h : ∀ v ∈ vs, validateOne toInt choices v = .ok (f v)) :
    validateAll toInt choices vs = .ok (vs.map f) := by
  induction vs with
  | nil => rfl
  | cons v r ih =>
    simp [validateAll, h v (by simp), ih (fun x hx => h x (List.mem_cons_of_mem _ hx))]

/-- answering with a value that occurs exactly once selects it -/
theorem validateOne_value {v : Str} (huniq : (choices.filter (· == v)).length = 1) :
    validateOne toInt choices v = .ok v := by
  have hmem : v ∈ choices := by
    have : (choices.filter (· == v)) ≠ [] := by
      intro e; rw [e] at huniq; simp at huniq
    obtain ⟨x, hx⟩ := List.exists_mem_of_ne_nil _ this
    have := List.mem_filter.mp hx
    have e : x = v := by simpa using this.2
    exact e ▸ this.1
  unfold validateOne
  rw [if_neg (by omega)]
  cases hf : choices.find? (· == v) with
  | none =>
    have := List.find?_eq_none.mp hf v hmem
    simp at this
  | some c =>
    have := List.find?_some hf
    have e : c = v := by simpa using this
    simp [e]

/-- a value that occurs more than once is rejected as ambiguous -/
theorem validateOne_ambiguous {v : Str} (h : (choices.filter (· == v)).length > 1) :
    validateOne toInt choices v = .error .valueError := by
  unfold validateOne
  rw [if_pos h]

/-- answering with the text of an index that is not itself a choice selects `choices[i]` -/
theorem validateOne_index {txt : Str} {i : Nat} (hi : i < choices.length)
    (hnot : txt ∉ choices) (hint : toInt txt = some (i : Int)) :
    validateOne toInt choices txt = .ok choices[i] := by
  have hfil : choices.filter (· == txt) = [] := by
    apply List.filter_eq_nil_iff.mpr
    intro x hx
    simp only [beq_iff_eq]
    exact fun e => hnot (e ▸ hx)
  have hfind : choices.find? (· == txt) = none := by
    apply List.find?_eq_none.mpr
    intro x hx
    simp only [beq_iff_eq]
    exact fun e => hnot (e ▸ hx)
  unfold validateOne
  simp only [hfil, hfind, hint]
  have : (0 : Int) ≤ (i : Int) ∧ (i : Int) < (choices.length : Int) := by omega
  simp [this, List.getElem?_eq_getElem hi]

/-- a text that is neither a choice nor an index in range is rejected -/
theorem validateOne_invalid {txt : Str} (hnot : txt ∉ choices)
    (hint : ∀ i, toInt txt = some i → ¬ (0 ≤ i ∧ i < (choices.length : Int))) :
    validateOne toInt choices txt = .error .valueError := by
  have hfil : choices.filter (· == txt) = [] := by
    apply List.filter_eq_nil_iff.mpr
    intro x hx
    simp only [beq_iff_eq]
    exact fun e => hnot (e ▸ hx)
  have hfind : choices.find? (· == txt) = none := by
    apply List.find?_eq_none.mpr
    intro x hx
    simp only [beq_iff_eq]
    exact fun e => hnot (e ▸ hx)
  unfold validateOne
  simp only [hfil, hfind]
  cases h : toInt txt with
  | none => simp
  | some i => simp [hint i h]

theorem validate_none (multi : Bool) :
    validate toInt choices multi none = .error (.other "AttributeError") := rfl

theorem validate_single (sel : Str) :
    validate toInt choices false (some sel) =
      (match validateOne toInt choices sel with
       | .ok c => .ok (.one c)
       | .error e => .error e) := rfl

theorem validate_multi (sel : Str) :
    validate toInt choices true (some sel) =
      if multiFormatOk (sel.filter (· != ' ')) = true then
        (match validateAll toInt choices (splitOn ',' (sel.filter (· != ' '))) with
         | .ok cs => .ok (.many cs)
         | .error e => .error e)
      else .error .valueError := rfl

end validator

/-! ### the prompt raises only what its partial operations raise -/

section prompt
variable (toInt : Str → Option Int) (choices : List Str)

theorem pyGetItem_error {i : Int} {e : Err} (h : pyGetItem choices i = .error e) :
    e = .other "IndexError" := by
  unfold pyGetItem at h
  split at h
  · split at h
    · cases h
    · cases h; rfl
  · cases h; rfl

theorem promptPart_error {d : Str} {e : Err} (h : promptPart toInt choices d = .error e) :
    e = .valueError ∨ e = .other "IndexError" := by
  unfold promptPart at h
  split at h
  · cases h; exact Or.inl rfl
  · split at h
    · cases h
    · next e' he => cases h; exact Or.inr (pyGetItem_error choices he)

theorem promptParts_error {ps : List Str} {e : Err} (h : promptParts toInt choices ps = .error e) :
    e = .valueError ∨ e = .other "IndexError" := by
  induction ps with
  | nil => simp [promptParts] at h
  | cons p r ih =>
    unfold promptParts at h
    split at h
    · next e' he => cases h; exact promptPart_error toInt choices he
    · exact ih h

theorem promptCheck_error (multi : Bool) (default : Option Str) (e : Err)
    (h : promptCheck toInt choices multi default = .error e) :
    e = .valueError ∨ e = .other "IndexError" := by
  unfold promptCheck at h
  split at h
  · cases h
  · split at h
    · exact promptParts_error toInt choices h
    · exact promptPart_error toInt choices h

theorem promptCheck_not_outOfFuel (multi : Bool) (default : Option Str) (e : Err)
    (h : promptCheck toInt choices multi default = .error e) : e ≠ .outOfFuel := by
  rcases promptCheck_error toInt choices multi default e h with h | h <;> simp [h]

end prompt

/-! ### the retry loop -/

theorem Outcome.add_zero (o : Outcome) : o.add 0 0 0 = o := by
  cases o; simp [Outcome.add]

theorem Outcome.add_add (o : Outcome) (a b c a' b' c' : Nat) :
    (o.add a b c).add a' b' c' = o.add (a + a') (b + b') (c + c') := by
  cases o; simp [Outcome.add, Nat.add_assoc]

@[simp] theorem Outcome.add_result (o : Outcome) (a b c : Nat) : (o.add a b c).result = o.result := rfl
@[simp] theorem Outcome.add_reads (o : Outcome) (a b c : Nat) : (o.add a b c).reads = o.reads + a := rfl
@[simp] theorem Outcome.add_errors (o : Outcome) (a b c : Nat) : (o.add a b c).errors = o.errors + b := rfl
@[simp] theorem Outcome.add_prompts (o : Outcome) (a b c : Nat) : (o.add a b c).prompts = o.prompts + c := rfl

/-- the value of the loop variable `error` after a run of lines -/
def lastErr (f : Str → Except Err Answer) (err : Option Err) (lines : List Str) : Option Err :=
  lines.foldl (fun acc l => match f l with | .error e => some e | .ok _ => acc) err

theorem lastErr_append_single (f : Str → Except Err Answer) (err : Option Err) (ls : List Str)
    (l : Str) (e : Err) (h : f l = .error e) : lastErr f err (ls ++ [l]) = some e := by
  simp [lastErr, List.foldl_append, h]

section loop
variable (toInt : Str → Option Int) (choices : List Str) (multi : Bool) (default : Option Str)
  (eof : Bool)

theorem askLoop_zero (script : List Str) (err : Option Err) :
    askLoop toInt choices multi default eof script (some 0) err = raiseLast err := by
  unfold askLoop; simp

theorem askLoop_prompt_error (script : List Str) (att : Option Nat) (err : Option Err) (e : Err)
    (hatt : att ≠ some 0) (hp : promptCheck toInt choices multi default = .error e) :
    askLoop toInt choices multi default eof script att err = ⟨.error e, 0, printed err, 0⟩ := by
  unfold askLoop; simp [hatt, hp]

theorem askLoop_nil (att : Option Nat) (err : Option Err)
    (hatt : att ≠ some 0) (hp : promptCheck toInt choices multi default = .ok ()) :
    askLoop toInt choices multi default eof [] att err =
      if eof then ⟨.error .runtimeError, 1, printed err, 1⟩ else ⟨.pending, 0, printed err, 1⟩ := by
  unfold askLoop; simp [hatt, hp]

theorem askLoop_cons_ok (line : Str) (rest : List Str) (att : Option Nat) (err : Option Err)
    (a : Answer) (hatt : att ≠ some 0) (hp : promptCheck toInt choices multi default = .ok ())
    (hl : lineResult toInt choices multi default line = .ok a) :
    askLoop toInt choices multi default eof (line :: rest) att err = ⟨.value a, 1, printed err, 1⟩ := by
  unfold askLoop; simp [hatt, hp, hl]

theorem askLoop_cons_error (line : Str) (rest : List Str) (att : Option Nat) (err : Option Err)
    (e : Err) (hatt : att ≠ some 0) (hp : promptCheck toInt choices multi default = .ok ())
    (hl : lineResult toInt choices multi default line = .error e) :
    askLoop toInt choices multi default eof (line :: rest) att err =
      (askLoop toInt choices multi default eof rest (att.map (· - 1)) (some e)).add 1 (printed err) 1 := by
  conv => lhs; unfold askLoop
  simp [hatt, hp, hl]

/-- A run of rejected lines, while attempts remain: each costs one read, one prompt and one
error line (the error of line `k` is printed at the start of pass `k+1`, so the last one is
still pending in `error` when the run ends). -/
theorem askLoop_invalid_prefix (bad tail : List Str) (att : Option Nat) (err : Option Err)
    (hp : promptCheck toInt choices multi default = .ok ())
    (hbad : ∀ l ∈ bad, ∃ e, lineResult toInt choices multi default l = .error e)
    (hatt : ∀ n, att = some n → bad.length ≤ n) :
    askLoop toInt choices multi default eof (bad ++ tail) att err =
      (askLoop toInt choices multi default eof tail (att.map (· - bad.length))
        (lastErr (lineResult toInt choices multi default) err bad)).add
        bad.length (if bad = [] then 0 else printed err + (bad.length - 1)) bad.length := by
  induction bad generalizing att err with
  | nil =>
    simp [lastErr, Outcome.add_zero]
  | cons l bs ih =>
    obtain ⟨e, he⟩ := hbad l (by simp)
    have hatt0 : att ≠ some 0 := by
      intro h; have := hatt 0 h; simp at this
    have hatt' : ∀ n, att.map (· - 1) = some n → bs.length ≤ n := by
      intro n hn
      cases att with
      | none => simp at hn
      | some m =>
        have := hatt m rfl
        simp at hn this
        omega
    rw [List.cons_append, askLoop_cons_error toInt choices multi default eof l _ att err e hatt0 hp he,
      ih (att.map (· - 1)) (some e) (fun x hx => hbad x (List.mem_cons_of_mem _ hx)) hatt',
      Outcome.add_add]
    have hmap : (att.map (· - 1)).map (· - bs.length) = att.map (· - (bs.length + 1)) := by
      cases att with
      | none => rfl
      | some m => simp; omega
    have hlast : lastErr (lineResult toInt choices multi default) err (l :: bs) =
        lastErr (lineResult toInt choices multi default) (some e) bs := by
      simp [lastErr, he]
    rw [hmap, hlast]
    have hcount : (if bs = [] then 0 else printed (some e) + (bs.length - 1)) + printed err =
        printed err + (bs.length + 1 - 1) := by
      cases bs with
      | nil => simp
      | cons b bs' => simp [printed]; omega
    simp only [List.length_cons, hcount, List.cons_ne_nil, if_false]

end loop

theorem lastErr_some_of_rejected (f : Str → Except Err Answer) (err : Option Err)
    (bad : List Str) (hne : bad ≠ []) (h : ∀ l ∈ bad, ∃ e, f l = .error e) :
    ∃ e, lastErr f err bad = some e := by
  induction bad generalizing err with
  | nil => exact absurd rfl hne
  | cons l bs ih =>
    obtain ⟨e, he⟩ := h l (by simp)
    have hstep : lastErr f err (l :: bs) = lastErr f (some e) bs := by simp [lastErr, he]
    cases bs with
    | nil => exact ⟨e, by simp [lastErr, he]⟩
    | cons b bs' =>
      rw [hstep]
      exact ih (some e) (by simp) (fun x hx => h x (List.mem_cons_of_mem _ hx))

section bounds
variable (toInt : Str → Option Int) (choices : List Str) (multi : Bool) (default : Option Str)
  (eof : Bool)

/-- Whatever the state of the loop: at most one read per line plus the one that meets the
end of input; at most one error line per read (plus the pending one); the result is
"waiting" only on a stream that is not at its end, after the whole script was read. -/
theorem askLoop_bounds (script : List Str) (att : Option Nat) (err : Option Err) :
    (askLoop toInt choices multi default eof script att err).reads ≤ script.length + 1 ∧
    (askLoop toInt choices multi default eof script att err).errors ≤
      (askLoop toInt choices multi default eof script att err).reads + printed err ∧
    (askLoop toInt choices multi default eof script att err).prompts ≤
      (askLoop toInt choices multi default eof script att err).reads + 1 ∧
    (eof = true → (askLoop toInt choices multi default eof script att err).result ≠ .pending) ∧
    ((askLoop toInt choices multi default eof script att err).result = .pending →
      (askLoop toInt choices multi default eof script att err).reads = script.length) := by
  by_cases hatt : att = some 0
  · subst hatt
    simp [askLoop_zero, raiseLast]
  cases hp : promptCheck toInt choices multi default with
  | error e => simp [askLoop_prompt_error toInt choices multi default eof script att err e hatt hp]
  | ok u =>
    cases u
    induction script generalizing att err with
    | nil =>
      rw [askLoop_nil toInt choices multi default eof att err hatt hp]
      cases eof <;> simp
    | cons line rest ih =>
      cases hl : lineResult toInt choices multi default line with
      | ok a => simp [askLoop_cons_ok toInt choices multi default eof line rest att err a hatt hp hl]
      | error e =>
        rw [askLoop_cons_error toInt choices multi default eof line rest att err e hatt hp hl]
        by_cases hatt' : att.map (· - 1) = some 0
        · rw [hatt']
          simp [askLoop_zero, raiseLast]
        · have := ih (att.map (· - 1)) (some e) hatt'
          simp only [printed, Option.isSome_some, if_true] at this
          obtain ⟨h1, h2, h3, h4, h5⟩ := this
          refine ⟨?_, ?_, ?_, ?_, ?_⟩
          · simp only [Outcome.add_reads, List.length_cons]; omega
          · simp only [Outcome.add_errors, Outcome.add_reads]; omega
          · simp only [Outcome.add_prompts, Outcome.add_reads]; omega
          · simpa using h4
          · intro hpend
            simp only [Outcome.add_result] at hpend
            simp only [Outcome.add_reads, List.length_cons, h5 hpend]

/-- The lines BEHIND the ones a dialogue reads do not influence it: if the loop ends (not
"waiting") without reading past the script, it does exactly the same on any extension of the
script (and whether or not the stream then ends). -/
theorem askLoop_append (eof' : Bool) (extra : List Str) (script : List Str) (att : Option Nat)
    (err : Option Err)
    (hpend : (askLoop toInt choices multi default eof script att err).result ≠ .pending)
    (hreads : (askLoop toInt choices multi default eof script att err).reads ≤ script.length) :
    askLoop toInt choices multi default eof' (script ++ extra) att err =
      askLoop toInt choices multi default eof script att err := by
  by_cases hatt : att = some 0
  · subst hatt
    simp [askLoop_zero]
  cases hp : promptCheck toInt choices multi default with
  | error e =>
    rw [askLoop_prompt_error toInt choices multi default eof script att err e hatt hp,
      askLoop_prompt_error toInt choices multi default eof' (script ++ extra) att err e hatt hp]
  | ok u =>
    cases u
    induction script generalizing att err with
    | nil =>
      rw [askLoop_nil toInt choices multi default eof att err hatt hp] at hpend hreads
      cases eof <;> simp at hpend hreads
    | cons line rest ih =>
      cases hl : lineResult toInt choices multi default line with
      | ok a =>
        rw [List.cons_append, askLoop_cons_ok toInt choices multi default eof line rest att err a hatt hp hl,
          askLoop_cons_ok toInt choices multi default eof' line (rest ++ extra) att err a hatt hp hl]
      | error e =>
        rw [askLoop_cons_error toInt choices multi default eof line rest att err e hatt hp hl] at hpend hreads ⊢
        rw [List.cons_append,
          askLoop_cons_error toInt choices multi default eof' line (rest ++ extra) att err e hatt hp hl]
        by_cases hatt' : att.map (· - 1) = some 0
        · rw [hatt']
          simp [askLoop_zero]
        · simp only [Outcome.add_result] at hpend
          simp only [Outcome.add_reads, List.length_cons] at hreads
          rw [ih (att.map (· - 1)) (some e) hpend (by omega) hatt']

end bounds

/-! ### deciders (Model/Question.lean) and the decimal numerals `str(i)` -/

/-- the decimal numeral of `i` is not empty, survives the stripping of the line that was read and is
one item of a multi-select answer -/
theorem toDigits_typable (i : Nat) :
    Nat.toDigits 10 i ≠ [] ∧ bytesStrip (Nat.toDigits 10 i) = Nat.toDigits 10 i ∧
    ∀ c ∈ Nat.toDigits 10 i, isWordChar c = true := by
  have hd : ∀ c ∈ Nat.toDigits 10 i, c.isDigit = true :=
    fun c hc => Nat.isDigit_of_mem_toDigits (by decide) (by decide) hc
  refine ⟨Nat.toDigits_ne_nil, ?_, ?_⟩
  · apply stripWith_none
    intro c hc
    have ⟨h1, h2⟩ := isDigit_range (hd c hc)
    simp only [isByteSpace, Bool.or_eq_false_iff, beq_eq_false_iff_ne, ne_eq]
    refine ⟨⟨⟨⟨⟨?_, ?_⟩, ?_⟩, ?_⟩, ?_⟩, ?_⟩ <;> (rintro rfl; revert h1 h2; decide)
  · intro c hc
    have h := hd c hc
    simp only [Char.isDigit, Bool.and_eq_true, decide_eq_true_eq] at h
    simp only [isWordChar, Bool.or_eq_true, Bool.and_eq_true, decide_eq_true_eq]
    exact Or.inl (Or.inl (Or.inr ⟨h.1, h.2⟩))

/-- a word has no white space that `_read_from_input` would strip -/
theorem bytesStrip_of_word (p : Str) (h : ∀ c ∈ p, isWordChar c = true) : bytesStrip p = p := by
  apply stripWith_none
  intro c hc
  have hw := h c hc
  simp only [isByteSpace, Bool.or_eq_false_iff, beq_eq_false_iff_ne, ne_eq]
  refine ⟨⟨⟨⟨⟨?_, ?_⟩, ?_⟩, ?_⟩, ?_⟩, ?_⟩ <;> (rintro rfl; revert hw; decide)

theorem wordyB_iff (p : Str) : wordyB p = true ↔ p ≠ [] ∧ ∀ c ∈ p, isWordChar c = true := by
  cases p <;> simp [wordyB]

theorem typableB_iff (v : Str) : typableB v = true ↔ v ≠ [] ∧ bytesStrip v = v := by
  cases v <;> simp [typableB]

section congr
variable (toInt : Str → Option Int) (choices : List Str) (multi : Bool) (default : Option Str)
  (eof : Bool)

/-- the loop sees a typed line only through what the validator makes of it -/
theorem askLoop_congr_line (l1 l2 : Str) (rest : List Str) (att : Option Nat) (err : Option Err)
    (h : lineResult toInt choices multi default l1 = lineResult toInt choices multi default l2) :
    askLoop toInt choices multi default eof (l1 :: rest) att err =
      askLoop toInt choices multi default eof (l2 :: rest) att err := by
  by_cases hatt : att = some 0
  · subst hatt; simp [askLoop_zero]
  cases hp : promptCheck toInt choices multi default with
  | error e =>
    rw [askLoop_prompt_error toInt choices multi default eof _ att err e hatt hp,
      askLoop_prompt_error toInt choices multi default eof _ att err e hatt hp]
  | ok u =>
    cases u
    cases hl : lineResult toInt choices multi default l1 with
    | ok a =>
      rw [askLoop_cons_ok toInt choices multi default eof l1 rest att err a hatt hp hl,
        askLoop_cons_ok toInt choices multi default eof l2 rest att err a hatt hp (h ▸ hl)]
    | error e =>
      rw [askLoop_cons_error toInt choices multi default eof l1 rest att err e hatt hp hl,
        askLoop_cons_error toInt choices multi default eof l2 rest att err e hatt hp (h ▸ hl)]

end congr

end Clikit.Question
