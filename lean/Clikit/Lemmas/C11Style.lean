import Clikit.Model.Style
/-!
Lemmas about SGR strings and about deleting them again (C11).
-/
namespace Clikit.Style
open Clikit Clikit.Gen.C11

/-! ### decimal digits -/

theorem digitChar_isDigit (n : Nat) : (digitChar n).isDigit = true := by
  unfold digitChar
  split <;> decide

theorem digitsAux_isDigit : ∀ (fuel n : Nat) (acc : Str), (∀ c ∈ acc, c.isDigit = true) →
    ∀ c ∈ digitsAux fuel n acc, c.isDigit = true := by
  intro fuel
  induction fuel with
  | zero => intro n acc h; simpa [digitsAux] using h
  | succ f ih =>
    intro n acc h
    unfold digitsAux
    have h' : ∀ c ∈ digitChar n :: acc, c.isDigit = true := by
      intro c hc
      rcases List.mem_cons.mp hc with rfl | hc
      · exact digitChar_isDigit n
      · exact h c hc
    split
    · exact h'
    · exact ih _ _ h'

theorem natStr_isDigit (n : Nat) : ∀ c ∈ natStr n, c.isDigit = true :=
  digitsAux_isDigit _ _ [] (by simp)

/-- a character of an SGR parameter list -/
def isParam (c : Char) : Bool := c.isDigit || c == ';'

theorem joinCodes_isParam : ∀ (cs : List Nat), ∀ c ∈ joinCodes cs, isParam c = true
  | [], c, h => by simp [joinCodes] at h
  | [a], c, h => by
    simp only [joinCodes] at h
    simp [isParam, natStr_isDigit a c h]
  | a :: b :: r, c, h => by
    simp only [joinCodes] at h
    rcases List.mem_append.mp h with h | h
    · simp [isParam, natStr_isDigit a c h]
    · rcases List.mem_cons.mp h with rfl | h
      · decide
      · exact joinCodes_isParam (b :: r) c h

theorem isParam_ne_m (c : Char) (h : isParam c = true) : c ≠ 'm' := by
  intro hc; subst hc; revert h; decide

/-! ### deleting SGR sequences -/

theorem paramsLen_params (ps : Str) (h : ∀ c ∈ ps, isParam c = true) (rest : Str) :
    paramsLen (ps ++ 'm' :: rest) = some (ps.length + 1) := by
  induction ps with
  | nil => simp [paramsLen]
  | cons c r ih =>
    have hc := h c (by simp)
    have hne := isParam_ne_m c hc
    have hc' : (c.isDigit || decide (c = ';')) = true := by
      simpa [isParam] using hc
    simp only [List.cons_append, paramsLen, if_neg hne, hc', if_true,
      ih (fun x hx => h x (List.mem_cons_of_mem _ hx)), Option.map, List.length_cons]

theorem stripAux_skip : ∀ (xs : Str) (rest : Str), stripAux xs.length (xs ++ rest) = stripAux 0 rest
  | [], rest => by simp
  | x :: xs, rest => by
    simp only [List.length_cons, List.cons_append, stripAux]
    exact stripAux_skip xs rest

theorem ESC_ne_bracket : ESC ≠ '[' := by decide

/-- an opening sequence disappears -/
theorem stripAnsi_sgrOpen (cs : List Nat) (rest : Str) :
    stripAnsi (sgrOpen cs ++ rest) = stripAnsi rest := by
  unfold stripAnsi sgrOpen
  have hp := paramsLen_params (joinCodes cs) (joinCodes_isParam cs) rest
  have hs : seqLen ('[' :: (joinCodes cs ++ 'm' :: rest)) = some ((joinCodes cs).length + 2) := by
    simp only [seqLen, hp, Option.map]
  have e : ESC :: '[' :: (joinCodes cs ++ ['m']) ++ rest = ESC :: ('[' :: (joinCodes cs ++ 'm' :: rest)) := by
    simp
  rw [e]
  simp only [stripAux, if_true, hs]
  have e2 : joinCodes cs ++ 'm' :: rest = (joinCodes cs ++ ['m']) ++ rest := by simp
  have e3 : (joinCodes cs).length + 1 = (joinCodes cs ++ ['m']).length := by simp
  rw [e2, e3]
  exact stripAux_skip _ rest

/-- the reset sequence disappears -/
theorem stripAnsi_sgrReset (rest : Str) : stripAnsi (sgrReset ++ rest) = stripAnsi rest := by
  unfold stripAnsi sgrReset
  have hs : seqLen ('[' :: '0' :: 'm' :: rest) = some 3 := by
    simp [seqLen, paramsLen]
  show stripAux 0 (ESC :: '[' :: '0' :: 'm' :: rest) = stripAux 0 rest
  simp only [stripAux, if_true, hs]

/-- text without ESC is kept -/
theorem stripAnsi_text (a : Str) (h : ESC ∉ a) (b : Str) : stripAnsi (a ++ b) = a ++ stripAnsi b := by
  unfold stripAnsi
  induction a with
  | nil => rfl
  | cons c r ih =>
    have hc : c ≠ ESC := fun e => h (by simp [e])
    have hr : ESC ∉ r := fun e => h (by simp [e])
    simp only [List.cons_append, stripAux, if_neg hc, ih hr]

theorem stripAnsi_text' (a : Str) (h : ESC ∉ a) : stripAnsi a = a := by
  have := stripAnsi_text a h []
  simpa [stripAnsi, stripAux] using this

/-- a styled piece of ESC-free text shrinks back to the text -/
theorem stripAnsi_wrap (cs : List Nat) (t : Str) (h : ESC ∉ t) (rest : Str) :
    stripAnsi (wrap cs t ++ rest) = t ++ stripAnsi rest := by
  unfold wrap
  cases cs with
  | nil => exact stripAnsi_text t h rest
  | cons c r =>
    show stripAnsi (sgrOpen (c :: r) ++ t ++ sgrReset ++ rest) = t ++ stripAnsi rest
    rw [List.append_assoc, List.append_assoc, stripAnsi_sgrOpen, stripAnsi_text t h, stripAnsi_sgrReset]

/-! ### dictionaries -/

theorem dictGet?_mem {κ ν : Type} [BEq κ] [LawfulBEq κ] (k : κ) (v : ν) :
    ∀ (d : List (κ × ν)), dictGet? k d = some v → (k, v) ∈ d
  | [], h => by simp [dictGet?] at h
  | (k', v') :: r, h => by
    unfold dictGet? at h
    split at h
    · rename_i hk
      have : k' = k := eq_of_beq hk
      simp at h
      subst this; subst h
      simp
    · exact List.mem_cons_of_mem _ (dictGet?_mem k v r h)

theorem dictGet?_dictSet_self {κ ν : Type} [BEq κ] [LawfulBEq κ] (k : κ) (v : ν) :
    ∀ (d : List (κ × ν)), dictGet? k (dictSet k v d) = some v
  | [] => by simp [dictSet, dictGet?]
  | (k', v') :: r => by
    unfold dictSet
    split
    · rename_i hk; simp [dictGet?, hk]
    · rename_i hk; simp only [dictGet?, hk]; exact dictGet?_dictSet_self k v r

theorem eqv_refl (p : PastelStyle) : p.eqv p = true := by
  simp [PastelStyle.eqv]

end Clikit.Style
