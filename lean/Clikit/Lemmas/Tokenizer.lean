import Clikit.Model.Tokenizer
/-!
Lemmas about the tokenizer model (C08): totality at the entry fuel, fuel monotonicity,
the round trip through one quoted string, whitespace skipping.
-/
set_option linter.unusedSimpArgs false

namespace Clikit.Tokenizer
open Clikit.Gen.C08 (isSpace optionsEnd)

/-- decidable equality of results (for the concrete `example`s); named and kept in this
namespace so that it cannot collide with an instance derived elsewhere -/
instance decEqExcept {ε α : Type} [DecidableEq ε] [DecidableEq α] : DecidableEq (Except ε α)
  | .ok a, .ok b =>
    if h : a = b then isTrue (by rw [h]) else isFalse (fun h' => h (Except.ok.inj h'))
  | .error a, .error b =>
    if h : a = b then isTrue (by rw [h]) else isFalse (fun h' => h (Except.error.inj h'))
  | .ok _, .error _ => isFalse (fun h => by cases h)
  | .error _, .ok _ => isFalse (fun h => by cases h)

/-! ### `_parse_escape_sequence` -/

theorem esc_length (r : Str) : (esc r).2.length ≤ r.length := by
  cases r with
  | nil => simp [esc]
  | cons c r => simp only [esc]; split <;> simp

/-! ### totality: the entry fuel is enough -/

theorem pq_total : ∀ (n : Nat) (d : Char) (s : Str), s.length + 1 ≤ n →
    ∃ t r, pq n d s = .ok (t, r) ∧ r.length ≤ s.length := by
  intro n
  induction n with
  | zero => intro d s h; omega
  | succ n ih =>
    intro d s h
    cases s with
    | nil => exact ⟨[], [], by simp [pq], by simp⟩
    | cons c r =>
      simp only [List.length_cons] at h
      simp only [pq]
      by_cases h1 : (c == d) = true
      · simp only [h1, if_true]; exact ⟨[], r, rfl, by simp⟩
      · simp only [h1]
        by_cases h2 : (c == '\\') = true
        · simp only [h2, if_true]
          have hl := esc_length r
          obtain ⟨t, r2, he, hr⟩ := ih d (esc r).2 (by omega)
          rw [he]; exact ⟨_, r2, rfl, by simp; omega⟩
        · simp only [h2]
          by_cases h3 : (c == '"') = true
          · simp only [h3, if_true]
            obtain ⟨t1, r1, he1, hr1⟩ := ih '"' r (by omega)
            obtain ⟨t2, r2, he2, hr2⟩ := ih d r1 (by omega)
            rw [he1]; simp only []; rw [he2]; exact ⟨_, r2, rfl, by simp; omega⟩
          · simp only [h3]
            by_cases h4 : (c == '\'') = true
            · simp only [h4, if_true]
              obtain ⟨t1, r1, he1, hr1⟩ := ih '\'' r (by omega)
              obtain ⟨t2, r2, he2, hr2⟩ := ih d r1 (by omega)
              rw [he1]; simp only []; rw [he2]; exact ⟨_, r2, rfl, by simp; omega⟩
            · simp only [h4]
              obtain ⟨t, r2, he, hr⟩ := ih d r (by omega)
              rw [he]; exact ⟨_, r2, rfl, by simp; omega⟩


theorem ptok_total : ∀ (n : Nat) (s : Str), s.length + 1 ≤ n →
    ∃ t r, ptok n s = .ok (t, r) ∧ r.length ≤ s.length ∧ (s ≠ [] → r.length < s.length) := by
  intro n
  induction n with
  | zero => intro s h; omega
  | succ n ih =>
    intro s h
    cases s with
    | nil => exact ⟨[], [], by simp [ptok], by simp, by simp⟩
    | cons c r =>
      simp only [List.length_cons] at h
      simp only [ptok]
      by_cases h1 : isSpace c = true
      · simp only [h1, if_true]; exact ⟨[], r, rfl, by simp, by simp⟩
      · simp only [h1]
        by_cases h2 : (c == '\\') = true
        · simp only [h2, if_true]
          have hl := esc_length r
          obtain ⟨t, r2, he, hr, _⟩ := ih (esc r).2 (by omega)
          rw [he]; exact ⟨_, r2, rfl, by simp; omega, by simp; omega⟩
        · simp only [h2]
          by_cases h3 : isQ c = true
          · simp only [h3, if_true]
            obtain ⟨t1, r1, he1, hr1⟩ := pq_total n c r (by omega)
            obtain ⟨t2, r2, he2, hr2, _⟩ := ih r1 (by omega)
            rw [he1]; simp only []; rw [he2]
            exact ⟨_, r2, rfl, by simp; omega, by simp; omega⟩
          · simp only [h3]
            obtain ⟨t, r2, he, hr, _⟩ := ih r (by omega)
            rw [he]; exact ⟨_, r2, rfl, by simp; omega, by simp; omega⟩

theorem toks_total : ∀ (n : Nat) (s : Str), s.length + 1 ≤ n → ∃ ts, toks n s = .ok ts := by
  intro n
  induction n with
  | zero => intro s h; omega
  | succ n ih =>
    intro s h
    cases s with
    | nil => exact ⟨[], by simp [toks]⟩
    | cons c r =>
      simp only [List.length_cons] at h
      simp only [toks]
      by_cases h1 : isSpace c = true
      · simp only [h1, if_true]; exact ih r (by omega)
      · simp only [h1]
        obtain ⟨t, r1, he, _, hr⟩ := ptok_total (n + 1) (c :: r) (by simp; omega)
        have hr' := hr (by simp)
        simp only [List.length_cons] at hr'
        obtain ⟨ts, hts⟩ := ih r1 (by omega)
        rw [he]; simp only []; rw [hts]; exact ⟨_, rfl⟩

/-! ### more fuel never changes an answer -/

theorem pq_mono : ∀ (n : Nat) (d : Char) (s : Str) (x : Str × Str),
    pq n d s = .ok x → pq (n + 1) d s = .ok x := by
  intro n
  induction n with
  | zero => intro d s x h; simp [pq] at h
  | succ n ih =>
    intro d s x h
    cases s with
    | nil => simpa [pq] using h
    | cons c r =>
      rw [pq] at h ⊢
      by_cases h1 : (c == d) = true
      · simpa only [h1, if_true] using h
      · simp only [h1] at h ⊢
        by_cases h2 : (c == '\\') = true
        · simp only [h2, if_true] at h ⊢
          cases he : pq n d (esc r).2 with
          | error e => rw [he] at h; simp at h
          | ok y => rw [he] at h; rw [ih _ _ _ he]; exact h
        · simp only [h2] at h ⊢
          by_cases h3 : (c == '"') = true
          · simp only [h3, if_true] at h ⊢
            cases he : pq n '"' r with
            | error e => rw [he] at h; simp at h
            | ok y =>
              rw [he] at h; rw [ih _ _ _ he]
              obtain ⟨inner, r1⟩ := y
              simp only [] at h ⊢
              cases he2 : pq n d r1 with
              | error e => rw [he2] at h; simp at h
              | ok z => rw [he2] at h; rw [ih _ _ _ he2]; exact h
          · simp only [h3] at h ⊢
            by_cases h4 : (c == '\'') = true
            · simp only [h4, if_true] at h ⊢
              cases he : pq n '\'' r with
              | error e => rw [he] at h; simp at h
              | ok y =>
                rw [he] at h; rw [ih _ _ _ he]
                obtain ⟨inner, r1⟩ := y
                simp only [] at h ⊢
                cases he2 : pq n d r1 with
                | error e => rw [he2] at h; simp at h
                | ok z => rw [he2] at h; rw [ih _ _ _ he2]; exact h
            · simp only [h4] at h ⊢
              cases he : pq n d r with
              | error e => rw [he] at h; simp at h
              | ok y => rw [he] at h; rw [ih _ _ _ he]; exact h

theorem ptok_mono : ∀ (n : Nat) (s : Str) (x : Str × Str),
    ptok n s = .ok x → ptok (n + 1) s = .ok x := by
  intro n
  induction n with
  | zero => intro s x h; simp [ptok] at h
  | succ n ih =>
    intro s x h
    cases s with
    | nil => simpa [ptok] using h
    | cons c r =>
      rw [ptok] at h ⊢
      by_cases h1 : isSpace c = true
      · simpa only [h1, if_true] using h
      · simp only [h1] at h ⊢
        by_cases h2 : (c == '\\') = true
        · simp only [h2, if_true] at h ⊢
          cases he : ptok n (esc r).2 with
          | error e => rw [he] at h; simp at h
          | ok y => rw [he] at h; rw [ih _ _ he]; exact h
        · simp only [h2] at h ⊢
          by_cases h3 : isQ c = true
          · simp only [h3, if_true] at h ⊢
            cases he : pq n c r with
            | error e => rw [he] at h; simp at h
            | ok y =>
              rw [he] at h; rw [pq_mono _ _ _ _ he]
              obtain ⟨q, r1⟩ := y
              simp only [] at h ⊢
              cases he2 : ptok n r1 with
              | error e => rw [he2] at h; simp at h
              | ok z => rw [he2] at h; rw [ih _ _ he2]; exact h
          · simp only [h3] at h ⊢
            cases he : ptok n r with
            | error e => rw [he] at h; simp at h
            | ok y => rw [he] at h; rw [ih _ _ he]; exact h

theorem toks_mono : ∀ (n : Nat) (s : Str) (x : List Str),
    toks n s = .ok x → toks (n + 1) s = .ok x := by
  intro n
  induction n with
  | zero => intro s x h; simp [toks] at h
  | succ n ih =>
    intro s x h
    cases s with
    | nil => simpa [toks] using h
    | cons c r =>
      rw [toks] at h ⊢
      by_cases h1 : isSpace c = true
      · simp only [h1, if_true] at h ⊢; exact ih _ _ h
      · simp only [h1] at h ⊢
        cases he : ptok (n + 1) (c :: r) with
        | error e => rw [he] at h; simp at h
        | ok y =>
          rw [he] at h; rw [ptok_mono _ _ _ he]
          obtain ⟨t, r1⟩ := y
          simp only [] at h ⊢
          cases he2 : toks n r1 with
          | error e => rw [he2] at h; simp at h
          | ok z => rw [he2] at h; rw [ih _ _ he2]; exact h

theorem pq_mono_le {n m : Nat} {d : Char} {s : Str} {x : Str × Str} (h : pq n d s = .ok x)
    (hm : n ≤ m) : pq m d s = .ok x := by
  induction hm with
  | refl => exact h
  | step _ ih => exact pq_mono _ _ _ _ ih

theorem ptok_mono_le {n m : Nat} {s : Str} {x : Str × Str} (h : ptok n s = .ok x)
    (hm : n ≤ m) : ptok m s = .ok x := by
  induction hm with
  | refl => exact h
  | step _ ih => exact ptok_mono _ _ _ ih

theorem toks_mono_le {n m : Nat} {s : Str} {x : List Str} (h : toks n s = .ok x)
    (hm : n ≤ m) : toks m s = .ok x := by
  induction hm with
  | refl => exact h
  | step _ ih => exact toks_mono _ _ _ ih

/-- The tokens of `s` computed with *some* amount of fuel are the tokens `tokenize` returns. -/
theorem tokenize_of_toks {n : Nat} {s : Str} {ts : List Str} (h : toks n s = .ok ts) :
    tokenize s = .ok ts := by
  obtain ⟨ts', h'⟩ := toks_total (s.length + 1) s (Nat.le_refl _)
  have a := toks_mono_le h (Nat.le_max_left n (s.length + 1))
  have b := toks_mono_le h' (Nat.le_max_right n (s.length + 1))
  rw [a] at b
  unfold tokenize
  rw [h']; exact b.symm ▸ rfl

/-! ### one quoted string reads back as the token it spells -/

theorem isQ_iff {c : Char} : isQ c = true ↔ (c = '\'' ∨ c = '"') := by
  simp [isQ]

theorem isQ_ne_bs {c : Char} (h : isQ c = true) : (c == '\\') = false := by
  rcases isQ_iff.1 h with h | h <;> subst h <;> decide

theorem not_isQ {c : Char} (h : isQ c = false) : (c == '\'') = false ∧ (c == '"') = false := by
  simp [isQ] at h; simp [h]

theorem pq_escq (q : Char) (hq : isQ q = true) (t : Str) :
    ∀ (n : Nat) (rest : Str), expressible t = true → (escq t).length + 1 ≤ n →
      pq n q (escq t ++ q :: rest) = .ok (t, rest) := by
  have hqb : ('\\' == q) = false := by
    rcases isQ_iff.1 hq with h | h <;> subst h <;> decide
  induction t using expressible.induct with
  | case1 =>
    intro n rest _ hn
    cases n with
    | zero => simp at hn
    | succ n => simp [escq, pq]
  | case2 c hc =>
    intro n rest he _
    simp [expressible, hc] at he
  | case3 c hc d r' ih =>
    intro n rest he hn
    have hc' : c = '\\' := by simpa using hc
    subst hc'
    simp only [expressible, beq_self_eq_true, if_true, Bool.and_eq_true, Bool.not_eq_true'] at he
    obtain ⟨hd, hr⟩ := he
    have e1 : escq ('\\' :: d :: r') = '\\' :: d :: escq r' := by
      have hb : isQ '\\' = false := by decide
      simp [escq, hd, hb]
    rw [e1] at hn ⊢
    cases n with
    | zero => simp at hn
    | succ n =>
      simp only [List.length_cons] at hn
      simp only [List.cons_append, pq, hqb, esc, hd, beq_self_eq_true, if_true, Bool.false_eq_true, if_false]
      rw [ih n rest hr (by omega)]
      simp
  | case4 c r hc ih =>
    intro n rest he hn
    unfold expressible at he
    simp only [hc] at he
    cases n with
    | zero => simp at hn
    | succ n =>
      cases hcq : isQ c with
      | true =>
        have e1 : escq (c :: r) = '\\' :: c :: escq r := by simp [escq, hcq]
        rw [e1] at hn ⊢
        simp only [List.length_cons] at hn
        simp only [List.cons_append, pq, hqb, esc, hcq, beq_self_eq_true, if_true, Bool.false_eq_true, if_false]
        rw [ih n rest he (by omega)]
        simp
      | false =>
        have e1 : escq (c :: r) = c :: escq r := by simp [escq, hcq]
        rw [e1] at hn ⊢
        simp only [List.length_cons] at hn
        obtain ⟨hs, hd⟩ := not_isQ hcq
        have hcq' : (c == q) = false := by
          rcases isQ_iff.1 hq with h | h <;> subst h <;> assumption
        simp only [List.cons_append, pq, hcq', hc, hs, hd, Bool.false_eq_true, if_false]
        rw [ih n rest he (by omega)]
/-! ### where a token ends -/

/-- what may follow a token: nothing, or text starting with the whitespace that ends it -/
def Boundary (rest : Str) : Prop := rest = [] ∨ ∃ c r, rest = c :: r ∧ isSpace c = true

theorem isSpace_special : isSpace '\'' = false ∧ isSpace '"' = false ∧ isSpace '\\' = false := by
  decide

theorem isQ_not_space {q : Char} (hq : isQ q = true) : isSpace q = false := by
  rcases isQ_iff.1 hq with h | h <;> subst h <;> simp [isSpace_special]

theorem boundary_of_space_prefix {ws s : Str} (hws : ws.all isSpace = true)
    (h : ws ≠ [] ∨ s = []) : Boundary (ws ++ s) := by
  cases ws with
  | nil =>
    rcases h with h | h
    · exact absurd rfl h
    · subst h; exact Or.inl rfl
  | cons c r =>
    simp only [List.all_cons, Bool.and_eq_true] at hws
    exact Or.inr ⟨c, r ++ s, rfl, hws.1⟩

theorem ptok_boundary {rest : Str} (hb : Boundary rest) (n : Nat) :
    ptok (n + 1) rest = .ok ([], rest.tail) := by
  rcases hb with h | ⟨c, r, h, hc⟩
  · subst h; simp [ptok]
  · subst h; simp [ptok, hc]

theorem ptok_quoted {q : Char} (hq : isQ q = true) {t : Str} (ht : expressible t = true)
    {rest : Str} (hb : Boundary rest) :
    ptok ((escq t).length + 3) (q :: (escq t ++ q :: rest)) = .ok (t, rest.tail) := by
  have h1 := isQ_not_space hq
  have h2 := isQ_ne_bs hq
  have h3 := pq_escq q hq t ((escq t).length + 2) rest ht (by omega)
  have h4 := ptok_boundary hb ((escq t).length + 1)
  simp only [ptok, h1, h2, hq, h3, h4, Bool.false_eq_true, if_false, if_true, List.append_nil]

theorem ptok_plain : ∀ (t : Str) {rest : Str}, t.all plain = true → Boundary rest →
    ptok (t.length + 1) (t ++ rest) = .ok (t, rest.tail) := by
  intro t
  induction t with
  | nil => intro rest _ hb; simpa using ptok_boundary hb 0
  | cons c t ih =>
    intro rest ht hb
    simp only [List.all_cons, Bool.and_eq_true] at ht
    obtain ⟨hc, ht⟩ := ht
    simp only [plain, Bool.and_eq_true, Bool.not_eq_true'] at hc
    obtain ⟨⟨h1, h2⟩, h3⟩ := hc
    simp only [List.cons_append, List.length_cons, ptok, h1, h2, h3, ih ht hb,
      Bool.false_eq_true, if_false]

theorem ptok_render {p : Piece} (hp : p.style.admits p.tok = true) {rest : Str}
    (hb : Boundary rest) :
    ∃ n, ptok n (p.style.render p.tok ++ rest) = .ok (p.tok, rest.tail) := by
  cases hs : p.style with
  | single =>
    rw [hs] at hp
    refine ⟨(escq p.tok).length + 3, ?_⟩
    simp only [Style.render, List.cons_append, List.append_assoc, List.nil_append]
    exact ptok_quoted (q := '\'') (by decide) hp hb
  | double =>
    rw [hs] at hp
    refine ⟨(escq p.tok).length + 3, ?_⟩
    simp only [Style.render, List.cons_append, List.append_assoc, List.nil_append]
    exact ptok_quoted (q := '"') (by decide) hp hb
  | bare =>
    rw [hs] at hp
    simp only [Style.admits, Bool.and_eq_true] at hp
    exact ⟨_, ptok_plain p.tok hp.2 hb⟩

theorem render_head {p : Piece} (hp : p.style.admits p.tok = true) (rest : Str) :
    ∃ c r, p.style.render p.tok ++ rest = c :: r ∧ isSpace c = false := by
  cases hs : p.style with
  | single => exact ⟨'\'', _, rfl, isSpace_special.1⟩
  | double => exact ⟨'"', _, rfl, isSpace_special.2.1⟩
  | bare =>
    rw [hs] at hp
    simp only [Style.admits, Bool.and_eq_true] at hp
    cases ht : p.tok with
    | nil => rw [ht] at hp; simp at hp
    | cons c t =>
      rw [ht] at hp
      simp only [List.all_cons, Bool.and_eq_true, plain, Bool.not_eq_true'] at hp
      exact ⟨c, t ++ rest, rfl, hp.2.1.1.1⟩

/-! ### the token loop -/

theorem toks_skip : ∀ (ws : Str) {s : Str} {n : Nat} {ts : List Str}, ws.all isSpace = true →
    toks n s = .ok ts → toks (n + ws.length) (ws ++ s) = .ok ts := by
  intro ws
  induction ws with
  | nil => intro s n ts _ h; simpa using h
  | cons c ws ih =>
    intro s n ts hws h
    simp only [List.all_cons, Bool.and_eq_true] at hws
    have := ih hws.2 h
    simp only [List.length_cons, List.cons_append, ← Nat.add_assoc, toks, hws.1, if_true]
    exact this

theorem toks_cons {c : Char} {r t r1 : Str} {ts : List Str} {n m : Nat}
    (hc : isSpace c = false) (h1 : ptok n (c :: r) = .ok (t, r1)) (h2 : toks m r1 = .ok ts) :
    ∃ k, toks k (c :: r) = .ok (t :: ts) := by
  refine ⟨max n m + 1, ?_⟩
  have a := ptok_mono_le h1 (Nat.le_trans (Nat.le_max_left n m) (Nat.le_succ _))
  have b := toks_mono_le h2 (Nat.le_max_right n m)
  simp only [toks, hc, a, b, Bool.false_eq_true, if_false]

theorem toks_tail {rest : Str} (hb : Boundary rest) {n : Nat} {ts : List Str}
    (h : toks n rest = .ok ts) : ∃ m, toks m rest.tail = .ok ts := by
  rcases hb with hr | ⟨c, r, hr, hc⟩
  · subst hr; exact ⟨n, h⟩
  · subst hr
    cases n with
    | zero => simp [toks] at h
    | succ n => exact ⟨n, by simpa [toks, hc] using h⟩

theorem toks_render : ∀ (ps : List Piece) (first : Bool) (trail : Str),
    wfPieces first ps = true → trail.all isSpace = true →
    ∃ n, toks n (render ps ++ trail) = .ok (ps.map (·.tok)) := by
  intro ps
  induction ps with
  | nil =>
    intro first trail _ ht
    refine ⟨1 + trail.length, ?_⟩
    have := toks_skip trail (s := []) (n := 1) (ts := []) ht (by simp [toks])
    simpa [render] using this
  | cons p ps ih =>
    intro first trail hwf ht
    simp only [wfPieces, Bool.and_eq_true] at hwf
    obtain ⟨⟨⟨hsep, _⟩, hadm⟩, hrest⟩ := hwf
    obtain ⟨m, hm⟩ := ih false trail hrest ht
    have hb : Boundary (render ps ++ trail) := by
      cases ps with
      | nil => simpa [render] using boundary_of_space_prefix (s := []) ht (Or.inr rfl)
      | cons p' ps' =>
        simp only [wfPieces, Bool.and_eq_true, Bool.false_or, Bool.not_eq_true',
          List.isEmpty_eq_false_iff] at hrest
        have := boundary_of_space_prefix (ws := p'.sep)
          (s := p'.style.render p'.tok ++ render ps' ++ trail) hrest.1.1.1 (Or.inl hrest.1.1.2)
        simpa [render, List.append_assoc] using this
    obtain ⟨m', hm'⟩ := toks_tail hb hm
    obtain ⟨n, hn⟩ := ptok_render hadm hb
    obtain ⟨c, r, hcr, hc⟩ := render_head hadm (render ps ++ trail)
    rw [hcr] at hn
    obtain ⟨k, hk⟩ := toks_cons hc hn hm'
    refine ⟨k + p.sep.length, ?_⟩
    have := toks_skip p.sep hsep hk
    rw [← hcr] at this
    simpa [render, List.append_assoc] using this

/-! ### text without quotes and backslashes -/

theorem dropWhile_boundary (r : Str) : Boundary (r.dropWhile (fun x => !isSpace x)) := by
  induction r with
  | nil => exact Or.inl rfl
  | cons c r ih =>
    cases hc : isSpace c with
    | true => simp only [List.dropWhile_cons, hc]; exact Or.inr ⟨c, r, by simp, hc⟩
    | false => simpa [List.dropWhile_cons, hc] using ih

theorem runs_tail {rest : Str} (hb : Boundary rest) : runs rest.tail = runs rest := by
  rcases hb with h | ⟨c, r, h, hc⟩
  · subst h; rfl
  · subst h
    simp only [List.tail_cons]
    conv => rhs; rw [runs.eq_def]
    simp [hc]

theorem takeWhile_plain (r : Str) (h : unquoted r = true) :
    (r.takeWhile (fun x => !isSpace x)).all plain = true := by
  induction r with
  | nil => rfl
  | cons c r ih =>
    simp only [unquoted, List.all_cons, Bool.and_eq_true] at h
    cases hc : isSpace c with
    | true => simp [hc]
    | false =>
      simp only [List.takeWhile_cons, hc, Bool.not_false, if_true, List.all_cons, Bool.and_eq_true]
      refine ⟨?_, ih (by simpa [unquoted] using h.2)⟩
      simp only [plain, hc, Bool.not_false, Bool.true_and, Bool.and_eq_true]
      exact h.1

theorem unquoted_suffix {s t : Str} (h : unquoted s = true) (hs : t <:+ s) : unquoted t = true := by
  simp only [unquoted, List.all_eq_true] at h ⊢
  intro c hc
  exact h c (hs.subset hc)

theorem toks_runs : ∀ (n : Nat) (s : Str), unquoted s = true → s.length + 1 ≤ n →
    toks n s = .ok (runs s) := by
  intro n
  induction n with
  | zero => intro s _ h; omega
  | succ n ih =>
    intro s hu hn
    cases s with
    | nil => simp [toks, runs]
    | cons c r =>
      simp only [List.length_cons] at hn
      have hur : unquoted r = true := unquoted_suffix hu (List.suffix_cons c r)
      cases hc : isSpace c with
      | true =>
        rw [runs.eq_def]
        simp only [toks, hc, if_true]
        exact ih r hur (by omega)
      | false =>
        rw [runs.eq_def]
        simp only [toks, hc, Bool.false_eq_true, if_false]
        have hb := dropWhile_boundary r
        have hpl : (c :: r.takeWhile (fun x => !isSpace x)).all plain = true := by
          simp only [List.all_cons, Bool.and_eq_true]
          refine ⟨?_, takeWhile_plain r hur⟩
          simp only [unquoted, List.all_cons, Bool.and_eq_true] at hu
          simp only [plain, hc, Bool.not_false, Bool.true_and, Bool.and_eq_true]
          exact hu.1
        have h1 := ptok_plain _ hpl hb
        have hsplit : (c :: r.takeWhile (fun x => !isSpace x)) ++ r.dropWhile (fun x => !isSpace x) = c :: r := by
          simp [List.takeWhile_append_dropWhile]
        rw [hsplit] at h1
        have hlen : (r.takeWhile (fun x => !isSpace x)).length ≤ r.length :=
          (List.takeWhile_prefix (l := r) _).length_le
        have h2 := ptok_mono_le h1 (m := n + 1) (by simp only [List.length_cons]; omega)
        rw [h2]
        have hsuf : (r.dropWhile (fun x => !isSpace x)).tail <:+ r :=
          List.IsSuffix.trans (List.tail_suffix _) (List.dropWhile_suffix _)
        have h3 := ih _ (unquoted_suffix hur hsuf) (by have := hsuf.length_le; omega)
        simp only [h3, runs_tail hb]

/-! ### the cursor state and the remaining text -/

theorem Cursor.init_wf (s : Str) : (Cursor.init s).WF := by
  constructor
  · simp only [Cursor.init]; split
    · rfl
    · rename_i h; simp at h; simp [h]
  · simp only [Cursor.init]; split
    · rfl
    · rename_i h; symm; simp only [Nat.zero_add, List.getElem?_eq_none_iff]; omega

theorem Cursor.init_rest (s : Str) : (Cursor.init s).rest = s := by
  simp [Cursor.init, Cursor.rest]

/-- `_current` is the head of the remaining text, `_next_` its second character -/
theorem Cursor.current_eq {c : Cursor} (h : c.WF) :
    c.current = c.rest.head? ∧ c.next_ = (c.rest.drop 1).head? := by
  obtain ⟨h1, h2⟩ := h
  simp only [Cursor.rest, h1, h2, List.drop_drop, List.head?_drop]
  simp

theorem Cursor.next_wf {c : Cursor} (h : c.WF) : c.next.WF := by
  obtain ⟨h1, h2⟩ := h
  unfold Cursor.next
  split
  · exact ⟨h1, h2⟩
  · refine ⟨h2, ?_⟩
    simp only
    split
    · rfl
    · rename_i hlt; symm; simp only [List.getElem?_eq_none_iff]; omega

/-- `_next()` drops one character of the remaining text (nothing at the end) -/
theorem Cursor.rest_next {c : Cursor} (h : c.WF) : c.next.rest = c.rest.drop 1 := by
  obtain ⟨h1, h2⟩ := h
  unfold Cursor.next
  split
  · rename_i hv
    simp only [Cursor.isValid, h1, Bool.not_eq_true', Option.isSome_eq_false_iff, Option.isNone_iff_eq_none,
      List.getElem?_eq_none_iff] at hv
    simp only [Cursor.rest, List.drop_drop]
    rw [List.drop_eq_nil_of_le hv, List.drop_eq_nil_of_le (by omega)]
  · simp [Cursor.rest, List.drop_drop]

/-- `_is_valid()` says that text remains -/
theorem Cursor.isValid_iff {c : Cursor} (h : c.WF) : c.isValid = !c.rest.isEmpty := by
  obtain ⟨h1, _⟩ := h
  simp only [Cursor.isValid, h1, Cursor.rest]
  cases hd : List.drop c.cursor c.string with
  | nil =>
    have : c.string.length ≤ c.cursor := by simpa using hd
    simp [List.getElem?_eq_none_iff.2 this]
  | cons a l =>
    have : c.cursor < c.string.length := by
      false_or_by_contra
      rename_i hh
      rw [List.drop_eq_nil_of_le (by omega)] at hd
      cases hd
    simp [List.getElem?_eq_getElem this]

/-- `_parse_escape_sequence()` on the object state is `esc` on the text after the backslash -/
theorem Cursor.escape_eq {c : Cursor} (h : c.WF) :
    c.escape.1 = (esc (c.rest.drop 1)).1 ∧ c.escape.2.rest = (esc (c.rest.drop 1)).2 ∧
    c.escape.2.WF := by
  have hn := (Cursor.current_eq h).2
  have hr : c.escape.2.rest = (c.rest.drop 1).drop 1 := by
    simp only [Cursor.escape]
    rw [Cursor.rest_next (Cursor.next_wf h), Cursor.rest_next h]
  refine ⟨?_, ?_, Cursor.next_wf (Cursor.next_wf h)⟩
  · simp only [Cursor.escape, hn]
    cases hd : List.drop 1 c.rest with
    | nil => simp [esc]
    | cons d r => simp only [List.head?_cons, esc]; split <;> rfl
  · rw [hr]
    cases hd : List.drop 1 c.rest with
    | nil => simp [esc]
    | cons d r => simp only [esc]; split <;> simp

/-! ### the object-level scanner and the remaining-text scanner agree -/

/-- result of an object-level function seen on the remaining text -/
def onRest : Except Err (Str × Cursor) → Except Err (Str × Str)
  | .error e => .error e
  | .ok (t, c) => .ok (t, c.rest)

def okWF : Except Err (Str × Cursor) → Prop
  | .error _ => True
  | .ok (_, c) => c.WF

theorem rest_cases {c : Cursor} (h : c.WF) :
    (c.current = none ∧ c.rest = []) ∨
    (∃ x r, c.current = some x ∧ c.rest = x :: r ∧ c.next.rest = r) := by
  have h1 := (Cursor.current_eq h).1
  have h2 := Cursor.rest_next h
  cases hr : c.rest with
  | nil => left; rw [hr] at h1; exact ⟨by simpa using h1, rfl⟩
  | cons x r => right; rw [hr] at h1 h2; exact ⟨x, r, by simpa using h1, rfl, by simpa using h2⟩

theorem pqC_sim : ∀ (n : Nat) (d : Char) (c : Cursor), c.WF →
    onRest (pqC n d c) = pq n d c.rest ∧ okWF (pqC n d c) := by
  intro n
  induction n with
  | zero => intro d c _; simp [pqC, pq, onRest, okWF]
  | succ n ih =>
    intro d c h
    rcases rest_cases h with ⟨hc, hr⟩ | ⟨x, r, hc, hr, hn⟩
    · simp [pqC, hc, hr, pq, onRest, okWF, h]
    · have hnw := Cursor.next_wf h
      have ⟨he1, he2, he3⟩ := Cursor.escape_eq h
      rw [hr] at he1 he2
      simp only [List.drop_succ_cons, List.drop_zero] at he1 he2
      simp only [pqC, hc, hr, pq]
      by_cases h1 : (x == d) = true
      · simp only [h1, if_true, onRest, okWF, hn]; exact ⟨trivial, hnw⟩
      · simp only [h1, Bool.false_eq_true, if_false]
        by_cases h2 : (x == '\\') = true
        · simp only [h2, if_true]
          have ⟨i1, i2⟩ := ih d c.escape.2 he3
          rw [he2] at i1
          cases hp : pqC n d c.escape.2 with
          | error e => rw [hp] at i1; simp only [onRest] at i1; rw [← i1]; simp [onRest, okWF]
          | ok y =>
            rw [hp] at i1 i2; simp only [onRest] at i1; rw [← i1]
            simp only [onRest, okWF, he1] at i2 ⊢; exact ⟨trivial, i2⟩
        · simp only [h2, Bool.false_eq_true, if_false]
          by_cases h3 : (x == '"') = true
          · simp only [h3, if_true]
            have ⟨i1, i2⟩ := ih '"' c.next hnw
            rw [hn] at i1
            cases hp : pqC n '"' c.next with
            | error e => rw [hp] at i1; simp only [onRest] at i1; rw [← i1]; simp [onRest, okWF]
            | ok y =>
              obtain ⟨inner, c1⟩ := y
              rw [hp] at i1 i2; simp only [onRest] at i1; rw [← i1]
              simp only [okWF] at i2
              have ⟨j1, j2⟩ := ih d c1 i2
              simp only []
              cases hp2 : pqC n d c1 with
              | error e => rw [hp2] at j1; simp only [onRest] at j1; rw [← j1]; simp [onRest, okWF]
              | ok z =>
                rw [hp2] at j1 j2; simp only [onRest] at j1; rw [← j1]
                simp only [onRest, okWF] at j2 ⊢; exact ⟨trivial, j2⟩
          · simp only [h3, Bool.false_eq_true, if_false]
            by_cases h4 : (x == '\'') = true
            · simp only [h4, if_true]
              have ⟨i1, i2⟩ := ih '\'' c.next hnw
              rw [hn] at i1
              cases hp : pqC n '\'' c.next with
              | error e => rw [hp] at i1; simp only [onRest] at i1; rw [← i1]; simp [onRest, okWF]
              | ok y =>
                obtain ⟨inner, c1⟩ := y
                rw [hp] at i1 i2; simp only [onRest] at i1; rw [← i1]
                simp only [okWF] at i2
                have ⟨j1, j2⟩ := ih d c1 i2
                simp only []
                cases hp2 : pqC n d c1 with
                | error e => rw [hp2] at j1; simp only [onRest] at j1; rw [← j1]; simp [onRest, okWF]
                | ok z =>
                  rw [hp2] at j1 j2; simp only [onRest] at j1; rw [← j1]
                  simp only [onRest, okWF] at j2 ⊢; exact ⟨trivial, j2⟩
            · simp only [h4, Bool.false_eq_true, if_false]
              have ⟨i1, i2⟩ := ih d c.next hnw
              rw [hn] at i1
              cases hp : pqC n d c.next with
              | error e => rw [hp] at i1; simp only [onRest] at i1; rw [← i1]; simp [onRest, okWF]
              | ok y =>
                rw [hp] at i1 i2; simp only [onRest] at i1; rw [← i1]
                simp only [onRest, okWF] at i2 ⊢; exact ⟨trivial, i2⟩

theorem ptokC_sim : ∀ (n : Nat) (c : Cursor), c.WF →
    onRest (ptokC n c) = ptok n c.rest ∧ okWF (ptokC n c) := by
  intro n
  induction n with
  | zero => intro c _; simp [ptokC, ptok, onRest, okWF]
  | succ n ih =>
    intro c h
    rcases rest_cases h with ⟨hc, hr⟩ | ⟨x, r, hc, hr, hn⟩
    · simp [ptokC, hc, hr, ptok, onRest, okWF, h]
    · have hnw := Cursor.next_wf h
      have ⟨he1, he2, he3⟩ := Cursor.escape_eq h
      rw [hr] at he1 he2
      simp only [List.drop_succ_cons, List.drop_zero] at he1 he2
      simp only [ptokC, hc, hr, ptok]
      by_cases h1 : isSpace x = true
      · simp only [h1, if_true, onRest, okWF, hn]; exact ⟨trivial, hnw⟩
      · simp only [h1, Bool.false_eq_true, if_false]
        by_cases h2 : (x == '\\') = true
        · simp only [h2, if_true]
          have ⟨i1, i2⟩ := ih c.escape.2 he3
          rw [he2] at i1
          cases hp : ptokC n c.escape.2 with
          | error e => rw [hp] at i1; simp only [onRest] at i1; rw [← i1]; simp [onRest, okWF]
          | ok y =>
            rw [hp] at i1 i2; simp only [onRest] at i1; rw [← i1]
            simp only [onRest, okWF, he1] at i2 ⊢; exact ⟨trivial, i2⟩
        · simp only [h2, Bool.false_eq_true, if_false]
          by_cases h3 : isQ x = true
          · simp only [h3, if_true]
            have ⟨i1, i2⟩ := pqC_sim n x c.next hnw
            rw [hn] at i1
            cases hp : pqC n x c.next with
            | error e => rw [hp] at i1; simp only [onRest] at i1; rw [← i1]; simp [onRest, okWF]
            | ok y =>
              obtain ⟨q, c1⟩ := y
              rw [hp] at i1 i2; simp only [onRest] at i1; rw [← i1]
              simp only [okWF] at i2
              have ⟨j1, j2⟩ := ih c1 i2
              simp only []
              cases hp2 : ptokC n c1 with
              | error e => rw [hp2] at j1; simp only [onRest] at j1; rw [← j1]; simp [onRest, okWF]
              | ok z =>
                rw [hp2] at j1 j2; simp only [onRest] at j1; rw [← j1]
                simp only [onRest, okWF] at j2 ⊢; exact ⟨trivial, j2⟩
          · simp only [h3, Bool.false_eq_true, if_false]
            have ⟨i1, i2⟩ := ih c.next hnw
            rw [hn] at i1
            cases hp : ptokC n c.next with
            | error e => rw [hp] at i1; simp only [onRest] at i1; rw [← i1]; simp [onRest, okWF]
            | ok y =>
              rw [hp] at i1 i2; simp only [onRest] at i1; rw [← i1]
              simp only [onRest, okWF] at i2 ⊢; exact ⟨trivial, i2⟩

theorem toksC_sim : ∀ (n : Nat) (c : Cursor), c.WF → toksC n c = toks n c.rest := by
  intro n
  induction n with
  | zero => intro c _; simp [toksC, toks]
  | succ n ih =>
    intro c h
    rcases rest_cases h with ⟨hc, hr⟩ | ⟨x, r, hc, hr, hn⟩
    · simp [toksC, hc, hr, toks]
    · have hnw := Cursor.next_wf h
      have ⟨i1, i2⟩ := ptokC_sim (n + 1) c h
      rw [hr] at i1
      simp only [toksC, hc, hr, toks]
      by_cases h1 : isSpace x = true
      · simp only [h1, if_true]; rw [ih c.next hnw, hn]
      · simp only [h1, Bool.false_eq_true, if_false]
        cases hp : ptokC (n + 1) c with
        | error e => rw [hp] at i1; simp only [onRest] at i1; rw [← i1]
        | ok y =>
          obtain ⟨t, c1⟩ := y
          rw [hp] at i1 i2; simp only [onRest] at i1; rw [← i1]
          simp only [okWF] at i2
          simp only []
          rw [ih c1 i2]

theorem tokenizeC_eq (s : Str) : tokenizeC s = tokenize s := by
  unfold tokenizeC tokenize
  rw [toksC_sim _ _ (Cursor.init_wf s), Cursor.init_rest]


theorem stringArgs_eq (s : Str) : stringArgs s =
    match tokenize s with
    | .error e => .error e
    | .ok ts => .ok { scriptName := none, tokens := ts, optionTokens := optionTokens ts } := by
  simp only [stringArgs, tokenizeC_eq]
  rfl

/-! ### `expressible` is exact: an inexpressible token never reads back -/

theorem pq_escq_not_prefix (q : Char) (hq : isQ q = true) (t : Str) :
    ∀ (n : Nat) (rest x r : Str), expressible t = false →
      pq n q (escq t ++ q :: rest) = .ok (x, r) → ¬ x <+: t := by
  have hqb : ('\\' == q) = false := by
    rcases isQ_iff.1 hq with h | h <;> subst h <;> decide
  have hqb' : q ≠ '\\' := by
    rcases isQ_iff.1 hq with h | h <;> subst h <;> decide
  have hbq : isQ '\\' = false := by decide
  induction t using expressible.induct with
  | case1 => intro n rest x r he; simp [expressible] at he
  | case2 c hc =>
    intro n rest x r _ h
    have hc' : c = '\\' := by simpa using hc
    subst hc'
    cases n with
    | zero => simp [pq] at h
    | succ n =>
      simp only [escq, hbq, List.cons_append, List.nil_append, pq, hqb, esc, hq, beq_self_eq_true,
        if_true, Bool.false_eq_true, if_false] at h
      cases h2 : pq n q rest with
      | error e => rw [h2] at h; simp at h
      | ok y =>
        rw [h2] at h
        simp only [Except.ok.injEq, Prod.mk.injEq] at h
        rw [← h.1]
        simp only [List.nil_append, List.cons_prefix_cons]
        exact fun hp => hqb' hp.1
  | case3 c hc d r' ih =>
    intro n rest x r he h
    have hc' : c = '\\' := by simpa using hc
    subst hc'
    simp only [expressible, beq_self_eq_true, if_true, Bool.and_eq_false_iff, Bool.not_eq_false'] at he
    cases n with
    | zero => simp [pq] at h
    | succ n =>
      cases hd : isQ d with
      | true =>
        simp only [escq, hbq, hd, List.cons_append, pq, hqb, esc, beq_self_eq_true,
          if_true, Bool.false_eq_true, if_false] at h
        cases h2 : pq n q (d :: (escq r' ++ q :: rest)) with
        | error e => rw [h2] at h; simp at h
        | ok y =>
          rw [h2] at h
          simp only [Except.ok.injEq, Prod.mk.injEq] at h
          rw [← h.1]
          simp only [List.nil_append, List.cons_prefix_cons]
          intro hp
          have : isQ d = false := by rw [← hp.2.1]; exact hbq
          simp [this] at hd
      | false =>
        have her : expressible r' = false := by
          rcases he with he | he
          · simp [hd] at he
          · exact he
        simp only [escq, hbq, hd, List.cons_append, pq, hqb, esc, beq_self_eq_true,
          if_true, Bool.false_eq_true, if_false] at h
        cases h2 : pq n q (escq r' ++ q :: rest) with
        | error e => rw [h2] at h; simp at h
        | ok y =>
          rw [h2] at h
          simp only [Except.ok.injEq, Prod.mk.injEq] at h
          rw [← h.1]
          simp only [List.nil_append, List.cons_prefix_cons]
          intro hp
          exact ih n rest y.1 y.2 her h2 hp.2.2
  | case4 c r hc ih =>
    intro n rest x r2 he h
    unfold expressible at he
    simp only [hc] at he
    cases n with
    | zero => simp [pq] at h
    | succ n =>
      cases hcq : isQ c with
      | true =>
        simp only [escq, hcq, List.cons_append, pq, hqb, esc, beq_self_eq_true,
          if_true, Bool.false_eq_true, if_false] at h
        cases h2 : pq n q (escq r ++ q :: rest) with
        | error e => rw [h2] at h; simp at h
        | ok y =>
          rw [h2] at h
          simp only [Except.ok.injEq, Prod.mk.injEq] at h
          rw [← h.1]
          simp only [List.nil_append, List.cons_prefix_cons]
          intro hp
          exact ih n rest y.1 y.2 he h2 hp.2
      | false =>
        obtain ⟨hs, hd⟩ := not_isQ hcq
        have hcq' : (c == q) = false := by
          rcases isQ_iff.1 hq with h | h <;> subst h <;> assumption
        simp only [escq, hcq, List.cons_append, pq, hcq', hc, hs, hd, Bool.false_eq_true, if_false] at h
        cases h2 : pq n q (escq r ++ q :: rest) with
        | error e => rw [h2] at h; simp at h
        | ok y =>
          rw [h2] at h
          simp only [Except.ok.injEq, Prod.mk.injEq] at h
          rw [← h.1]
          simp only [List.cons_prefix_cons]
          intro hp
          exact ih n rest y.1 y.2 he h2 hp.2

/-- a quoted inexpressible token never reads back as itself -/
theorem tokenize_quoted_inexpressible (q : Char) (hq : isQ q = true) (t : Str)
    (ht : expressible t = false) : tokenize (q :: (escq t ++ [q])) ≠ .ok [t] := by
  intro h
  unfold tokenize at h
  simp only [List.length_cons, toks, isQ_not_space hq, Bool.false_eq_true, if_false] at h
  cases h1 : ptok ((escq t ++ [q]).length + 1 + 1) (q :: (escq t ++ [q])) with
  | error e => rw [h1] at h; simp at h
  | ok y =>
    rw [h1] at h
    obtain ⟨tk, r1⟩ := y
    simp only [] at h
    cases h2 : toks ((escq t ++ [q]).length + 1) r1 with
    | error e => rw [h2] at h; simp at h
    | ok ts =>
      rw [h2] at h
      simp only [Except.ok.injEq, List.cons.injEq] at h
      obtain ⟨htk, _⟩ := h
      rw [htk] at h1
      simp only [ptok, isQ_not_space hq, isQ_ne_bs hq, hq, Bool.false_eq_true, if_false, if_true] at h1
      cases h3 : pq ((escq t ++ [q]).length + 1) q (escq t ++ [q]) with
      | error e => rw [h3] at h1; simp at h1
      | ok z =>
        rw [h3] at h1
        obtain ⟨x, r⟩ := z
        simp only [] at h1
        cases h4 : ptok ((escq t ++ [q]).length + 1) r with
        | error e => rw [h4] at h1; simp at h1
        | ok w =>
          rw [h4] at h1
          simp only [Except.ok.injEq, Prod.mk.injEq] at h1
          exact pq_escq_not_prefix q hq _ _ [] x r ht h3 ⟨w.1, h1.1⟩

end Clikit.Tokenizer
