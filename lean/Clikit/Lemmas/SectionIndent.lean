import Clikit.Lemmas.Section
import Clikit.Model.SectionIndent
/-!
Lemmas for the indentation layer of C15: an indented history is simulated by the base history on the
indented lines (`flat`): same sections, same stream.
-/
namespace Clikit.Section
open Clikit.Term

theorem normLines_ne_nil (ls : List Str) : normLines ls ≠ [] := by
  cases ls <;> simp [normLines]

theorem normLines_of_ne_nil {ls : List Str} (h : ls ≠ []) : normLines ls = ls := by
  cases ls with
  | nil => exact absurd rfl h
  | cons a b => rfl

theorem normLines_map_emit (n : Nat) (ls : List Str) :
    normLines ((normLines ls).map (emitLine n)) = (normLines ls).map (emitLine n) :=
  normLines_of_ne_nil (by simpa using normLines_ne_nil ls)

theorem pad_zero (l : Str) : pad 0 l = l := by simp [pad]

theorem emitLine_zero (l : Str) : emitLine 0 l = l := by
  simp only [emitLine, pad_zero]
  split <;> rfl

theorem writeSecI_eq (w n : Nat) (a : List Sec) (s : Sec) (ls : List Str) :
    writeSecI w a s n ls = writeSec w a s ((normLines ls).map (emitLine n)) := by
  simp only [writeSecI, writeSec, normLines_map_emit]

theorem overwriteSecI_eq (w n : Nat) (a : List Sec) (s : Sec) (ls : List Str) :
    overwriteSecI w a s n ls = overwriteSec w a s ((normLines ls).map (emitLine n)) := by
  simp only [overwriteSecI, overwriteSec, writeSecI_eq]

/-- an operation at indentation `n` is the base operation on the indented lines: same sections, same
stream -/
theorem stepI_eq (ansi : Bool) (w : Nat) (secs : List Sec) (n : Nat) (o : Op) :
    stepI ansi w secs n o = step ansi w secs (padOp n o) := by
  cases o with
  | create => rfl
  | clear i => rfl
  | clearN i k => rfl
  | write i ls =>
    simp only [stepI, padOp, step]
    cases ansi
    · simp only [Bool.false_eq_true, if_false, normLines_map_emit, List.map_map]; rfl
    · simp only [if_true]
      have : (fun a s => writeSecI w a s n ls) =
          (fun a s => writeSec w a s ((normLines ls).map (emitLine n))) := by
        funext a s; exact writeSecI_eq w n a s ls
      rw [this]
  | overwrite i ls =>
    simp only [stepI, padOp, step]
    cases ansi
    · simp only [Bool.false_eq_true, if_false, normLines_map_emit, List.map_map]; rfl
    · simp only [if_true]
      have : (fun a s => overwriteSecI w a s n ls) =
          (fun a s => overwriteSec w a s ((normLines ls).map (emitLine n))) := by
        funext a s; exact overwriteSecI_eq w n a s ls
      rw [this]

/-- the whole history -/
theorem runI_sim (ansi : Bool) (w : Nat) (iops : List IOp) : ∀ (st : IState),
    (runI ansi w st iops).1.secs = (run ansi w st.secs (flat st.ind iops)).1 ∧
    (runI ansi w st iops).2 = (run ansi w st.secs (flat st.ind iops)).2 := by
  induction iops with
  | nil => intro st; exact ⟨rfl, rfl⟩
  | cons op r ih =>
    intro st
    cases op with
    | create n =>
      have h := ih { secs := { content := [], rows := 0 } :: st.secs, ind := st.ind ++ [n] }
      simp only [runI, stepIO, flat, run, step, List.nil_append]
      exact h
    | indent i n =>
      have h := ih { st with ind := setAt n i st.ind }
      simp only [runI, stepIO, flat, List.nil_append]
      exact h
    | op o =>
      have h := ih { st with secs := (stepI ansi w st.secs (indOf st.ind (target o)) o).1 }
      simp only [runI, stepIO, flat, run]
      rw [← stepI_eq]
      exact ⟨h.1, by rw [h.2]⟩

/-- a history without indentation is the base history (up to `normLines`, which `step` applies anyway) -/
theorem step_padOp_zero (ansi : Bool) (w : Nat) (secs : List Sec) (o : Op) :
    step ansi w secs (padOp 0 o) = step ansi w secs o := by
  have hm : ∀ ls : List Str, (normLines ls).map (emitLine 0) = normLines ls := by
    intro ls
    rw [List.map_congr_left (fun l _ => emitLine_zero l), List.map_id']
  have hn : ∀ ls : List Str, normLines (normLines ls) = normLines ls :=
    fun ls => normLines_of_ne_nil (normLines_ne_nil ls)
  cases o with
  | create => rfl
  | clear i => rfl
  | clearN i k => rfl
  | write i ls => simp only [padOp, step, hm, writeSec, hn]
  | overwrite i ls => simp only [padOp, step, hm, overwriteSec, writeSec, hn]

end Clikit.Section
