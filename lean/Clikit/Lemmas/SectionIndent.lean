import Clikit.Lemmas.Section
import Clikit.Model.SectionIndent
/-!
Lemmas for the indentation layer of C15: an indented history is simulated by the base history on the
padded lines (`flat`) - the states agree always, the streams whenever no empty line is written at a
positive indentation.
-/
namespace Clikit.Section
open Clikit.Term

theorem normLines_ne_nil (ls : List Str) : normLines ls ≠ [] := by
  cases ls <;> simp [normLines]

theorem normLines_of_ne_nil {ls : List Str} (h : ls ≠ []) : normLines ls = ls := by
  cases ls with
  | nil => exact absurd rfl h
  | cons a b => rfl

theorem normLines_map_pad (n : Nat) (ls : List Str) :
    normLines ((normLines ls).map (pad n)) = (normLines ls).map (pad n) :=
  normLines_of_ne_nil (by simpa using normLines_ne_nil ls)

theorem pad_zero (l : Str) : pad 0 l = l := by simp [pad]

theorem emitLine_eq_pad {n : Nat} {l : Str} (h : n = 0 ∨ l.isEmpty = false) : emitLine n l = pad n l := by
  rcases h with h | h
  · subst h
    simp only [emitLine, pad_zero]
    split <;> rfl
  · simp [emitLine, h]

theorem blankSafeOp_lines {n : Nat} {o : Op} (h : blankSafeOp n o = true) :
    ∀ l ∈ opLines o, n = 0 ∨ l.isEmpty = false := by
  intro l hl
  simp only [blankSafeOp, Bool.or_eq_true, beq_iff_eq, List.all_eq_true, Bool.not_eq_true'] at h
  rcases h with h | h
  · exact Or.inl h
  · exact Or.inr (h l hl)

theorem map_emit_eq_map_pad {n : Nat} {ls : List Str} (h : ∀ l ∈ ls, n = 0 ∨ l.isEmpty = false) :
    ls.map (fun l => Cmd.print (emitLine n l)) = (ls.map (pad n)).map Cmd.print := by
  rw [List.map_map]
  apply List.map_congr_left
  intro l hl
  simp [emitLine_eq_pad (h l hl)]

theorem writeSecI_eq {w n : Nat} (a : List Sec) (s : Sec) {ls : List Str}
    (h : ∀ l ∈ normLines ls, n = 0 ∨ l.isEmpty = false) :
    writeSecI w a s n ls = writeSec w a s ((normLines ls).map (pad n)) := by
  simp only [writeSecI, writeSec, normLines_map_pad, map_emit_eq_map_pad h]

theorem overwriteSecI_fst (w n : Nat) (a : List Sec) (s : Sec) (ls : List Str) :
    (overwriteSecI w a s n ls).1 = (overwriteSec w a s ((normLines ls).map (pad n))).1 := rfl

theorem overwriteSecI_eq {w n : Nat} (a : List Sec) (s : Sec) {ls : List Str}
    (h : ∀ l ∈ normLines ls, n = 0 ∨ l.isEmpty = false) :
    overwriteSecI w a s n ls = overwriteSec w a s ((normLines ls).map (pad n)) := by
  simp only [overwriteSecI, overwriteSec, writeSecI_eq _ _ h]

theorem modify_fst_congr (secs : List Sec) (i : Nat) {f g : List Sec → Sec → Sec × List Cmd}
    (h : ∀ a s, (f a s).1 = (g a s).1) : (modify secs i f).1 = (modify secs i g).1 := by
  unfold modify
  cases locate secs i with
  | none => rfl
  | some p => obtain ⟨a, s, b⟩ := p; simp only [h a s]

/-- the STATE after an operation at indentation `n` is the state of the base model after the padded
operation -/
theorem stepI_fst (ansi : Bool) (w : Nat) (secs : List Sec) (n : Nat) (o : Op) :
    (stepI ansi w secs n o).1 = (step ansi w secs (padOp n o)).1 := by
  cases o with
  | create => rfl
  | clear i => rfl
  | clearN i k => rfl
  | write i ls =>
    simp only [stepI, padOp, step]
    cases ansi
    · simp only [Bool.false_eq_true, if_false]; split <;> rfl
    · simp only [if_true]
      exact modify_fst_congr secs i (fun a s => rfl)
  | overwrite i ls =>
    simp only [stepI, padOp, step]
    cases ansi
    · simp only [Bool.false_eq_true, if_false]; split <;> rfl
    · simp only [if_true]
      exact modify_fst_congr secs i (fun a s => overwriteSecI_fst w n a s ls)

/-- ... and so is the STREAM when no empty line is written at a positive indentation -/
theorem stepI_eq (ansi : Bool) (w : Nat) (secs : List Sec) (n : Nat) (o : Op)
    (h : blankSafeOp n o = true) : stepI ansi w secs n o = step ansi w secs (padOp n o) := by
  have hl := blankSafeOp_lines h
  cases o with
  | create => rfl
  | clear i => rfl
  | clearN i k => rfl
  | write i ls =>
    have hl' : ∀ l ∈ normLines ls, n = 0 ∨ l.isEmpty = false := hl
    simp only [stepI, padOp, step]
    cases ansi
    · simp only [Bool.false_eq_true, if_false, normLines_map_pad, map_emit_eq_map_pad hl']
    · simp only [if_true]
      have : (fun a s => writeSecI w a s n ls) = (fun a s => writeSec w a s ((normLines ls).map (pad n))) := by
        funext a s; exact writeSecI_eq a s hl'
      rw [this]
  | overwrite i ls =>
    have hl' : ∀ l ∈ normLines ls, n = 0 ∨ l.isEmpty = false := hl
    simp only [stepI, padOp, step]
    cases ansi
    · simp only [Bool.false_eq_true, if_false, normLines_map_pad, map_emit_eq_map_pad hl']
    · simp only [if_true]
      have : (fun a s => overwriteSecI w a s n ls) =
          (fun a s => overwriteSec w a s ((normLines ls).map (pad n))) := by
        funext a s; exact overwriteSecI_eq a s hl'
      rw [this]

/-- the whole history: states agree, streams agree when `blankSafe` -/
theorem runI_sim (ansi : Bool) (w : Nat) (iops : List IOp) : ∀ (st : IState),
    (runI ansi w st iops).1.secs = (run ansi w st.secs (flat st.ind iops)).1 ∧
    (blankSafe st.ind iops = true → (runI ansi w st iops).2 = (run ansi w st.secs (flat st.ind iops)).2) := by
  induction iops with
  | nil => intro st; exact ⟨rfl, fun _ => rfl⟩
  | cons op r ih =>
    intro st
    cases op with
    | create n =>
      have h := ih { secs := { content := [], rows := 0 } :: st.secs, ind := st.ind ++ [n] }
      simp only [runI, stepIO, flat, run, step, blankSafe, List.nil_append]
      exact h
    | indent i n =>
      have h := ih { st with ind := setAt n i st.ind }
      simp only [runI, stepIO, flat, blankSafe, List.nil_append]
      exact h
    | op o =>
      have h := ih { st with secs := (stepI ansi w st.secs (indOf st.ind (target o)) o).1 }
      simp only [runI, stepIO, flat, run, blankSafe, Bool.and_eq_true]
      rw [← stepI_fst]
      refine ⟨h.1, ?_⟩
      intro hs
      rw [h.2 hs.2, stepI_eq ansi w st.secs _ o hs.1]

/-- a history without indentation is the base history (up to `normLines`, which `step` applies anyway) -/
theorem step_padOp_zero (ansi : Bool) (w : Nat) (secs : List Sec) (o : Op) :
    step ansi w secs (padOp 0 o) = step ansi w secs o := by
  have hm : ∀ ls : List Str, (normLines ls).map (pad 0) = normLines ls := by
    intro ls
    rw [List.map_congr_left (fun l _ => pad_zero l), List.map_id']
  have hn : ∀ ls : List Str, normLines (normLines ls) = normLines ls :=
    fun ls => normLines_of_ne_nil (normLines_ne_nil ls)
  cases o with
  | create => rfl
  | clear i => rfl
  | clearN i k => rfl
  | write i ls => simp only [padOp, step, hm, writeSec, hn]
  | overwrite i ls => simp only [padOp, step, hm, overwriteSec, writeSec, hn]

end Clikit.Section
