import Clikit.Model.AppState
import Clikit.Props.C05
import Clikit.Lemmas.Dict
import Clikit.Lemmas.App
/-!
# The stateful application model against the pure one (helper lemmas of `Props/C17`)

Two facts are carried through every function of `Model/AppState.lean` together:
* the leniency settings (and the parser wiring) after the call are those before it (`SameLen`) - for
  the parses because they only write scratch states, for the help resolver's toggle by the protocol
  read from the source;
* when every setting is the configured one (`Restored`) the answer is the answer of the pure function -
  the scratch part by C05 (`Props.C05.parseFrom_result`: a re-used parser object answers what a fresh
  one answers, whatever it holds).
-/
namespace Clikit.AppState
open Clikit Clikit.Parser Clikit.Resolver Clikit.Switches Clikit.Help Clikit.App

/-! ## The protocol -/

/-- the protocol of the source is the one `Model/History.lean` states -/
theorem helpCreateP_source_eq : helpCreateP Proto.source = History.helpCreate := rfl

/-- the code as it is puts back what it found, on both exits -/
theorem helpCreateP_source (cur : Option Bool) (ok : Bool) : helpCreateP Proto.source cur ok = cur := by
  cases ok <;>
    simp [helpCreateP, Proto.source, Gen.C17.helpRestoresInFinally, Gen.C17.helpRestoresPrevious,
      Gen.C17.helpRestoresAfterReturn]

/-- no protocol writes `None` over an explicit setting -/
theorem helpCreateP_none (pr : Proto) (cur : Option Bool) (ok : Bool) (h : helpCreateP pr cur ok = none) : cur = none := by
  obtain ⟨f, a, p⟩ := pr
  cases ok <;> cases f <;> cases a <;> cases p <;> simp_all [helpCreateP]

/-! ## The state accessors -/

theorem lenEntry_congr {s s' : AppState} (h : s'.len = s.len) (p : List Str) : lenEntry s' p = lenEntry s p := by
  simp only [lenEntry, h]

theorem lenEntry_setCurrent (s : AppState) (p q : List Str) (v : Option Bool) :
    lenEntry (setCurrent s p v) q = if p == q then { lenEntry s p with current := v } else lenEntry s q := by
  simp only [lenEntry, setCurrent, dictGet?_dictSet]
  split <;> rfl

theorem setCurrent_parserOf (s : AppState) (p : List Str) (v : Option Bool) : (setCurrent s p v).parserOf = s.parserOf := rfl

theorem SameLen.refl (s : AppState) : SameLen s s := ⟨fun _ => rfl, rfl⟩

theorem SameLen.restored {s0 s : AppState} (h : SameLen s0 s) (h0 : Restored s0) : Restored s := by
  intro p; rw [h.1 p]; exact h0 p

theorem initState_restored (raw : List (List Str × Option Bool)) (parsers : List (List Str × Nat)) :
    Restored (initState raw parsers) := by
  intro p
  simp only [lenEntry, initState]
  induction raw with
  | nil => rfl
  | cons pv r ih =>
    simp only [List.map_cons, dictGet?]
    split
    · rfl
    · exact ih

/-! ## One parse -/

theorem parseS_len (cv : Conv) (s : AppState) (p : List Str) (c : Cmd) (ov : Option Bool) (toks : List Str) :
    (parseS cv s p c ov toks).2.len = s.len ∧ (parseS cv s p c ov toks).2.parserOf = s.parserOf := by
  cases hk : dictGet? p s.parserOf <;> simp [parseS, hk]

theorem parseS_sameLen (cv : Conv) {s0 s : AppState} (h : SameLen s0 s) (p : List Str) (c : Cmd) (ov : Option Bool)
    (toks : List Str) : SameLen s0 (parseS cv s p c ov toks).2 := by
  obtain ⟨hl, hp⟩ := parseS_len cv s p c ov toks
  exact ⟨fun q => (lenEntry_congr hl q).trans (h.1 q), hp.trans h.2⟩

/-- with an explicit mode: the pure parse in that mode, whatever the state (C05) -/
theorem parseS_fst_mode (cv : Conv) (s : AppState) (p : List Str) (c : Cmd) (b : Bool) (toks : List Str) :
    (parseS cv s p c (some b) toks).1 = parse cv c.fmt b toks := by
  cases hk : dictGet? p s.parserOf <;> simp only [parseS, hk]
  · rfl
  · exact Props.C05.parseFrom_result _ _ _ _ _

theorem effLenient_restored {s : AppState} (h : Restored s) (p : List Str) (c : Cmd) : effLenient s p c = c.lenient := by
  simp [effLenient, h p]

/-- with the mode read from the config: the pure parse in the command's configured mode, when the setting is
the configured one - whatever the scratch state of the parser object (C05) -/
theorem parseS_fst_cfg (cv : Conv) {s : AppState} (h : Restored s) (p : List Str) (c : Cmd) (toks : List Str) :
    (parseS cv s p c none toks).1 = parse cv c.fmt c.lenient toks := by
  cases hk : dictGet? p s.parserOf <;> simp only [parseS, hk, effLenient_restored h]
  · rfl
  · exact Props.C05.parseFrom_result _ _ _ _ _

/-! ## The generic loops: an invariant of the parse function is kept, and a parse function that answers
what `parse` answers makes the loop the original one -/

section Generic
variable {σ : Type} (I : σ → Prop) (cv : Conv) (pf : ParseFn σ)

/-- under the invariant the parse function answers what the pure parse (configured mode) answers -/
def Agrees : Prop := ∀ s p c t, I s → (pf s p c t).1 = parse cv c.fmt c.lenient t

variable (hI : ∀ s p c t, I s → I (pf s p c t).2)
include hI

theorem tryParseG_spec (s : σ) (p : List Str) (c : Cmd) (t : List Str) (hs : I s) :
    I (tryParseG pf s p c t).2 ∧ (Agrees I cv pf → (tryParseG pf s p c t).1 = tryParse cv c t) := by
  refine ⟨hI s p c t hs, fun hA => ?_⟩
  simp only [tryParseG, tryParse, hA s p c t hs]
  cases parse cv c.fmt c.lenient t with
  | ok a => rfl
  | error e => cases e <;> rfl

theorem pickDefaultG_spec (toks path : List Str) (ds : List Cmd) :
    ∀ (s : σ) (first : Option (List Str × Option Args)), I s →
      I (pickDefaultG pf toks path s ds first).2 ∧
      (Agrees I cv pf → (pickDefaultG pf toks path s ds first).1 = pickDefault cv toks path ds first) := by
  induction ds with
  | nil => intro s first hs; exact ⟨hs, fun _ => rfl⟩
  | cons d r ih =>
    intro s first hs
    have ht := tryParseG_spec I cv pf hI s (path ++ [d.name]) d toks hs
    cases h1 : (tryParseG pf s (path ++ [d.name]) d toks).1 with
    | error e =>
      simp only [pickDefaultG, h1]
      refine ⟨ht.1, fun hA => ?_⟩
      have := ht.2 hA
      rw [h1] at this
      simp only [pickDefault, ← this]
    | ok oa =>
      cases oa with
      | some a =>
        simp only [pickDefaultG, h1]
        refine ⟨ht.1, fun hA => ?_⟩
        have := ht.2 hA
        rw [h1] at this
        simp only [pickDefault, ← this]
      | none =>
        simp only [pickDefaultG, h1]
        have := ih (tryParseG pf s (path ++ [d.name]) d toks).2
          (match first with | none => some (path ++ [d.name], none) | some f => some f) ht.1
        refine ⟨this.1, fun hA => ?_⟩
        have h2 := ht.2 hA
        rw [h1] at h2
        simp only [pickDefault, ← h2]
        exact this.2 hA

theorem resolveG_spec (s : σ) (app : List Cmd) (toks : List Str) (hs : I s) :
    I (resolveG pf s app toks).2 ∧ (Agrees I cv pf → (resolveG pf s app toks).1 = resolve cv app toks) := by
  unfold resolveG resolve
  simp only
  cases hw : walk (namedColl app) none (lead toks) with
  | some cp =>
    obtain ⟨c, path⟩ := cp
    simp only
    have hd := pickDefaultG_spec I cv pf hI toks path (defaultColl c.subs).values s none hs
    cases h1 : (pickDefaultG pf toks path s (defaultColl c.subs).values none).1 with
    | error e =>
      simp only
      refine ⟨hd.1, fun hA => ?_⟩
      have := hd.2 hA
      rw [h1] at this
      simp only [← this]
    | ok od =>
      cases od with
      | some r =>
        simp only
        refine ⟨hd.1, fun hA => ?_⟩
        have := hd.2 hA
        rw [h1] at this
        simp only [← this]
      | none =>
        simp only
        have ht := tryParseG_spec I cv pf hI (pickDefaultG pf toks path s (defaultColl c.subs).values none).2 path c toks hd.1
        cases h2 : (tryParseG pf (pickDefaultG pf toks path s (defaultColl c.subs).values none).2 path c toks).1 with
        | error e =>
          simp only
          refine ⟨ht.1, fun hA => ?_⟩
          have h3 := hd.2 hA
          rw [h1] at h3
          have h4 := ht.2 hA
          rw [h2] at h4
          simp only [← h3, ← h4]
        | ok a =>
          simp only
          refine ⟨ht.1, fun hA => ?_⟩
          have h3 := hd.2 hA
          rw [h1] at h3
          have h4 := ht.2 hA
          rw [h2] at h4
          simp only [← h3, ← h4]
  | none =>
    simp only
    by_cases hl : (!(lead toks).isEmpty) = true
    · simp only [hl, if_true]
      exact ⟨hs, fun _ => trivial⟩
    · simp only [hl, if_false, Bool.false_eq_true]
      have hd := pickDefaultG_spec I cv pf hI toks [] (defaultColl app).values s none hs
      cases h1 : (pickDefaultG pf toks [] s (defaultColl app).values none).1 with
      | error e =>
        simp only
        refine ⟨hd.1, fun hA => ?_⟩
        have := hd.2 hA
        rw [h1] at this
        simp only [← this]
      | ok od =>
        cases od with
        | some r =>
          simp only
          refine ⟨hd.1, fun hA => ?_⟩
          have := hd.2 hA
          rw [h1] at this
          simp only [← this]
        | none =>
          simp only
          refine ⟨hd.1, fun hA => ?_⟩
          have := hd.2 hA
          rw [h1] at this
          simp only [← this]

theorem chooseDefaultG_spec (toks path : List Str) (ds : List Cmd) :
    ∀ (s : σ) (first : Option Cmd), I s →
      I (chooseDefaultG pf toks path s ds first).2 ∧
      (Agrees I cv pf → (chooseDefaultG pf toks path s ds first).1 = chooseDefault cv toks ds first) := by
  induction ds with
  | nil => intro s first hs; exact ⟨hs, fun _ => rfl⟩
  | cons d r ih =>
    intro s first hs
    have ht := tryParseG_spec I cv pf hI s (path ++ [d.name]) d toks hs
    cases h1 : (tryParseG pf s (path ++ [d.name]) d toks).1 with
    | error e =>
      simp only [chooseDefaultG, h1]
      refine ⟨ht.1, fun hA => ?_⟩
      have := ht.2 hA
      rw [h1] at this
      simp only [chooseDefault, ← this]
    | ok oa =>
      cases oa with
      | some a =>
        simp only [chooseDefaultG, h1]
        refine ⟨ht.1, fun hA => ?_⟩
        have := ht.2 hA
        rw [h1] at this
        simp only [chooseDefault, ← this]
      | none =>
        simp only [chooseDefaultG, h1]
        have := ih (tryParseG pf s (path ++ [d.name]) d toks).2
          (match first with | none => some d | some f => some f) ht.1
        refine ⟨this.1, fun hA => ?_⟩
        have h2 := ht.2 hA
        rw [h1] at h2
        simp only [chooseDefault, ← h2]
        exact this.2 hA

theorem helpResolveG_spec (cr : CreateFn σ) (hcI : ∀ s p c t, I s → I (cr s p c t).2)
    (hcA : ∀ s p c t, I s → (cr s p c t).1 = Help.created cv c p t)
    (s : σ) (app : List Cmd) (toks : List Str) (hs : I s) :
    I (helpResolveG pf cr s app toks).2 ∧ (Agrees I cv pf → (helpResolveG pf cr s app toks).1 = helpResolve cv app toks) := by
  unfold helpResolveG helpResolve
  simp only
  cases hw : walk (namedColl app) none (lead toks) with
  | some cp =>
    obtain ⟨c, path⟩ := cp
    simp only
    have hd := chooseDefaultG_spec I cv pf hI toks path (defaultColl c.subs).values s none hs
    cases h1 : (chooseDefaultG pf toks path s (defaultColl c.subs).values none).1 with
    | error e =>
      simp only
      refine ⟨hd.1, fun hA => ?_⟩
      have := hd.2 hA
      rw [h1] at this
      simp only [← this]
    | ok od =>
      cases od with
      | some dc =>
        simp only
        refine ⟨hcI _ _ _ _ hd.1, fun hA => ?_⟩
        have := hd.2 hA
        rw [h1] at this
        simp only [← this, hcA _ _ _ _ hd.1]
      | none =>
        simp only
        refine ⟨hcI _ _ _ _ hd.1, fun hA => ?_⟩
        have := hd.2 hA
        rw [h1] at this
        simp only [← this, hcA _ _ _ _ hd.1]
  | none =>
    simp only
    by_cases hl : (!(lead toks).isEmpty) = true
    · simp only [hl, if_true]
      exact ⟨hs, fun _ => trivial⟩
    · simp only [hl, if_false, Bool.false_eq_true]
      have hd := chooseDefaultG_spec I cv pf hI toks [] (defaultColl app).values s none hs
      cases h1 : (chooseDefaultG pf toks [] s (defaultColl app).values none).1 with
      | error e =>
        simp only
        refine ⟨hd.1, fun hA => ?_⟩
        have := hd.2 hA
        rw [h1] at this
        simp only [← this]
      | ok od =>
        cases od with
        | some dc =>
          simp only
          refine ⟨hcI _ _ _ _ hd.1, fun hA => ?_⟩
          have := hd.2 hA
          rw [h1] at this
          simp only [← this, hcA _ _ _ _ hd.1]
        | none =>
          simp only
          refine ⟨hd.1, fun hA => ?_⟩
          have := hd.2 hA
          rw [h1] at this
          simp only [← this]

end Generic

/-! ## The stateful application -/

theorem parseCfg_sameLen (cv : Conv) (s0 : AppState) :
    ∀ s p c t, SameLen s0 s → SameLen s0 (parseCfg cv s p c t).2 :=
  fun _ p c t h => parseS_sameLen cv h p c none t

theorem parseCfg_agrees (cv : Conv) {s0 : AppState} (h0 : Restored s0) : Agrees (SameLen s0) cv (parseCfg cv) :=
  fun _ p c t h => parseS_fst_cfg cv (h.restored h0) p c t

/-- **the toggle of the code as it is**: the settings afterwards are the settings before - on the normal exit
and when the lenient parse raises - and the answer is the pure one -/
theorem createdS_spec (cv : Conv) {s0 s : AppState} (h : SameLen s0 s) (p : List Str) (c : Cmd) (toks : List Str) :
    SameLen s0 (createdS Proto.source cv s p c toks).2 ∧
    (createdS Proto.source cv s p c toks).1 = Help.created cv c p toks := by
  unfold createdS
  simp only [helpCreateP_source]
  refine ⟨⟨fun q => ?_, ?_⟩, ?_⟩
  · rw [lenEntry_setCurrent]
    have hl := (parseS_len cv (setCurrent s p (some true)) p c (some true) toks).1
    rw [lenEntry_congr hl, lenEntry_congr hl, lenEntry_setCurrent, lenEntry_setCurrent]
    by_cases hpq : (p == q) = true
    · have := eq_of_beq hpq
      subst this
      simp only [beq_self_eq_true, if_true]
      exact h.1 p
    · simp only [hpq, Bool.false_eq_true, if_false]
      exact h.1 q
  · rw [setCurrent_parserOf, (parseS_len cv _ p c (some true) toks).2, setCurrent_parserOf]
    exact h.2
  · rw [parseS_fst_mode]
    unfold Help.created
    cases parse cv c.fmt true toks <;> rfl

theorem resolveCommandS_spec (cv : Conv) {s0 s : AppState} (h : SameLen s0 s) (app : List Cmd) (toks : List Str) :
    SameLen s0 (resolveCommandS cv s app toks).2 ∧
    (Restored s0 → (resolveCommandS cv s app toks).1 = resolveCommand cv app toks) := by
  unfold resolveCommandS resolveCommand
  by_cases hh : helpSwitch toks = true
  · simp only [hh, if_true]
    cases (Coll.ofList app).get? helpName with
    | none => exact ⟨h, fun _ => rfl⟩
    | some hc =>
      simp only
      refine ⟨parseS_sameLen cv h _ _ _ _, fun _ => ?_⟩
      rw [parseS_fst_mode]
      cases parse cv hc.fmt true toks <;> rfl
  · simp only [hh, if_false, Bool.false_eq_true]
    have := resolveG_spec (SameLen s0) cv (parseCfg cv) (parseCfg_sameLen cv s0) s app toks h
    exact ⟨this.1, fun h0 => this.2 (parseCfg_agrees cv h0)⟩

theorem handlerTargetS_spec (cv : Conv) {s0 s : AppState} (h : SameLen s0 s) (app : List Cmd) (toks : List Str) (a : Args) :
    SameLen s0 (handlerTargetS Proto.source cv s app toks a).2 ∧
    (Restored s0 → (handlerTargetS Proto.source cv s app toks a).1 = handlerTarget cv app toks a) := by
  unfold handlerTargetS handlerTarget
  by_cases hc : dictHas (S "command") a.args = true
  · simp only [hc, if_true]
    have := helpResolveG_spec (SameLen s0) cv (parseCfg cv) (parseCfg_sameLen cv s0) (createdS Proto.source cv)
      (fun s p c t hs => (createdS_spec cv hs p c t).1) (fun s p c t hs => (createdS_spec cv hs p c t).2)
      s app (stripHelp toks) h
    refine ⟨this.1, fun h0 => ?_⟩
    rw [this.2 (parseCfg_agrees cv h0)]
    cases helpResolve cv app (stripHelp toks) <;> rfl
  · simp only [hc, if_false, Bool.false_eq_true]
    exact ⟨h, fun _ => trivial⟩

theorem outcomeOfT_eq (cv : Conv) (app : List Cmd) (hs : Handlers) (toks path : List Str) (a : Args) (t : Except Err Target)
    (ht : isHelpPath path = true → t = handlerTarget cv app toks a) :
    outcomeOfT hs path a t = handlerOutcome cv app hs toks path a := by
  unfold outcomeOfT handlerOutcome
  by_cases hp : isHelpPath path = true
  · simp only [hp, if_true, ht hp]
    cases handlerTarget cv app toks a <;> rfl
  · simp only [hp, if_false, Bool.false_eq_true]

theorem whatOfT_eq (cv : Conv) (app : List Cmd) (hs : Handlers) (toks path : List Str) (a : Args) (t : Except Err Target)
    (ht : isHelpPath path = true → t = handlerTarget cv app toks a) :
    whatOfT hs path a t = whatOf cv app hs toks path a := by
  unfold whatOfT whatOf
  by_cases hp : isHelpPath path = true
  · simp only [hp, if_true, ht hp]
    cases handlerTarget cv app toks a <;> rfl
  · simp only [hp, if_false, Bool.false_eq_true]

/-- **one run of the code as it is**, from a state whose settings are those of `s0`: the settings afterwards are
those of `s0`; and when those are the configured ones the result is the pure `runApp` -/
theorem runAppS_spec (env : Env) (cv : Conv) (app : List Cmd) (hs : Handlers) {s0 s : AppState} (h : SameLen s0 s)
    (toks : List Str) :
    SameLen s0 (runAppS env cv app hs s toks).2 ∧
    (Restored s0 → (runAppS env cv app hs s toks).1 = runApp env cv app hs toks) := by
  unfold runAppS runAppSP runApp
  simp only
  have hrc := resolveCommandS_spec cv h app toks
  cases h1 : (resolveCommandS cv s app toks).1 with
  | error e =>
    simp only
    refine ⟨hrc.1, fun h0 => ?_⟩
    have := hrc.2 h0
    rw [h1] at this
    simp only [← this]
  | ok pa =>
    obtain ⟨path, a⟩ := pa
    simp only
    by_cases hp : isHelpPath path = true
    · simp only [hp, if_true]
      have ht := handlerTargetS_spec cv hrc.1 app toks a
      refine ⟨?_, fun h0 => ?_⟩
      · split
        · exact hrc.1
        · exact ht.1
      · have := hrc.2 h0
        rw [h1] at this
        simp only [← this, hp, if_true]
        rw [outcomeOfT_eq cv app hs toks path a _ (fun _ => ht.2 h0), whatOfT_eq cv app hs toks path a _ (fun _ => ht.2 h0)]
    · simp only [hp, if_false, Bool.false_eq_true]
      refine ⟨?_, fun h0 => ?_⟩
      · split <;> exact hrc.1
      · have := hrc.2 h0
        rw [h1] at this
        simp only [← this, hp, if_false, Bool.false_eq_true]
        rw [outcomeOfT_eq cv app hs toks path a _ (fun hh => absurd hh hp),
          whatOfT_eq cv app hs toks path a _ (fun hh => absurd hh hp)]

/-- a history of runs: the settings afterwards are those of `s0`, and every result is the pure one -/
theorem runHistoryS_spec (env : Env) (cv : Conv) (app : List Cmd) (hs : Handlers) {s0 : AppState} (hist : List (List Str)) :
    ∀ {s : AppState}, SameLen s0 s →
      SameLen s0 (runHistoryS env cv app hs s hist).2 ∧
      (Restored s0 → (runHistoryS env cv app hs s hist).1 = hist.map (runApp env cv app hs)) := by
  induction hist with
  | nil => intro s h; exact ⟨h, fun _ => rfl⟩
  | cons l rest ih =>
    intro s h
    have h1 := runAppS_spec env cv app hs h l
    have h2 := ih h1.1
    refine ⟨h2.1, fun h0 => ?_⟩
    have e1 := h1.2 h0
    have e2 := h2.2 h0
    simp only [runHistoryS, runAppS] at e1 e2 ⊢
    simp only [runHistorySP, List.map_cons, e1, e2]

/-! ## A small concrete application (for the non-vacuity examples of `Props/C17`)

`App.Demo`'s `help` command and global options, and the command `probe` of the C17 harness: one required
argument `a`, the option `--count` / `-c` with a required INTEGER value.  `probe --count=abc -h` is a help request
whose lenient parse of `probe` raises `ValueError` (the value is converted in lenient mode too); `probe 1 2 3` has
too many arguments (status 1 in strict mode; in lenient mode the handler runs). -/
namespace Demo
open Clikit.App.Demo (globals cHelp)

def oCount : Opt :=
  { long := S "count", short := some (S "c"), accepts := true, valReq := true, valOpt := false, multi := false,
    ty := .integer, nullable := false, default := .scalar .none }
def aA : Arg :=
  { name := S "a", required := true, multi := false, ty := .string, nullable := false, default := .scalar .none }
def cProbe : Cmd :=
  .mk (S "probe") [] false false
    { cmds := [{ name := S "probe", aliases := [] }], args := [aA], opts := globals ++ [oCount] } false []
def app : List Cmd := [cHelp, cProbe]
/-- `int("5")` is 5, `int("abc")` raises -/
def cv : Conv := { intOf := fun t => if t == S "5" then some 5 else none, floatOf := fun _ => none }
/-- every handler returns 0 -/
def hs : Handlers := fun _ _ => .ret ret0
def env : Env := { debug := false, render := fun _ => true }

/-- the application as configured: no explicit leniency setting; `probe` and `help` share ONE parser object -/
def fresh : AppState := initState [] [([S "probe"], 0), ([S "help"], 0)]

/-- an application object that has been used: `probe` has an explicit setting (`False`), the shared parser
object holds the dictionaries of an earlier parse -/
def used : AppState :=
  { len := [([S "probe"], { configured := some false, current := some false })],
    parserOf := [([S "probe"], 0), ([S "help"], 0)],
    scratch := [(0, { args := [(.real (S "a"), .one (.tok (S "old")))], opts := [(S "count", .one (.str (S "7")))] })] }

theorem used_restored : Restored used := by
  intro p
  simp only [lenEntry, used, dictGet?]
  split <;> rfl

def helpFails : List Str := [S "probe", S "--count=abc", S "-h"]
def tooMany : List Str := [S "probe", S "1", S "2", S "3"]

/-- the protocol before the repair of D21: the setting is switched OFF (not restored) and only after the call
returned normally (no `finally`) -/
def preD21 : Proto := { inFinally := false, afterReturn := true, previous := false }

end Demo

end Clikit.AppState
