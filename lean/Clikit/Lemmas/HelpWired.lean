import Clikit.Lemmas.HelpSame
import Clikit.Model.HelpWired
/-!
# The deciders of `Model/HelpWired.lean` are sound (C13)

`flagOfB`, `helpCmdB`, `treeFlagsB`, `wiredB` imply the structural hypotheses `FlagOf`,
`HelpCmd`, `∀ c, InTree app c → FlagOf c.fmt sw` of `Props/C13.help_same_page_default`.
-/
namespace Clikit.Help
open Clikit Clikit.Parser Clikit.Resolver
open Clikit.Props

theorem noValueB_elim {o : Opt} (h : noValueB o = true) :
    o.accepts = false ∧ o.valReq = false ∧ o.multi = false := by
  simpa [noValueB, and_assoc] using h

/-- **`flagOfB` is sound** -/
theorem flagOfB_sound {f : Fmt} {sw : Str} (h : flagOfB f sw = true) : FlagOf f sw := by
  unfold flagOfB at h
  split at h
  · rename_i c
    simp only [Bool.and_eq_true, bne_iff_ne, ne_eq] at h
    obtain ⟨hc, h⟩ := h
    split at h
    · rename_i o ho
      simp only [Bool.and_eq_true, beq_iff_eq] at h
      obtain ⟨ha, hr, hm⟩ := noValueB_elim h.1
      exact ⟨o, ha, hr, hm, Or.inr ⟨c, hc, rfl, ho, h.2⟩⟩
    · cases h
  · rename_i long _
    split at h
    · rename_i o ho
      simp only [Bool.and_eq_true, beq_iff_eq, Bool.not_eq_true', List.isEmpty_eq_false_iff] at h
      obtain ⟨⟨⟨hn, hl⟩, heq⟩, hne⟩ := h
      obtain ⟨ha, hr, hm⟩ := noValueB_elim hn
      subst hl
      have heq' : '=' ∉ o.long := fun hm' => by
        rw [List.contains_iff_mem.mpr hm'] at heq; cases heq
      exact ⟨o, ha, hr, hm, Or.inl ⟨rfl, ho, heq', hne⟩⟩
    · cases h
  · cases h

theorem helpFmtB_elim {f : Fmt} (h : helpFmtB f = true) :
    ∃ (cn : CmdName) (arg : Arg), f.cmds = [cn] ∧ cn.name = helpName ∧ f.args = [arg] ∧
      arg.name = S "command" ∧ arg.required = false ∧ arg.multi = true ∧ arg.ty = .string := by
  unfold helpFmtB at h
  split at h
  · rename_i cn arg hc ha
    simp only [Bool.and_eq_true, beq_iff_eq, Bool.not_eq_true'] at h
    obtain ⟨⟨⟨⟨h1, h2⟩, h3⟩, h4⟩, h5⟩ := h
    exact ⟨cn, arg, hc, h1, ha, h2, h3, h4, h5⟩
  · cases h

/-- **`helpCmdB` is sound** -/
theorem helpCmdB_sound {h : Cmd} {sw : Str} (hb : helpCmdB h sw = true) : HelpCmd h sw := by
  simp only [helpCmdB, Bool.and_eq_true, beq_iff_eq, Bool.not_eq_true', List.isEmpty_iff] at hb
  obtain ⟨⟨⟨⟨h1, h2⟩, h3⟩, h4⟩, h5⟩ := hb
  exact { name := h1, named := h2, leaf := h3, fmt := helpFmtB_elim h4, flag := flagOfB_sound h5 }

theorem cmdFlagsB_elim {c : Cmd} {sw : Str} (h : cmdFlagsB c sw = true) :
    flagOfB c.fmt sw = true ∧ treeFlagsB c.subs sw = true := by
  cases c with
  | mk n al d an f len subs => simpa [cmdFlagsB, Cmd.fmt, Cmd.subs] using h

theorem treeFlagsB_mem : ∀ {l : List Cmd} {sw : Str}, treeFlagsB l sw = true → ∀ c ∈ l, cmdFlagsB c sw = true := by
  intro l
  induction l with
  | nil => intro _ _ c hc; cases hc
  | cons x r ih =>
    intro sw h c hc
    simp only [treeFlagsB, Bool.and_eq_true] at h
    rcases List.mem_cons.mp hc with rfl | hc
    · exact h.1
    · exact ih h.2 c hc

/-- **`treeFlagsB` is sound**: every command of the tree declares the switch as a flag -/
theorem treeFlagsB_sound {app : List Cmd} {sw : Str} (h : treeFlagsB app sw = true) :
    ∀ c, InTree app c → FlagOf c.fmt sw := by
  intro c hc
  induction hc with
  | here hm => exact flagOfB_sound (cmdFlagsB_elim (treeFlagsB_mem h _ hm)).1
  | sub hm _ ih => exact ih (cmdFlagsB_elim (treeFlagsB_mem h _ hm)).2

/-- **`wiredB` is sound**: it implies the structural hypotheses of `help_same_page_default` -/
theorem wiredB_sound {app : List Cmd} {sw : Str} (h : wiredB app sw = true) :
    ∃ hc : Cmd, (Coll.ofList app).get? helpName = some hc ∧ HelpCmd hc sw ∧
      ∀ c, InTree app c → FlagOf c.fmt sw := by
  unfold wiredB at h
  split at h
  · rename_i hc hget
    simp only [Bool.and_eq_true] at h
    exact ⟨hc, hget, helpCmdB_sound h.1, treeFlagsB_sound h.2⟩
  · cases h

/-- `headFreeB` is sound: no command name of the `help` format matches the head of the path -/
theorem headFreeB_sound {app : List Cmd} {path : List Str} {hc : Cmd} (h : headFreeB app path = true)
    (hget : (Coll.ofList app).get? helpName = some hc) :
    ∀ p cn, path.head? = some p → cn ∈ hc.fmt.cmds → cn.matches p = false := by
  intro p cn hp hcn
  unfold headFreeB at h
  rw [hget, hp] at h
  simp only [List.all_eq_true, Bool.not_eq_true'] at h
  exact h cn hcn

end Clikit.Help
