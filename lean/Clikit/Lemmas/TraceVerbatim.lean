import Clikit.Lemmas.Trace
/-! placeholder -/
