import Clikit.Lemmas.Trace
/-!
C20 `lines_verbatim`: for token streams that satisfy the tokenizer contract the highlighter's
lines, tags stripped, are the source lines.

`phys r` is the physical source line of row `r` as the tokenizer reports it in the `line`
attribute of the row's tokens (with its newline).  `WF` is the contract: single-line
tokens, in order, rows consecutive, `string = line[start:end]`, no newline before a token
starts.  `expect` is the statement's right-hand side: row by row the physical line up to the
end of the last token seen on it, newline stripped (the last row as it is).
-/
namespace Clikit.Trace
open Clikit Clikit.Gen

/-- the tokenizer contract, from the cursor `(row, col)` on -/
def WF (env : Env) (phys : Nat → Str) : Nat → Nat → List Tok → Prop
  | _, _, [] => True
  | row, col, t :: ts =>
    if t.srow = 0 then WF env phys row col ts
    else if t.kind = .endmarker then True
    else
      t.erow = t.srow ∧ t.line = phys t.srow ∧ t.scol ≤ t.ecol ∧ t.text = slice t.line t.scol t.ecol ∧
      ((t.srow = row ∧ col ≤ t.scol) ∨ t.srow = row + 1) ∧
      '\n' ∉ (phys t.srow).take t.scol ∧
      match classify env t with
      | none => WF env phys t.srow (if t.srow > row then 0 else col) ts
      | some _ => WF env phys t.srow t.ecol ts

/-- what the rows still to be emitted must show, given the cursor -/
def expect (env : Env) (phys : Nat → Str) : Nat → Nat → List Tok → List Str
  | _, _, [] => []
  | row, col, t :: ts =>
    if t.srow = 0 then expect env phys row col ts
    else if t.kind = .endmarker then [(phys row).take col]
    else
      (if t.srow > row then [rstripNL ((phys row).take col)] else []) ++
      match classify env t with
      | none => expect env phys t.srow (if t.srow > row then 0 else col) ts
      | some _ => expect env phys t.srow t.ecol ts

/-! ### `rstrip("\n")` -/

theorem rstripNL_snoc (s : Str) (c : Char) :
    rstripNL (s ++ [c]) = if c = '\n' then rstripNL s else s ++ [c] := by
  unfold rstripNL
  by_cases h : c = '\n'
  · subst h
    simp
  · simp [h]

theorem rstripNL_of_not_mem (a : Str) (h : '\n' ∉ a) : rstripNL a = a := by
  have : ∀ r : Str, '\n' ∉ r.reverse → rstripNL r.reverse = r.reverse := by
    intro r
    cases r with
    | nil => intro _; simp [rstripNL]
    | cons c r =>
      intro hm
      have hc : c ≠ '\n' := by
        intro hc
        apply hm
        simp [hc]
      simp only [List.reverse_cons, rstripNL_snoc, hc, if_false]
  have := this a.reverse (by simpa using h)
  simpa using this

theorem rstripNL_append (a b : Str) (h : '\n' ∉ a) : rstripNL (a ++ b) = a ++ rstripNL b := by
  have : ∀ r : Str, rstripNL (a ++ r.reverse) = a ++ rstripNL r.reverse := by
    intro r
    induction r with
    | nil =>
      simp only [List.reverse_nil, List.append_nil]
      rw [rstripNL_of_not_mem a h]
      simp [rstripNL]
    | cons c r ih =>
      simp only [List.reverse_cons, ← List.append_assoc, rstripNL_snoc]
      by_cases hc : c = '\n'
      · simp only [hc, if_true, ih]
      · simp [hc]
  have := this b.reverse
  simpa using this

theorem take_append_slice (s : Str) (a b : Nat) (h : a ≤ b) : s.take a ++ slice s a b = s.take b := by
  unfold slice
  have : b = a + (b - a) := by omega
  conv => rhs; rw [this, List.take_add]

/-! ### the invariant of the loop -/

structure Inv (phys : Nat → Str) (st : St) (row col : Nat) : Prop where
  curLine : st.curLine = row
  curCol : st.curCol = col
  len : st.lines.length + 1 = row
  text : plainHL st.line ++ st.buffer = (phys row).take col
  noNL : '\n' ∉ plainHL st.line

theorem plainHL_append (a b : HLine) : plainHL (a ++ b) = plainHL a ++ plainHL b := by
  simp [plainHL]

theorem plainHL_single (ty : Option Theme) (s : Str) : plainHL [(ty, s)] = s := by
  simp [plainHL]

theorem inv_init (phys : Nat → Str) : Inv phys St.init 1 0 :=
  ⟨rfl, rfl, rfl, by simp [St.init, plainHL], by simp [St.init, plainHL]⟩

/-- the row emitted by the `if lineno > current_line:` block -/
theorem rowChange_next {phys : Nat → Str} {st : St} {row col : Nat} (t : Tok) (hinv : Inv phys st row col)
    (h : t.srow = row + 1) :
    (rowChange st t).lines.map plainHL = st.lines.map plainHL ++ [rstripNL ((phys row).take col)] ∧
    Inv phys (rowChange st t) (row + 1) 0 := by
  have hgt : t.srow > st.curLine := by rw [hinv.curLine]; omega
  have hsub : t.srow - st.curLine - 1 = 0 := by rw [hinv.curLine]; omega
  unfold rowChange
  simp only [hgt, if_true, hsub, List.replicate_zero, List.append_nil]
  refine ⟨?_, ⟨h, rfl, ?_, by simp [plainHL], by simp [plainHL]⟩⟩
  · simp only [List.map_append, List.map_cons, List.map_nil, plainHL_append, plainHL_single]
    rw [← hinv.text, rstripNL_append _ _ hinv.noNL]
  · simp only [List.length_append, List.length_cons, List.length_nil]
    have := hinv.len
    omega

theorem rowChange_same {st : St} {row : Nat} (t : Tok) (hcur : st.curLine = row) (h : t.srow = row) :
    rowChange st t = st := by
  unfold rowChange
  have : ¬ t.srow > st.curLine := by omega
  simp [this]

theorem absorb_single (st : St) (t : Tok) (ty : Theme) (h : ¬ t.srow < t.erow) :
    absorb st t ty =
      { lines := st.lines
        line := if st.curType.getD ty != ty then
            st.line ++ [(some (st.curType.getD ty),
              if t.scol > st.curCol then st.buffer ++ slice t.line st.curCol t.scol else st.buffer)]
          else st.line
        buffer := (if st.curType.getD ty != ty then []
          else if t.scol > st.curCol then st.buffer ++ slice t.line st.curCol t.scol else st.buffer) ++ t.text
        curType := some ty, curLine := t.srow, curCol := t.ecol } := by
  unfold absorb
  simp [h]

/-- absorbing a single-line token of the current row keeps the invariant -/
theorem absorb_inv {phys : Nat → Str} {st : St} {row col : Nat} (t : Tok) (ty : Theme)
    (hinv : Inv phys st row col) (hrow : t.srow = row) (hcol : col ≤ t.scol)
    (herow : t.erow = t.srow) (hline : t.line = phys t.srow) (hse : t.scol ≤ t.ecol)
    (htext : t.text = slice t.line t.scol t.ecol) (hnl : '\n' ∉ (phys t.srow).take t.scol) :
    (absorb st t ty).lines = st.lines ∧ Inv phys (absorb st t ty) row t.ecol := by
  have hnot : ¬ t.srow < t.erow := by omega
  -- the buffer after the gap has been added
  have hgap : plainHL st.line ++
      (if t.scol > st.curCol then st.buffer ++ slice t.line st.curCol t.scol else st.buffer)
        = (phys row).take t.scol := by
    rw [hinv.curCol]
    by_cases hg : t.scol > col
    · simp only [hg, if_true, ← List.append_assoc, hinv.text, hline, hrow]
      exact take_append_slice _ _ _ hcol
    · have e : t.scol = col := by omega
      rw [e]
      simp [hinv.text]
  rw [absorb_single st t ty hnot]
  refine ⟨rfl, ⟨hrow, rfl, hinv.len, ?_, ?_⟩⟩
  · cases hty : (st.curType.getD ty != ty)
    · simp only [Bool.false_eq_true, if_false]
      rw [← List.append_assoc, hgap, htext, hline, hrow]
      exact take_append_slice _ _ _ hse
    · simp only [if_true, plainHL_append, plainHL_single, List.nil_append]
      rw [hgap, htext, hline, hrow]
      exact take_append_slice _ _ _ hse
  · cases hty : (st.curType.getD ty != ty)
    · simp only [Bool.false_eq_true, if_false]
      exact hinv.noNL
    · simp only [if_true, plainHL_append, plainHL_single]
      rw [hgap, ← hrow]
      exact hnl

/-- the refinement: from a state satisfying the invariant, on a suffix satisfying the
contract, the loop emits exactly the expected rows -/
theorem splitGo_expect (env : Env) (phys : Nat → Str) (ts : List Tok) :
    ∀ (st : St) (row col : Nat), Inv phys st row col → WF env phys row col ts →
      (splitGo env st ts).map plainHL = st.lines.map plainHL ++ expect env phys row col ts := by
  induction ts with
  | nil => intro st row col _ _; simp [splitGo, expect]
  | cons t ts ih =>
    intro st row col hinv hwf
    unfold splitGo expect
    unfold WF at hwf
    by_cases h0 : t.srow = 0
    · simp only [h0, if_true] at hwf ⊢
      exact ih st row col hinv hwf
    · simp only [h0, if_false] at hwf ⊢
      by_cases he : t.kind = .endmarker
      · simp only [he, if_true, List.map_append, List.map_cons, List.map_nil, plainHL_append, plainHL_single]
        rw [hinv.text]
      · simp only [he, if_false] at hwf ⊢
        obtain ⟨herow, hline, hse, htext, hpos, hnl, hrest⟩ := hwf
        rcases hpos with ⟨hrow, hcol⟩ | hnext
        · -- same row
          have hng : ¬ t.srow > row := by omega
          rw [rowChange_same t hinv.curLine hrow]
          simp only [hng, if_false, List.nil_append] at hrest ⊢
          cases hc : classify env t with
          | none =>
            rw [hc] at hrest
            simp only
            exact ih st t.srow col (hrow ▸ hinv) hrest
          | some ty =>
            rw [hc] at hrest
            simp only
            obtain ⟨hl, hi⟩ := absorb_inv t ty hinv hrow hcol herow hline hse htext hnl
            rw [ih _ t.srow t.ecol (hrow ▸ hi) hrest, hl]
        · -- next row
          have hg : t.srow > row := by omega
          obtain ⟨hlines, hi⟩ := rowChange_next t hinv hnext
          simp only [hg, if_true] at hrest ⊢
          cases hc : classify env t with
          | none =>
            rw [hc] at hrest
            simp only
            rw [ih _ t.srow 0 (hnext ▸ hi) hrest, hlines]
            simp
          | some ty =>
            rw [hc] at hrest
            simp only
            obtain ⟨hl, hi2⟩ := absorb_inv t ty hi hnext (Nat.zero_le _) herow hline hse htext hnl
            rw [ih _ t.srow t.ecol (hnext ▸ hi2) hrest, hl, hlines]
            simp

/-- every expected row is a prefix of its physical line (newline stripped, except the last):
row `i` of the output talks about source line `row + i` -/
theorem expect_rows (env : Env) (phys : Nat → Str) (ts : List Tok) :
    ∀ (row col : Nat), WF env phys row col ts → ∀ (i : Nat) (s : Str), (expect env phys row col ts)[i]? = some s →
      ∃ k, s = rstripNL ((phys (row + i)).take k) ∨ s = (phys (row + i)).take k := by
  induction ts with
  | nil => intro row col _ i s h; simp [expect] at h
  | cons t ts ih =>
    intro row col hwf i s h
    unfold expect at h
    unfold WF at hwf
    by_cases h0 : t.srow = 0
    · simp only [h0, if_true] at hwf h
      exact ih row col hwf i s h
    · simp only [h0, if_false] at hwf h
      by_cases he : t.kind = .endmarker
      · simp only [he, if_true] at h
        cases i with
        | zero => simp at h; exact ⟨col, Or.inr h.symm⟩
        | succ i => simp at h
      · simp only [he, if_false] at hwf h
        obtain ⟨_, _, _, _, hpos, _, hrest⟩ := hwf
        rcases hpos with ⟨hrow, _⟩ | hnext
        · have hng : ¬ t.srow > row := by omega
          simp only [hng, if_false, List.nil_append] at hrest h
          cases hc : classify env t with
          | none =>
            rw [hc] at hrest h
            simp only at hrest h
            have := ih t.srow col hrest i s h
            rwa [hrow] at this
          | some ty =>
            rw [hc] at hrest h
            simp only at hrest h
            have := ih t.srow t.ecol hrest i s h
            rwa [hrow] at this
        · have hg : t.srow > row := by omega
          simp only [hg, if_true] at hrest h
          cases i with
          | zero =>
            simp at h
            exact ⟨col, Or.inl h.symm⟩
          | succ i =>
            simp only [List.cons_append, List.nil_append, List.getElem?_cons_succ] at h
            have hidx : t.srow + i = row + (i + 1) := by omega
            cases hc : classify env t with
            | none =>
              rw [hc] at hrest h
              simp only at hrest h
              have := ih t.srow 0 hrest i s h
              rwa [hidx] at this
            | some ty =>
              rw [hc] at hrest h
              simp only at hrest h
              have := ih t.srow t.ecol hrest i s h
              rwa [hidx] at this

/-! ### the contract is decidable -/

/-- `wfB` (Model/Trace, evaluated by the driver on the real tokenizer's output) decides `WF` -/
theorem wfB_iff (env : Env) (phys : Nat → Str) (ts : List Tok) :
    ∀ row col, wfB env phys row col ts = true ↔ WF env phys row col ts := by
  induction ts with
  | nil => intro row col; simp [wfB, WF]
  | cons t ts ih =>
    intro row col
    unfold wfB WF
    by_cases h0 : t.srow = 0
    · rw [if_pos h0, if_pos h0]
      exact ih row col
    · rw [if_neg h0, if_neg h0]
      by_cases he : t.kind = .endmarker
      · rw [if_pos he, if_pos he]
        simp
      · rw [if_neg he, if_neg he]
        cases hc : classify env t with
        | none =>
          simp only [Bool.and_eq_true, Bool.or_eq_true, beq_iff_eq, decide_eq_true_eq, Bool.not_eq_eq_eq_not,
            Bool.not_true, List.contains_eq_mem, decide_eq_false_iff_not, ih, and_assoc]
        | some th =>
          simp only [Bool.and_eq_true, Bool.or_eq_true, beq_iff_eq, decide_eq_true_eq, Bool.not_eq_eq_eq_not,
            Bool.not_true, List.contains_eq_mem, decide_eq_false_iff_not, ih, and_assoc]

end Clikit.Trace
