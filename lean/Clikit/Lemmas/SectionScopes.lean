import Clikit.Lemmas.SectionIndent
import Clikit.Model.SectionScopes
/-!
Lemmas for C11's scope programs over several sections: the history a program performs (`compile`),
flattened to the base history (`Section.flat`), is the lexical reading of the program (`lexical`).
-/
namespace Clikit.SecScopes
open Clikit.Section

theorem flat_append (a b : List IOp) : ∀ (ind : List Nat),
    flat ind (a ++ b) = flat ind a ++ flat (indAfter ind a) b := by
  induction a with
  | nil => intro ind; rfl
  | cons op r ih =>
    intro ind
    cases op <;> simp only [List.cons_append, flat, indAfter, ih, List.cons_append]

theorem indAfter_append (a b : List IOp) : ∀ (ind : List Nat),
    indAfter ind (a ++ b) = indAfter (indAfter ind a) b := by
  induction a with
  | nil => intro ind; rfl
  | cons op r ih =>
    intro ind
    cases op <;> simp only [List.cons_append, indAfter, ih]

/-- `Indent.__exit__` after `Indent.__init__`: the saved value is back, whatever was created meanwhile -/
theorem setAt_restore : ∀ (ind : List Nat) (i v : Nat) (new : List Nat), i < ind.length →
    setAt (indOf ind i) i (setAt v i ind ++ new) = ind ++ new := by
  intro ind
  induction ind with
  | nil => intro i v new h; simp at h
  | cons x r ih =>
    intro i v new h
    cases i with
    | zero => simp [setAt, indOf]
    | succ i =>
      have h' : i < r.length := by simpa using h
      have := ih i v new h'
      simp only [indOf] at this
      simp only [setAt, indOf, List.cons_append, List.getD_cons_succ, this]

/-- the compiled history, flattened, is the lexical reading; the indentations afterwards are those from
before plus the sections created; exceptions propagate alike -/
theorem compile_lexical (p : SProg) : ∀ (e : Env),
    flat e.ind (compile p e).1 = (lexical p e).1 ∧
    indAfter e.ind (compile p e).1 = e.ind ++ (lexical p e).2.1 ∧
    (compile p e).2.1 = { out := e.out, ind := e.ind ++ (lexical p e).2.1 } ∧
    (compile p e).2.2 = (lexical p e).2.2 := by
  induction p with
  | skip => intro e; simp [compile, lexical, flat, indAfter]
  | raise => intro e; simp [compile, lexical, flat, indAfter]
  | create => intro e; simp [compile, lexical, flat, indAfter]
  | act o => intro e; simp [compile, lexical, flat, indAfter]
  | attempt body ih =>
    intro e
    obtain ⟨h1, h2, h3, _⟩ := ih e
    simp only [compile, lexical]
    exact ⟨h1, h2, h3, trivial⟩
  | seq a b iha ihb =>
    intro e
    obtain ⟨a1, a2, a3, a4⟩ := iha e
    simp only [compile, lexical]
    cases hca : compile a e with
    | mk h1 t1 =>
      cases t1 with
      | mk e1 r1 =>
        cases hla : lexical a e with
        | mk l1 u1 =>
          cases u1 with
          | mk n1 s1 =>
            simp only [hca, hla] at a1 a2 a3 a4
            subst a4
            cases r1 with
            | true => exact ⟨a1, a2, a3, rfl⟩
            | false =>
              subst a3
              obtain ⟨b1, b2, b3, b4⟩ := ihb { out := e.out, ind := e.ind ++ n1 }
              simp only at b1 b2 b3 b4 ⊢
              refine ⟨?_, ?_, ?_, b4⟩
              · rw [flat_append, a1, a2, b1]
              · rw [indAfter_append, a2, b2, List.append_assoc]
              · rw [b3, List.append_assoc]
  | scope t inc n body ih =>
    intro e
    cases t with
    | out =>
      obtain ⟨h1, h2, h3, h4⟩ := ih { e with out := newInd inc n e.out }
      simp only [compile, lexical]
      refine ⟨h1, h2, ?_, h4⟩
      simp only at h3
      rw [h3]
    | sec i =>
      simp only [compile, lexical]
      by_cases hi : i < e.ind.length
      · simp only [hi, if_true]
        obtain ⟨h1, h2, h3, h4⟩ := ih { e with ind := setAt (newInd inc n (indOf e.ind i)) i e.ind }
        simp only at h1 h2 h3 h4
        refine ⟨?_, ?_, ?_, h4⟩
        · simp only [List.cons_append, flat]
          rw [flat_append, h1]
          simp [flat]
        · simp only [List.cons_append, indAfter]
          rw [indAfter_append, h2]
          simp only [indAfter]
          exact setAt_restore e.ind i _ _ hi
        · rw [h3]
          simp only
          rw [setAt_restore e.ind i _ _ hi]
      · simp only [hi, if_false]
        exact ih e

end Clikit.SecScopes
