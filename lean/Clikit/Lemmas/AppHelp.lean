import Clikit.Model.AppHelp
import Clikit.Lemmas.App
/-!
# Lemmas about the text of a help run (`Model/AppHelp.lean`)
-/
namespace Clikit.App
open Clikit Clikit.Parser Clikit.Resolver Clikit.Switches Clikit.Help

/-- a run that selected the command `help` and is not a version request: the outcome is what
`HelpTextHandler` does, no handler of the application is invoked, and a rendered page means status 0 -/
theorem runApp_help_selected (env : Env) (cv : Conv) (app : List Cmd) (hs : Handlers) (toks : List Str) (a : Args)
    (hrc : resolveCommand cv app toks = .ok ([helpName], a)) (hv : versionSet a = false) :
    (runApp env cv app hs toks).what =
      (match handlerTarget cv app toks a with
       | .ok t => .helpPage t
       | .error e => .error e) ∧
    (runApp env cv app hs toks).invoked = [] ∧
    (∀ t, handlerTarget cv app toks a = .ok t → (runApp env cv app hs toks).status = some 0) := by
  have hpath : isHelpPath [helpName] = true := by simp [isHelpPath]
  rw [runApp_ok env cv app hs toks _ _ hrc]
  refine ⟨?_, ?_, ?_⟩
  · cases hh : handlerTarget cv app toks a <;>
      simp only [whatOf, hv, hpath, hh, Bool.false_eq_true, if_false, if_true]
  · simp only [hpath, if_true]
  · intro t ht
    simp only [hv, hpath, ht, handlerOutcome, run_pass, run_ret0, if_true]

/-- a run that selected the command `help`: a version request or not, read off the outcome -/
theorem versionSet_of_what (env : Env) (cv : Conv) (app : List Cmd) (hs : Handlers) (toks : List Str)
    (path : List Str) (a : Args) (hrc : resolveCommand cv app toks = .ok (path, a))
    (hne : (runApp env cv app hs toks).what ≠ .version) : versionSet a = false := by
  rw [runApp_ok env cv app hs toks _ _ hrc] at hne
  cases hv : versionSet a with
  | false => rfl
  | true => simp [whatOf, hv] at hne

/-- the text of a target whose configuration exists and whose help text has no brace is the rendering
of its page -/
theorem renderTarget_page (wrap : Nat → Str → List Str) (w : Nat) (happ : HApp) (t : Target) (p : Page)
    (hp : targetPage happ t = some p) (hf : targetFormatOK happ t = true) :
    renderTarget wrap w happ t = renderPage wrap w p := by
  cases t with
  | app =>
    simp only [targetPage, Option.some.injEq] at hp
    simp only [targetFormatOK] at hf
    subst hp
    simp [renderTarget, renderApplicationHelp, hf]
  | cmd path =>
    simp only [targetPage] at hp
    simp only [targetFormatOK] at hf
    cases hfp : findPath happ.ctx happ.cmds path with
    | none => simp [hfp] at hp
    | some xc =>
      obtain ⟨x, c⟩ := xc
      simp only [hfp, Option.some.injEq] at hp hf
      subst hp
      simp [renderTarget, hfp, renderCommandHelp, hf]

theorem map_some_inj {ε α : Type} (x y : Except ε α) (h : x.map some = y.map some) : x = y := by
  cases x <;> cases y <;> simp_all [Except.map]

end Clikit.App
