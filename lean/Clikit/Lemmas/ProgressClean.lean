import Clikit.Lemmas.Progress
/-!
# Single-line frames from single-line inputs (C16)

If the format set with `set_format`, the three bar characters and all messages contain neither a
line break nor a carriage return, then the resolved format has no line break
(`formatLineCount = 0`) and no frame text contains one: the hypotheses of `run_ansi_line` follow
from the configuration and the arguments of the calls.
-/
namespace Clikit.Progress

theorem clean_nil : Clean [] := by intro ch h; simp at h

theorem clean_cons (c : Char) (s : Str) : Clean (c :: s) ↔ (c ≠ '\n' ∧ c ≠ '\r') ∧ Clean s := by
  unfold Clean
  simp

theorem clean_append (a b : Str) : Clean (a ++ b) ↔ Clean a ∧ Clean b := by
  unfold Clean
  simp only [List.mem_append]
  constructor
  · intro h; exact ⟨fun ch hc => h ch (Or.inl hc), fun ch hc => h ch (Or.inr hc)⟩
  · intro h ch hc; rcases hc with hc | hc; exact h.1 ch hc; exact h.2 ch hc

theorem clean_spaces (n : Nat) : Clean (spaces n) := by
  intro ch h
  simp [spaces] at h
  rw [h.2]; decide

theorem clean_ljust (n : Nat) (s : Str) (h : Clean s) : Clean (ljust n s) := by
  unfold ljust; rw [clean_append]; exact ⟨h, clean_spaces _⟩

theorem clean_rjust (n : Nat) (s : Str) (h : Clean s) : Clean (rjust n s) := by
  unfold rjust; rw [clean_append]; exact ⟨clean_spaces _, h⟩

theorem clean_repeatStr (s : Str) (n : Nat) (h : Clean s) : Clean (repeatStr s n) := by
  induction n with
  | zero => exact clean_nil
  | succ n ih => unfold repeatStr; rw [clean_append]; exact ⟨h, ih⟩

theorem clean_takeWhile (p : Char → Bool) (s : Str) (h : Clean s) : Clean (s.takeWhile p) :=
  fun ch hc => h ch ((List.takeWhile_sublist p).subset hc)

theorem clean_dropWhile (p : Char → Bool) (s : Str) (h : Clean s) : Clean (s.dropWhile p) :=
  fun ch hc => h ch ((List.dropWhile_sublist p).subset hc)

theorem digit_clean : ∀ d, d < 10 → Char.ofNat (48 + d) ≠ '\n' ∧ Char.ofNat (48 + d) ≠ '\r' := by
  decide

theorem clean_digitsAux (f : Nat) : ∀ (n : Nat) (acc : Str), Clean acc → Clean (digitsAux f n acc) := by
  induction f with
  | zero => intro n acc h; exact h
  | succ f ih =>
    intro n acc h
    unfold digitsAux
    have hc : Clean (Char.ofNat (48 + n % 10) :: acc) := by
      rw [clean_cons]; exact ⟨digit_clean _ (Nat.mod_lt _ (by decide)), h⟩
    dsimp only
    split
    · exact hc
    · exact ih _ _ hc

theorem clean_natStr (n : Nat) : Clean (natStr n) := clean_digitsAux _ _ _ clean_nil

theorem clean_formatTimeAux (ticks : Nat) (tbl : List (Nat × Str × Option Nat))
    (h : ∀ row ∈ tbl, Clean row.2.1) : Clean (formatTimeAux ticks tbl) := by
  induction tbl with
  | nil => unfold formatTimeAux Clean; decide
  | cons row rest ih =>
    obtain ⟨lim, txt, div⟩ := row
    unfold formatTimeAux
    have htxt : Clean txt := h (lim, txt, div) (by simp)
    split
    · exact ih (fun r hr => h r (by simp [hr]))
    · cases div with
      | none => exact htxt
      | some d =>
        dsimp only
        rw [clean_append, clean_cons]
        exact ⟨clean_natStr _, by decide, htxt⟩

theorem timeFormats_clean : ∀ row ∈ Gen.C16.timeFormats, Clean row.2.1 := by
  unfold Clean; decide

theorem clean_formatTime (ticks : Nat) : Clean (formatTime ticks) :=
  clean_formatTimeAux ticks _ timeFormats_clean

/-! ### configuration, messages, placeholders -/

/-- the text given to `set_format` and the three bar characters have no line break / CR -/
def CleanCfg (c : Config) : Prop :=
  (∀ f, c.internalFormat = some f → Clean f) ∧ Clean c.emptyChar ∧ Clean c.progressChar ∧
  (∀ b, c.barChar = some b → Clean b)

def CleanMsgs (msgs : List (Str × Str)) : Prop := ∀ kv ∈ msgs, Clean kv.2

theorem dictGet_clean (k : Str) (msgs : List (Str × Str)) (h : CleanMsgs msgs) (v : Str)
    (hv : dictGet? k msgs = some v) : Clean v := by
  induction msgs with
  | nil => simp [dictGet?] at hv
  | cons kv rest ih =>
    obtain ⟨k', v'⟩ := kv
    unfold dictGet? at hv
    split at hv
    · cases hv; exact h (k', v) (by simp)
    · exact ih (fun x hx => h x (by simp [hx])) hv

theorem dictSet_clean (k v : Str) (msgs : List (Str × Str)) (h : CleanMsgs msgs) (hv : Clean v) :
    CleanMsgs (dictSet k v msgs) := by
  induction msgs with
  | nil => intro kv hkv; simp [dictSet] at hkv; rw [hkv]; exact hv
  | cons kv rest ih =>
    obtain ⟨k', v'⟩ := kv
    unfold dictSet
    split
    · intro x hx
      simp at hx
      rcases hx with hx | hx
      · rw [hx]; exact hv
      · exact h x (by simp [hx])
    · intro x hx
      simp at hx
      rcases hx with hx | hx
      · rw [hx]; exact h (k', v') (by simp)
      · exact ih (fun y hy => h y (by simp [hy])) x hx

theorem clean_barCharOf (c : Config) (s : State) (hc : CleanCfg c) : Clean (barCharOf c s) := by
  unfold barCharOf
  cases hb : c.barChar with
  | some b => exact hc.2.2.2 b hb
  | none =>
    dsimp only
    split
    · unfold Clean; decide
    · exact hc.2.1

theorem clean_barOf (c : Config) (s : State) (off : Nat) (hc : CleanCfg c) : Clean (barOf c s off) := by
  unfold barOf
  dsimp only
  split
  · rw [clean_append, clean_append]
    exact ⟨⟨clean_repeatStr _ _ (clean_barCharOf c s hc), hc.2.2.1⟩, clean_repeatStr _ _ hc.2.1⟩
  · exact clean_repeatStr _ _ (clean_barCharOf c s hc)

theorem placeholder_clean (c : Config) (s : State) (t : Nat) (name text : Str) (hc : CleanCfg c)
    (hm : CleanMsgs s.messages) (h : placeholder c s t name = .ok (some text)) : Clean text := by
  unfold placeholder at h
  split at h
  · cases ho : barOffset c s with
    | error e => simp [ho, bind, Except.bind] at h
    | ok off =>
      simp [ho, bind, Except.bind, pure, Except.pure] at h
      rw [← h]; exact clean_barOf c s off hc
  split at h
  · cases h; exact clean_formatTime _
  split at h
  · split at h
    · cases h
    · cases h; exact clean_formatTime _
  split at h
  · split at h
    · cases h
    · cases h; exact clean_natStr _
  split at h
  · cases h; exact clean_rjust _ _ (clean_natStr _)
  split at h
  · cases h; exact clean_natStr _
  split at h
  · cases h; exact clean_natStr _
  · simp at h
    exact dictGet_clean name s.messages hm text h

theorem except_bind_ok {α β : Type} (x : Except Err α) (g : α → β) (out : β)
    (h : (do let w ← x; pure (g w)) = Except.ok out) : ∃ w, out = g w := by
  cases x with
  | error e => simp [bind, Except.bind] at h
  | ok w => simp [bind, Except.bind, pure, Except.pure] at h; exact ⟨w, h.symm⟩

theorem applySpec_clean (text spec out : Str) (ht : Clean text) (h : applySpec text spec = .ok out) :
    Clean out := by
  unfold applySpec at h
  split at h
  · obtain ⟨w, hw⟩ := except_bind_ok _ _ _ h
    rw [hw]; exact clean_ljust _ _ ht
  · obtain ⟨w, hw⟩ := except_bind_ok _ _ _ h
    rw [hw]; exact clean_rjust _ _ ht


/-! ### the template -/

def PieceClean : Piece → Prop
  | .lit ch => ch ≠ '\n' ∧ ch ≠ '\r'
  | .ph name spec => Clean name ∧ ∀ sp, spec = some sp → Clean sp

theorem clean_tail (c : Char) (s : Str) (h : Clean (c :: s)) : Clean s := ((clean_cons c s).mp h).2

theorem parseTpl_clean (fuel : Nat) : ∀ (s : Str), Clean s → ∀ p ∈ parseTpl fuel s, PieceClean p := by
  induction fuel with
  | zero => intro s _ p hp; simp [parseTpl] at hp
  | succ f ih =>
    intro s hs p hp
    cases s with
    | nil => simp [parseTpl] at hp
    | cons c r =>
      have hc := ((clean_cons c r).mp hs).1
      have hr := ((clean_cons c r).mp hs).2
      have hlit : ∀ p ∈ Piece.lit c :: parseTpl f r, PieceClean p := by
        intro p hp
        simp at hp
        rcases hp with hp | hp
        · rw [hp]; exact hc
        · exact ih r hr p hp
      have hname : Clean (r.takeWhile isNameChar) := clean_takeWhile _ _ hr
      have hr1 : Clean (r.dropWhile isNameChar) := clean_dropWhile _ _ hr
      unfold parseTpl at hp
      split at hp
      · dsimp only at hp
        split at hp
        · exact hlit p hp
        · split at hp
          · rename_i r2 heq
            rw [heq] at hr1
            simp at hp
            rcases hp with hp | hp
            · rw [hp]; exact ⟨hname, by intro sp h; cases h⟩
            · exact ih r2 (clean_tail _ _ hr1) p hp
          · rename_i r2 heq
            rw [heq] at hr1
            have hr2 := clean_tail _ _ hr1
            split at hp
            · exact hlit p hp
            · split at hp
              · rename_i r4 heq4
                have hr3 : Clean (r2.dropWhile (· != '%')) := clean_dropWhile _ _ hr2
                rw [heq4] at hr3
                simp at hp
                rcases hp with hp | hp
                · rw [hp]
                  exact ⟨hname, by intro sp h; cases h; exact clean_takeWhile _ _ hr2⟩
                · exact ih r4 (clean_tail _ _ hr3) p hp
              · exact hlit p hp
          · exact hlit p hp
      · exact hlit p hp

theorem rawPiece_clean (name : Str) (spec : Option Str) (h : PieceClean (.ph name spec)) :
    Clean (rawPiece name spec) := by
  have hpc : ('%' : Char) ≠ '\n' ∧ ('%' : Char) ≠ '\r' := by decide
  have hcc : (':' : Char) ≠ '\n' ∧ (':' : Char) ≠ '\r' := by decide
  unfold rawPiece
  cases spec with
  | none =>
    intro ch hch
    simp at hch
    rcases hch with hch | hch | hch
    · rw [hch]; exact hpc
    · exact h.1 ch hch
    · rw [hch]; exact hpc
  | some sp =>
    intro ch hch
    simp at hch
    rcases hch with hch | hch | hch | hch | hch
    · rw [hch]; exact hpc
    · exact h.1 ch hch
    · rw [hch]; exact hcc
    · exact h.2 sp rfl ch hch
    · rw [hch]; exact hpc

theorem renderPiece_clean (c : Config) (s : State) (t : Nat) (p : Piece) (out : Str) (hc : CleanCfg c)
    (hm : CleanMsgs s.messages) (hp : PieceClean p) (h : renderPiece c s t p = .ok out) : Clean out := by
  cases p with
  | lit ch =>
    simp [renderPiece] at h
    rw [← h, clean_cons]; exact ⟨hp, clean_nil⟩
  | ph name spec =>
    unfold renderPiece at h
    cases hph : placeholder c s t name with
    | error e => simp [hph, bind, Except.bind] at h
    | ok v =>
      cases v with
      | none =>
        simp [hph, bind, Except.bind, pure, Except.pure] at h
        rw [← h]; exact rawPiece_clean name spec hp
      | some text =>
        have ht := placeholder_clean c s t name text hc hm hph
        cases spec with
        | none =>
          simp [hph, bind, Except.bind, pure, Except.pure] at h
          rw [← h]; exact ht
        | some sp =>
          simp [hph, bind, Except.bind] at h
          exact applySpec_clean text sp out ht h

theorem renderPieces_clean (c : Config) (s : State) (t : Nat) (hc : CleanCfg c)
    (hm : CleanMsgs s.messages) (ps : List Piece) :
    ∀ out, (∀ p ∈ ps, PieceClean p) → renderPieces c s t ps = .ok out → Clean out := by
  induction ps with
  | nil => intro out _ h; simp [renderPieces] at h; rw [h]; exact clean_nil
  | cons p rest ih =>
    intro out hps h
    unfold renderPieces at h
    cases ha : renderPiece c s t p with
    | error e => simp [ha, bind, Except.bind] at h
    | ok a =>
      cases hb : renderPieces c s t rest with
      | error e => simp [ha, hb, bind, Except.bind] at h
      | ok b =>
        simp [ha, hb, bind, Except.bind, pure, Except.pure] at h
        rw [← h, clean_append]
        exact ⟨renderPiece_clean c s t p a hc hm (hps p (by simp)) ha,
          ih b (fun q hq => hps q (by simp [hq])) hb⟩

/-! ### the resolved format -/

theorem formats_clean : ∀ kv ∈ Gen.C16.formats, Clean kv.2 := by
  unfold Clean; decide

theorem dictGet_formats_clean (k f : Str) (h : dictGet? k Gen.C16.formats = some f) : Clean f :=
  dictGet_clean k Gen.C16.formats formats_clean f h

theorem bestFormat_clean (v m : Nat) : Clean (bestFormat v m) := by
  unfold bestFormat nomaxSuffix
  repeat' split
  all_goals (unfold Clean; decide)

theorem realFormat_clean (m : Nat) (fmt : Str) (h : Clean fmt) : Clean (realFormat m fmt) := by
  unfold realFormat
  split
  · rename_i f hf
    split at hf
    · exact dictGet_formats_clean _ f hf
    · cases hf
  · split
    · rename_i f hf; exact dictGet_formats_clean _ f hf
    · exact h

theorem countNL_clean (s : Str) (h : Clean s) : countNL s = 0 := by
  unfold countNL
  simp only [List.length_eq_zero_iff, List.filter_eq_nil_iff]
  intro ch hch
  have := (h ch hch).1
  simpa using this

/-- the format in use is clean and counted as a single line -/
def FormatInv (s : State) : Prop :=
  (∀ f, s.format = some f → Clean f) ∧ s.formatLineCount = 0 ∧ CleanMsgs s.messages

theorem ensureFormat_inv (c : Config) (s : State) (hc : CleanCfg c) (h : FormatInv s) :
    FormatInv (ensureFormat c s) ∧ ∃ f, (ensureFormat c s).format = some f := by
  unfold ensureFormat
  cases hf : s.format with
  | some f => simp only; exact ⟨h, f, hf⟩
  | none =>
    dsimp only
    have hchosen : Clean (match c.internalFormat with
        | some f => if f.isEmpty then bestFormat c.verbosity s.max else f
        | none => bestFormat c.verbosity s.max) := by
      cases hi : c.internalFormat with
      | none => exact bestFormat_clean _ _
      | some f =>
        dsimp only
        split
        · exact bestFormat_clean _ _
        · exact hc.1 f hi
    have hreal := realFormat_clean s.max _ hchosen
    refine ⟨⟨?_, countNL_clean _ hreal, h.2.2⟩, _, rfl⟩
    intro f hf'
    injection hf' with hf'
    rw [← hf']; exact hreal


/-! ### every call keeps the invariant and draws clean frames -/

theorem secClear_messages (c : Config) (s : State) (n : Nat) : (secClear c s n).1.messages = s.messages := by
  unfold secClear; split <;> simp

theorem secWrite_messages (c : Config) (s : State) (x : Str) : (secWrite c s x).1.messages = s.messages := by
  unfold secWrite; split <;> simp

theorem overwrite_messages (c : Config) (s : State) (t : Nat) (msg : Str) :
    (overwrite c s t msg).1.messages = s.messages := by
  unfold overwrite overwriteWith
  cases hk : c.kind <;> simp [secClear_messages, secWrite_messages]

theorem overwrite_inv (c : Config) (s : State) (t : Nat) (msg : Str) (h : FormatInv s) :
    FormatInv (overwrite c s t msg).1 := by
  unfold FormatInv
  rw [(overwrite_fields c s t msg).2.2.2.2.2.2.1, (overwrite_fields c s t msg).2.2.2.2.2.1,
    overwrite_messages]
  exact h

theorem buildLine_clean (c : Config) (s : State) (t : Nat) (text : Str) (hc : CleanCfg c)
    (h : FormatInv s) (hb : buildLine c s t = .ok text) : Clean text := by
  unfold buildLine pieces at hb
  refine renderPieces_clean c s t hc h.2.2 _ text ?_ hb
  cases hf : s.format with
  | none => intro p hp; simp [parseTpl] at hp
  | some f => exact parseTpl_clean _ f (h.1 f hf)

theorem display_clean (c : Config) (s : State) (t : Nat) (hc : CleanCfg c) (h : FormatInv s) :
    FormatInv (display c s t).st ∧ ∀ f, (display c s t).frame = some f → Clean f.text := by
  have he := (ensureFormat_inv c s hc h).1
  cases hq : c.quiet
  · cases hb : buildLine c (ensureFormat c s) t with
    | error e => rw [display_error c s t hq e hb]; exact ⟨he, by intro f hf; cases hf⟩
    | ok text =>
      rw [display_ok c s t hq text hb]
      refine ⟨overwrite_inv c _ t text he, ?_⟩
      intro f hf
      cases hf
      exact buildLine_clean c _ t text hc he hb
  · rw [display_quiet c s t hq]; exact ⟨h, by intro f hf; cases hf⟩

theorem setProgress_clean (c : Config) (s : State) (t : Nat) (k : Int) (hc : CleanCfg c) (h : FormatInv s) :
    FormatInv (setProgress c s t k).st ∧ ∀ f, (setProgress c s t k).frame = some f → Clean f.text := by
  rw [setProgress_eq]
  have hp : FormatInv (progressed s k) := h
  have := display_clean c (progressed s k) t hc hp
  cases decide' c s t (newMax s k) k.toNat
  · exact this
  · exact ⟨hp, by intro f hf; cases hf⟩
  · exact this
  · exact ⟨hp, by intro f hf; cases hf⟩

/-- the texts passed to `set_message` have no line break / CR -/
def CleanOp : Op → Prop
  | .setMessage text => Clean text
  | _ => True

theorem step_clean (c : Config) (s : State) (op : Op) (t : Nat) (hc : CleanCfg c) (hop : CleanOp op)
    (h : FormatInv s) :
    FormatInv (step c s op t).st ∧ ∀ f, (step c s op t).frame = some f → Clean f.text := by
  cases op with
  | start m =>
    cases m with
    | none => exact display_clean c _ t hc h
    | some m => exact display_clean c _ t hc h
  | advance k => exact setProgress_clean c s t _ hc h
  | setProgress k => exact setProgress_clean c s t _ hc h
  | display => exact display_clean c s t hc h
  | clear =>
    simp only [step, clear]
    split
    · exact ⟨h, by intro f hf; cases hf⟩
    · exact ⟨overwrite_inv c _ t _ (ensureFormat_inv c s hc h).1, by intro f hf; cases hf⟩
  | finish =>
    simp only [step]
    rw [finish_eq]
    have hf : FormatInv (finished s) := by unfold finished; split <;> exact h
    split
    · exact ⟨hf, by intro f hf; cases hf⟩
    · exact setProgress_clean c _ t _ hc hf
  | setMessage text =>
    exact ⟨⟨h.1, h.2.1, dictSet_clean _ _ _ h.2.2 hop⟩, by intro f hf; cases hf⟩

theorem init_formatInv (m : Int) (t0 : Nat) : FormatInv (init m t0) := by
  refine ⟨by intro f hf; simp [init] at hf, rfl, ?_⟩
  intro kv hkv; simp [init] at hkv

/-- from clean inputs: every event of a history has `formatLineCount = 0` and clean frame texts -/
theorem run_clean (c : Config) (hc : CleanCfg c) (ops : List (Op × Nat)) :
    ∀ (s : State), FormatInv s → (∀ x ∈ ops, CleanOp x.1) →
      ∀ e ∈ run c s ops, e.res.st.formatLineCount = 0 ∧ ∀ f, e.res.frame = some f → Clean f.text := by
  induction ops with
  | nil => intro s _ _ e he; simp [run] at he
  | cons x rest ih =>
    obtain ⟨op, t⟩ := x
    intro s hs hops e he
    have hstep := step_clean c s op t hc (hops (op, t) (by simp)) hs
    rw [run_cons] at he
    cases he with
    | head => exact ⟨hstep.1.2.1, hstep.2⟩
    | tail _ h => exact ih _ hstep.1 (fun y hy => hops y (by simp [hy])) e h

/-! ### the deciders of the model decide the hypotheses -/

theorem cleanB_iff (s : Str) : cleanB s = true ↔ Clean s := by
  simp [cleanB, Clean]

theorem singleCharsB_iff (c : Config) : singleCharsB c = true ↔ SingleChars c := by
  unfold singleCharsB SingleChars
  cases c.barChar <;> simp [and_assoc]

theorem barWidthOkB_iff (c : Config) : barWidthOkB c = true ↔ c.barWidth < 2 ^ 52 := by
  simp [barWidthOkB]

theorem cleanCfgB_iff (c : Config) : cleanCfgB c = true ↔ CleanCfg c := by
  unfold cleanCfgB CleanCfg
  cases c.internalFormat <;> cases c.barChar <;> simp [cleanB_iff, and_assoc]

theorem cleanOpB_iff (op : Op) : cleanOpB op = true ↔ CleanOp op := by
  cases op <;> simp [cleanOpB, CleanOp, cleanB_iff]

theorem cleanOpsB_iff (ops : List (Op × Nat)) : cleanOpsB ops = true ↔ ∀ x ∈ ops, CleanOp x.1 := by
  simp [cleanOpsB, cleanOpB_iff]

theorem noErrB_iff (evs : List Event) : noErrB evs = true ↔ ∀ e ∈ evs, e.res.err = none := by
  simp [noErrB]

end Clikit.Progress
