import Clikit.Model.Spinner
/-!
Lemmas about the spinner model (C19): the one-line terminal under whole-frame writes, the invariants
of the two-thread semantics (for every schedule), the end-message invariant, and the ranking function
that bounds the spinner's own steps once the event is set.  Core Lean only.
-/
namespace Clikit.Spinner

/-! ### Terminal -/
def cleanCh (ch : Char) : Bool := ch != '\r' && ch != '\n' && ch != ESC
def clean (s : Str) : Bool := s.all cleanCh

theorem putAt_end (l : Str) (ch : Char) : putAt l l.length ch = l ++ [ch] := by
  simp [putAt]

theorem feed1_clean (lines : List Str) (pre : Str) (ch : Char) (h : cleanCh ch = true) :
    Term.feed1 ⟨lines, pre, pre.length, 0⟩ ch = ⟨lines, pre ++ [ch], (pre ++ [ch]).length, 0⟩ := by
  simp only [cleanCh, Bool.and_eq_true, bne_iff_ne, ne_eq] at h
  simp [Term.feed1, h.1.1, h.1.2, h.2, putAt_end]

theorem feed_clean (text : Str) : ∀ (lines : List Str) (pre : Str), clean text = true →
    Term.feed ⟨lines, pre, pre.length, 0⟩ text = ⟨lines, pre ++ text, (pre ++ text).length, 0⟩ := by
  induction text with
  | nil => intro lines pre _; simp [Term.feed]
  | cons ch r ih =>
    intro lines pre h
    simp only [clean, List.all_cons, Bool.and_eq_true] at h
    have := ih lines (pre ++ [ch]) (by simpa [clean] using h.2)
    simp only [Term.feed, List.foldl_cons] at this ⊢
    rw [feed1_clean lines pre ch h.1, this]
    simp

theorem feed_append (t : Term) (a b : Str) : t.feed (a ++ b) = (t.feed a).feed b := by
  simp [Term.feed, List.foldl_append]

theorem feed_crEl (lines : List Str) (l : Str) (col : Nat) :
    Term.feed ⟨lines, l, col, 0⟩ crEl = ⟨lines, [], 0, 0⟩ := by
  simp [Term.feed, crEl, Term.feed1, ESC]

theorem feed_nl (lines : List Str) (l : Str) (col : Nat) :
    Term.feed ⟨lines, l, col, 0⟩ nl = ⟨lines ++ [l], [], 0, 0⟩ := by
  simp [Term.feed, nl, Term.feed1]

theorem feed_frame (lines : List Str) (l : Str) (col : Nat) (text : Str) (h : clean text = true) :
    Term.feed ⟨lines, l, col, 0⟩ (crEl ++ text) = ⟨lines, text, text.length, 0⟩ := by
  rw [feed_append, feed_crEl]
  simpa using feed_clean text lines [] h

theorem feed_plain (lines : List Str) (text : Str) (h : clean text = true) :
    Term.feed ⟨lines, [], 0, 0⟩ (text ++ nl) = ⟨lines ++ [text], [], 0, 0⟩ := by
  rw [feed_append]
  have := feed_clean text lines [] h
  simp only [List.nil_append, List.length_nil] at this
  rw [this, feed_nl]

/-- A write is a *unit*: the newline, or one whole frame whose text is admissible (`F`). -/
inductive IsUnit (ansi : Bool) (F : Str → Prop) : Str → Prop where
  | nl : IsUnit ansi F nl
  | frame (text : Str) : F text → IsUnit ansi F (if ansi then crEl ++ text else text ++ nl)

/-- The terminal shows complete frames only. -/
structure Term.Good (ansi : Bool) (F : Str → Prop) (t : Term) : Prop where
  esc : t.esc = 0
  plain : ansi = false → t.line = [] ∧ t.col = 0
  line : (t.line = [] ∧ t.col = 0) ∨ (F t.line ∧ t.col = t.line.length)
  lines : ∀ l ∈ t.lines, l = [] ∨ F l

theorem good_init (ansi : Bool) (F : Str → Prop) : Term.Good ansi F Term.init :=
  ⟨rfl, fun _ => ⟨rfl, rfl⟩, .inl ⟨rfl, rfl⟩, by simp [Term.init]⟩

theorem good_feed {ansi : Bool} {F : Str → Prop} (hF : ∀ t, F t → clean t = true) {t : Term} {w : Str}
    (ht : Term.Good ansi F t) (hw : IsUnit ansi F w) : Term.Good ansi F (t.feed w) := by
  obtain ⟨lines, line, col, esc⟩ := t
  obtain ⟨he, hp, hl, hls⟩ := ht
  simp only at he hp hl hls
  subst he
  cases hw with
  | nl =>
    rw [feed_nl]
    refine ⟨rfl, fun _ => ⟨rfl, rfl⟩, .inl ⟨rfl, rfl⟩, ?_⟩
    intro l hl'
    simp only [List.mem_append, List.mem_singleton] at hl'
    rcases hl' with h | h
    · exact hls l h
    · subst h; rcases hl with h | h
      · exact .inl h.1
      · exact .inr h.1
  | frame text hf =>
    cases ansi with
    | true =>
      simp only [if_true]
      rw [feed_frame _ _ _ _ (hF _ hf)]
      exact ⟨rfl, fun h => (by cases h), .inr ⟨hf, rfl⟩, hls⟩
    | false =>
      obtain ⟨h1, h2⟩ := hp rfl
      subst h1; subst h2
      simp only [Bool.false_eq_true, if_false]
      rw [feed_plain _ _ (hF _ hf)]
      refine ⟨rfl, fun _ => ⟨rfl, rfl⟩, .inl ⟨rfl, rfl⟩, ?_⟩
      intro l hl'
      simp only [List.mem_append, List.mem_singleton] at hl'
      rcases hl' with h | h
      · exact hls l h
      · subst h; exact .inr hf

theorem good_foldl {ansi : Bool} {F : Str → Prop} (hF : ∀ t, F t → clean t = true) :
    ∀ (ws : List Str) (t : Term), Term.Good ansi F t → (∀ w ∈ ws, IsUnit ansi F w) →
      Term.Good ansi F (ws.foldl Term.feed t) := by
  intro ws
  induction ws with
  | nil => intro t ht _; exact ht
  | cons w r ih =>
    intro t ht h
    simp only [List.foldl_cons]
    exact ih _ (good_feed hF ht (h w (by simp))) (fun w' hw' => h w' (by simp [hw']))

/-- After any sequence of unit writes the line shown is blank or exactly one admissible frame,
and so is every completed line. -/
theorem termOf_units {ansi : Bool} {F : Str → Prop} (hF : ∀ t, F t → clean t = true)
    (ws : List Str) (h : ∀ w ∈ ws, IsUnit ansi F w) : Term.Good ansi F (termOf ws) :=
  good_foldl hF ws _ (good_init ansi F) h

/-! ### Runs and invariants -/

theorem runG_nil (old : Proto) (cfg : Cfg) (c : St) : runG old cfg [] c = c := rfl
theorem runG_cons (old : Proto) (cfg : Cfg) (ch : Choice) (s : Schedule) (c : St) :
    runG old cfg (ch :: s) c = runG old cfg s (stepG old cfg c ch) := rfl
theorem runG_append (old : Proto) (cfg : Cfg) (s s' : Schedule) (c : St) :
    runG old cfg (s ++ s') c = runG old cfg s' (runG old cfg s c) := by
  simp [runG, List.foldl_append]

/-- An invariant of single steps holds after every schedule. -/
theorem inv_runG {old : Proto} {cfg : Cfg} {P : St → Prop}
    (hstep : ∀ c ch, P c → P (stepG old cfg c ch)) : ∀ (s : Schedule) (c : St), P c → P (runG old cfg s c) := by
  intro s
  induction s with
  | nil => intro c h; exact h
  | cons ch r ih => intro c h; exact ih _ (hstep c ch h)

/-- main is past its `join` (or has left the block in a way the code handles) -/
def pastJoin : MainPc → Bool
  | .writing _ .finEnd => true
  | .exited .normal => true
  | .exited (.raised _) => true
  | _ => false

def beforeSpawn : MainPc → Bool
  | .begin | .writing _ .spawn | .spawn => true
  | _ => false

def needsStarted : MainPc → Bool
  | .begin | .exited .normal | .exited (.error _) => false
  | _ => true

/-- main has executed `Event.set` -/
def afterSet : MainPc → Bool
  | .excJoin _ | .finJoin | .writing _ .finEnd | .exited .normal | .exited (.raised _) => true
  | _ => false

structure Inv (c : St) : Prop where
  joined : pastJoin c.main = true → c.spin = .done
  spawned : beforeSpawn c.main = true ↔ c.spin = .notStarted
  started : needsStarted c.main = true → c.started = true
  fresh : c.main = .begin → c.started = false
  noCrash : c.crashed = false
  noErr : ∀ e, c.main ≠ .exited (.error e)
  flagIff : c.flag = true ↔ afterSet c.main = true
  doneFlag : c.spin = .done → c.flag = true

theorem inv_init : Inv init := by
  refine ⟨?_, ?_, ?_, ?_, ?_, ?_, ?_, ?_⟩ <;> simp [init, pastJoin, beforeSpawn, needsStarted, afterSet]

/-- `advance()` in the spinner thread always finds the indicator started. -/
theorem started_at_test {c : St} (h : Inv c) (hs : c.spin = .test) (hf : c.flag = false) : c.started = true := by
  obtain ⟨h1, h2, h3, h4, h5, h6, h7, h8⟩ := h
  cases hm : c.main with
  | exited o => cases o <;> simp_all [pastJoin, beforeSpawn, needsStarted, afterSet]
  | _ => simp_all [pastJoin, beforeSpawn, needsStarted, afterSet]

theorem inv_stepSpin (old : Proto) (cfg : Cfg) (c : St) (h : Inv c) : Inv (stepSpin old cfg c) := by
  have hst := started_at_test h
  obtain ⟨h1, h2, h3, h4, h5, h6, h7, h8⟩ := h
  unfold stepSpin
  split
  · exact ⟨h1, h2, h3, h4, h5, h6, h7, h8⟩
  · exact ⟨h1, h2, h3, h4, h5, h6, h7, h8⟩
  all_goals
    repeat' split
  all_goals
    refine ⟨?_, ?_, ?_, ?_, ?_, ?_, ?_, ?_⟩ <;> simp_all [toSleep]

theorem inv_nextBody (old : Proto) (cfg : Cfg) (c : St) (rest : List BodyOp)
    (hs : c.spin ≠ .notStarted) (hst : c.started = true) (hc : c.crashed = false)
    (hf : c.flag = false) (hd : c.spin ≠ .done) : Inv (nextBody old cfg c rest) := by
  unfold nextBody
  split
  all_goals
    repeat' split
  all_goals
    refine ⟨?_, ?_, ?_, ?_, ?_, ?_, ?_, ?_⟩ <;>
      simp_all [pastJoin, beforeSpawn, needsStarted, afterSet]

theorem inv_contMain (old : Proto) (cfg : Cfg) (c : St) (p : List Str) (k : MainK)
    (h : Inv { c with main := .writing p k }) : Inv (contMain old cfg c k) := by
  obtain ⟨h1, h2, h3, h4, h5, h6, h7, h8⟩ := h
  cases k with
  | spawn =>
    refine ⟨?_, ?_, ?_, ?_, ?_, ?_, ?_, ?_⟩ <;>
      simp_all [contMain, pastJoin, beforeSpawn, needsStarted, afterSet]
  | body rest =>
    simp only [contMain]
    apply inv_nextBody <;> simp_all [pastJoin, beforeSpawn, needsStarted, afterSet]
  | excSet k =>
    refine ⟨?_, ?_, ?_, ?_, ?_, ?_, ?_, ?_⟩ <;>
      simp_all [contMain, pastJoin, beforeSpawn, needsStarted, afterSet]
  | finEnd =>
    refine ⟨?_, ?_, ?_, ?_, ?_, ?_, ?_, ?_⟩ <;>
      simp_all [contMain, pastJoin, beforeSpawn, needsStarted, afterSet]

theorem inv_stepMain (old : Proto) (cfg : Cfg) (c : St) (h : Inv c) : Inv (stepMain old cfg c) := by
  unfold stepMain
  split
  · -- begin
    obtain ⟨h1, h2, h3, h4, h5, h6, h7, h8⟩ := h
    split
    · simp_all
    · refine ⟨?_, ?_, ?_, ?_, ?_, ?_, ?_, ?_⟩ <;>
        simp_all [pastJoin, beforeSpawn, needsStarted, afterSet]
  · -- writing []
    rename_i k hm
    exact inv_contMain old cfg c [] k (by rw [← hm]; exact h)
  · -- writing [b]
    rename_i b k hm
    apply inv_contMain old cfg _ [b] k
    obtain ⟨h1, h2, h3, h4, h5, h6, h7, h8⟩ := h
    refine ⟨?_, ?_, ?_, ?_, ?_, ?_, ?_, ?_⟩ <;> simp_all
  · -- writing (b :: p)
    rename_i b p k hm hp
    obtain ⟨h1, h2, h3, h4, h5, h6, h7, h8⟩ := h
    cases k <;>
    (refine ⟨?_, ?_, ?_, ?_, ?_, ?_, ?_, ?_⟩ <;>
      simp_all [pastJoin, beforeSpawn, needsStarted, afterSet])
  · -- spawn
    rename_i hm
    obtain ⟨h1, h2, h3, h4, h5, h6, h7, h8⟩ := h
    apply inv_nextBody <;> simp_all [pastJoin, beforeSpawn, needsStarted, afterSet]
  · -- working
    rename_i w rest hm
    split
    · obtain ⟨h1, h2, h3, h4, h5, h6, h7, h8⟩ := h
      apply inv_nextBody <;> simp_all [pastJoin, beforeSpawn, needsStarted, afterSet]
    · exact h
  · -- excSet
    obtain ⟨h1, h2, h3, h4, h5, h6, h7, h8⟩ := h
    refine ⟨?_, ?_, ?_, ?_, ?_, ?_, ?_, ?_⟩ <;>
      simp_all [pastJoin, beforeSpawn, needsStarted, afterSet]
  · -- excJoin
    rename_i k hm
    have h' := h
    obtain ⟨h1, h2, h3, h4, h5, h6, h7, h8⟩ := h
    split
    · refine ⟨?_, ?_, ?_, ?_, ?_, ?_, ?_, ?_⟩ <;>
        simp_all [pastJoin, beforeSpawn, needsStarted, afterSet]
    · split
      · simp_all [pastJoin, beforeSpawn, needsStarted, afterSet]
      · exact h'
  · -- finSet
    obtain ⟨h1, h2, h3, h4, h5, h6, h7, h8⟩ := h
    refine ⟨?_, ?_, ?_, ?_, ?_, ?_, ?_, ?_⟩ <;>
      simp_all [pastJoin, beforeSpawn, needsStarted, afterSet]
  · -- finJoin
    have h' := h
    obtain ⟨h1, h2, h3, h4, h5, h6, h7, h8⟩ := h
    split
    · refine ⟨?_, ?_, ?_, ?_, ?_, ?_, ?_, ?_⟩ <;>
        simp_all [pastJoin, beforeSpawn, needsStarted, afterSet]
    · split
      · simp_all [pastJoin, beforeSpawn, needsStarted, afterSet]
      · exact h'
  · exact h

/-! ### Every write is a whole frame (code as it is: one write per frame) -/

/-- admissible frame texts of a configuration: an indicator value and one of the run's messages, in the format -/
def FrameText (cfg : Cfg) (text : Str) : Prop :=
  ∃ i m, m ∈ msgs cfg ∧ text = render cfg.fmt (value cfg i) m

abbrev UnitW (cfg : Cfg) (w : Str) : Prop := IsUnit cfg.ansi (FrameText cfg) w

def restOf : MainPc → List BodyOp
  | .writing _ (.body r) | .working _ r => r
  | _ => []

theorem bodyMsgs_tail (op : BodyOp) (r : List BodyOp) (m : Str) (h : m ∈ bodyMsgs r) : m ∈ bodyMsgs (op :: r) := by
  cases op <;> simp [bodyMsgs, h]

theorem unit_frameWrites (cfg : Cfg) (c : St) (hm : c.message ∈ msgs cfg) :
    ∀ b ∈ frameWrites .now cfg (frameText cfg c), UnitW cfg b := by
  intro b hb
  have hf : FrameText cfg (frameText cfg c) := ⟨c.current, c.message, hm, rfl⟩
  have := IsUnit.frame (ansi := cfg.ansi) (F := FrameText cfg) _ hf
  unfold frameWrites at hb
  cases ha : cfg.ansi <;> simp_all [UnitW]

theorem frameWrites_len (cfg : Cfg) (t : Str) : (frameWrites .now cfg t).length = 1 := by
  unfold frameWrites; cases cfg.ansi <;> simp

structure FInv (cfg : Cfg) (c : St) : Prop where
  out : ∀ w ∈ c.out, UnitW cfg w.2
  pendM : ∀ p k, c.main = .writing p k → ∀ b ∈ p, UnitW cfg b
  pendS : ∀ p, c.spin = .write p → (∀ b ∈ p, UnitW cfg b) ∧ p.length ≤ 1
  msg : c.main = .begin ∨ c.message ∈ msgs cfg
  rest : ∀ m ∈ bodyMsgs (restOf c.main), m ∈ msgs cfg

theorem finv_init (cfg : Cfg) : FInv cfg init := by
  refine ⟨?_, ?_, ?_, ?_, ?_⟩ <;> simp [init, restOf, bodyMsgs]

theorem finv_nextBody (cfg : Cfg) (c : St) (rest : List BodyOp)
    (h1 : ∀ w ∈ c.out, UnitW cfg w.2)
    (h3 : ∀ p, c.spin = .write p → (∀ b ∈ p, UnitW cfg b) ∧ p.length ≤ 1)
    (h4 : c.message ∈ msgs cfg)
    (h5 : ∀ m ∈ bodyMsgs rest, m ∈ msgs cfg) : FInv cfg (nextBody .now cfg c rest) := by
  unfold nextBody
  split
  · rename_i m r
    have hm : m ∈ msgs cfg := h5 m (by simp [bodyMsgs])
    refine ⟨h1, ?_, h3, .inr hm, ?_⟩
    · intro p k hp b hb
      simp only [MainPc.writing.injEq] at hp
      rw [← hp.1] at hb
      exact unit_frameWrites cfg { c with message := m } hm b hb
    · intro m' hm'
      exact h5 m' (bodyMsgs_tail _ _ _ (by simpa [restOf] using hm'))
  · rename_i d r
    refine ⟨h1, by simp, h3, .inr h4, ?_⟩
    intro m' hm'
    exact h5 m' (bodyMsgs_tail _ _ _ (by simpa [restOf] using hm'))
  · split
    · refine ⟨h1, ?_, h3, .inr h4, by simp [restOf, bodyMsgs]⟩
      intro p k hp b hb
      simp only [MainPc.writing.injEq] at hp
      rw [← hp.1] at hb
      simp only [List.mem_singleton] at hb
      subst hb; exact IsUnit.nl
    · exact ⟨h1, by simp, h3, .inr h4, by simp [restOf, bodyMsgs]⟩
  all_goals
    split
    · exact ⟨h1, by simp, h3, .inr h4, by simp [restOf, bodyMsgs]⟩
    · exact ⟨h1, by simp, h3, .inr h4, by simp [restOf, bodyMsgs]⟩

theorem finv_stepSpin (cfg : Cfg) (c : St) (hi : Inv c) (h : FInv cfg c) : FInv cfg (stepSpin .now cfg c) := by
  obtain ⟨h1, h2, h3, h4, h5⟩ := h
  have hmsg : c.spin ≠ .notStarted → c.message ∈ msgs cfg := by
    intro hs
    rcases h4 with hb | hm
    · exact absurd (hi.spawned.mp (by simp [hb, beforeSpawn])) hs
    · exact hm
  unfold stepSpin
  split
  · exact ⟨h1, h2, h3, h4, h5⟩
  · exact ⟨h1, h2, h3, h4, h5⟩
  · exact ⟨h1, h2, by simp, h4, h5⟩
  · -- test
    rename_i hs
    have hm := hmsg (by simp [hs])
    repeat' split
    · exact ⟨h1, h2, by simp, h4, h5⟩
    · exact ⟨h1, h2, by simp, h4, h5⟩
    · exact ⟨h1, h2, by simp [toSleep], h4, h5⟩
    · exact ⟨h1, h2, by simp [toSleep], h4, h5⟩
    · refine ⟨h1, h2, ?_, h4, h5⟩
      intro p hp
      simp only [SpinPc.write.injEq] at hp
      subst hp
      exact ⟨unit_frameWrites cfg _ hm, by simp [frameWrites_len]⟩
  · exact ⟨h1, h2, by simp [toSleep], h4, h5⟩
  · -- write [b]
    rename_i b hs
    have hb := (h3 [b] hs).1 b (by simp)
    refine ⟨?_, h2, by simp [toSleep], h4, h5⟩
    intro w hw
    simp only [toSleep, List.mem_cons] at hw
    rcases hw with rfl | hw
    · exact hb
    · exact h1 w hw
  · -- write (b :: p)
    rename_i b p hp hs
    have := (h3 (b :: p) hs).2
    cases p with
    | nil => simp at hp
    | cons _ _ => simp at this
  · split
    · exact ⟨h1, h2, by simp, h4, h5⟩
    · exact ⟨h1, h2, h3, h4, h5⟩

theorem finv_contMain (cfg : Cfg) (c : St) (p : List Str) (k : MainK)
    (h : FInv cfg { c with main := .writing p k }) : FInv cfg (contMain .now cfg c k) := by
  obtain ⟨h1, h2, h3, h4, h5⟩ := h
  simp only at h1 h2 h3 h4 h5
  have hm : c.message ∈ msgs cfg := by
    rcases h4 with h | h
    · cases h
    · exact h
  cases k with
  | spawn => exact ⟨h1, by simp [contMain], h3, .inr hm, by simp [contMain, restOf, bodyMsgs]⟩
  | body rest => exact finv_nextBody cfg c rest h1 h3 hm (by simpa [restOf] using h5)
  | excSet k => exact ⟨h1, by simp [contMain], h3, .inr hm, by simp [contMain, restOf, bodyMsgs]⟩
  | finEnd => exact ⟨h1, by simp [contMain], h3, .inr hm, by simp [contMain, restOf, bodyMsgs]⟩

theorem startMsg_mem (cfg : Cfg) : cfg.startMsg ∈ msgs cfg := by simp [msgs]
theorem endMsg_mem (cfg : Cfg) : cfg.endMsg ∈ msgs cfg := by simp [msgs]
theorem bodyMsgs_mem (cfg : Cfg) (m : Str) (h : m ∈ bodyMsgs cfg.body) : m ∈ msgs cfg := by simp [msgs, h]

theorem finv_stepMain (cfg : Cfg) (c : St) (hi : Inv c) (h : FInv cfg c) : FInv cfg (stepMain .now cfg c) := by
  have h' := h
  obtain ⟨h1, h2, h3, h4, h5⟩ := h
  unfold stepMain
  split
  · -- begin
    rename_i hm
    have := hi.fresh hm
    simp only [this, Bool.false_eq_true, if_false]
    refine ⟨h1, ?_, h3, .inr (startMsg_mem cfg), by simp [restOf, bodyMsgs]⟩
    intro p k hp b hb
    simp only [MainPc.writing.injEq] at hp
    rw [← hp.1] at hb
    exact unit_frameWrites cfg _ (startMsg_mem cfg) b hb
  · -- writing []
    rename_i k hm
    exact finv_contMain cfg c [] k ⟨h1, by simp, h3, by rw [← hm]; exact h4, by rw [← hm]; exact h5⟩
  · -- writing [b]
    rename_i b k hm
    apply finv_contMain cfg _ [b] k
    refine ⟨?_, ?_, h3, by rw [← hm]; exact h4, by rw [← hm]; exact h5⟩
    · intro w hw
      simp only [List.mem_cons] at hw
      rcases hw with rfl | hw
      · exact h2 [b] k hm b (by simp)
      · exact h1 w hw
    · intro p k' hp b' hb'
      simp only [MainPc.writing.injEq] at hp
      rw [← hp.1] at hb'
      exact h2 [b] k hm b' hb'
  · -- writing (b :: p)
    rename_i b p k hp hm
    refine ⟨?_, ?_, h3, ?_, ?_⟩
    · intro w hw
      simp only [List.mem_cons] at hw
      rcases hw with rfl | hw
      · exact h2 (b :: p) k hm b (by simp)
      · exact h1 w hw
    · intro p' k' hp' b' hb'
      simp only [MainPc.writing.injEq] at hp'
      rw [← hp'.1] at hb'
      exact h2 (b :: p) k hm b' (by simp [hb'])
    · rcases h4 with h | h
      · rw [hm] at h; cases h
      · exact .inr h
    · rw [hm] at h5; cases k <;> simpa [restOf] using h5
  · -- spawn
    rename_i hm
    apply finv_nextBody
    · exact h1
    · intro p hp
      simp only at hp
      split at hp
      · cases hp
      · exact h3 p hp
    · rcases h4 with h | h
      · rw [hm] at h; cases h
      · exact h
    · exact fun m hm' => bodyMsgs_mem cfg m hm'
  · -- working
    rename_i w rest hm
    split
    · apply finv_nextBody cfg c rest h1 h3
      · rcases h4 with h | h
        · rw [hm] at h; cases h
        · exact h
      · rw [hm] at h5; simpa [restOf] using h5
    · exact h'
  · -- excSet
    rename_i k hm
    refine ⟨h1, by simp, h3, ?_, by simp [restOf, bodyMsgs]⟩
    rcases h4 with h | h
    · rw [hm] at h; cases h
    · exact .inr h
  · -- excJoin
    rename_i k hm
    have hmsg : c.message ∈ msgs cfg := by
      rcases h4 with h | h
      · rw [hm] at h; cases h
      · exact h
    repeat' split
    · exact ⟨h1, by simp, h3, .inr hmsg, by simp [restOf, bodyMsgs]⟩
    · exact ⟨h1, by simp, h3, .inr hmsg, by simp [restOf, bodyMsgs]⟩
    · exact h'
  · -- finSet
    rename_i hm
    refine ⟨h1, by simp, h3, ?_, by simp [restOf, bodyMsgs]⟩
    rcases h4 with h | h
    · rw [hm] at h; cases h
    · exact .inr h
  · -- finJoin
    rename_i hm
    have hmsg : c.message ∈ msgs cfg := by
      rcases h4 with h | h
      · rw [hm] at h; cases h
      · exact h
    repeat' split
    · refine ⟨h1, ?_, h3, .inr (endMsg_mem cfg), by simp [restOf, bodyMsgs]⟩
      intro p k hp b hb
      simp only [MainPc.writing.injEq] at hp
      rw [← hp.1] at hb
      simp only [List.mem_append, List.mem_singleton] at hb
      rcases hb with hb | rfl
      · exact unit_frameWrites cfg _ (endMsg_mem cfg) b hb
      · exact IsUnit.nl
    · exact ⟨h1, by simp, h3, .inr hmsg, by simp [restOf, bodyMsgs]⟩
    · exact h'
  · exact h'

/-- Both invariants hold in every reachable configuration of the code as it is. -/
theorem reach_inv (cfg : Cfg) (s : Schedule) : Inv (run cfg s init) ∧ FInv cfg (run cfg s init) := by
  apply inv_runG (P := fun c => Inv c ∧ FInv cfg c) (old := .now) (cfg := cfg)
  · intro c ch ⟨hi, hf⟩
    cases ch with
    | main => exact ⟨inv_stepMain .now cfg c hi, finv_stepMain cfg c hi hf⟩
    | spin => exact ⟨inv_stepSpin .now cfg c hi, finv_stepSpin cfg c hi hf⟩
    | tick dt =>
      obtain ⟨a1, a2, a3, a4, a5, a6, a7, a8⟩ := hi
      obtain ⟨b1, b2, b3, b4, b5⟩ := hf
      exact ⟨⟨a1, a2, a3, a4, a5, a6, a7, a8⟩, ⟨b1, b2, b3, b4, b5⟩⟩
  · exact ⟨inv_init, finv_init cfg⟩

theorem reach_invG (old : Proto) (cfg : Cfg) (s : Schedule) : Inv (runG old cfg s init) := by
  apply inv_runG (P := Inv) (old := old) (cfg := cfg)
  · intro c ch hi
    cases ch with
    | main => exact inv_stepMain old cfg c hi
    | spin => exact inv_stepSpin old cfg c hi
    | tick dt =>
      obtain ⟨a1, a2, a3, a4, a5, a6, a7, a8⟩ := hi
      exact ⟨a1, a2, a3, a4, a5, a6, a7, a8⟩
  · exact inv_init

/-! ### The end message is the last frame of a normal exit -/

def endText (cfg : Cfg) : Str := render cfg.fmt (value cfg 0) cfg.endMsg
/-- the stream write of the end-message frame -/
def endBytes (cfg : Cfg) : Str := if cfg.ansi then crEl ++ endText cfg else endText cfg ++ nl

def EInv (cfg : Cfg) (c : St) : Prop :=
  match c.main with
  | .writing p .finEnd =>
      p = [endBytes cfg, nl] ∨ (p = [nl] ∧ ∃ r, c.out = (.main, endBytes cfg) :: r)
  | .exited .normal => ∃ r, c.out = (.main, nl) :: (.main, endBytes cfg) :: r
  | _ => True

theorem stepSpin_main (old : Proto) (cfg : Cfg) (c : St) : (stepSpin old cfg c).main = c.main := by
  unfold stepSpin
  repeat' split
  all_goals rfl

theorem stepSpin_done (old : Proto) (cfg : Cfg) (c : St) (h : c.spin = .done) : stepSpin old cfg c = c := by
  unfold stepSpin; simp [h]

theorem einv_stepSpin (old : Proto) (cfg : Cfg) (c : St) (hi : Inv c) (h : EInv cfg c) : EInv cfg (stepSpin old cfg c) := by
  by_cases hp : pastJoin c.main = true
  · rw [stepSpin_done old cfg c (hi.joined hp)]; exact h
  · unfold EInv
    rw [stepSpin_main]
    split
    · rename_i hm; simp [hm, pastJoin] at hp
    · rename_i hm; simp [hm, pastJoin] at hp
    · trivial

theorem einv_nextBody (cfg : Cfg) (c : St) (rest : List BodyOp) : EInv cfg (nextBody .now cfg c rest) := by
  unfold nextBody
  repeat' split
  all_goals simp [EInv]

theorem frameWrites_end (cfg : Cfg) (c : St) :
    frameWrites .now cfg (frameText cfg { c with message := cfg.endMsg, current := 0 }) = [endBytes cfg] := by
  unfold frameWrites endBytes frameText endText
  cases cfg.ansi <;> simp

theorem einv_stepMain (cfg : Cfg) (c : St) (h : EInv cfg c) : EInv cfg (stepMain .now cfg c) := by
  unfold stepMain
  split
  · split <;> simp [EInv]
  · -- writing []
    rename_i k hm
    cases k with
    | body rest => exact einv_nextBody cfg c rest
    | finEnd => simp [EInv, hm] at h
    | _ => simp [contMain, EInv]
  · -- writing [b]
    rename_i b k hm
    cases k with
    | body rest => exact einv_nextBody cfg _ rest
    | finEnd =>
      simp only [EInv, hm] at h
      rcases h with h | ⟨h, r, hr⟩
      · simp at h
      · simp only [List.cons.injEq, and_true] at h
        subst h
        simp [contMain, EInv, hr]
    | _ => simp [contMain, EInv]
  · -- writing (b :: p)
    rename_i b p k hp hm
    cases k with
    | finEnd =>
      simp only [EInv, hm] at h
      rcases h with h | ⟨h, _⟩
      · simp only [List.cons.injEq] at h
        obtain ⟨rfl, rfl⟩ := h
        simp [EInv]
      · simp only [List.cons.injEq] at h
        exact absurd h.2 hp
    | _ => simp [EInv]
  · exact einv_nextBody cfg _ _
  · split
    · exact einv_nextBody cfg _ _
    · exact h
  · simp [EInv]
  · repeat' split
    · simp [EInv]
    · simp [EInv]
    · exact h
  · simp [EInv]
  · repeat' split
    · simp [EInv, frameWrites_end]
    · simp [EInv]
    · exact h
  · exact h

theorem reach_einv (cfg : Cfg) (s : Schedule) : EInv cfg (run cfg s init) := by
  have := inv_runG (P := fun c => Inv c ∧ EInv cfg c) (old := .now) (cfg := cfg) (by
    intro c ch ⟨hi, he⟩
    cases ch with
    | main => exact ⟨inv_stepMain .now cfg c hi, einv_stepMain cfg c he⟩
    | spin => exact ⟨inv_stepSpin .now cfg c hi, einv_stepSpin .now cfg c hi he⟩
    | tick dt =>
      obtain ⟨a1, a2, a3, a4, a5, a6, a7, a8⟩ := hi
      exact ⟨⟨a1, a2, a3, a4, a5, a6, a7, a8⟩, he⟩) s init ⟨inv_init, by simp [EInv, init]⟩
  exact this.2

/-! ### Once the event is set the spinner stops within a fixed number of its own steps -/

/-- upper bound of the number of enabled spinner steps before `done`, once the flag is set -/
def rank : SpinPc → Nat
  | .done | .notStarted => 0
  | .test => 1
  | .sleeping _ | .begin => 2
  | .write p => 3 + p.length

/-- number of spinner steps of a schedule that were enabled when chosen -/
def effSpin (old : Proto) (cfg : Cfg) : Schedule → St → Nat
  | [], _ => 0
  | ch :: s, c => (if ch = .spin ∧ enabledSpin c = true then 1 else 0) + effSpin old cfg s (stepG old cfg c ch)

theorem stepMain_flag (old : Proto) (cfg : Cfg) (c : St) (h : c.flag = true) : (stepMain old cfg c).flag = true := by
  have nb : ∀ (c : St) r, c.flag = true → (nextBody old cfg c r).flag = true := by
    intro c r hc; unfold nextBody; repeat' split
    all_goals exact hc
  have cm : ∀ (c : St) k, c.flag = true → (contMain old cfg c k).flag = true := by
    intro c k hc; cases k <;> simp only [contMain]
    · exact hc
    · exact nb c _ hc
    · exact hc
    · exact hc
  unfold stepMain
  repeat' split
  all_goals first | exact h | rfl | (apply cm; exact h) | (apply nb; exact h)

theorem stepMain_spin (old : Proto) (cfg : Cfg) (c : St) (hs : c.spin ≠ .notStarted) : (stepMain old cfg c).spin = c.spin := by
  have nb : ∀ (c : St) r, (nextBody old cfg c r).spin = c.spin := by
    intro c r; unfold nextBody; repeat' split
    all_goals rfl
  have cm : ∀ (c : St) k, (contMain old cfg c k).spin = c.spin := by
    intro c k; cases k <;> simp only [contMain]
    exact nb c _
  unfold stepMain
  repeat' split
  all_goals first
    | rfl
    | (rw [cm]; done)
    | (rw [nb]; rename_i h; simp at h; exact absurd h hs)
    | (rw [nb]; done)

theorem stepSpin_rank (old : Proto) (cfg : Cfg) (c : St) (hf : c.flag = true) :
    (stepSpin old cfg c).flag = true ∧ (c.spin ≠ .notStarted → (stepSpin old cfg c).spin ≠ .notStarted) ∧
    (if enabledSpin c = true then rank (stepSpin old cfg c).spin < rank c.spin ∨ (stepSpin old cfg c).spin = .done
     else stepSpin old cfg c = c) := by
  unfold stepSpin enabledSpin
  repeat' split
  all_goals simp_all [rank, toSleep]
  all_goals omega

/-- From any configuration with the event set, `rank` enabled spinner steps - at most 4 in the code as it
is, see `rank_le_four` - bring the spinner to `done`, whatever else the schedule does in between. -/
theorem spin_done_within (old : Proto) (cfg : Cfg) : ∀ (s : Schedule) (c : St), c.flag = true → c.spin ≠ .notStarted →
    rank c.spin ≤ effSpin old cfg s c → (runG old cfg s c).spin = .done := by
  intro s
  induction s with
  | nil =>
    intro c _ hs hr
    simp only [effSpin, Nat.le_zero] at hr
    simp only [runG, List.foldl_nil]
    cases h : c.spin <;> simp_all [rank]
  | cons ch r ih =>
    intro c hf hs hr
    rw [runG_cons]
    cases ch with
    | tick dt =>
      apply ih
      · exact hf
      · exact hs
      · simpa [effSpin, stepG] using hr
    | main =>
      apply ih
      · exact stepMain_flag old cfg c hf
      · simp only [stepG]; rw [stepMain_spin old cfg c hs]; exact hs
      · simp only [stepG]; rw [stepMain_spin old cfg c hs]; simpa [effSpin, stepG] using hr
    | spin =>
      obtain ⟨h1, h2, h3⟩ := stepSpin_rank old cfg c hf
      simp only [effSpin, stepG, true_and] at hr
      by_cases he : enabledSpin c = true
      · simp only [he, if_true] at h3 hr
        apply ih
        · exact h1
        · exact h2 hs
        · simp only [stepG]
          rcases h3 with h3 | h3
          · omega
          · rw [h3]; simp [rank]
      · simp only [he] at h3 hr
        simp only [stepG] at hr ⊢
        simp only [Bool.false_eq_true, if_false] at h3 hr
        rw [h3] at hr ⊢
        exact ih c hf hs (by omega)

theorem rank_le_four (cfg : Cfg) (s : Schedule) : rank (run cfg s init).spin ≤ 4 := by
  have h := (reach_inv cfg s).2.pendS
  cases hs : (run cfg s init).spin with
  | write p => have := (h p hs).2; simp [rank]; omega
  | _ => simp [rank]

/-! ### Manual (thread-free) mode -/

/-- the single stream write of a frame in the code as it is -/
def frameBytes (cfg : Cfg) (text : Str) : Str := if cfg.ansi then crEl ++ text else text ++ nl

theorem frameWrites_false (cfg : Cfg) (t : Str) : frameWrites .now cfg t = [frameBytes cfg t] := by
  unfold frameWrites frameBytes; cases cfg.ansi <;> simp

theorem mdisplay_eq (cfg : Cfg) (k : MKind) (c : MSt) :
    mdisplay cfg k c = { c with out := ⟨k, c.clock, frameBytes cfg (mframe cfg c)⟩ :: c.out } := by
  simp [mdisplay, frameWrites_false]

theorem value_mem (cfg : Cfg) (i : Nat) (h : 0 < cfg.values.length) : value cfg i ∈ cfg.values := by
  unfold value
  have : i % cfg.values.length < cfg.values.length := Nat.mod_lt _ h
  simp only [List.getD_eq_getElem?_getD, List.getElem?_eq_getElem this, Option.getD_some]
  exact List.getElem_mem _

def isAnchor (k : MKind) : Bool := k == .start || k == .advance

/-- In a log (newest first): every redraw made by `advance` comes at least `interval` after every earlier
redraw made by `start` or `advance`. -/
def Throttled (interval : Nat) : List MEv → Prop
  | [] => True
  | e :: r => (e.kind = .advance → ∀ e' ∈ r, isAnchor e'.kind = true → e'.time + interval ≤ e.time) ∧ Throttled interval r

structure MInv (cfg : Cfg) (c : MSt) : Prop where
  thr : Throttled cfg.interval c.out
  past : ∀ e ∈ c.out, e.time ≤ c.clock
  upd : ∀ e ∈ c.out, isAnchor e.kind = true → e.time + cfg.interval ≤ c.updateTime

theorem minv_step (cfg : Cfg) (c : MSt) (op : MOp) (h : MInv cfg c) : MInv cfg (mstep cfg c op).1 := by
  obtain ⟨h1, h2, h3⟩ := h
  cases op with
  | start m =>
    simp only [mstep]
    split
    · exact ⟨h1, h2, h3⟩
    · rw [mdisplay_eq]
      refine ⟨⟨by simp, h1⟩, ?_, ?_⟩
      · intro e he
        simp only [List.mem_cons] at he
        rcases he with rfl | he
        · exact Nat.le_refl _
        · exact h2 e he
      · intro e he ha
        simp only [List.mem_cons] at he
        rcases he with rfl | he
        · exact Nat.le_refl _
        · have := h2 e he; simp only; omega
  | advance =>
    simp only [mstep]
    repeat' split
    · exact ⟨h1, h2, h3⟩
    · exact ⟨h1, h2, h3⟩
    · exact ⟨h1, h2, h3⟩
    · rename_i hlt
      rw [mdisplay_eq]
      refine ⟨⟨?_, h1⟩, ?_, ?_⟩
      · intro _ e' he' ha
        have := h3 e' he' ha
        simp only; omega
      · intro e he
        simp only [List.mem_cons] at he
        rcases he with rfl | he
        · exact Nat.le_refl _
        · exact h2 e he
      · intro e he ha
        simp only [List.mem_cons] at he
        rcases he with rfl | he
        · exact Nat.le_refl _
        · have := h3 e he ha; simp only; omega
  | setMessage m =>
    simp only [mstep]
    rw [mdisplay_eq]
    refine ⟨⟨by simp, h1⟩, ?_, ?_⟩
    · intro e he
      simp only [List.mem_cons] at he
      rcases he with rfl | he
      · exact Nat.le_refl _
      · exact h2 e he
    · intro e he ha
      simp only [List.mem_cons] at he
      rcases he with rfl | he
      · simp [isAnchor] at ha
      · exact h3 e he ha
  | finish m reset =>
    simp only [mstep]
    split
    · exact ⟨h1, h2, h3⟩
    · rw [mdisplay_eq]
      refine ⟨⟨by simp, by simp, h1⟩, ?_, ?_⟩
      · intro e he
        simp only [List.mem_cons] at he
        rcases he with rfl | rfl | he
        · exact Nat.le_refl _
        · exact Nat.le_refl _
        · exact h2 e he
      · intro e he ha
        simp only [List.mem_cons] at he
        rcases he with rfl | rfl | he
        · simp [isAnchor] at ha
        · simp [isAnchor] at ha
        · exact h3 e he ha
  | tick dt =>
    simp only [mstep]
    refine ⟨h1, ?_, h3⟩
    intro e he
    have := h2 e he
    simp only; omega

theorem minv_run (cfg : Cfg) : ∀ (ops : List MOp) (c : MSt), MInv cfg c → MInv cfg (mrun cfg ops c) := by
  intro ops
  induction ops with
  | nil => intro c h; exact h
  | cons op r ih => intro c h; exact ih _ (minv_step cfg c op h)

theorem minv_init (cfg : Cfg) : MInv cfg MSt.init := ⟨trivial, by simp [MSt.init], by simp [MSt.init]⟩

theorem clean_append (a b : Str) : clean (a ++ b) = (clean a && clean b) := by simp [clean]

theorem clean_render (fmt : List Seg) (v m : Str) (hv : clean v = true) (hm : clean m = true)
    (hf : ∀ s, Seg.lit s ∈ fmt → clean s = true) : clean (render fmt v m) = true := by
  induction fmt with
  | nil => simp [render, clean]
  | cons sg r ih =>
    have ihr := ih (fun s hs => hf s (by simp [hs]))
    simp only [render, List.flatMap_cons, clean_append, Bool.and_eq_true] at ihr ⊢
    refine ⟨?_, ihr⟩
    cases sg with
    | lit s => exact hf s (by simp)
    | indicator => exact hv
    | message => exact hm

theorem clean_value (cfg : Cfg) (i : Nat) (h : ∀ v ∈ cfg.values, clean v = true) : clean (value cfg i) = true := by
  by_cases hl : 0 < cfg.values.length
  · exact h _ (value_mem cfg i hl)
  · have : cfg.values = [] := by
      cases hv : cfg.values with
      | nil => rfl
      | cons _ _ => simp [hv] at hl
    simp [value, this, clean]

theorem afterSet_not_beforeSpawn (pc : MainPc) (h : afterSet pc = true) : beforeSpawn pc = false := by
  cases pc with
  | writing p k => cases k <;> simp_all [afterSet, beforeSpawn]
  | _ => simp_all [afterSet, beforeSpawn]

/-! ### No exception escapes `auto()` unhandled (code as it is); a left block stays left -/

/-- the `except` clause of the code as it is (regenerated into `Gen.C19.caught`) catches every kind -/
theorem caughtBy_now (k : ExcKind) : caughtBy .now k = true := by
  cases k <;> decide

def notEscaped : MainPc → Bool
  | .exited (.escaped _) => false
  | _ => true

theorem notEscaped_step (old : Proto) (cfg : Cfg) (hc : ∀ k, caughtBy old k = true) (c : St) (ch : Choice)
    (h : notEscaped c.main = true) : notEscaped (stepG old cfg c ch).main = true := by
  have nb : ∀ (c : St) r, notEscaped (nextBody old cfg c r).main = true := by
    intro c r; unfold nextBody; repeat' split
    all_goals simp_all [notEscaped]
  have cm : ∀ (c : St) k, notEscaped (contMain old cfg c k).main = true := by
    intro c k; cases k <;> simp only [contMain]
    · rfl
    · exact nb c _
    · rfl
    · rfl
  cases ch with
  | tick dt => exact h
  | spin => simp only [stepG]; rw [stepSpin_main]; exact h
  | main =>
    simp only [stepG]
    unfold stepMain
    repeat' split
    all_goals first | exact h | rfl | exact cm _ _ | exact nb _ _

theorem reach_notEscaped (cfg : Cfg) (s : Schedule) : notEscaped (run cfg s init).main = true :=
  inv_runG (P := fun c => notEscaped c.main = true) (old := .now) (cfg := cfg)
    (fun c ch h => notEscaped_step .now cfg caughtBy_now c ch h) s init rfl

/-- once the block is left, main's pc never changes again -/
theorem exited_stable (old : Proto) (cfg : Cfg) (o : Outcome) : ∀ (s : Schedule) (c : St), c.main = .exited o →
    (runG old cfg s c).main = .exited o := by
  intro s
  induction s with
  | nil => intro c h; exact h
  | cons ch r ih =>
    intro c h
    rw [runG_cons]
    apply ih
    cases ch with
    | tick dt => exact h
    | spin => simp only [stepG]; rw [stepSpin_main]; exact h
    | main => simp only [stepG]; unfold stepMain; simp [h]

end Clikit.Spinner
