import Clikit.Model.Wrap
/-!
Contract of the `textwrap.wrap` model (DESIGN 3.5): every line fits the width, the
non-blank characters are preserved in order.  Core Lean only.
-/
namespace Clikit.Wrap

/-! ### `nonblank` -/

theorem nonblank_append (a b : Str) : nonblank (a ++ b) = nonblank a ++ nonblank b := by
  simp [nonblank]

theorem nonblank_nil : nonblank [] = [] := rfl

theorem nonblank_munge (s : Str) : nonblank (munge s) = nonblank s := by
  induction s with
  | nil => rfl
  | cons c r ih =>
    simp only [munge, List.map_cons, nonblank] at ih ⊢
    have hb : isWs ' ' = true := by decide
    cases h : isWs c
    · simp [h, ih]
    · simp only [h, if_true, List.filter_cons, hb, Bool.not_true]
      simpa using ih

theorem nonblank_of_blankChunk (c : Str) (h : isBlankChunk c = true) : nonblank c = [] := by
  induction c with
  | nil => rfl
  | cons x r ih =>
    simp only [isBlankChunk, List.all_cons, Bool.and_eq_true] at h
    have hx : x = ' ' := by simpa using h.1
    subst hx
    have := ih (by simpa [isBlankChunk] using h.2)
    simp [nonblank, isWs] at this ⊢
    exact this

/-! ### chunks -/

theorem flatten_splitChunks (s : Str) : (splitChunks s).flatten = s := by
  induction s with
  | nil => rfl
  | cons c r ih =>
    rw [splitChunks]
    split
    · rename_i d ds cs heq
      rw [heq] at ih
      split <;> simp_all
    · simp [ih]

theorem measure_append (a b : List Str) : measure (a ++ b) = measure a + measure b := by
  simp [measure]

theorem measure_nil : measure [] = 0 := rfl

theorem measure_cons (c : Str) (r : List Str) : measure (c :: r) = c.length + 1 + measure r := by
  simp [measure]

/-! ### one line -/

theorem fillLine_append (w : Nat) (cs : List Str) :
    ∀ cur, (fillLine w cur cs).1 ++ (fillLine w cur cs).2 = cs := by
  induction cs with
  | nil => intro cur; rfl
  | cons c r ih =>
    intro cur
    rw [fillLine]
    split
    · simp [ih]
    · rfl

theorem fillLine_len (w : Nat) (cs : List Str) :
    ∀ cur, cur ≤ w → cur + ((fillLine w cur cs).1.map List.length).sum ≤ w := by
  induction cs with
  | nil => intro cur h; simpa [fillLine] using h
  | cons c r ih =>
    intro cur h
    rw [fillLine]
    split
    · rename_i hfit
      have := ih (cur + c.length) hfit
      simp only [List.map_cons, List.sum_cons]
      omega
    · simpa using h

/-- nothing was put on the line only if the first chunk does not fit -/
theorem fillLine_nil (w : Nat) (cur : Nat) (cs : List Str)
    (h : (fillLine w cur cs).1 = []) :
    (fillLine w cur cs).2 = cs ∧ (∀ d r, cs = d :: r → ¬ cur + d.length ≤ w) := by
  cases cs with
  | nil => simp [fillLine]
  | cons c r =>
    rw [fillLine] at h ⊢
    split at h
    · simp at h
    · rename_i hn
      constructor
      · simp [hn]
      · intro d r' heq
        cases heq
        exact hn

theorem breakLong_flatten (w : Nat) (line cs : List Str) :
    (breakLong w line cs).1.flatten ++ (breakLong w line cs).2.flatten
      = line.flatten ++ cs.flatten := by
  cases cs with
  | nil => simp [breakLong]
  | cons d r =>
    rw [breakLong]
    split
    · simp only [List.flatten_append, List.flatten_cons, List.flatten_nil, List.append_nil,
        List.append_assoc]
      rw [← List.append_assoc (d.take _), List.take_append_drop]
    · rfl

theorem breakLong_len (w : Nat) (line cs : List Str)
    (h : (line.map List.length).sum ≤ w) :
    ((breakLong w line cs).1.map List.length).sum ≤ w := by
  cases cs with
  | nil => simpa [breakLong] using h
  | cons d r =>
    rw [breakLong]
    split
    · simp only [List.map_append, List.sum_append, List.map_cons, List.map_nil, List.sum_cons,
        List.sum_nil, List.length_take]
      omega
    · exact h

theorem dropTrailingBlank_nonblank (line : List Str) :
    nonblank (dropTrailingBlank line).flatten = nonblank line.flatten := by
  unfold dropTrailingBlank
  split
  · rename_i l hl
    split
    · rename_i hb
      obtain ⟨ys, rfl⟩ := List.getLast?_eq_some_iff.mp hl
      simp [nonblank_append, nonblank_of_blankChunk l hb]
    · rfl
  · rfl

theorem dropTrailingBlank_len (line : List Str) :
    ((dropTrailingBlank line).map List.length).sum ≤ (line.map List.length).sum := by
  unfold dropTrailingBlank
  split
  · rename_i l hl
    split
    · obtain ⟨ys, rfl⟩ := List.getLast?_eq_some_iff.mp hl
      simp
    · exact Nat.le_refl _
  · exact Nat.le_refl _

/-! ### the outer loop -/

/-- the chunk stack shrinks in every iteration of the outer loop (`w ≥ 1`) -/
theorem step_measure (w : Nat) (hw : 1 ≤ w) (first : Bool) (c : Str) (rest : List Str) :
    measure (breakLong w
        (fillLine w 0 (if (!first && isBlankChunk c) = true then rest else c :: rest)).1
        (fillLine w 0 (if (!first && isBlankChunk c) = true then rest else c :: rest)).2).2
      < measure (c :: rest) := by
  generalize hch : (if (!first && isBlankChunk c) = true then rest else c :: rest) = chunks1
  have h1 : measure chunks1 ≤ measure (c :: rest) := by
    rw [← hch]; split <;> simp [measure_cons]
  have happ := fillLine_append w chunks1 0
  have hm : measure (fillLine w 0 chunks1).1 + measure (fillLine w 0 chunks1).2 = measure chunks1 := by
    rw [← measure_append, happ]
  have hnil := fillLine_nil w 0 chunks1
  generalize (fillLine w 0 chunks1).1 = p1 at *
  generalize (fillLine w 0 chunks1).2 = p2 at *
  have hpos : 1 ≤ measure (c :: rest) := by simp [measure_cons]; omega
  cases p2 with
  | nil => simp only [breakLong, measure_nil] at *; omega
  | cons d r =>
    rw [breakLong]
    cases p1 with
    | nil =>
      obtain ⟨h2, h3⟩ := hnil rfl
      have hd := h3 d r h2.symm
      have hlong : d.length > w := by omega
      simp only [hlong, if_true, measure_cons, measure_nil, List.length_drop, List.map_nil,
        List.sum_nil, Nat.sub_zero] at *
      omega
    | cons x xs =>
      have hx : 1 ≤ measure (x :: xs) := by simp [measure_cons]; omega
      split
      · simp only [measure_cons, List.length_drop] at *
        omega
      · simp only [measure_cons] at *
        omega

theorem wrapLoop_len (w : Nat) :
    ∀ (f : Nat) (first : Bool) (cs : List Str), ∀ l ∈ wrapLoop w f first cs, l.length ≤ w := by
  intro f
  induction f with
  | zero => intro first cs l hl; simp [wrapLoop] at hl
  | succ f ih =>
    intro first cs l hl
    cases cs with
    | nil => simp [wrapLoop] at hl
    | cons c rest =>
      rw [wrapLoop] at hl
      generalize (if (!first && isBlankChunk c) = true then rest else c :: rest) = chunks1 at hl
      split at hl
      · exact ih _ _ l hl
      · rcases List.mem_cons.mp hl with h | h
        · subst h
          rw [List.length_flatten]
          refine Nat.le_trans (dropTrailingBlank_len _) ?_
          apply breakLong_len
          have := fillLine_len w chunks1 0 (Nat.zero_le _)
          omega
        · exact ih _ _ l h

theorem wrapLoop_content (w : Nat) (hw : 1 ≤ w) :
    ∀ (f : Nat) (first : Bool) (cs : List Str), measure cs < f →
      nonblank (wrapLoop w f first cs).flatten = nonblank cs.flatten := by
  intro f
  induction f with
  | zero => intro first cs h; omega
  | succ f ih =>
    intro first cs hf
    cases cs with
    | nil => simp [wrapLoop]
    | cons c rest =>
      have hstep := step_measure w hw first c rest
      rw [wrapLoop]
      generalize hch : (if (!first && isBlankChunk c) = true then rest else c :: rest) = chunks1 at *
      have hc1 : nonblank chunks1.flatten = nonblank (c :: rest).flatten := by
        rw [← hch]
        split
        · rename_i hb
          simp only [Bool.and_eq_true] at hb
          simp [nonblank_append, nonblank_of_blankChunk c hb.2]
        · rfl
      have happ := fillLine_append w chunks1 0
      have hbl : (breakLong w (fillLine w 0 chunks1).1 (fillLine w 0 chunks1).2).1.flatten
          ++ (breakLong w (fillLine w 0 chunks1).1 (fillLine w 0 chunks1).2).2.flatten
          = chunks1.flatten := by
        rw [breakLong_flatten, ← List.flatten_append, happ]
      generalize (breakLong w (fillLine w 0 chunks1).1 (fillLine w 0 chunks1).2) = q at *
      have hrec : ∀ fst, nonblank (wrapLoop w f fst q.2).flatten = nonblank q.2.flatten :=
        fun fst => ih fst q.2 (by omega)
      have hd := dropTrailingBlank_nonblank q.1
      rw [← hc1, ← hbl, nonblank_append, ← hd]
      split
      · rename_i he
        have : dropTrailingBlank q.1 = [] := by simpa using he
        rw [hrec, this]; simp [nonblank]
      · rw [List.flatten_cons, nonblank_append, hrec]

/-! ### no empty line -/

theorem splitChunks_ne (s : Str) : ∀ c ∈ splitChunks s, c ≠ [] := by
  induction s with
  | nil => intro c h; simp [splitChunks] at h
  | cons x r ih =>
    intro c h
    rw [splitChunks] at h
    split at h
    · rename_i d ds cs heq
      rw [heq] at ih
      split at h
      · rcases List.mem_cons.mp h with h | h
        · subst h; simp
        · exact ih c (List.mem_cons_of_mem _ h)
      · rcases List.mem_cons.mp h with h | h
        · subst h; simp
        · exact ih c h
    · rcases List.mem_cons.mp h with h | h
      · subst h; simp
      · exact ih c h

theorem dropTrailingBlank_ne (line : List Str) (h : ∀ c ∈ line.dropLast, c ≠ []) :
    ∀ c ∈ dropTrailingBlank line, c ≠ [] := by
  unfold dropTrailingBlank
  split
  · rename_i l hl
    split
    · exact h
    · rename_i hb
      obtain ⟨ys, rfl⟩ := List.getLast?_eq_some_iff.mp hl
      intro c hc
      rcases List.mem_append.mp hc with hc | hc
      · exact h c (by simpa using hc)
      · simp at hc; subst hc
        intro he; subst he; simp [isBlankChunk] at hb
  · rename_i hn
    intro c hc
    have : line = [] := by simpa using hn
    subst this; simp at hc

theorem breakLong_ne (w : Nat) (line cs : List Str)
    (h1 : ∀ c ∈ line, c ≠ []) (h2 : ∀ c ∈ cs, c ≠ []) :
    (∀ c ∈ (breakLong w line cs).1.dropLast, c ≠ []) ∧ (∀ c ∈ (breakLong w line cs).2, c ≠ []) := by
  cases cs with
  | nil =>
    simp only [breakLong]
    exact ⟨fun c hc => h1 c (List.dropLast_subset _ hc), h2⟩
  | cons d r =>
    rw [breakLong]
    split
    · rename_i hlong
      constructor
      · intro c hc
        simp only [List.dropLast_concat] at hc
        exact h1 c hc
      · intro c hc
        rcases List.mem_cons.mp hc with hc | hc
        · subst hc
          intro he
          have := congrArg List.length he
          simp only [List.length_drop, List.length_nil] at this
          omega
        · exact h2 c (List.mem_cons_of_mem _ hc)
    · exact ⟨fun c hc => h1 c (List.dropLast_subset _ hc), h2⟩

theorem wrapLoop_ne (w : Nat) :
    ∀ (f : Nat) (first : Bool) (cs : List Str), (∀ c ∈ cs, c ≠ []) →
      ∀ l ∈ wrapLoop w f first cs, l ≠ [] := by
  intro f
  induction f with
  | zero => intro first cs _ l hl; simp [wrapLoop] at hl
  | succ f ih =>
    intro first cs hne l hl
    cases cs with
    | nil => simp [wrapLoop] at hl
    | cons c rest =>
      rw [wrapLoop] at hl
      generalize hch : (if (!first && isBlankChunk c) = true then rest else c :: rest) = chunks1 at hl
      have hne1 : ∀ x ∈ chunks1, x ≠ [] := by
        rw [← hch]; split
        · exact fun x hx => hne x (List.mem_cons_of_mem _ hx)
        · exact hne
      have happ := fillLine_append w chunks1 0
      have hp1 : ∀ x ∈ (fillLine w 0 chunks1).1, x ≠ [] :=
        fun x hx => hne1 x (by rw [← happ]; exact List.mem_append_left _ hx)
      have hp2 : ∀ x ∈ (fillLine w 0 chunks1).2, x ≠ [] :=
        fun x hx => hne1 x (by rw [← happ]; exact List.mem_append_right _ hx)
      obtain ⟨hq1, hq2⟩ := breakLong_ne w _ _ hp1 hp2
      have hline := dropTrailingBlank_ne _ hq1
      generalize (breakLong w (fillLine w 0 chunks1).1 (fillLine w 0 chunks1).2) = q at *
      split at hl
      · exact ih _ _ hq2 l hl
      · rename_i hemp
        rcases List.mem_cons.mp hl with h | h
        · subst h
          cases hd : dropTrailingBlank q.1 with
          | nil => simp [hd] at hemp
          | cons x xs =>
            have := hline x (by rw [hd]; exact List.mem_cons_self)
            intro he
            simp only [List.flatten_cons, List.append_eq_nil_iff] at he
            exact this he.1
        · exact ih _ _ hq2 l h

/-! ### the contract -/

/-- every returned line fits the width -/
theorem wrap_len (w : Nat) (text : Str) : ∀ l ∈ wrap w text, l.length ≤ w :=
  wrapLoop_len w _ _ _

/-- the non-blank characters of the text are preserved, in order (in particular the fuel
of the loop never runs out) -/
theorem wrap_content (w : Nat) (hw : 1 ≤ w) (text : Str) :
    nonblank (wrap w text).flatten = nonblank text := by
  unfold wrap
  rw [wrapLoop_content w hw _ _ _ (Nat.lt_succ_self _), flatten_splitChunks, nonblank_munge]

/-- no returned line is empty -/
theorem wrap_nonempty_lines (w : Nat) (text : Str) : ∀ l ∈ wrap w text, l ≠ [] :=
  wrapLoop_ne w _ _ _ (splitChunks_ne _)

theorem wrapE_ok (w : Nat) (hw : 1 ≤ w) (text : Str) : wrapE w text = .ok (wrap w text) := by
  unfold wrapE; split
  · omega
  · rfl

theorem wrapE_zero (text : Str) : wrapE 0 text = .error .valueError := rfl

end Clikit.Wrap
