import Clikit.Model.Markup
import Clikit.Lemmas.C11Style
/-!
The *specification* of SGR rendering used by `sgr_exact` (written down independently of pastel's
tables: ECMA-48 / xterm numbering) and the lemmas that tie `convert` / `apply` to it.
-/
namespace Clikit.Style
open Clikit Clikit.Gen.C11

/-- colour names and their SGR colour index: foreground code = 30 + index, background code =
40 + index (so the bright colours are 90.. / 100.., `default` is 39 / 49) -/
def colorIndex : List (Str × Nat) :=
  [(['b', 'l', 'a', 'c', 'k'], 0),
   (['r', 'e', 'd'], 1),
   (['g', 'r', 'e', 'e', 'n'], 2),
   (['y', 'e', 'l', 'l', 'o', 'w'], 3),
   (['b', 'l', 'u', 'e'], 4),
   (['m', 'a', 'g', 'e', 'n', 't', 'a'], 5),
   (['c', 'y', 'a', 'n'], 6),
   (['l', 'i', 'g', 'h', 't', '_', 'g', 'r', 'a', 'y'], 7),
   (['d', 'e', 'f', 'a', 'u', 'l', 't'], 9),
   (['d', 'a', 'r', 'k', '_', 'g', 'r', 'a', 'y'], 60),
   (['l', 'i', 'g', 'h', 't', '_', 'r', 'e', 'd'], 61),
   (['l', 'i', 'g', 'h', 't', '_', 'g', 'r', 'e', 'e', 'n'], 62),
   (['l', 'i', 'g', 'h', 't', '_', 'y', 'e', 'l', 'l', 'o', 'w'], 63),
   (['l', 'i', 'g', 'h', 't', '_', 'b', 'l', 'u', 'e'], 64),
   (['l', 'i', 'g', 'h', 't', '_', 'm', 'a', 'g', 'e', 'n', 't', 'a'], 65),
   (['l', 'i', 'g', 'h', 't', '_', 'c', 'y', 'a', 'n'], 66),
   (['w', 'h', 'i', 't', 'e'], 67)]

/-- SGR code of each style attribute: bold 1, faint 2, italic 3, underline 4, blink 5,
inverse 7, conceal 8 -/
def attrCode : Attr → Nat
  | .bold => 1
  | .dark => 2
  | .italic => 3
  | .underlined => 4
  | .blinking => 5
  | .inverse => 7
  | .hidden => 8

/-- the order in which the attributes of a style are rendered -/
def attrOrder : List Attr := [.bold, .italic, .dark, .underlined, .blinking, .inverse, .hidden]

/-- a colour of a style: `none` (no colour), or a name of the table -/
def colourCode (base : Nat) : Option Str → Option (List Nat)
  | none => some []
  | some n => (dictGet? n colorIndex).map (fun i => [base + i])

/-- the codes a style has to be rendered with: foreground, background, one per attribute -/
def expectedCodes (s : Style) : Option (List Nat) :=
  match colourCode 30 s.fg, colourCode 40 s.bg with
  | some f, some b => some (f ++ b ++ (attrOrder.filter s.has).map attrCode)
  | _, _ => none

/-- the option dictionary of the converted style -/
def expectedOpts (s : Style) : List (Nat × Str) :=
  (if s.bold then [(1, ['b', 'o', 'l', 'd'])] else []) ++
  (if s.italic then [(3, ['i', 't', 'a', 'l', 'i', 'c'])] else []) ++
  (if s.dark then [(2, ['d', 'a', 'r', 'k'])] else []) ++
  (if s.underlined then [(4, ['u', 'n', 'd', 'e', 'r', 'l', 'i', 'n', 'e'])] else []) ++
  (if s.blinking then [(5, ['b', 'l', 'i', 'n', 'k'])] else []) ++
  (if s.inverse then [(7, ['r', 'e', 'v', 'e', 'r', 's', 'e'])] else []) ++
  (if s.hidden then [(8, ['c', 'o', 'n', 'c', 'e', 'a', 'l'])] else [])

theorem setOptions_optionNames (s : Style) : setOptions [] (optionNames s) = .ok (expectedOpts s) := by
  obtain ⟨tag, fg, bg, b1, b2, b3, b4, b5, b6, b7⟩ := s
  cases b1 <;> cases b2 <;> cases b3 <;> cases b4 <;> cases b5 <;> cases b6 <;> cases b7 <;> rfl

theorem expectedOpts_names (s : Style) : (expectedOpts s).map (·.2) = optionNames s := by
  obtain ⟨tag, fg, bg, b1, b2, b3, b4, b5, b6, b7⟩ := s
  cases b1 <;> cases b2 <;> cases b3 <;> cases b4 <;> cases b5 <;> cases b6 <;> cases b7 <;> rfl

theorem expectedOpts_codes (s : Style) : (expectedOpts s).map (·.1) = (attrOrder.filter s.has).map attrCode := by
  obtain ⟨tag, fg, bg, b1, b2, b3, b4, b5, b6, b7⟩ := s
  cases b1 <;> cases b2 <;> cases b3 <;> cases b4 <;> cases b5 <;> cases b6 <;> cases b7 <;> rfl

def okWith (r : Except Err Nat) (v : Nat) : Bool :=
  match r with
  | .ok x => x == v
  | .error _ => false

theorem okWith_eq {r : Except Err Nat} {v : Nat} (h : okWith r v = true) : r = .ok v := by
  cases r with
  | error e => simp [okWith] at h
  | ok x => simp [okWith] at h; rw [h]

theorem tables_spec_bool : colorIndex.all (fun p =>
    okWith (setForeground p.1) (30 + p.2) && okWith (setBackground p.1) (40 + p.2)) = true := by
  decide

/-- pastel's colour tables agree with the specification on every colour name -/
theorem tables_spec (n : Str) (i : Nat) (h : dictGet? n colorIndex = some i) :
    setForeground n = .ok (30 + i) ∧ setBackground n = .ok (40 + i) := by
  have hm := dictGet?_mem n i colorIndex h
  have := List.all_eq_true.mp tables_spec_bool (n, i) hm
  simp only [Bool.and_eq_true] at this
  exact ⟨okWith_eq this.1, okWith_eq this.2⟩

/-- `codes` of a style built from spec colours -/
theorem mkStyle_spec (s : Style) (cs : List Nat) (h : expectedCodes s = some cs) :
    ∃ ps, convert s = .ok ps ∧ ps.fgName = s.fg ∧ ps.bgName = s.bg ∧ ps.opts = expectedOpts s ∧ codes ps = cs := by
  unfold expectedCodes at h
  cases hf : colourCode 30 s.fg with
  | none => simp [hf] at h
  | some f =>
    cases hb : colourCode 40 s.bg with
    | none => simp [hf, hb] at h
    | some b =>
      simp only [hf, hb, Option.some.injEq] at h
      have hfg : ∃ fg, foregroundOf s.fg = .ok fg ∧ colourCodes fg = f := by
        cases hs : s.fg with
        | none => rw [hs] at hf; simp [colourCode] at hf; exact ⟨none, by simp [foregroundOf, truthy], by simp [colourCodes, hf]⟩
        | some n =>
          rw [hs] at hf
          simp only [colourCode] at hf
          cases hi : dictGet? n colorIndex with
          | none => simp [hi] at hf
          | some i =>
            simp only [hi, Option.map, Option.some.injEq] at hf
            have ht := (tables_spec n i hi).1
            cases n with
            | nil => simp [colorIndex, dictGet?] at hi
            | cons c r =>
              refine ⟨some (30 + i), by simp [foregroundOf, truthy, ht, Except.map], ?_⟩
              have : (30 + i != 0) = true := by simp
              simp [colourCodes, this, hf]
      have hbg : ∃ bg, backgroundOf s.bg = .ok bg ∧ colourCodes bg = b := by
        cases hs : s.bg with
        | none => rw [hs] at hb; simp [colourCode] at hb; exact ⟨none, by simp [backgroundOf, truthy], by simp [colourCodes, hb]⟩
        | some n =>
          rw [hs] at hb
          simp only [colourCode] at hb
          cases hi : dictGet? n colorIndex with
          | none => simp [hi] at hb
          | some i =>
            simp only [hi, Option.map, Option.some.injEq] at hb
            have ht := (tables_spec n i hi).2
            cases n with
            | nil => simp [colorIndex, dictGet?] at hi
            | cons c r =>
              refine ⟨some (40 + i), by simp [backgroundOf, truthy, ht, Except.map], ?_⟩
              have : (40 + i != 0) = true := by simp
              simp [colourCodes, this, hb]
      obtain ⟨fg, hfg1, hfg2⟩ := hfg
      obtain ⟨bg, hbg1, hbg2⟩ := hbg
      refine ⟨{ fgName := s.fg, bgName := s.bg, fg := fg, bg := bg, opts := expectedOpts s }, ?_, rfl, rfl, rfl, ?_⟩
      · unfold convert mkStyle
        simp only [hfg1, hbg1, setOptions_optionNames]
      · simp only [codes, hfg2, hbg2, expectedOpts_codes, h]

/-- registering the converted style (pastel rebuilds it from the reported names) gives the same style -/
theorem rebuild_spec (s : Style) (ps : PastelStyle) (h : convert s = .ok ps)
    (h1 : ps.fgName = s.fg) (h2 : ps.bgName = s.bg) (h3 : ps.opts = expectedOpts s) : rebuild ps = .ok ps := by
  unfold rebuild
  rw [h1, h2, h3, expectedOpts_names]
  exact h

end Clikit.Style
