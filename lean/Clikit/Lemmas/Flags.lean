import Clikit.Model.Flags
/-!
Helper lemmas for C07.

* bit algebra for `has f c` (`flags & c` used as a condition),
* the specification vocabulary of the property (`OptNoContradiction`, `wfLong`, ...),
* characterisations of the **generated** functions (`Gen.optValidateFlags`, `Gen.optAddDefaultFlags`, ...)
  for every natural-number flag word,
* inversion lemmas for the constructor models.
-/
namespace Clikit.Flags
open Clikit Clikit.Gen

/-! ### Bit algebra -/

theorem has_def (f c : Nat) : (f &&& c != 0) = has f c := rfl

theorem has_def' (f c : Nat) : (c &&& f != 0) = has f c := by simp [has, Nat.and_comm]

theorem has_or_right (f a b : Nat) : has f (a ||| b) = (has f a || has f b) := by
  simp only [has, Nat.and_or_distrib_left]
  cases h1 : (f &&& a != 0) <;> cases h2 : (f &&& b != 0) <;> simp_all

theorem has_or_left (f a c : Nat) : has (f ||| a) c = (has f c || has a c) := by
  simp only [has, Nat.and_or_distrib_right]
  cases h1 : (f &&& c != 0) <;> cases h2 : (a &&& c != 0) <;> simp_all

theorem has_ite (c : Prop) [Decidable c] (a b X : Nat) :
    has (if c then a else b) X = if c then has a X else has b X := by
  split <;> rfl

theorem has_zero_left (c : Nat) : has 0 c = false := by simp [has]

/-- `flags & 2^k` is truthy exactly when bit `k` of the word is set. -/
theorem has_two_pow (f k : Nat) : has f (2 ^ k) = f.testBit k := by
  unfold has
  cases h : f.testBit k
  · have : f &&& 2 ^ k = 0 := by
      apply Nat.eq_of_testBit_eq
      intro i
      simp only [Nat.testBit_and, Nat.testBit_two_pow, Nat.zero_testBit]
      by_cases hi : k = i
      · subst hi; simp [h]
      · simp [hi]
    simp [this]
  · have : (f &&& 2 ^ k).testBit k = true := by
      simp [Nat.testBit_and, h]
    have hne : f &&& 2 ^ k ≠ 0 := by
      intro h0
      rw [h0] at this
      simp at this
    simpa using hne

/-- A word keeps the bits of `f` (`f ⊆ g`). -/
def keeps (g f : Nat) : Prop := g &&& f = f

theorem keeps_or_left (f a : Nat) : keeps (f ||| a) f := by
  unfold keeps
  apply Nat.eq_of_testBit_eq
  intro i
  simp only [Nat.testBit_and, Nat.testBit_or]
  cases f.testBit i <;> simp

theorem keeps_refl (f : Nat) : keeps f f := by simp [keeps]

theorem keeps_trans {a b c : Nat} (h1 : keeps a b) (h2 : keeps b c) : keeps a c := by
  unfold keeps at *
  rw [← h2, ← Nat.and_assoc, h1]

theorem keeps_has {g f : Nat} (h : keeps g f) (c : Nat) (hc : has f c = true) : has g c = true := by
  unfold keeps at h
  unfold has at *
  rw [← h] at hc
  simp only [bne_iff_ne, ne_eq] at *
  intro h0
  apply hc
  rw [Nat.and_assoc, Nat.and_comm f c, ← Nat.and_assoc, h0, Nat.zero_and]

/-! ### Specification vocabulary (flag words) -/

/-- truthiness of `self._short_name` in `_add_default_flags` -/
def shortTruthy : Option Str → Bool
  | some s => s != []
  | none => false

/-- neither name preference requested -/
def noPref (f : Nat) : Bool :=
  !has f AbsOptFlags.PREFER_LONG_NAME && !has f AbsOptFlags.PREFER_SHORT_NAME

/-- none of the four value-mode flags requested -/
def noMode (f : Nat) : Bool :=
  !has f OptFlags.NO_VALUE && !has f OptFlags.REQUIRED_VALUE && !has f OptFlags.OPTIONAL_VALUE
    && !has f OptFlags.MULTI_VALUED

/-- the option declares that it takes a value (required, optional or multi-valued) -/
def takesValue (f : Nat) : Bool :=
  has f OptFlags.REQUIRED_VALUE || has f OptFlags.OPTIONAL_VALUE || has f OptFlags.MULTI_VALUED

/-- no value type requested (option) -/
def noType (f : Nat) : Bool :=
  !has f OptFlags.STRING && !has f OptFlags.BOOLEAN && !has f OptFlags.INTEGER && !has f OptFlags.FLOAT

/-- no value type requested (argument) -/
def argNoType (f : Nat) : Bool :=
  !has f ArgFlags.STRING && !has f ArgFlags.BOOLEAN && !has f ArgFlags.INTEGER && !has f ArgFlags.FLOAT

/-- neither REQUIRED nor OPTIONAL requested (argument) -/
def argNoReq (f : Nat) : Bool := !has f ArgFlags.REQUIRED && !has f ArgFlags.OPTIONAL

/-- how many of the listed flags the word carries -/
def countFlags (f : Nat) (cs : List Nat) : Nat := (cs.filter (has f)).length

def optTypeFlags : List Nat := [OptFlags.STRING, OptFlags.BOOLEAN, OptFlags.INTEGER, OptFlags.FLOAT]
def optPrefFlags : List Nat := [AbsOptFlags.PREFER_LONG_NAME, AbsOptFlags.PREFER_SHORT_NAME]
def argTypeFlags : List Nat := [ArgFlags.STRING, ArgFlags.BOOLEAN, ArgFlags.INTEGER, ArgFlags.FLOAT]
def argReqFlags : List Nat := [ArgFlags.REQUIRED, ArgFlags.OPTIONAL]

/-- The documented contradictions of `Option(long, short, flags, default=d)` are absent. -/
structure OptNoContradiction (f : Nat) (shortGiven : Bool) (d : DefVal) : Prop where
  /-- a value-less option cannot also require, optionally take or multiply a value -/
  noValue_alone : has f OptFlags.NO_VALUE = true →
    has f OptFlags.REQUIRED_VALUE = false ∧ has f OptFlags.OPTIONAL_VALUE = false ∧
      has f OptFlags.MULTI_VALUED = false
  /-- an optional value cannot be multi-valued -/
  optional_not_multi : ¬ (has f OptFlags.OPTIONAL_VALUE = true ∧ has f OptFlags.MULTI_VALUED = true)
  /-- at most one value type -/
  one_type : countFlags f optTypeFlags ≤ 1
  /-- at most one name preference -/
  one_pref : countFlags f optPrefFlags ≤ 1
  /-- a short-name preference needs a short name -/
  short_pref : has f AbsOptFlags.PREFER_SHORT_NAME = true → shortGiven = true
  /-- a value-less option (explicitly or by default) has no default value -/
  valueless_default : takesValue f = false → d = .none
  /-- the default of a multi-valued option is a list (or absent) -/
  multi_default : has f OptFlags.MULTI_VALUED = true → d ≠ .scalar

/-- The documented contradictions of `Argument(name, flags, default=d)` are absent. -/
structure ArgNoContradiction (f : Nat) (d : DefVal) : Prop where
  /-- a required argument cannot be optional -/
  required_not_optional : ¬ (has f ArgFlags.REQUIRED = true ∧ has f ArgFlags.OPTIONAL = true)
  /-- at most one value type -/
  one_type : countFlags f argTypeFlags ≤ 1
  /-- a required argument cannot be given a default -/
  required_default : has f ArgFlags.REQUIRED = true → d = .none
  /-- the default of a multi-valued argument is a list (or absent) -/
  multi_default : has f ArgFlags.MULTI_VALUED = true → d ≠ .scalar

/-- The documented contradictions of `CommandOption(long, short, aliases, flags)` are absent. -/
structure CmdNoContradiction (f : Nat) (shortGiven : Bool) : Prop where
  one_pref : countFlags f optPrefFlags ≤ 1
  short_pref : has f AbsOptFlags.PREFER_SHORT_NAME = true → shortGiven = true

/-! ### Counting flags -/

theorem count2_le_one (f a b : Nat) :
    countFlags f [a, b] ≤ 1 ↔ ¬ (has f a = true ∧ has f b = true) := by
  unfold countFlags
  simp only [List.filter]
  cases has f a <;> cases has f b <;> simp

theorem count4_le_one (f a b c d : Nat) :
    countFlags f [a, b, c, d] ≤ 1 ↔
      (¬ (has f a = true ∧ has f b = true) ∧ ¬ (has f a = true ∧ has f c = true) ∧
       ¬ (has f a = true ∧ has f d = true) ∧ ¬ (has f b = true ∧ has f c = true) ∧
       ¬ (has f b = true ∧ has f d = true) ∧ ¬ (has f c = true ∧ has f d = true)) := by
  unfold countFlags
  simp only [List.filter]
  cases has f a <;> cases has f b <;> cases has f c <;> cases has f d <;> simp

theorem count2_eq_one (f a b : Nat) :
    countFlags f [a, b] = 1 ↔ (has f a = !has f b) := by
  unfold countFlags
  simp only [List.filter]
  cases has f a <;> cases has f b <;> simp

theorem count4_eq_one (f a b c d : Nat) :
    countFlags f [a, b, c, d] = 1 ↔
      (countFlags f [a, b, c, d] ≤ 1 ∧ (has f a || has f b || has f c || has f d) = true) := by
  unfold countFlags
  simp only [List.filter]
  cases has f a <;> cases has f b <;> cases has f c <;> cases has f d <;> simp

/-! ### The generated flag functions, for every flag word -/

theorem absValidate_ok_iff (f : Nat) :
    absValidateFlags f = .ok () ↔ countFlags f optPrefFlags ≤ 1 := by
  unfold optPrefFlags
  rw [count2_le_one]
  unfold absValidateFlags
  simp only [has_def]
  grind

theorem absValidate_cases (f : Nat) :
    absValidateFlags f = .ok () ∨ absValidateFlags f = .error "ValueError" := by
  unfold absValidateFlags
  split <;> simp

theorem optValidate_ok_iff (f : Nat) :
    optValidateFlags f = .ok () ↔
      (countFlags f optPrefFlags ≤ 1 ∧
       (has f OptFlags.NO_VALUE = true → has f OptFlags.REQUIRED_VALUE = false ∧
          has f OptFlags.OPTIONAL_VALUE = false ∧ has f OptFlags.MULTI_VALUED = false) ∧
       ¬ (has f OptFlags.OPTIONAL_VALUE = true ∧ has f OptFlags.MULTI_VALUED = true) ∧
       countFlags f optTypeFlags ≤ 1) := by
  unfold optPrefFlags optTypeFlags
  rw [count2_le_one, count4_le_one]
  unfold optValidateFlags absValidateFlags
  simp only [has_def]
  grind (splits := 40)

theorem optValidate_cases (f : Nat) :
    optValidateFlags f = .ok () ∨ optValidateFlags f = .error "ValueError" := by
  unfold optValidateFlags absValidateFlags
  simp only [has_def]
  grind

theorem argValidate_ok_iff (f : Nat) :
    argValidateFlags f = .ok () ↔
      (¬ (has f ArgFlags.REQUIRED = true ∧ has f ArgFlags.OPTIONAL = true) ∧
        countFlags f argTypeFlags ≤ 1) := by
  unfold argTypeFlags
  rw [count4_le_one]
  unfold argValidateFlags
  simp only [has_def]
  grind

theorem argValidate_cases (f : Nat) :
    argValidateFlags f = .ok () ∨ argValidateFlags f = .error "ValueError" := by
  unfold argValidateFlags
  simp only [has_def]
  grind

/-! #### `_add_default_flags`: every bit of the result in terms of the bits of the input -/

theorem absAdd_has (s : Option Str) (f X : Nat) :
    has (absAddDefaultFlags s f) X =
      (has f X || (noPref f && (if shortTruthy s = true then has AbsOptFlags.PREFER_SHORT_NAME X
                                 else has AbsOptFlags.PREFER_LONG_NAME X))) := by
  unfold absAddDefaultFlags noPref
  simp only [has_def, has_or_right, has_ite, has_or_left]
  cases s <;> simp [shortTruthy] <;> grind

set_option linter.unusedSimpArgs false in
theorem optAdd_has (s : Option Str) (f X : Nat) :
    has (optAddDefaultFlags s f) X =
      (has f X
        || (noPref f && (if shortTruthy s = true then has AbsOptFlags.PREFER_SHORT_NAME X
                          else has AbsOptFlags.PREFER_LONG_NAME X))
        || (noMode f && has OptFlags.NO_VALUE X)
        || (noType f && has OptFlags.STRING X)
        || (has f OptFlags.MULTI_VALUED && !has f OptFlags.REQUIRED_VALUE && has OptFlags.REQUIRED_VALUE X)) := by
  unfold optAddDefaultFlags noMode noType
  simp only [has_def, has_or_right, has_ite, has_or_left, absAdd_has]
  have e : ∀ a b : Nat, has a b = (a &&& b != 0) := fun _ _ => rfl
  simp only [e AbsOptFlags.PREFER_SHORT_NAME, e AbsOptFlags.PREFER_LONG_NAME, e OptFlags.NO_VALUE,
    e OptFlags.STRING, e OptFlags.REQUIRED_VALUE,
    AbsOptFlags.PREFER_SHORT_NAME, AbsOptFlags.PREFER_LONG_NAME, OptFlags.NO_VALUE, OptFlags.STRING,
    OptFlags.REQUIRED_VALUE, OptFlags.OPTIONAL_VALUE, OptFlags.MULTI_VALUED, OptFlags.BOOLEAN,
    OptFlags.INTEGER, OptFlags.FLOAT]
  simp
  grind

set_option linter.unusedSimpArgs false in
theorem argAdd_has (f X : Nat) :
    has (argAddDefaultFlags f) X =
      (has f X || (argNoReq f && has ArgFlags.OPTIONAL X) || (argNoType f && has ArgFlags.STRING X)) := by
  unfold argAddDefaultFlags argNoReq argNoType
  simp only [has_def, has_or_right, has_ite, has_or_left]
  have e : ∀ a b : Nat, has a b = (a &&& b != 0) := fun _ _ => rfl
  simp only [e ArgFlags.OPTIONAL, e ArgFlags.STRING,
    ArgFlags.REQUIRED, ArgFlags.OPTIONAL, ArgFlags.STRING, ArgFlags.BOOLEAN, ArgFlags.INTEGER, ArgFlags.FLOAT]
  simp
  grind

/-- normalisation only adds bits -/
theorem absAdd_keeps (s : Option Str) (f : Nat) : keeps (absAddDefaultFlags s f) f := by
  unfold absAddDefaultFlags
  split
  · exact keeps_or_left _ _
  · exact keeps_refl _

theorem optAdd_keeps (s : Option Str) (f : Nat) : keeps (optAddDefaultFlags s f) f := by
  unfold optAddDefaultFlags
  have h1 := absAdd_keeps s f
  generalize absAddDefaultFlags s f = f1 at *
  have step : ∀ (c : Prop) [Decidable c] (g a : Nat), keeps (if c then g ||| a else g) g := by
    intro c _ g a
    split
    · exact keeps_or_left _ _
    · exact keeps_refl _
  exact keeps_trans (step _ _ _) (keeps_trans (step _ _ _) (keeps_trans (step _ _ _) h1))

theorem argAdd_keeps (f : Nat) : keeps (argAddDefaultFlags f) f := by
  unfold argAddDefaultFlags
  have step : ∀ (c : Prop) [Decidable c] (g a : Nat), keeps (if c then g ||| a else g) g := by
    intro c _ g a
    split
    · exact keeps_or_left _ _
    · exact keeps_refl _
  exact keeps_trans (step _ _ _) (step _ _ _)

/-! #### the flag predicates -/

theorem optAcceptsValue_eq (f : Nat) : optAcceptsValue f = !has f OptFlags.NO_VALUE := by
  simp [optAcceptsValue, has_def']
theorem optIsValueRequired_eq (f : Nat) : optIsValueRequired f = has f OptFlags.REQUIRED_VALUE := by
  simp [optIsValueRequired, has_def']
theorem optIsValueOptional_eq (f : Nat) : optIsValueOptional f = has f OptFlags.OPTIONAL_VALUE := by
  simp [optIsValueOptional, has_def']
theorem optIsMultiValued_eq (f : Nat) : optIsMultiValued f = has f OptFlags.MULTI_VALUED := by
  simp [optIsMultiValued, has_def']
theorem optIsLongPreferred_eq (f : Nat) : optIsLongPreferred f = has f AbsOptFlags.PREFER_LONG_NAME := rfl
theorem optIsShortPreferred_eq (f : Nat) : optIsShortPreferred f = has f AbsOptFlags.PREFER_SHORT_NAME := rfl
theorem argIsRequired_eq (f : Nat) : argIsRequired f = has f ArgFlags.REQUIRED := by
  simp [argIsRequired, has_def']
theorem argIsOptional_eq (f : Nat) : argIsOptional f = has f ArgFlags.OPTIONAL := by
  simp [argIsOptional, has_def']
theorem argIsMultiValued_eq (f : Nat) : argIsMultiValued f = has f ArgFlags.MULTI_VALUED := by
  simp [argIsMultiValued, has_def']

/-! ### Names -/

/-- a well-formed long option name: at least two characters, an ASCII letter first, then
letters, digits and hyphens only -/
def wfLong (s : Str) : Bool :=
  decide (2 ≤ s.length) && headIsAlpha isAsciiLetter s && s.all nameChar

/-- a well-formed short option name: exactly one ASCII letter -/
def wfShort (s : Str) : Bool :=
  match s with
  | [c] => isAsciiLetter c
  | _ => false

/-- a well-formed argument name: an ASCII letter, then letters, digits and hyphens only -/
def wfArgName (s : Str) : Bool :=
  headIsAlpha isAsciiLetter s && s.all nameChar

/-- The contract assumed of CPython's `str.isalpha`: on the characters `[a-zA-Z0-9-]` it is true
exactly for the ASCII letters (it is also true for, e.g., 'é', which the regex then rejects). -/
def AlphaOK (alpha : Char → Bool) : Prop :=
  ∀ c, nameChar c = true → alpha c = isAsciiLetter c

theorem alphaOK_ascii : AlphaOK isAsciiLetter := fun _ _ => rfl

theorem reLetter_eq_wfShort (s : Str) : reLetter s = wfShort s := rfl

/-- `isalpha` on the first character composed with the regex accepts exactly an ASCII letter
followed by name characters. -/
theorem head_and_re {alpha : Char → Bool} (hα : AlphaOK alpha) (s : Str) :
    (headIsAlpha alpha s && reName s) = wfArgName s := by
  cases s with
  | nil => simp [headIsAlpha, reName, wfArgName]
  | cons c r =>
    simp only [headIsAlpha, reName, wfArgName, List.isEmpty_cons, Bool.not_false, Bool.true_and,
      List.all_cons]
    cases hc : nameChar c
    · simp
    · rw [hα c hc]

theorem wfLong_eq (s : Str) : wfLong s = (decide (2 ≤ s.length) && wfArgName s) := by
  simp [wfLong, wfArgName, Bool.and_assoc]

theorem validateLongName_ok_iff {alpha : Char → Bool} (hα : AlphaOK alpha) (a : NameArg) (l : Str) :
    validateLongName alpha a = .ok l ↔ (a = .str l ∧ wfLong l = true) := by
  cases a with
  | none => simp [validateLongName]
  | nonStr => simp [validateLongName]
  | str s =>
    simp only [validateLongName, wfLong_eq, ← head_and_re hα, NameArg.str.injEq]
    by_cases hl : s = l
    · subst hl
      by_cases e1 : s.isEmpty = true
      · have : s = [] := by simpa using e1
        subst this; simp
      · by_cases e2 : s.length < 2
        · have : ¬ (2 ≤ s.length) := by omega
          simp [e1, e2, this]
        · have : 2 ≤ s.length := by omega
          cases e3 : headIsAlpha alpha s <;> cases e4 : reName s <;> simp [e1, e2, this]
    · have : ∀ x : Except Err Str, (x = .error .valueError ∨ x = .ok s) → ¬ (x = .ok l) := by
        intro x hx
        cases hx with
        | inl h => simp [h]
        | inr h => simp [h, hl]
      simp only [hl, false_and, iff_false]
      apply this
      repeat' split
      all_goals simp

theorem validateLongName_err (alpha : Char → Bool) (a : NameArg) (e : Err) :
    validateLongName alpha a = .error e → e = .valueError := by
  intro h
  cases a with
  | none => simp [validateLongName] at h; exact h.symm
  | nonStr => simp [validateLongName] at h; exact h.symm
  | str s =>
    simp only [validateLongName] at h
    repeat' split at h
    all_goals first | (injection h with h; exact h.symm) | (simp at h)

theorem validateArgName_ok_iff {alpha : Char → Bool} (hα : AlphaOK alpha) (a : NameArg) (l : Str) :
    validateArgName alpha a = .ok l ↔ (a = .str l ∧ wfArgName l = true) := by
  cases a with
  | none => simp [validateArgName]
  | nonStr => simp [validateArgName]
  | str s =>
    simp only [validateArgName, ← head_and_re hα, NameArg.str.injEq]
    by_cases hl : s = l
    · subst hl
      by_cases e1 : s.isEmpty = true
      · have : s = [] := by simpa using e1
        subst this; simp [headIsAlpha]
      · cases e3 : headIsAlpha alpha s <;> cases e4 : reName s <;> simp [e1]
    · have : ∀ x : Except Err Str, (x = .error .valueError ∨ x = .ok s) → ¬ (x = .ok l) := by
        intro x hx
        cases hx with
        | inl h => simp [h]
        | inr h => simp [h, hl]
      simp only [hl, false_and, iff_false]
      apply this
      repeat' split
      all_goals simp

theorem validateArgName_err (alpha : Char → Bool) (a : NameArg) (e : Err) :
    validateArgName alpha a = .error e → e = .valueError := by
  intro h
  cases a with
  | none => simp [validateArgName] at h; exact h.symm
  | nonStr => simp [validateArgName] at h; exact h.symm
  | str s =>
    simp only [validateArgName] at h
    repeat' split at h
    all_goals first | (injection h with h; exact h.symm) | (simp at h)

theorem validateShortName_ok_iff (a : NameArg) (f : Nat) (r : Option Str) :
    validateShortName a f = .ok r ↔
      ((a = .none ∧ has f AbsOptFlags.PREFER_SHORT_NAME = false ∧ r = none) ∨
       (∃ t, a = .str t ∧ wfShort t = true ∧ r = some t)) := by
  cases a with
  | none =>
    simp only [validateShortName]
    cases hp : has f AbsOptFlags.PREFER_SHORT_NAME
    · simp only [Bool.false_eq_true, if_false, Except.ok.injEq, true_and, reduceCtorEq, false_and,
        exists_false, or_false]
      exact ⟨fun h => h.symm, fun h => h.symm⟩
    · simp
  | nonStr => simp [validateShortName]
  | str s =>
    simp only [validateShortName, reLetter_eq_wfShort]
    by_cases hw : wfShort s = true
    case neg =>
      have hno : ∀ t, s = t → wfShort t = true → False := by
        intro t ht; subst ht; exact hw
      constructor
      · intro h; split at h <;> simp [hw] at h
      · intro h
        cases h with
        | inl h => simp at h
        | inr h =>
          obtain ⟨t, ht, hwt, _⟩ := h
          injection ht with ht
          exact (hno t ht hwt).elim
    case pos =>
      have hne : s.isEmpty = false := by
        cases s with
        | nil => simp [wfShort] at hw
        | cons c r => rfl
      simp only [hne, hw, Bool.false_eq_true, if_false, Bool.not_true, Except.ok.injEq, reduceCtorEq,
        false_and, false_or, NameArg.str.injEq]
      constructor
      · intro h; exact ⟨s, rfl, hw, h.symm⟩
      · intro h
        obtain ⟨t, ht, _, h⟩ := h
        subst ht
        exact h.symm

theorem validateShortName_err (a : NameArg) (f : Nat) (e : Err) :
    validateShortName a f = .error e → e = .valueError := by
  intro h
  cases a with
  | nonStr => simp [validateShortName] at h; exact h.symm
  | none =>
    simp only [validateShortName] at h
    split at h
    · injection h with h; exact h.symm
    · simp at h
  | str s =>
    simp only [validateShortName] at h
    repeat' split at h
    all_goals first | (injection h with h; exact h.symm) | (simp at h)

theorem wfShort_truthy {t : Str} (h : wfShort t = true) : shortTruthy (some t) = true := by
  cases t with
  | nil => simp [wfShort] at h
  | cons c r => simp [shortTruthy]

theorem liftErr_ok_iff {α : Type} (x : Except String α) (a : α) : liftErr x = .ok a ↔ x = .ok a := by
  cases x with
  | ok b => simp [liftErr]
  | error t => simp only [liftErr]; split <;> simp

theorem liftErr_valueError {α : Type} (x : Except String α) (e : Err)
    (h : ∀ t, x = .error t → t = "ValueError") : liftErr x = .error e → e = .valueError := by
  cases x with
  | ok b => simp [liftErr]
  | error t =>
    have := h t rfl
    subst this
    simp [liftErr]
    intro h; exact h.symm

/-! ### Constructors: inversion -/

theorem liftErr_ne_ok {α : Type} (x : Except String α) (e : Err) (a : α)
    (h : liftErr x = .error e) : x ≠ .ok a := by
  intro hx
  rw [hx] at h
  simp [liftErr] at h

theorem mkAbstract_ok_iff (alpha : Char → Bool) (v : Nat → Except String Unit)
    (add : Option Str → Nat → Nat) (long short : NameArg) (f : Nat) (l : Str) (s : Option Str) (fl : Nat) :
    mkAbstract alpha v add long short f = .ok (l, s, fl) ↔
      (v f = .ok () ∧ validateLongName alpha (removeDoubleDash long) = .ok l ∧
        validateShortName (removeDash short) f = .ok s ∧ fl = add s f) := by
  unfold mkAbstract
  cases h0 : liftErr (v f) with
  | error e =>
    have hv := liftErr_ne_ok _ _ () h0
    simp [hv]
  | ok u =>
    have hv : v f = .ok () := (liftErr_ok_iff _ _).1 h0
    simp only [hv, true_and]
    cases h2 : validateLongName alpha (removeDoubleDash long) with
    | error e => simp
    | ok l' =>
      cases h3 : validateShortName (removeDash short) f with
      | error e => simp
      | ok s' =>
        simp only [Except.ok.injEq, Prod.mk.injEq]
        constructor
        · intro h
          obtain ⟨h1, h2, h3⟩ := h
          subst h1; subst h2
          exact ⟨rfl, rfl, h3.symm⟩
        · intro h
          obtain ⟨h1, h2, h3⟩ := h
          subst h1; subst h2
          exact ⟨rfl, rfl, h3.symm⟩

theorem mkAbstract_err (alpha : Char → Bool) (v : Nat → Except String Unit)
    (add : Option Str → Nat → Nat) (long short : NameArg) (f : Nat) (e : Err)
    (hv : ∀ t, v f = .error t → t = "ValueError") :
    mkAbstract alpha v add long short f = .error e → e = .valueError := by
  unfold mkAbstract
  intro h
  cases h1 : liftErr (v f) with
  | error e1 =>
    rw [h1] at h
    injection h with h
    subst h
    exact liftErr_valueError (v f) e1 hv h1
  | ok u =>
    rw [h1] at h
    cases h2 : validateLongName alpha (removeDoubleDash long) with
    | error e2 =>
      simp only [h2] at h
      injection h with h
      subst h
      exact validateLongName_err _ _ _ h2
    | ok l' =>
      cases h3 : validateShortName (removeDash short) f with
      | error e3 =>
        simp only [h2, h3] at h
        injection h with h
        subst h
        exact validateShortName_err _ _ _ h3
      | ok s' => simp [h2, h3] at h

theorem ofCode_err (k : Nat) (e : Err) (h : DefVal.ofCode k = .error e) : 3 ≤ k := by
  match k with
  | 0 => simp [DefVal.ofCode] at h
  | 1 => simp [DefVal.ofCode] at h
  | 2 => simp [DefVal.ofCode] at h
  | k + 3 => omega

theorem optSetDefaultKind_cases (fl : Nat) (d : DefVal) :
    optSetDefaultKind fl d.code = .error "ValueError" ∨
      ∃ k, optSetDefaultKind fl d.code = .ok k ∧ k < 3 := by
  unfold optSetDefaultKind
  cases d <;> simp only [DefVal.code] <;> repeat' split
  all_goals simp

theorem argSetDefaultKind_cases (fl : Nat) (d : DefVal) :
    argSetDefaultKind fl d.code = .error "ValueError" ∨
      ∃ k, argSetDefaultKind fl d.code = .ok k ∧ k < 3 := by
  unfold argSetDefaultKind
  cases d <;> simp only [DefVal.code] <;> repeat' split
  all_goals simp

theorem optSetDefault_err (fl : Nat) (d : DefVal) (e : Err) :
    optSetDefault fl d = .error e → e = .valueError := by
  unfold optSetDefault
  intro h
  rcases optSetDefaultKind_cases fl d with hk | ⟨k, hk, hlt⟩
  · rw [hk] at h
    simp [liftErr] at h
    exact h.symm
  · rw [hk] at h
    simp only [liftErr] at h
    have := ofCode_err k e h
    omega

theorem argSetDefault_err (fl : Nat) (d : DefVal) (e : Err) :
    argSetDefault fl d = .error e → e = .valueError := by
  unfold argSetDefault
  intro h
  rcases argSetDefaultKind_cases fl d with hk | ⟨k, hk, hlt⟩
  · rw [hk] at h
    simp [liftErr] at h
    exact h.symm
  · rw [hk] at h
    simp only [liftErr] at h
    have := ofCode_err k e h
    omega

/-- what the tail of `Option.__init__` leaves in `_default` -/
def optDefaultOutcome (fl : Nat) (d : DefVal) : Except Err DefVal :=
  if (optAcceptsValue fl || d != .none) = true then optSetDefault fl d
  else .ok (if optIsMultiValued fl = true then DefVal.list else DefVal.none)

theorem mkOption_ok_iff (alpha : Char → Bool) (long short : NameArg) (f : Nat) (d : DefVal)
    (o : OptionObj) :
    mkOption alpha long short f d = .ok o ↔
      (optValidateFlags f = .ok () ∧
        validateLongName alpha (removeDoubleDash long) = .ok o.longName ∧
        validateShortName (removeDash short) f = .ok o.shortName ∧
        o.flags = optAddDefaultFlags o.shortName f ∧
        optDefaultOutcome o.flags d = .ok o.default) := by
  unfold mkOption
  cases h0 : liftErr (optValidateFlags f) with
  | error e =>
    have hv := liftErr_ne_ok _ _ () h0
    simp [hv]
  | ok u =>
    have hv : optValidateFlags f = .ok () := (liftErr_ok_iff _ _).1 h0
    simp only [hv, true_and]
    cases h2 : mkAbstract alpha optValidateFlags optAddDefaultFlags long short f with
    | error e =>
      simp only [reduceCtorEq, false_iff]
      intro h
      obtain ⟨ha, hb, hc, _⟩ := h
      have := (mkAbstract_ok_iff alpha optValidateFlags optAddDefaultFlags long short f
        o.longName o.shortName o.flags).2 ⟨hv, ha, hb, hc⟩
      rw [h2] at this
      cases this
    | ok r =>
      obtain ⟨l, s, fl⟩ := r
      obtain ⟨_, ha, hb, hc⟩ := (mkAbstract_ok_iff _ _ _ _ _ _ _ _ _).1 h2
      rw [ha, hb]
      subst hc
      unfold optDefaultOutcome
      cases o with
      | mk ol os ofl od =>
        simp only [Except.ok.injEq]
        by_cases hc1 : (optAcceptsValue (optAddDefaultFlags s f) || d != DefVal.none) = true
        · simp only [hc1, if_true]
          cases hsd : optSetDefault (optAddDefaultFlags s f) d with
          | error e =>
            simp only [reduceCtorEq, false_iff]
            intro h
            obtain ⟨h1, h2, h3, h4⟩ := h
            subst h1; subst h2; subst h3
            rw [if_pos hc1, hsd] at h4
            cases h4
          | ok d' =>
            simp only [Except.ok.injEq, OptionObj.mk.injEq]
            constructor
            · intro h
              obtain ⟨h1, h2, h3, h4⟩ := h
              subst h1; subst h2; subst h3; subst h4
              refine ⟨rfl, rfl, rfl, ?_⟩
              rw [if_pos hc1, hsd]
            · intro h
              obtain ⟨h1, h2, h3, h4⟩ := h
              subst h1; subst h2; subst h3
              rw [if_pos hc1, hsd] at h4
              injection h4 with h4
              subst h4
              exact ⟨rfl, rfl, rfl, rfl⟩
        · rw [if_neg hc1]
          simp only [Except.ok.injEq, OptionObj.mk.injEq]
          constructor
          · intro h
            obtain ⟨h1, h2, h3, h4⟩ := h
            subst h1; subst h2; subst h3; subst h4
            refine ⟨rfl, rfl, rfl, ?_⟩
            rw [if_neg hc1]
          · intro h
            obtain ⟨h1, h2, h3, h4⟩ := h
            subst h1; subst h2; subst h3
            rw [if_neg hc1] at h4
            injection h4 with h4
            exact ⟨rfl, rfl, rfl, h4⟩

theorem mkOption_err (alpha : Char → Bool) (long short : NameArg) (f : Nat) (d : DefVal) (e : Err) :
    mkOption alpha long short f d = .error e → e = .valueError := by
  unfold mkOption
  intro h
  have hv : ∀ t, optValidateFlags f = .error t → t = "ValueError" := by
    intro t ht
    cases optValidate_cases f with
    | inl h => rw [h] at ht; cases ht
    | inr h => rw [h] at ht; injection ht with ht; exact ht.symm
  cases h1 : liftErr (optValidateFlags f) with
  | error e1 =>
    rw [h1] at h
    injection h with h
    subst h
    exact liftErr_valueError _ e1 hv h1
  | ok u =>
    rw [h1] at h
    cases h2 : mkAbstract alpha optValidateFlags optAddDefaultFlags long short f with
    | error e2 =>
      simp only [h2] at h
      injection h with h
      subst h
      exact mkAbstract_err _ _ _ _ _ _ _ hv h2
    | ok r =>
      obtain ⟨l, s, fl⟩ := r
      simp only [h2] at h
      split at h
      · cases h3 : optSetDefault fl d with
        | error e3 =>
          simp only [h3] at h
          injection h with h
          subst h
          exact optSetDefault_err _ _ _ h3
        | ok d' => simp [h3] at h
      · cases h

/-! ### Defaults and the bits of the normalised word -/

theorem optDefaultOutcome_ok_iff (fl : Nat) (d dv : DefVal) :
    optDefaultOutcome fl d = .ok dv ↔
      ((has fl OptFlags.NO_VALUE = true → d = .none) ∧
       (has fl OptFlags.NO_VALUE = false → has fl OptFlags.MULTI_VALUED = true → d ≠ .scalar) ∧
       dv = (if has fl OptFlags.MULTI_VALUED = true then DefVal.list else d)) := by
  unfold optDefaultOutcome optSetDefault optSetDefaultKind
  rw [optAcceptsValue_eq, optIsMultiValued_eq]
  cases has fl OptFlags.NO_VALUE <;> cases has fl OptFlags.MULTI_VALUED <;> cases d <;> cases dv <;>
    simp [DefVal.code, DefVal.ofCode, liftErr]

macro "flag_bits" : tactic => `(tactic| (
  simp only [optAdd_has, argAdd_has, absAdd_has]
  simp [has, noMode, noType, noPref, argNoReq, argNoType, AbsOptFlags.PREFER_SHORT_NAME, AbsOptFlags.PREFER_LONG_NAME, OptFlags.NO_VALUE, OptFlags.STRING,
    OptFlags.REQUIRED_VALUE, OptFlags.OPTIONAL_VALUE, OptFlags.MULTI_VALUED, OptFlags.BOOLEAN,
    OptFlags.INTEGER, OptFlags.FLOAT, OptFlags.NULLABLE,
    ArgFlags.REQUIRED, ArgFlags.OPTIONAL, ArgFlags.MULTI_VALUED, ArgFlags.STRING, ArgFlags.BOOLEAN, ArgFlags.INTEGER, ArgFlags.FLOAT, ArgFlags.NULLABLE]))

theorem optAdd_noValue (s : Option Str) (f : Nat) :
    has (optAddDefaultFlags s f) OptFlags.NO_VALUE = (has f OptFlags.NO_VALUE || noMode f) := by
  flag_bits

theorem optAdd_required (s : Option Str) (f : Nat) :
    has (optAddDefaultFlags s f) OptFlags.REQUIRED_VALUE = (has f OptFlags.REQUIRED_VALUE || has f OptFlags.MULTI_VALUED) := by
  flag_bits
  grind

theorem optAdd_optional_value (s : Option Str) (f : Nat) :
    has (optAddDefaultFlags s f) OptFlags.OPTIONAL_VALUE = has f OptFlags.OPTIONAL_VALUE := by
  flag_bits

theorem optAdd_multi_valued (s : Option Str) (f : Nat) :
    has (optAddDefaultFlags s f) OptFlags.MULTI_VALUED = has f OptFlags.MULTI_VALUED := by
  flag_bits

theorem optAdd_boolean (s : Option Str) (f : Nat) :
    has (optAddDefaultFlags s f) OptFlags.BOOLEAN = has f OptFlags.BOOLEAN := by
  flag_bits

theorem optAdd_integer (s : Option Str) (f : Nat) :
    has (optAddDefaultFlags s f) OptFlags.INTEGER = has f OptFlags.INTEGER := by
  flag_bits

theorem optAdd_float (s : Option Str) (f : Nat) :
    has (optAddDefaultFlags s f) OptFlags.FLOAT = has f OptFlags.FLOAT := by
  flag_bits

theorem optAdd_nullable (s : Option Str) (f : Nat) :
    has (optAddDefaultFlags s f) OptFlags.NULLABLE = has f OptFlags.NULLABLE := by
  flag_bits

theorem optAdd_string (s : Option Str) (f : Nat) :
    has (optAddDefaultFlags s f) OptFlags.STRING = (has f OptFlags.STRING || noType f) := by
  flag_bits

theorem optAdd_long (s : Option Str) (f : Nat) :
    has (optAddDefaultFlags s f) AbsOptFlags.PREFER_LONG_NAME = (has f AbsOptFlags.PREFER_LONG_NAME || (noPref f && !shortTruthy s)) := by
  flag_bits

theorem optAdd_short (s : Option Str) (f : Nat) :
    has (optAddDefaultFlags s f) AbsOptFlags.PREFER_SHORT_NAME = (has f AbsOptFlags.PREFER_SHORT_NAME || (noPref f && shortTruthy s)) := by
  flag_bits

theorem absAdd_long (s : Option Str) (f : Nat) :
    has (absAddDefaultFlags s f) AbsOptFlags.PREFER_LONG_NAME = (has f AbsOptFlags.PREFER_LONG_NAME || (noPref f && !shortTruthy s)) := by
  flag_bits

theorem absAdd_short (s : Option Str) (f : Nat) :
    has (absAddDefaultFlags s f) AbsOptFlags.PREFER_SHORT_NAME = (has f AbsOptFlags.PREFER_SHORT_NAME || (noPref f && shortTruthy s)) := by
  flag_bits

theorem argAdd_required (f : Nat) :
    has (argAddDefaultFlags f) ArgFlags.REQUIRED = has f ArgFlags.REQUIRED := by
  flag_bits

theorem argAdd_optional (f : Nat) :
    has (argAddDefaultFlags f) ArgFlags.OPTIONAL = (has f ArgFlags.OPTIONAL || argNoReq f) := by
  flag_bits

theorem argAdd_string (f : Nat) :
    has (argAddDefaultFlags f) ArgFlags.STRING = (has f ArgFlags.STRING || argNoType f) := by
  flag_bits

theorem argAdd_multi_valued (f : Nat) :
    has (argAddDefaultFlags f) ArgFlags.MULTI_VALUED = has f ArgFlags.MULTI_VALUED := by
  flag_bits

theorem argAdd_boolean (f : Nat) :
    has (argAddDefaultFlags f) ArgFlags.BOOLEAN = has f ArgFlags.BOOLEAN := by
  flag_bits

theorem argAdd_integer (f : Nat) :
    has (argAddDefaultFlags f) ArgFlags.INTEGER = has f ArgFlags.INTEGER := by
  flag_bits

theorem argAdd_float (f : Nat) :
    has (argAddDefaultFlags f) ArgFlags.FLOAT = has f ArgFlags.FLOAT := by
  flag_bits

theorem argAdd_nullable (f : Nat) :
    has (argAddDefaultFlags f) ArgFlags.NULLABLE = has f ArgFlags.NULLABLE := by
  flag_bits

/-- bits outside the five flags a normalisation can add are left alone (undefined bits included) -/
theorem optAdd_other (s : Option Str) (f X : Nat)
    (h1 : has AbsOptFlags.PREFER_LONG_NAME X = false) (h2 : has AbsOptFlags.PREFER_SHORT_NAME X = false)
    (h3 : has OptFlags.NO_VALUE X = false) (h4 : has OptFlags.STRING X = false)
    (h5 : has OptFlags.REQUIRED_VALUE X = false) :
    has (optAddDefaultFlags s f) X = has f X := by
  rw [optAdd_has, h1, h2, h3, h4, h5]
  simp

theorem argAdd_other (f X : Nat) (h1 : has ArgFlags.OPTIONAL X = false) (h2 : has ArgFlags.STRING X = false) :
    has (argAddDefaultFlags f) X = has f X := by
  rw [argAdd_has, h1, h2]
  simp

/-! ### Dash stripping -/

theorem removeDoubleDash_str (s : Str) : removeDoubleDash (.str s) = .str (stripDoubleDash s) := by
  unfold removeDoubleDash stripDoubleDash
  split
  · next r h => injection h with h; subst h; rfl
  · next h =>
    split
    · next r => exact (h r rfl).elim
    · rfl

theorem removeDash_str (s : Str) : removeDash (.str s) = .str (stripDash s) := by
  unfold removeDash stripDash
  split
  · next r h => injection h with h; subst h; rfl
  · next h =>
    split
    · next r => exact (h r rfl).elim
    · rfl

theorem removeDoubleDash_eq_str (a : NameArg) (l : Str) :
    removeDoubleDash a = .str l ↔ ∃ s, a = .str s ∧ stripDoubleDash s = l := by
  cases a with
  | none => simp [removeDoubleDash]
  | nonStr => simp [removeDoubleDash]
  | str s => simp [removeDoubleDash_str]

theorem removeDash_eq_str (a : NameArg) (l : Str) :
    removeDash a = .str l ↔ ∃ s, a = .str s ∧ stripDash s = l := by
  cases a with
  | none => simp [removeDash]
  | nonStr => simp [removeDash]
  | str s => simp [removeDash_str]

theorem removeDash_eq_none (a : NameArg) : removeDash a = .none ↔ a = .none := by
  cases a with
  | none => simp [removeDash]
  | nonStr => simp [removeDash]
  | str s => simp [removeDash_str]


/-! ### `Option.__init__`: specification -/

/-- the long-name argument is a string that is well-formed once `--` is stripped -/
def LongNameOK (a : NameArg) : Prop := ∃ s, a = .str s ∧ wfLong (stripDoubleDash s) = true
/-- the short-name argument is `None`, or a string that is one letter once `-` is stripped -/
def ShortNameOK (a : NameArg) : Prop := a = .none ∨ ∃ s, a = .str s ∧ wfShort (stripDash s) = true

/-- the names an object stores: the arguments without their dash prefix -/
def storedLong (a : NameArg) : Str := match a with | .str s => stripDoubleDash s | _ => []
def storedShort (a : NameArg) : Option Str := match a with | .str s => some (stripDash s) | _ => none

/-- flags and default checks of `Option.__init__`, given that the short name check passed with `s` -/
theorem opt_flags_default_iff (f : Nat) (sg : Bool) (s : Option Str) (d dv : DefVal)
    (hs : sg = false → has f AbsOptFlags.PREFER_SHORT_NAME = false) :
    (optValidateFlags f = .ok () ∧ optDefaultOutcome (optAddDefaultFlags s f) d = .ok dv) ↔
      (OptNoContradiction f sg d ∧ dv = (if has f OptFlags.MULTI_VALUED = true then DefVal.list else d)) := by
  rw [optValidate_ok_iff, optDefaultOutcome_ok_iff, optAdd_noValue, optAdd_multi_valued]
  constructor
  · intro h
    obtain ⟨⟨h1, h2, h3, h4⟩, h5, h6, h7⟩ := h
    refine ⟨⟨h2, h3, h4, h1, ?_, ?_, ?_⟩, h7⟩
    · intro hp; cases sg with
      | true => rfl
      | false => rw [hs rfl] at hp; cases hp
    · intro ht; apply h5
      unfold takesValue at ht; unfold noMode
      cases has f OptFlags.NO_VALUE <;> simp_all
    · intro hm; apply h6 _ hm
      unfold noMode
      cases hnv : has f OptFlags.NO_VALUE
      · simp [hm]
      · have := h2 hnv; simp_all
  · intro h
    obtain ⟨⟨h2, h3, h4, h1, h5, h6, h7⟩, h8⟩ := h
    refine ⟨⟨h1, h2, h3, h4⟩, ?_, ?_, h8⟩
    · intro hnv; apply h6
      unfold takesValue; unfold noMode at hnv
      cases hv : has f OptFlags.NO_VALUE
      · simp_all
      · have := h2 hv; simp_all
    · intro _ hm; exact h7 hm

theorem noContr_short_pref {f : Nat} {sg : Bool} {d : DefVal} (h : OptNoContradiction f sg d)
    (hsg : sg = false) : has f AbsOptFlags.PREFER_SHORT_NAME = false := by
  cases hp : has f AbsOptFlags.PREFER_SHORT_NAME
  · rfl
  · have := h.short_pref hp
    rw [hsg] at this
    cases this

theorem mkOption_spec {alpha : Char → Bool} (hα : AlphaOK alpha) (long short : NameArg) (f : Nat)
    (d : DefVal) (o : OptionObj) :
    mkOption alpha long short f d = .ok o ↔
      (OptNoContradiction f (short != .none) d ∧ LongNameOK long ∧ ShortNameOK short ∧
       o = ⟨storedLong long, storedShort short, optAddDefaultFlags (storedShort short) f,
            if has f OptFlags.MULTI_VALUED = true then DefVal.list else d⟩) := by
  rw [mkOption_ok_iff, validateLongName_ok_iff hα, validateShortName_ok_iff]
  cases o with
  | mk ol os ofl od =>
  simp only
  constructor
  · intro h
    obtain ⟨hv, ⟨hl1, hl2⟩, hs, hfl, hd⟩ := h
    obtain ⟨ls, hls, hls'⟩ := (removeDoubleDash_eq_str _ _).1 hl1
    subst hls
    subst hls'
    cases hs with
    | inl hs =>
      obtain ⟨hs1, hs2, hs3⟩ := hs
      have hsn := (removeDash_eq_none _).1 hs1
      subst hsn
      subst hs3
      subst hfl
      have := (opt_flags_default_iff f false none d od (fun _ => hs2)).1 ⟨hv, hd⟩
      refine ⟨this.1, ⟨ls, rfl, hl2⟩, Or.inl rfl, ?_⟩
      rw [this.2]
      rfl
    | inr hs =>
      obtain ⟨t, hs1, hs2, hs3⟩ := hs
      obtain ⟨ss, hss, hss'⟩ := (removeDash_eq_str _ _).1 hs1
      subst hss
      subst hss'
      subst hs3
      subst hfl
      have := (opt_flags_default_iff f true (some (stripDash ss)) d od (fun h => by cases h)).1 ⟨hv, hd⟩
      refine ⟨this.1, ⟨ls, rfl, hl2⟩, Or.inr ⟨ss, rfl, hs2⟩, ?_⟩
      rw [this.2]
      rfl
  · intro h
    obtain ⟨hnc, ⟨ls, hls, hlw⟩, hs, ho⟩ := h
    subst hls
    injection ho with ho1 ho2 ho3 ho4
    cases hs with
    | inl hs =>
      subst hs
      simp only [storedShort, storedLong] at ho1 ho2 ho3
      subst ho1; subst ho2; subst ho3
      have := (opt_flags_default_iff f false none d od (fun _ => noContr_short_pref hnc rfl)).2 ⟨hnc, ho4⟩
      refine ⟨this.1, ⟨removeDoubleDash_str ls, hlw⟩, Or.inl ⟨rfl, noContr_short_pref hnc rfl, rfl⟩, rfl, this.2⟩
    | inr hs =>
      obtain ⟨ss, hss, hsw⟩ := hs
      subst hss
      simp only [storedShort, storedLong] at ho1 ho2 ho3
      subst ho1; subst ho2; subst ho3
      have := (opt_flags_default_iff f true (some (stripDash ss)) d od (fun h => by cases h)).2 ⟨hnc, ho4⟩
      refine ⟨this.1, ⟨removeDoubleDash_str ls, hlw⟩, Or.inr ⟨stripDash ss, removeDash_str ss, hsw, rfl⟩, rfl, this.2⟩


/-! ### `Argument.__init__`: inversion and specification -/

/-- what the tail of `Argument.__init__` leaves in `_default` -/
def argDefaultOutcome (fl : Nat) (d : DefVal) : Except Err DefVal :=
  if (argIsOptional fl || d != .none) = true then argSetDefault fl d
  else .ok (if argIsMultiValued fl = true then DefVal.list else DefVal.none)

theorem validateArgDescription_ok_iff (a : NameArg) :
    validateArgDescription a = .ok () ↔ (a = .none ∨ ∃ s, a = .str s ∧ s ≠ []) := by
  cases a with
  | none => simp [validateArgDescription]
  | nonStr => simp [validateArgDescription]
  | str s =>
    simp only [validateArgDescription]
    cases s <;> simp

theorem validateArgDescription_err (a : NameArg) (e : Err) :
    validateArgDescription a = .error e → e = .valueError := by
  intro h
  cases a with
  | none => simp [validateArgDescription] at h
  | nonStr => simp [validateArgDescription] at h; exact h.symm
  | str s =>
    simp only [validateArgDescription] at h
    split at h
    · injection h with h; exact h.symm
    · cases h

theorem mkArgument_ok_iff (alpha : Char → Bool) (name : NameArg) (f : Nat) (desc : NameArg) (d : DefVal)
    (a : ArgumentObj) :
    mkArgument alpha name f desc d = .ok a ↔
      (validateArgName alpha name = .ok a.name ∧ validateArgDescription desc = .ok () ∧
        argValidateFlags f = .ok () ∧ a.flags = argAddDefaultFlags f ∧
        argDefaultOutcome a.flags d = .ok a.default) := by
  unfold mkArgument
  cases h1 : validateArgName alpha name with
  | error e => simp
  | ok n =>
    cases h2 : validateArgDescription desc with
    | error e => simp
    | ok u =>
      cases h0 : liftErr (argValidateFlags f) with
      | error e =>
        have hv := liftErr_ne_ok _ _ () h0
        simp [hv]
      | ok u' =>
        have hv : argValidateFlags f = .ok () := (liftErr_ok_iff _ _).1 h0
        simp only [hv, true_and, Except.ok.injEq]
        unfold argDefaultOutcome
        cases a with
        | mk an afl ad =>
          simp only
          by_cases hc1 : (argIsOptional (argAddDefaultFlags f) || d != DefVal.none) = true
          · rw [if_pos hc1]
            cases hsd : argSetDefault (argAddDefaultFlags f) d with
            | error e =>
              simp only [reduceCtorEq, false_iff]
              intro h
              obtain ⟨h1, h3, h4⟩ := h
              subst h1; subst h3
              rw [if_pos hc1, hsd] at h4
              cases h4
            | ok d' =>
              simp only [Except.ok.injEq, ArgumentObj.mk.injEq]
              constructor
              · intro h
                obtain ⟨h1, h3, h4⟩ := h
                subst h1; subst h3; subst h4
                refine ⟨rfl, rfl, ?_⟩
                rw [if_pos hc1, hsd]
              · intro h
                obtain ⟨h1, h3, h4⟩ := h
                subst h1; subst h3
                rw [if_pos hc1, hsd] at h4
                injection h4 with h4
                exact ⟨rfl, rfl, h4⟩
          · rw [if_neg hc1]
            simp only [Except.ok.injEq, ArgumentObj.mk.injEq]
            constructor
            · intro h
              obtain ⟨h1, h3, h4⟩ := h
              subst h1; subst h3; subst h4
              refine ⟨rfl, rfl, ?_⟩
              rw [if_neg hc1]
            · intro h
              obtain ⟨h1, h3, h4⟩ := h
              subst h1; subst h3
              rw [if_neg hc1] at h4
              injection h4 with h4
              exact ⟨rfl, rfl, h4⟩

theorem mkArgument_err (alpha : Char → Bool) (name : NameArg) (f : Nat) (desc : NameArg) (d : DefVal)
    (e : Err) : mkArgument alpha name f desc d = .error e → e = .valueError := by
  unfold mkArgument
  intro h
  have hv : ∀ t, argValidateFlags f = .error t → t = "ValueError" := by
    intro t ht
    cases argValidate_cases f with
    | inl h => rw [h] at ht; cases ht
    | inr h => rw [h] at ht; injection ht with ht; exact ht.symm
  cases h1 : validateArgName alpha name with
  | error e1 =>
    rw [h1] at h
    injection h with h
    subst h
    exact validateArgName_err _ _ _ h1
  | ok n =>
    rw [h1] at h
    cases h2 : validateArgDescription desc with
    | error e2 =>
      simp only [h2] at h
      injection h with h
      subst h
      exact validateArgDescription_err _ _ h2
    | ok u =>
      simp only [h2] at h
      cases h3 : liftErr (argValidateFlags f) with
      | error e3 =>
        simp only [h3] at h
        injection h with h
        subst h
        exact liftErr_valueError _ e3 hv h3
      | ok u' =>
        simp only [h3] at h
        split at h
        · cases h4 : argSetDefault (argAddDefaultFlags f) d with
          | error e4 =>
            simp only [h4] at h
            injection h with h
            subst h
            exact argSetDefault_err _ _ _ h4
          | ok d' => simp [h4] at h
        · cases h

theorem argDefaultOutcome_ok_iff (fl : Nat) (d dv : DefVal)
    (hx : has fl ArgFlags.OPTIONAL = !has fl ArgFlags.REQUIRED) :
    argDefaultOutcome fl d = .ok dv ↔
      ((has fl ArgFlags.REQUIRED = true → d = .none) ∧
       (has fl ArgFlags.MULTI_VALUED = true → d ≠ .scalar) ∧
       dv = (if has fl ArgFlags.MULTI_VALUED = true then DefVal.list else d)) := by
  unfold argDefaultOutcome argSetDefault argSetDefaultKind
  rw [argIsOptional_eq, argIsMultiValued_eq, argIsRequired_eq, hx]
  cases has fl ArgFlags.REQUIRED <;> cases has fl ArgFlags.MULTI_VALUED <;> cases d <;> cases dv <;>
    simp [DefVal.code, DefVal.ofCode, liftErr]

/-- the name argument of `Argument` is a well-formed string (no dash stripping for arguments) -/
def ArgNameOK (a : NameArg) : Prop := ∃ s, a = .str s ∧ wfArgName s = true
/-- the description is `None` or a non-empty string -/
def DescOK (a : NameArg) : Prop := a = .none ∨ ∃ s, a = .str s ∧ s ≠ []
def storedArgName (a : NameArg) : Str := match a with | .str s => s | _ => []

theorem mkArgument_spec {alpha : Char → Bool} (hα : AlphaOK alpha) (name : NameArg) (f : Nat)
    (desc : NameArg) (d : DefVal) (a : ArgumentObj) :
    mkArgument alpha name f desc d = .ok a ↔
      (ArgNoContradiction f d ∧ ArgNameOK name ∧ DescOK desc ∧
        a = ⟨storedArgName name, argAddDefaultFlags f,
             if has f ArgFlags.MULTI_VALUED = true then DefVal.list else d⟩) := by
  rw [mkArgument_ok_iff, validateArgName_ok_iff hα, validateArgDescription_ok_iff, argValidate_ok_iff]
  cases a with
  | mk an afl ad =>
  simp only
  constructor
  · intro h
    obtain ⟨⟨hn1, hn2⟩, hdsc, ⟨hv1, hv2⟩, hfl, hd⟩ := h
    subst hn1
    subst hfl
    have hx : has (argAddDefaultFlags f) ArgFlags.OPTIONAL = !has (argAddDefaultFlags f) ArgFlags.REQUIRED := by
      rw [argAdd_optional, argAdd_required]
      unfold argNoReq
      cases h1 : has f ArgFlags.REQUIRED <;> cases h2 : has f ArgFlags.OPTIONAL <;> simp_all
    rw [argDefaultOutcome_ok_iff _ _ _ hx, argAdd_required, argAdd_multi_valued] at hd
    obtain ⟨hd1, hd2, hd3⟩ := hd
    refine ⟨⟨hv1, hv2, hd1, hd2⟩, ⟨an, rfl, hn2⟩, hdsc, ?_⟩
    rw [hd3]
    rfl
  · intro h
    obtain ⟨⟨hv1, hv2, hd1, hd2⟩, ⟨s, hs, hw⟩, hdsc, ha⟩ := h
    subst hs
    injection ha with ha1 ha2 ha3
    simp only [storedArgName] at ha1
    subst ha1; subst ha2
    have hx : has (argAddDefaultFlags f) ArgFlags.OPTIONAL = !has (argAddDefaultFlags f) ArgFlags.REQUIRED := by
      rw [argAdd_optional, argAdd_required]
      unfold argNoReq
      cases h1 : has f ArgFlags.REQUIRED <;> cases h2 : has f ArgFlags.OPTIONAL <;> simp_all
    refine ⟨⟨rfl, hw⟩, hdsc, ⟨hv1, hv2⟩, rfl, ?_⟩
    rw [argDefaultOutcome_ok_iff _ _ _ hx, argAdd_required, argAdd_multi_valued]
    exact ⟨hd1, hd2, ha3⟩


/-! ### `CommandOption.__init__`: aliases, specification -/

/-- an alias is well-formed: one ASCII letter, or a well-formed long name, after ONE leading dash
has been stripped (`CommandOption` uses `_remove_dash_prefix` for every alias) -/
def wfAlias (a : Str) : Bool := wfShort (stripDash a) || wfLong (stripDash a)

theorem wfShort_length {t : Str} (h : wfShort t = true) : t.length = 1 := by
  cases t with
  | nil => simp [wfShort] at h
  | cons c r => cases r with
    | nil => rfl
    | cons c2 r2 => simp [wfShort] at h

theorem wfLong_length {t : Str} (h : wfLong t = true) : t.length ≠ 1 := by
  simp only [wfLong, Bool.and_eq_true, decide_eq_true_eq] at h
  omega

theorem checkAlias_ok_iff {alpha : Char → Bool} (hα : AlphaOK alpha) (a : Str) (b : Bool) (t : Str) :
    checkAlias alpha a = .ok (b, t) ↔
      (t = stripDash a ∧ ((b = true ∧ wfShort t = true) ∨ (b = false ∧ wfLong t = true))) := by
  unfold checkAlias
  simp only [reLetter_eq_wfShort]
  generalize stripDash a = u
  by_cases h1 : (u.length == 1) = true
  · rw [if_pos h1]
    have hl : u.length = 1 := by simpa using h1
    have hnl : wfLong u = false := by
      cases hw : wfLong u
      · rfl
      · exact absurd hl (wfLong_length hw)
    by_cases h2 : wfShort u = true
    · simp only [h2, Bool.not_true, Bool.false_eq_true, if_false, Except.ok.injEq, Prod.mk.injEq]
      constructor
      · intro h; obtain ⟨hb, ht⟩ := h; subst hb; subst ht; exact ⟨rfl, Or.inl ⟨rfl, h2⟩⟩
      · intro h
        obtain ⟨ht, h⟩ := h
        subst ht
        cases h with
        | inl h => exact ⟨h.1.symm, rfl⟩
        | inr h => rw [hnl] at h; cases h.2
    · have h2' : wfShort u = false := by simpa using h2
      simp only [h2', Bool.not_false, if_true, reduceCtorEq, false_iff]
      intro h
      obtain ⟨ht, h⟩ := h
      subst ht
      cases h with
      | inl h => rw [h2'] at h; cases h.2
      | inr h => rw [hnl] at h; cases h.2
  · rw [if_neg h1]
    have hl : u.length ≠ 1 := by simpa using h1
    have hns : wfShort u = false := by
      cases hw : wfShort u
      · rfl
      · exact absurd (wfShort_length hw) hl
    have hre := head_and_re hα u
    have hwl : wfLong u = (headIsAlpha alpha u && reName u) := by
      rw [wfLong_eq, hre]
      cases hw : wfArgName u
      · simp
      · have : 2 ≤ u.length := by
          cases u with
          | nil => simp [wfArgName, headIsAlpha] at hw
          | cons c r => cases r with
            | nil => simp at hl
            | cons c2 r2 => simp
        simp [this]
    cases h3 : headIsAlpha alpha u
    · simp only [Bool.not_false, if_true, reduceCtorEq, false_iff]
      intro h
      obtain ⟨ht, h⟩ := h
      subst ht
      cases h with
      | inl h => rw [hns] at h; cases h.2
      | inr h => rw [hwl, h3] at h; simp at h
    · cases h4 : reName u
      · simp only [Bool.not_true, Bool.false_eq_true, if_false, Bool.not_false, if_true, reduceCtorEq, false_iff]
        intro h
        obtain ⟨ht, h⟩ := h
        subst ht
        cases h with
        | inl h => rw [hns] at h; cases h.2
        | inr h => rw [hwl, h3, h4] at h; simp at h
      · simp only [Bool.not_true, Bool.false_eq_true, if_false, Except.ok.injEq, Prod.mk.injEq]
        constructor
        · intro h; obtain ⟨hb, ht⟩ := h; subst hb; subst ht
          exact ⟨rfl, Or.inr ⟨rfl, by rw [hwl, h3, h4]; rfl⟩⟩
        · intro h
          obtain ⟨ht, h⟩ := h
          subst ht
          cases h with
          | inl h => rw [hns] at h; cases h.2
          | inr h => exact ⟨h.1.symm, rfl⟩

theorem checkAlias_err (alpha : Char → Bool) (a : Str) (e : Err) :
    checkAlias alpha a = .error e → e = .valueError := by
  unfold checkAlias
  intro h
  simp only at h
  repeat' split at h
  all_goals first | (injection h with h; exact h.symm) | (cases h)

def isLen1 (t : Str) : Bool := t.length == 1

/-- the long aliases `CommandOption` stores, in the order given -/
def longAliasesOf (as : List Str) : List Str := (as.map stripDash).filter (fun t => !isLen1 t)
/-- the short aliases `CommandOption` stores, in the order given -/
def shortAliasesOf (as : List Str) : List Str := (as.map stripDash).filter isLen1

theorem aliasLoop_ok_iff {alpha : Char → Bool} (hα : AlphaOK alpha) (as : List Str) :
    ∀ (ls ss ls' ss' : List Str),
    aliasLoop alpha as ls ss = .ok (ls', ss') ↔
      ((∀ a ∈ as, wfAlias a = true) ∧ ls' = ls ++ longAliasesOf as ∧ ss' = ss ++ shortAliasesOf as) := by
  induction as with
  | nil =>
    intro ls ss ls' ss'
    simp only [aliasLoop, longAliasesOf, shortAliasesOf, List.map_nil, List.filter_nil, List.append_nil,
      Except.ok.injEq, Prod.mk.injEq, List.not_mem_nil, false_imp_iff, implies_true, true_and]
    constructor
    · intro h; exact ⟨h.1.symm, h.2.symm⟩
    · intro h; exact ⟨h.1.symm, h.2.symm⟩
  | cons a r ih =>
    intro ls ss ls' ss'
    unfold aliasLoop
    cases hc : checkAlias alpha a with
    | error e =>
      simp only [reduceCtorEq, false_iff]
      intro h
      have hw := h.1 a (List.mem_cons_self ..)
      unfold wfAlias at hw
      cases hs : wfShort (stripDash a) with
      | true =>
        have := (checkAlias_ok_iff hα a true (stripDash a)).2 ⟨rfl, Or.inl ⟨rfl, hs⟩⟩
        rw [hc] at this; cases this
      | false =>
        rw [hs, Bool.false_or] at hw
        have := (checkAlias_ok_iff hα a false (stripDash a)).2 ⟨rfl, Or.inr ⟨rfl, hw⟩⟩
        rw [hc] at this; cases this
    | ok bt =>
      obtain ⟨b, t⟩ := bt
      obtain ⟨ht, hbt⟩ := (checkAlias_ok_iff hα a b t).1 hc
      subst ht
      cases b with
      | true =>
        have hws : wfShort (stripDash a) = true := by
          cases hbt with
          | inl h => exact h.2
          | inr h => cases h.1
        have hl1 : isLen1 (stripDash a) = true := by
          simp [isLen1, wfShort_length hws]
        have hwa : wfAlias a = true := by simp [wfAlias, hws]
        simp only
        rw [ih]
        simp only [longAliasesOf, shortAliasesOf, List.map_cons, List.filter_cons, hl1, Bool.not_true,
          Bool.false_eq_true, if_false, if_true, List.mem_cons, forall_eq_or_imp, hwa, true_and,
          List.append_assoc, List.singleton_append]
      | false =>
        have hwl : wfLong (stripDash a) = true := by
          cases hbt with
          | inl h => cases h.1
          | inr h => exact h.2
        have hl1 : isLen1 (stripDash a) = false := by
          have := wfLong_length hwl
          simp [isLen1, this]
        have hwa : wfAlias a = true := by simp [wfAlias, hwl]
        simp only
        rw [ih]
        simp only [longAliasesOf, shortAliasesOf, List.map_cons, List.filter_cons, hl1, Bool.not_false,
          Bool.false_eq_true, if_false, if_true, List.mem_cons, forall_eq_or_imp, hwa, true_and,
          List.append_assoc, List.singleton_append]

theorem aliasLoop_err (alpha : Char → Bool) (as : List Str) :
    ∀ (ls ss : List Str) (e : Err), aliasLoop alpha as ls ss = .error e → e = .valueError := by
  induction as with
  | nil => intro ls ss e h; simp [aliasLoop] at h
  | cons a r ih =>
    intro ls ss e h
    unfold aliasLoop at h
    cases hc : checkAlias alpha a with
    | error e1 =>
      rw [hc] at h
      injection h with h
      subst h
      exact checkAlias_err _ _ _ hc
    | ok bt =>
      obtain ⟨b, t⟩ := bt
      rw [hc] at h
      cases b with
      | true => exact ih _ _ _ h
      | false => exact ih _ _ _ h

theorem mkCommandOption_spec {alpha : Char → Bool} (hα : AlphaOK alpha) (long short : NameArg)
    (as : List Str) (f : Nat) (o : CommandOptionObj) :
    mkCommandOption alpha long short as f = .ok o ↔
      (CmdNoContradiction f (short != .none) ∧ LongNameOK long ∧ ShortNameOK short ∧
       (∀ a ∈ as, wfAlias a = true) ∧
       o = ⟨storedLong long, storedShort short, absAddDefaultFlags (storedShort short) f,
            longAliasesOf as, shortAliasesOf as⟩) := by
  unfold mkCommandOption
  cases h2 : mkAbstract alpha absValidateFlags absAddDefaultFlags long short f with
  | error e =>
    simp only [reduceCtorEq, false_iff]
    intro h
    obtain ⟨hnc, ⟨ls, hls, hlw⟩, hs, _, _⟩ := h
    subst hls
    have hsv : ∃ s, validateShortName (removeDash short) f = .ok s ∧ s = storedShort short := by
      cases hs with
      | inl hs =>
        subst hs
        refine ⟨none, (validateShortName_ok_iff _ _ _).2 (Or.inl ⟨rfl, ?_, rfl⟩), rfl⟩
        cases hp : has f AbsOptFlags.PREFER_SHORT_NAME
        · rfl
        · have := hnc.short_pref hp; cases this
      | inr hs =>
        obtain ⟨ss, hss, hsw⟩ := hs
        subst hss
        exact ⟨some (stripDash ss), (validateShortName_ok_iff _ _ _).2
          (Or.inr ⟨stripDash ss, removeDash_str ss, hsw, rfl⟩), rfl⟩
    obtain ⟨s, hsv, _⟩ := hsv
    have := (mkAbstract_ok_iff alpha absValidateFlags absAddDefaultFlags (.str ls) short f
      (stripDoubleDash ls) s (absAddDefaultFlags s f)).2
      ⟨(absValidate_ok_iff f).2 hnc.one_pref,
       (validateLongName_ok_iff hα _ _).2 ⟨removeDoubleDash_str ls, hlw⟩, hsv, rfl⟩
    rw [h2] at this
    cases this
  | ok r =>
    obtain ⟨l, s, fl⟩ := r
    obtain ⟨hv, ha, hb, hc⟩ := (mkAbstract_ok_iff _ _ _ _ _ _ _ _ _).1 h2
    subst hc
    obtain ⟨hl1, hl2⟩ := (validateLongName_ok_iff hα _ _).1 ha
    obtain ⟨ls, hls, hls'⟩ := (removeDoubleDash_eq_str _ _).1 hl1
    subst hls
    subst hls'
    have hone := (absValidate_ok_iff f).1 hv
    have hshort : ShortNameOK short ∧ s = storedShort short ∧
        (has f AbsOptFlags.PREFER_SHORT_NAME = true → (short != NameArg.none) = true) := by
      cases (validateShortName_ok_iff _ _ _).1 hb with
      | inl hs =>
        obtain ⟨hs1, hs2, hs3⟩ := hs
        have hsn := (removeDash_eq_none _).1 hs1
        subst hsn
        subst hs3
        exact ⟨Or.inl rfl, rfl, fun h => by rw [hs2] at h; cases h⟩
      | inr hs =>
        obtain ⟨t, hs1, hs2, hs3⟩ := hs
        obtain ⟨ss, hss, hss'⟩ := (removeDash_eq_str _ _).1 hs1
        subst hss
        subst hss'
        subst hs3
        exact ⟨Or.inr ⟨ss, rfl, hs2⟩, rfl, fun _ => rfl⟩
    obtain ⟨hso, hseq, hpref⟩ := hshort
    subst hseq
    simp only
    cases hal : aliasLoop alpha as [] [] with
    | error e =>
      simp only [reduceCtorEq, false_iff]
      intro h
      obtain ⟨_, _, _, hall, _⟩ := h
      have := (aliasLoop_ok_iff hα as [] [] (longAliasesOf as) (shortAliasesOf as)).2
        ⟨hall, by simp, by simp⟩
      rw [hal] at this
      cases this
    | ok lss =>
      obtain ⟨ls', ss'⟩ := lss
      obtain ⟨hall, hl', hs'⟩ := (aliasLoop_ok_iff hα as [] [] ls' ss').1 hal
      simp only [List.nil_append] at hl' hs'
      subst hl'; subst hs'
      simp only [Except.ok.injEq]
      constructor
      · intro h
        subst h
        exact ⟨⟨hone, hpref⟩, ⟨ls, rfl, hl2⟩, hso, hall, rfl⟩
      · intro h
        exact h.2.2.2.2.symm

theorem mkCommandOption_err (alpha : Char → Bool) (long short : NameArg) (as : List Str) (f : Nat)
    (e : Err) : mkCommandOption alpha long short as f = .error e → e = .valueError := by
  unfold mkCommandOption
  intro h
  have hv : ∀ t, absValidateFlags f = .error t → t = "ValueError" := by
    intro t ht
    cases absValidate_cases f with
    | inl h => rw [h] at ht; cases ht
    | inr h => rw [h] at ht; injection ht with ht; exact ht.symm
  cases h2 : mkAbstract alpha absValidateFlags absAddDefaultFlags long short f with
  | error e2 =>
    rw [h2] at h
    injection h with h
    subst h
    exact mkAbstract_err _ _ _ _ _ _ _ hv h2
  | ok r =>
    obtain ⟨l, s, fl⟩ := r
    rw [h2] at h
    simp only at h
    cases h3 : aliasLoop alpha as [] [] with
    | error e3 =>
      rw [h3] at h
      injection h with h
      subst h
      exact aliasLoop_err _ _ _ _ _ h3
    | ok lss =>
      rw [h3] at h
      cases h


/-! ### The empty flag word is free of contradictions -/

theorem noContradiction_zero (sg : Bool) : OptNoContradiction 0 sg .none := by
  constructor <;> simp [has_zero_left, countFlags, optTypeFlags, optPrefFlags, List.filter]

theorem argNoContradiction_zero : ArgNoContradiction 0 .none := by
  constructor <;> simp [has_zero_left, countFlags, argTypeFlags, List.filter]

theorem cmdNoContradiction_zero (sg : Bool) : CmdNoContradiction 0 sg := by
  constructor <;> simp [has_zero_left, countFlags, optPrefFlags, List.filter]


/-- the flag that declares a value type -/
def optTypeFlag : Conv → Nat
  | .string => OptFlags.STRING
  | .boolean => OptFlags.BOOLEAN
  | .int => OptFlags.INTEGER
  | .float => OptFlags.FLOAT

def argTypeFlag : Conv → Nat
  | .string => ArgFlags.STRING
  | .boolean => ArgFlags.BOOLEAN
  | .int => ArgFlags.INTEGER
  | .float => ArgFlags.FLOAT


/-! ### `AlphaOK` is decided by `alphaTableOK` on a table of the interpreter's answers -/

theorem nameChar_lt (c : Char) (h : nameChar c = true) : c.toNat < 128 := by
  simp only [nameChar, isAsciiLetter, isAsciiDigit, Bool.or_eq_true, Bool.and_eq_true, decide_eq_true_eq,
    beq_iff_eq] at h
  rcases h with (h | h) | h
  · omega
  · omega
  · subst h; decide

theorem mem_nameCharList (c : Char) (h : nameChar c = true) : c ∈ nameCharList := by
  simp only [nameCharList, List.mem_filter, List.mem_map, List.mem_range]
  exact ⟨⟨c.toNat, nameChar_lt c h, Char.ofNat_toNat c⟩, h⟩

/-- every `isalpha` that answers as the table says on the 63 name characters satisfies `AlphaOK`
when the table passes the decider -/
theorem alphaOK_of_table (tbl : List (Char × Bool)) (alpha : Char → Bool)
    (hag : ∀ c ∈ nameCharList, tbl.lookup c = some (alpha c)) (h : alphaTableOK tbl = true) : AlphaOK alpha := by
  intro c hc
  have hm := mem_nameCharList c hc
  have := List.all_eq_true.1 h c hm
  rw [hag c hm] at this
  simpa using this

theorem alphaOfTable_agrees (tbl : List (Char × Bool)) (h : alphaTableOK tbl = true) :
    ∀ c ∈ nameCharList, tbl.lookup c = some (alphaOfTable tbl c) := by
  intro c hm
  have := List.all_eq_true.1 h c hm
  simp only [beq_iff_eq] at this
  simp [alphaOfTable, this]

/-- the other direction: a table whose `isalpha` is `AlphaOK` and which lists all 63 characters passes -/
theorem alphaTableOK_of_alphaOK (tbl : List (Char × Bool)) (alpha : Char → Bool)
    (hag : ∀ c ∈ nameCharList, tbl.lookup c = some (alpha c)) (h : AlphaOK alpha) : alphaTableOK tbl = true := by
  apply List.all_eq_true.2
  intro c hm
  have hc : nameChar c = true := by
    simp only [nameCharList, List.mem_filter] at hm; exact hm.2
  rw [hag c hm, h c hc]; simp

end Clikit.Flags
