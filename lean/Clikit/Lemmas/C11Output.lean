import Clikit.Model.Output
/-!
Lemmas about lines, indentation and indentation scopes (C11).
-/
namespace Clikit.Output
open Clikit Clikit.Style Clikit.Markup

/-! ### `split("\n")` / `"\n".join` -/

theorem splitNl_ne_nil (s : Str) : splitNl s ≠ [] := by
  induction s with
  | nil => simp [splitNl]
  | cons c r ih =>
    unfold splitNl
    split
    · simp
    · split <;> simp

theorem splitNl_noNl (s : Str) : ∀ l ∈ splitNl s, '\n' ∉ l := by
  induction s with
  | nil => simp [splitNl]
  | cons c r ih =>
    unfold splitNl
    split
    · intro l hl
      rcases List.mem_cons.mp hl with h | h
      · subst h; simp
      · exact ih l h
    · rename_i hc
      split
      · rename_i h; exact absurd h (splitNl_ne_nil r)
      · rename_i l0 ls h
        rw [h] at ih
        intro l hl
        rcases List.mem_cons.mp hl with h' | h'
        · subst h'
          intro hm
          rcases List.mem_cons.mp hm with h1 | h1
          · exact hc h1.symm
          · exact ih l0 (by simp) h1
        · exact ih l (by simp [h'])

theorem joinNl_cons_cons (l l' : Str) (ls : List Str) :
    joinNl (l :: l' :: ls) = l ++ '\n' :: joinNl (l' :: ls) := rfl

theorem joinNl_splitNl (s : Str) : joinNl (splitNl s) = s := by
  induction s with
  | nil => rfl
  | cons c r ih =>
    unfold splitNl
    split
    · rename_i hc
      cases h : splitNl r with
      | nil => exact absurd h (splitNl_ne_nil r)
      | cons l0 ls => rw [joinNl_cons_cons, ← h, ih, hc]; rfl
    · split
      · rename_i h; exact absurd h (splitNl_ne_nil r)
      · rename_i l0 ls h
        rw [h] at ih
        cases ls with
        | nil => simp only [joinNl] at ih ⊢; rw [ih]
        | cons l1 ls' =>
          rw [joinNl_cons_cons] at ih ⊢
          rw [List.cons_append, ih]

theorem splitNl_append_nl (l : Str) (hl : '\n' ∉ l) (r : Str) :
    splitNl (l ++ '\n' :: r) = l :: splitNl r := by
  induction l with
  | nil => simp [splitNl]
  | cons c l ih =>
    have hc : c ≠ '\n' := fun h => hl (by simp [h])
    have hl' : '\n' ∉ l := fun h => hl (by simp [h])
    rw [List.cons_append]
    simp only [splitNl, if_neg hc, ih hl']

theorem splitNl_of_noNl (l : Str) (hl : '\n' ∉ l) : splitNl l = [l] := by
  induction l with
  | nil => rfl
  | cons c l ih =>
    have hc : c ≠ '\n' := fun h => hl (by simp [h])
    have hl' : '\n' ∉ l := fun h => hl (by simp [h])
    unfold splitNl
    rw [if_neg hc, ih hl']

theorem splitNl_joinNl (ls : List Str) (hne : ls ≠ []) (h : ∀ l ∈ ls, '\n' ∉ l) :
    splitNl (joinNl ls) = ls := by
  induction ls with
  | nil => exact absurd rfl hne
  | cons l ls ih =>
    cases ls with
    | nil => simp only [joinNl]; exact splitNl_of_noNl l (h l (by simp))
    | cons l' ls' =>
      rw [joinNl_cons_cons, splitNl_append_nl l (h l (by simp)),
        ih (by simp) (fun x hx => h x (List.mem_cons_of_mem _ hx))]

/-! ### indentation -/

theorem mem_spaces (n : Nat) (c : Char) (h : c ∈ spaces n) : c = ' ' := by
  unfold spaces at h
  exact (List.mem_replicate.mp h).2

theorem indentLine_noNl (n : Nat) (l : Str) (hl : '\n' ∉ l) : '\n' ∉ indentLine n l := by
  unfold indentLine
  split
  · exact hl
  · intro hm
    rcases List.mem_append.mp hm with h | h
    · have := mem_spaces n _ h
      exact absurd this (by decide)
    · exact hl h

theorem indentLine_zero (l : Str) : indentLine 0 l = l := by
  unfold indentLine spaces
  split <;> simp

/-- the lines of the indented text are the indented lines of the text -/
theorem splitNl_indentText (n : Nat) (s : Str) :
    splitNl (indentText n s) = (splitNl s).map (indentLine n) := by
  unfold indentText
  apply splitNl_joinNl
  · intro h
    exact splitNl_ne_nil s (List.map_eq_nil_iff.mp h)
  · intro l hl
    rcases List.mem_map.mp hl with ⟨l0, h0, rfl⟩
    exact indentLine_noNl n l0 (splitNl_noNl s l0 h0)

theorem indentText_zero (s : Str) : indentText 0 s = s := by
  unfold indentText
  have : (splitNl s).map (indentLine 0) = splitNl s := by
    rw [List.map_congr_left (fun l _ => indentLine_zero l)]; simp
  rw [this, joinNl_splitNl]

/-- what `Output.write` hands to the formatter is the text indented by `_indent`, whatever its value -/
theorem indented_eq (o : Out) (s : Str) : o.indented s true = indentText o.indent s := by
  unfold Out.indented
  by_cases h : o.indent > 0
  · simp [h]
  · have h0 : o.indent = 0 := by omega
    simp [h0, indentText_zero]

/-! ### `rstrip("\n")` -/

theorem dropWhile_nl_spec (l : Str) :
    ∃ k, l = List.replicate k '\n' ++ l.dropWhile (· = '\n') ∧
      (l.dropWhile (· = '\n')).head? ≠ some '\n' := by
  induction l with
  | nil => exact ⟨0, by simp, by simp⟩
  | cons c r ih =>
    by_cases hc : c = '\n'
    · obtain ⟨k, h1, h2⟩ := ih
      refine ⟨k + 1, ?_, ?_⟩
      · simp only [List.dropWhile_cons, hc, decide_true, if_true, List.replicate_succ, List.cons_append]
        rw [← h1]
      · simpa [List.dropWhile_cons, hc] using h2
    · refine ⟨0, ?_, ?_⟩
      · simp [hc]
      · simp [hc]

/-- `rstripNl s` is `s` without its trailing newlines, all of them -/
theorem rstripNl_spec (s : Str) :
    (∃ k, s = rstripNl s ++ List.replicate k '\n') ∧ (rstripNl s).getLast? ≠ some '\n' := by
  obtain ⟨k, h1, h2⟩ := dropWhile_nl_spec s.reverse
  unfold rstripNl
  refine ⟨⟨k, ?_⟩, ?_⟩
  · have := congrArg List.reverse h1
    simpa using this
  · rw [List.getLast?_reverse]; exact h2

/-! ### scopes -/

theorem leave_enter (i : Ind) (t : Target) (inc : Bool) (n : Nat) : (i.enter t inc n).leave i t = i := by
  cases t <;> simp [Ind.enter, Ind.leave]

/-- running a program = reading the indentation of every line off its enclosing scopes, and the
indentation afterwards is the indentation before -/
theorem exec_eq_lexical (p : Prog) : ∀ i, exec p i = ((lexical p i).1, i, (lexical p i).2) := by
  induction p with
  | skip => intro i; rfl
  | seq a b iha ihb =>
    intro i
    simp only [exec, lexical, iha i]
    cases h : lexical a i with
    | mk w r =>
      cases r
      · simp only [ihb i]
      · rfl
  | line e s => intro i; rfl
  | scope t inc n body ih =>
    intro i
    simp only [exec, lexical, ih, leave_enter]
  | raise => intro i; rfl
  | attempt body ih =>
    intro i
    simp only [exec, lexical, ih]

/-! ### writes -/

/-- a newline appended to the bytes of a write -/
def addNl : Except Err (Str × Out) → Except Err (Str × Out)
  | .ok (b, o) => .ok (b ++ ['\n'], o)
  | .error e => .error e

theorem mayWrite_none (q : Bool) (v : Nat) (f : Option Nat) (h : Gen.mayWrite q v f = true) :
    Gen.mayWrite q v none = true := by
  cases q
  · simp [Gen.mayWrite, Gen.IOFlags.VERBOSE, Gen.IOFlags.VERY_VERBOSE, Gen.IOFlags.DEBUG]
  · simp [Gen.mayWrite] at h

/-- `new_line=True` adds exactly one newline to what `new_line=False` writes -/
theorem write_newline (rv : Resolver) (o : Out) (s : Str) (f : Option Nat) (wi : Bool)
    (h : Gen.mayWrite o.quiet o.verbosity f = true) :
    o.write rv s f true wi = addNl (o.write rv s f false wi) := by
  unfold Out.write
  simp only [h, if_true]
  cases (if o.formatOutput then o.format rv (o.indented s wi) none else o.removeFormat rv (o.indented s wi)) with
  | error e => rfl
  | ok p => obtain ⟨b, st⟩ := p; simp [addNl]

/-- writing the empty string without a newline writes nothing and changes nothing -/
theorem write_empty (rv : Resolver) (o : Out) (h : Gen.mayWrite o.quiet o.verbosity none = true) :
    o.write rv [] none false false = .ok ([], o) := by
  obtain ⟨fmt, fo, q, v, ind, stk⟩ := o
  unfold Out.write
  simp only [] at h
  simp only [h, if_true, Out.indented, Bool.and_false]
  cases fmt <;> cases fo <;>
    simp [Out.format, Out.removeFormat, ansiFormat, plainFormat, colorize, lex, lexAux, hasTag, unescape]

theorem emitLine_eq (i : Ind) (e : Bool) (s : Str) :
    emitLine i e s = (e, indentText (if e then i.err else i.out) s ++ ['\n']) := by
  unfold emitLine
  by_cases h : (if e then i.err else i.out) > 0
  · simp [h]
  · have h0 : (if e then i.err else i.out) = 0 := by omega
    simp [h0, indentText_zero]

end Clikit.Output
