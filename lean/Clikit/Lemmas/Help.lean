import Clikit.Model.Help
import Clikit.Model.HelpWrap
import Clikit.Lemmas.Dict
import Clikit.Lemmas.Wrap
/-!
Lemmas for C13: line widths of the rendered text (`fitsFrom`), collections and sorting,
the hyphen-aware wrap instance.
-/
namespace Clikit.Help
open Clikit Clikit.Wrap

/-! ## Line widths

`fitsFrom n col s`: when `s` is written starting at column `col`, no line gets longer than
`n` (the line that is still open at the end included). -/

def fitsFrom (n : Nat) : Nat → Str → Bool
  | col, [] => decide (col ≤ n)
  | col, c :: r => if c == '\n' then decide (col ≤ n) && fitsFrom n 0 r else fitsFrom n (col + 1) r

/-- the column after writing `s` from column `col` -/
def endCol : Nat → Str → Nat
  | col, [] => col
  | col, c :: r => if c == '\n' then endCol 0 r else endCol (col + 1) r

theorem fitsFrom_nl (n col : Nat) (c : Char) (r : Str) (hc : (c == '\n') = true) :
    fitsFrom n col (c :: r) = (decide (col ≤ n) && fitsFrom n 0 r) := by
  simp only [fitsFrom, hc, if_true]

theorem fitsFrom_ch (n col : Nat) (c : Char) (r : Str) (hc : ¬ (c == '\n') = true) :
    fitsFrom n col (c :: r) = fitsFrom n (col + 1) r := by
  simp only [fitsFrom, hc]; rfl

theorem endCol_nl (col : Nat) (c : Char) (r : Str) (hc : (c == '\n') = true) :
    endCol col (c :: r) = endCol 0 r := by
  simp only [endCol, hc, if_true]

theorem endCol_ch (col : Nat) (c : Char) (r : Str) (hc : ¬ (c == '\n') = true) :
    endCol col (c :: r) = endCol (col + 1) r := by
  simp only [endCol, hc]; rfl

theorem fitsFrom_col_le (n : Nat) : ∀ (s : Str) (col : Nat), fitsFrom n col s = true → col ≤ n := by
  intro s
  induction s with
  | nil => intro col h; simpa [fitsFrom] using h
  | cons c r ih =>
    intro col h
    by_cases hc : (c == '\n') = true
    · rw [fitsFrom_nl _ _ _ _ hc, Bool.and_eq_true, decide_eq_true_eq] at h; exact h.1
    · rw [fitsFrom_ch _ _ _ _ hc] at h; have := ih _ h; omega

theorem fitsFrom_mono_col (n : Nat) : ∀ (s : Str) (col col' : Nat), col' ≤ col →
    fitsFrom n col s = true → fitsFrom n col' s = true := by
  intro s
  induction s with
  | nil => intro col col' h hf; simp [fitsFrom] at *; omega
  | cons c r ih =>
    intro col col' h hf
    by_cases hc : (c == '\n') = true
    · rw [fitsFrom_nl _ _ _ _ hc, Bool.and_eq_true, decide_eq_true_eq] at *
      exact ⟨by omega, hf.2⟩
    · rw [fitsFrom_ch _ _ _ _ hc] at *
      exact ih _ _ (by omega) hf

theorem fitsFrom_append (n : Nat) : ∀ (a b : Str) (col : Nat),
    fitsFrom n col (a ++ b) = (fitsFrom n col a && fitsFrom n (endCol col a) b) := by
  intro a
  induction a with
  | nil =>
    intro b col
    simp only [List.nil_append, fitsFrom, endCol]
    cases hb : fitsFrom n col b with
    | false => simp
    | true => simp [fitsFrom_col_le n b col hb]
  | cons c r ih =>
    intro b col
    by_cases hc : (c == '\n') = true
    · rw [List.cons_append, fitsFrom_nl _ _ _ _ hc, fitsFrom_nl _ _ _ _ hc, endCol_nl _ _ _ hc, ih, Bool.and_assoc]
    · rw [List.cons_append, fitsFrom_ch _ _ _ _ hc, fitsFrom_ch _ _ _ _ hc, endCol_ch _ _ _ hc, ih]

theorem fitsFrom_prefix (n : Nat) (a b : Str) (col : Nat) (h : fitsFrom n col (a ++ b) = true) :
    fitsFrom n col a = true := by
  rw [fitsFrom_append, Bool.and_eq_true] at h; exact h.1

theorem fitsFrom_of_len (n : Nat) : ∀ (s : Str) (col : Nat), col + s.length ≤ n → fitsFrom n col s = true := by
  intro s
  induction s with
  | nil => intro col h; simp [fitsFrom] at *; omega
  | cons c r ih =>
    intro col h
    simp only [List.length_cons] at h
    by_cases hc : (c == '\n') = true
    · rw [fitsFrom_nl _ _ _ _ hc, Bool.and_eq_true, decide_eq_true_eq]
      exact ⟨by omega, ih 0 (by omega)⟩
    · rw [fitsFrom_ch _ _ _ _ hc]; exact ih _ (by omega)

theorem endCol_le : ∀ (s : Str) (col : Nat), endCol col s ≤ col + s.length := by
  intro s
  induction s with
  | nil => intro col; simp [endCol]
  | cons c r ih =>
    intro col
    simp only [List.length_cons]
    by_cases hc : (c == '\n') = true
    · rw [endCol_nl _ _ _ hc]; have := ih 0; omega
    · rw [endCol_ch _ _ _ hc]; have := ih (col + 1); omega

theorem endCol_le_of_fits (n : Nat) : ∀ (s : Str) (col : Nat), fitsFrom n col s = true → endCol col s ≤ n := by
  intro s
  induction s with
  | nil => intro col h; simpa [fitsFrom, endCol] using h
  | cons c r ih =>
    intro col h
    by_cases hc : (c == '\n') = true
    · rw [fitsFrom_nl _ _ _ _ hc, Bool.and_eq_true] at h
      rw [endCol_nl _ _ _ hc]; exact ih _ h.2
    · rw [fitsFrom_ch _ _ _ _ hc] at h
      rw [endCol_ch _ _ _ hc]; exact ih _ h

theorem endCol_append : ∀ (a b : Str) (col : Nat), endCol col (a ++ b) = endCol (endCol col a) b := by
  intro a
  induction a with
  | nil => intro b col; rfl
  | cons c r ih =>
    intro b col
    by_cases hc : (c == '\n') = true
    · rw [List.cons_append, endCol_nl _ _ _ hc, endCol_nl _ _ _ hc, ih]
    · rw [List.cons_append, endCol_ch _ _ _ hc, endCol_ch _ _ _ hc, ih]

theorem endCol_snoc_nl (a : Str) (col : Nat) : endCol col (a ++ ['\n']) = 0 := by
  rw [endCol_append]; simp [endCol]

theorem spaces_succ (k : Nat) : spaces (k + 1) = ' ' :: spaces k := by
  simp [spaces, List.replicate_succ]

theorem fitsFrom_spaces (n : Nat) (x : Str) : ∀ (k col : Nat),
    fitsFrom n col (spaces k ++ x) = fitsFrom n (col + k) x := by
  intro k
  induction k with
  | zero => intro col; simp [spaces]
  | succ k ih =>
    intro col
    rw [spaces_succ, List.cons_append, fitsFrom_ch _ _ _ _ (by decide), ih]
    congr 1; omega

/-- two pieces: the first fits, the second fits from where the first ends -/
theorem fitsFrom_append_of (n : Nat) (a b : Str) (col : Nat) (ha : fitsFrom n col a = true)
    (hb : fitsFrom n (endCol col a) b = true) : fitsFrom n col (a ++ b) = true := by
  rw [fitsFrom_append, ha, hb]; rfl

theorem fitsFrom_joinNl (n : Nat) : ∀ (l : List Str), (∀ x ∈ l, x.length ≤ n) → fitsFrom n 0 (joinNl l) = true := by
  intro l
  induction l with
  | nil => intro _; simp [joinNl, joinWith, fitsFrom]
  | cons a r ih =>
    intro h
    cases r with
    | nil =>
      simp only [joinNl, joinWith]
      exact fitsFrom_of_len n a 0 (by have := h a List.mem_cons_self; omega)
    | cons b r' =>
      have ha := h a List.mem_cons_self
      have hr := ih (fun x hx => h x (List.mem_cons_of_mem _ hx))
      simp only [joinNl, joinWith] at hr ⊢
      rw [List.append_assoc]
      apply fitsFrom_append_of
      · exact fitsFrom_of_len n a 0 (by omega)
      · rw [List.singleton_append, fitsFrom_nl _ _ _ _ (by decide), Bool.and_eq_true, decide_eq_true_eq]
        exact ⟨by have := endCol_le a 0; omega, hr⟩

theorem fitsFrom_indentNl (n k : Nat) : ∀ (s : Str) (c : Nat), fitsFrom n c s = true →
    fitsFrom (k + n) (k + c) (indentNl k s) = true := by
  intro s
  induction s with
  | nil => intro c h; simp [fitsFrom, indentNl] at *; omega
  | cons ch r ih =>
    intro c h
    by_cases hc : (ch == '\n') = true
    · rw [fitsFrom_nl _ _ _ _ hc, Bool.and_eq_true, decide_eq_true_eq] at h
      have hr := ih 0 h.2
      simp only [indentNl, hc, if_true]
      split
      · -- followed by another newline: no blanks are inserted
        rw [fitsFrom_nl _ _ _ _ hc, Bool.and_eq_true, decide_eq_true_eq]
        exact ⟨by omega, fitsFrom_mono_col _ _ _ _ (by omega) hr⟩
      · rw [fitsFrom_nl _ _ _ _ hc, Bool.and_eq_true, decide_eq_true_eq]
        refine ⟨by omega, ?_⟩
        rw [fitsFrom_spaces]
        simpa using hr
    · rw [fitsFrom_ch _ _ _ _ hc] at h
      have hi : indentNl k (ch :: r) = ch :: indentNl k r := by
        simp only [indentNl, hc]; rfl
      rw [hi, fitsFrom_ch _ _ _ _ hc]
      exact ih (c + 1) h

theorem rstrip_prefix (t : Str) : ∃ q, t = rstrip t ++ q := by
  refine ⟨(t.reverse.takeWhile Clikit.Gen.C08.isSpace).reverse, ?_⟩
  unfold rstrip
  rw [← List.reverse_append, List.takeWhile_append_dropWhile, List.reverse_reverse]

theorem fitsFrom_rstrip (n col : Nat) (t : Str) (h : fitsFrom n col t = true) :
    fitsFrom n col (rstrip t) = true := by
  obtain ⟨q, hq⟩ := rstrip_prefix t
  rw [hq] at h
  exact fitsFrom_prefix n _ q col h

theorem splitNl_nl (c : Char) (r : Str) (hc : (c == '\n') = true) : splitNl (c :: r) = [] :: splitNl r := by
  simp only [splitNl, hc, if_true]

theorem splitNl_ne_nil : ∀ s : Str, splitNl s ≠ [] := by
  intro s
  induction s with
  | nil => simp [splitNl]
  | cons c r ih =>
    by_cases hc : (c == '\n') = true
    · rw [splitNl_nl _ _ hc]; simp
    · simp only [splitNl, hc]
      cases splitNl r <;> simp

theorem splitNl_ch (c : Char) (r : Str) (a : Str) (t : List Str) (hc : ¬ (c == '\n') = true)
    (hs : splitNl r = a :: t) : splitNl (c :: r) = (c :: a) :: t := by
  simp only [splitNl, hc, hs]; rfl

/-- what `fitsFrom` means for the lines of `str.split("\n")` -/
theorem fitsFrom_lines (n : Nat) : ∀ (s : Str) (col : Nat) (a : Str) (t : List Str), splitNl s = a :: t →
    fitsFrom n col s = true → col + a.length ≤ n ∧ ∀ l ∈ t, l.length ≤ n := by
  intro s
  induction s with
  | nil =>
    intro col a t hs h
    simp only [splitNl, List.cons.injEq] at hs
    obtain ⟨rfl, rfl⟩ := hs
    simp [fitsFrom] at *; omega
  | cons c r ih =>
    intro col a t hs h
    cases hr : splitNl r with
    | nil => exact absurd hr (splitNl_ne_nil r)
    | cons a' t' =>
      by_cases hc : (c == '\n') = true
      · rw [fitsFrom_nl _ _ _ _ hc, Bool.and_eq_true, decide_eq_true_eq] at h
        rw [splitNl_nl _ _ hc, hr] at hs
        simp only [List.cons.injEq] at hs
        obtain ⟨rfl, rfl⟩ := hs
        obtain ⟨h1, h2⟩ := ih 0 a' t' hr h.2
        refine ⟨by simpa using h.1, ?_⟩
        intro l hl
        rcases List.mem_cons.mp hl with rfl | hl'
        · omega
        · exact h2 l hl'
      · rw [fitsFrom_ch _ _ _ _ hc] at h
        rw [splitNl_ch _ _ _ _ hc hr] at hs
        simp only [List.cons.injEq] at hs
        obtain ⟨rfl, rfl⟩ := hs
        obtain ⟨h1, h2⟩ := ih (col + 1) a' t' hr h
        exact ⟨by simp only [List.length_cons]; omega, h2⟩

theorem lines_of_fits (n : Nat) (s : Str) (h : fitsFrom n 0 s = true) : ∀ l ∈ splitNl s, l.length ≤ n := by
  cases hs : splitNl s with
  | nil => exact absurd hs (splitNl_ne_nil s)
  | cons a t =>
    obtain ⟨h1, h2⟩ := fitsFrom_lines n s 0 a t hs h
    intro l hl
    rcases List.mem_cons.mp hl with rfl | hl'
    · omega
    · exact h2 l hl'

/-! ### Removing tags keeps lines short -/

theorem fitsFrom_stripFrom (n : Nat) : ∀ (s : Str) (k col : Nat), fitsFrom n col s = true →
    fitsFrom n col (stripFrom k s) = true := by
  intro s
  induction s with
  | nil => intro k col h; cases k <;> simpa [stripFrom] using h
  | cons c r ih =>
    intro k col h
    simp only [fitsFrom] at h
    cases k with
    | succ k =>
      simp only [stripFrom]
      by_cases hc : (c == '\n') = true
      · simp only [hc, if_true, Bool.and_eq_true] at h ⊢
        simp only [fitsFrom, hc, if_true, Bool.and_eq_true]
        exact ⟨h.1, ih _ _ h.2⟩
      · simp only [hc] at h ⊢
        exact ih _ _ (fitsFrom_mono_col n r _ _ (by omega) h)
    | zero =>
      simp only [stripFrom]
      split
      · -- a tag starts here: its first character is not a newline
        rename_i m hm
        by_cases hc : (c == '\n') = true
        · exfalso
          have hcn : c = '\n' := by simpa using hc
          subst hcn
          simp [tagAt, helpTags, S, List.isPrefixOf, List.find?] at hm
        · simp only [hc] at h
          exact ih _ _ (fitsFrom_mono_col n r _ _ (by omega) h)
      · by_cases hc : (c == '\n') = true
        · simp only [hc, if_true, Bool.and_eq_true] at h
          simp only [fitsFrom, hc, if_true, Bool.and_eq_true]
          exact ⟨h.1, ih _ _ h.2⟩
        · simp only [hc] at h
          simp only [fitsFrom, hc]
          exact ih _ _ h

theorem endCol_stripFrom_nl : ∀ (a : Str) (k col : Nat), endCol col (stripFrom k (a ++ ['\n'])) = 0 := by
  intro a
  induction a with
  | nil =>
    intro k col
    cases k with
    | succ k => simp [stripFrom, endCol]
    | zero =>
      have : tagAt ['\n'] = none := by decide
      simp [stripFrom, this, endCol]
  | cons c r ih =>
    intro k col
    cases k with
    | succ k =>
      simp only [List.cons_append, stripFrom]
      split
      · rename_i hc; simp only [endCol, hc, if_true]; exact ih _ _
      · exact ih _ _
    | zero =>
      simp only [List.cons_append, stripFrom]
      split
      · exact ih _ _
      · simp only [endCol]; split <;> exact ih _ _

/-! ## Rendering one element, a whole page -/

/-- the part of `textwrap.wrap`'s contract the width theorem needs: every line fits the width -/
def WrapLen (wrap : Nat → Str → List Str) : Prop := ∀ w t, ∀ l ∈ wrap w t, l.length ≤ w

theorem need_paragraph (off ind : Nat) (t : Str) : need off ind (.paragraph t) = ind := rfl

theorem need_labeled (off ind : Nat) (l : Str) (t : Option Str) (p : Nat) (a : Bool) :
    need off ind (.labeled l t p a) = ind + textOffset off ind l p a := rfl

theorem textOffset_ge (off ind : Nat) (l : Str) (p : Nat) (a : Bool) :
    l.length + p ≤ textOffset off ind l p a := by
  unfold textOffset; omega

theorem padRight_length (l : Str) (n : Nat) (h : l.length ≤ n) : (padRight l n).length = n := by
  simp [padRight, spaces]; omega

theorem fits_text (wrap : Nat → Str → List Str) (hw : WrapLen wrap) (w k : Nat) (t : Str) (h : k + 2 ≤ w) :
    fitsFrom (w - 1) k (rstrip (indentNl k (joinNl (wrap (w - 1 - k) t)))) = true := by
  apply fitsFrom_rstrip
  have h1 := fitsFrom_joinNl (w - 1 - k) (wrap (w - 1 - k) t) (hw _ _)
  have h2 := fitsFrom_indentNl (w - 1 - k) k _ 0 h1
  have e1 : k + (w - 1 - k) = w - 1 := by omega
  rw [e1] at h2
  simpa using h2

theorem fits_snoc_nl (n col : Nat) (x : Str) (h : fitsFrom n col x = true) :
    fitsFrom n col (x ++ ['\n']) = true := by
  apply fitsFrom_append_of _ _ _ _ h
  rw [fitsFrom_nl _ _ _ _ (by decide), Bool.and_eq_true, decide_eq_true_eq]
  exact ⟨endCol_le_of_fits n x col h, by simp [fitsFrom]⟩

/-- what an element writes fits a terminal one column narrower, and ends its line -/
theorem renderElement_fits (wrap : Nat → Str → List Str) (hw : WrapLen wrap) (w off ind : Nat) (e : Element)
    (s : Str) (h : renderElement wrap w off ind e = .ok s) :
    fitsFrom (w - 1) 0 s = true ∧ ∃ a, s = a ++ ['\n'] := by
  cases e with
  | emptyLine =>
    simp only [renderElement, Except.ok.injEq] at h
    subst h
    exact ⟨by simp [fitsFrom], [], rfl⟩
  | paragraph t =>
    simp only [renderElement] at h
    have hk : need off ind (.paragraph t) = ind := rfl
    by_cases hlt : w < need off ind (.paragraph t) + 2
    · rw [if_pos hlt] at h; cases h
    · rw [if_neg hlt] at h
      simp only [Except.ok.injEq] at h
      subst h
      rw [hk] at hlt ⊢
      refine ⟨?_, _, rfl⟩
      apply fits_snoc_nl
      rw [fitsFrom_spaces]
      simpa using fits_text wrap hw w ind t (by omega)
  | labeled label text padding aligned =>
    cases text with
    | none => simp only [renderElement] at h; cases h
    | some t =>
      simp only [renderElement] at h
      have hk : need off ind (.labeled label (some t) padding aligned)
          = ind + textOffset off ind label padding aligned := rfl
      by_cases hlt : w < need off ind (.labeled label (some t) padding aligned) + 2
      · rw [if_pos hlt] at h; cases h
      · rw [if_neg hlt] at h
        simp only [Except.ok.injEq] at h
        subst h
        rw [hk] at hlt ⊢
        refine ⟨?_, _, rfl⟩
        apply fits_snoc_nl
        apply fitsFrom_rstrip
        rw [List.append_assoc, fitsFrom_spaces]
        have hge := textOffset_ge off ind label padding aligned
        have hlen := padRight_length label (textOffset off ind label padding aligned) (by omega)
        apply fitsFrom_append_of
        · exact fitsFrom_of_len _ _ _ (by rw [hlen]; omega)
        · have h3 := fits_text wrap hw w (ind + textOffset off ind label padding aligned) t (by omega)
          refine fitsFrom_mono_col _ _ _ _ ?_ h3
          have := endCol_le (padRight label (textOffset off ind label padding aligned)) (0 + ind)
          rw [hlen] at this
          omega

/-- **every line of a rendered page is shorter than the terminal** (`fitsFrom` form) -/
theorem renderAll_fits (wrap : Nat → Str → List Str) (hw : WrapLen wrap) (w off : Nat) :
    ∀ (p : Page) (s : Str), renderAll wrap w off p = .ok s → fitsFrom (w - 1) 0 s = true := by
  intro p
  induction p with
  | nil => intro s h; simp only [renderAll, Except.ok.injEq] at h; subst h; simp [fitsFrom]
  | cons ie r ih =>
    intro s h
    obtain ⟨i, e⟩ := ie
    simp only [renderAll] at h
    split at h
    · cases h
    · rename_i t ht
      split at h
      · cases h
      · rename_i rest hrest
        simp only [Except.ok.injEq] at h
        subst h
        obtain ⟨hf, a, ha⟩ := renderElement_fits wrap hw w off i e t ht
        apply fitsFrom_append_of
        · exact fitsFrom_stripFrom _ _ _ _ hf
        · rw [ha, stripTags, endCol_stripFrom_nl]
          exact ih rest hrest

/-! ### Totality -/

/-- an element can be rendered on a terminal of `w` columns -/
def ElemOK (w off : Nat) (ie : Nat × Element) : Prop :=
  wrapText ie.2 ≠ some none ∧ (ie.2 = .emptyLine ∨ need off ie.1 ie.2 + 2 ≤ w)

theorem renderElement_ok (wrap : Nat → Str → List Str) (w off ind : Nat) (e : Element)
    (h : ElemOK w off (ind, e)) : ∃ s, renderElement wrap w off ind e = .ok s := by
  obtain ⟨h1, h2⟩ := h
  cases e with
  | emptyLine => exact ⟨_, rfl⟩
  | paragraph t =>
    rcases h2 with h2 | h2
    · cases h2
    · simp only [renderElement]
      rw [if_neg (by simp only at h2; omega)]
      exact ⟨_, rfl⟩
  | labeled label text padding aligned =>
    rcases h2 with h2 | h2
    · cases h2
    · cases text with
      | none => exact absurd rfl h1
      | some t =>
        simp only [renderElement]
        rw [if_neg (by simp only at h2; omega)]
        exact ⟨_, rfl⟩

theorem renderAll_ok (wrap : Nat → Str → List Str) (w off : Nat) :
    ∀ p : Page, (∀ ie ∈ p, ElemOK w off ie) → ∃ s, renderAll wrap w off p = .ok s := by
  intro p
  induction p with
  | nil => intro _; exact ⟨_, rfl⟩
  | cons ie r ih =>
    intro h
    obtain ⟨i, e⟩ := ie
    obtain ⟨t, ht⟩ := renderElement_ok wrap w off i e (h _ List.mem_cons_self)
    obtain ⟨rest, hrest⟩ := ih (fun x hx => h x (List.mem_cons_of_mem _ hx))
    refine ⟨stripTags t ++ rest, ?_⟩
    simp only [renderAll, ht, hrest]

/-- an element that does not fit makes the whole page fail: the margin of `widthOK` is exact -/
theorem renderAll_fail (wrap : Nat → Str → List Str) (w off : Nat) :
    ∀ p : Page, (∃ ie ∈ p, ie.2 ≠ .emptyLine ∧ ¬ need off ie.1 ie.2 + 2 ≤ w) →
      ∀ s, renderAll wrap w off p ≠ .ok s := by
  intro p
  induction p with
  | nil => intro ⟨ie, h, _⟩; cases h
  | cons x r ih =>
    intro ⟨ie, hm, hne, hbad⟩ s hs
    obtain ⟨i, e⟩ := x
    simp only [renderAll] at hs
    split at hs
    · cases hs
    · rename_i t ht
      split at hs
      · cases hs
      · rename_i rest hrest
        rcases List.mem_cons.mp hm with rfl | hm'
        · simp only at hne hbad
          cases e with
          | emptyLine => exact hne rfl
          | paragraph t' =>
            simp only [renderElement] at ht
            rw [if_pos (by omega)] at ht; cases ht
          | labeled l t' p a =>
            cases t' with
            | none => simp only [renderElement] at ht; cases ht
            | some t'' =>
              simp only [renderElement] at ht
              rw [if_pos (by omega)] at ht; cases ht
        · exact ih ⟨ie, hm', hne, hbad⟩ rest hrest

theorem widthOK_iff (w : Nat) (p : Page) :
    widthOK w p = true ↔ ∀ ie ∈ p, ie.2 = .emptyLine ∨ need (align p) ie.1 ie.2 + 2 ≤ w := by
  unfold widthOK
  rw [List.all_eq_true]
  constructor
  · intro h ie hie
    have := h ie hie
    cases he : ie.2 with
    | emptyLine => left; rfl
    | paragraph t => right; rw [he] at this; simpa using this
    | labeled l t q a => right; rw [he] at this; simpa using this
  · intro h ie hie
    rcases h ie hie with h1 | h1
    · rw [h1]
    · cases he : ie.2 with
      | emptyLine => rfl
      | paragraph t => rw [he] at h1; simpa using h1
      | labeled l t q a => rw [he] at h1; simpa using h1

/-! ### Pages rendered at an outer indentation -/

/-- the outer indentation moves every element and the alignment's offset alike: the columns an
element needs grow by exactly the indentation -/
theorem need_shift (off ind k : Nat) (e : Element) (he : e ≠ .emptyLine) :
    need (off + k) (ind + k) e = need off ind e + k := by
  cases e with
  | emptyLine => exact absurd rfl he
  | paragraph t => simp only [need]
  | labeled l t p a =>
    cases a
    · simp only [need, textOffset, Bool.false_eq_true, if_false]; omega
    · simp only [need, textOffset, if_true]; omega

theorem widthOKAt_iff (w k : Nat) (p : Page) :
    widthOKAt w k p = true ↔ ∀ ie ∈ p, ie.2 = .emptyLine ∨ need (align p) ie.1 ie.2 + k + 2 ≤ w := by
  unfold widthOKAt
  rw [List.all_eq_true]
  constructor
  · intro h ie hie
    have := h ie hie
    cases he : ie.2 with
    | emptyLine => left; rfl
    | paragraph t => right; rw [he] at this; simpa using this
    | labeled l t q a => right; rw [he] at this; simpa using this
  · intro h ie hie
    rcases h ie hie with h1 | h1
    · rw [h1]
    · cases he : ie.2 with
      | emptyLine => rfl
      | paragraph t => rw [he] at h1; simpa using h1
      | labeled l t q a => rw [he] at h1; simpa using h1

theorem mem_shift (k : Nat) (p : Page) (ie : Nat × Element) (h : ie ∈ shift k p) :
    ∃ i, (i, ie.2) ∈ p ∧ ie.1 = i + k := by
  unfold shift at h
  obtain ⟨x, hx, rfl⟩ := List.mem_map.mp h
  exact ⟨x.1, hx, rfl⟩

theorem elemOK_shift (w off k : Nat) (p : Page)
    (h : ∀ ie ∈ p, wrapText ie.2 ≠ some none ∧ (ie.2 = .emptyLine ∨ need off ie.1 ie.2 + k + 2 ≤ w)) :
    ∀ ie ∈ shift k p, ElemOK w (off + k) ie := by
  intro ie hie
  obtain ⟨i, hi, e1⟩ := mem_shift k p ie hie
  obtain ⟨h1, h2⟩ := h _ hi
  refine ⟨h1, ?_⟩
  rcases h2 with h2 | h2
  · left; exact h2
  · by_cases he : ie.2 = .emptyLine
    · left; exact he
    · right
      rw [e1, need_shift off i k ie.2 he]
      simpa using h2

theorem shift_zero (p : Page) : shift 0 p = p := by
  unfold shift
  simp

/-! ### Every text of a help page is a string -/

def AllText (p : Page) : Prop := ∀ ie ∈ p, wrapText ie.2 ≠ some none

theorem AllText.nil : AllText [] := fun _ h => by cases h

theorem AllText.cons {i : Nat} {e : Element} {r : Page} (h : wrapText e ≠ some none) (hr : AllText r) :
    AllText ((i, e) :: r) := by
  intro ie hie
  rcases List.mem_cons.mp hie with rfl | h'
  · exact h
  · exact hr ie h'

theorem AllText.append {a b : Page} (ha : AllText a) (hb : AllText b) : AllText (a ++ b) := by
  intro ie hie
  rcases List.mem_append.mp hie with h | h
  · exact ha ie h
  · exact hb ie h

theorem AllText.map {α : Type} (f : α → Nat × Element) (l : List α) (h : ∀ x, wrapText (f x).2 ≠ some none) :
    AllText (l.map f) := by
  intro ie hie
  obtain ⟨x, _, rfl⟩ := List.mem_map.mp hie
  exact h x

theorem AllText.flatten (ls : List Page) (h : ∀ p ∈ ls, AllText p) : AllText ls.flatten := by
  intro ie hie
  obtain ⟨p, hp, hi⟩ := List.mem_flatten.mp hie
  exact h p hp ie hi

theorem AllText.ite {c : Prop} [Decidable c] {a b : Page} (ha : AllText a) (hb : AllText b) :
    AllText (if c then a else b) := by
  split <;> assumption

theorem wrapText_paragraph (t : Str) : wrapText (.paragraph t) ≠ some none := by simp [wrapText]
theorem wrapText_empty : wrapText .emptyLine ≠ some none := by simp [wrapText]
theorem wrapText_some (l t : Str) (p : Nat) (a : Bool) : wrapText (.labeled l (some t) p a) ≠ some none := by
  simp [wrapText]

theorem allText_arguments (args : List HArg) : AllText (argumentsSection args) := by
  unfold argumentsSection heading
  refine AllText.cons (wrapText_paragraph _) (AllText.append (AllText.map _ _ ?_) (AllText.cons wrapText_empty AllText.nil))
  intro a; exact wrapText_some _ _ _ _

theorem allText_options (title : String) (opts : List HOpt) : AllText (optionsSection title opts) := by
  unfold optionsSection heading
  refine AllText.cons (wrapText_paragraph _) (AllText.append (AllText.map _ _ ?_) (AllText.cons wrapText_empty AllText.nil))
  intro a; exact wrapText_some _ _ _ _

theorem allText_description (h : Option Str) : AllText (descriptionSection h) := by
  unfold descriptionSection heading
  split
  · exact AllText.nil
  · exact AllText.cons (wrapText_paragraph _)
      (AllText.append (AllText.map _ _ (fun _ => wrapText_paragraph _)) (AllText.cons wrapText_empty AllText.nil))

theorem wrapText_synopsis (n : Option Str) (names : List Str) (o : List HOpt) (a : List HArg) (pfx : Str) (b : Bool) :
    wrapText (synopsis n names o a pfx b) ≠ some none := by
  simp [synopsis, wrapText]

theorem allText_application (app : HApp) : AllText (applicationHelp app) := by
  unfold applicationHelp
  refine AllText.append (AllText.append (AllText.append (AllText.append (AllText.append ?_ ?_) ?_) ?_) ?_) ?_
  · refine AllText.cons ?_ (AllText.cons wrapText_empty AllText.nil)
    unfold nameVersion
    split <;> exact wrapText_paragraph _
  · exact AllText.cons (wrapText_paragraph _) (AllText.cons (wrapText_synopsis _ _ _ _ _ _)
      (AllText.cons wrapText_empty AllText.nil))
  · exact allText_arguments _
  · exact AllText.ite AllText.nil (allText_options _ _)
  · refine AllText.ite AllText.nil ?_
    unfold appCommandsSection heading
    exact AllText.cons (wrapText_paragraph _)
      (AllText.append (AllText.map _ _ (fun _ => wrapText_some _ _ _ _)) (AllText.cons wrapText_empty AllText.nil))
  · exact allText_description _

theorem allText_subEntry (d : HCmd) : AllText (subCommandEntry d) := by
  unfold subCommandEntry
  refine AllText.cons (wrapText_paragraph _) ?_
  refine AllText.append (AllText.append (AllText.append (AllText.append ?_ ?_) ?_) ?_) ?_
  · exact AllText.ite AllText.nil (AllText.cons (wrapText_paragraph _) (AllText.cons wrapText_empty AllText.nil))
  · split
    · exact AllText.cons (wrapText_paragraph _) (AllText.cons wrapText_empty AllText.nil)
    · exact AllText.nil
  · exact AllText.ite AllText.nil
      (AllText.append (AllText.map _ _ (fun _ => wrapText_some _ _ _ _)) (AllText.cons wrapText_empty AllText.nil))
  · exact AllText.ite AllText.nil
      (AllText.append (AllText.map _ _ (fun _ => wrapText_some _ _ _ _)) (AllText.cons wrapText_empty AllText.nil))
  · exact AllText.ite (AllText.cons wrapText_empty AllText.nil) AllText.nil

theorem allText_usage (app : HApp) (x : Ctx) (c : HCmd) : AllText (usageSection app x c) := by
  unfold usageSection
  simp only
  refine AllText.append (AllText.append (AllText.append ?_ ?_) ?_) ?_
  · exact AllText.cons (wrapText_paragraph _) AllText.nil
  · split
    · exact AllText.nil
    · exact AllText.cons (wrapText_synopsis _ _ _ _ _ _) (AllText.map _ _ (fun _ => wrapText_synopsis _ _ _ _ _ _))
  · exact AllText.ite AllText.nil (AllText.cons wrapText_empty (AllText.cons (wrapText_paragraph _) AllText.nil))
  · exact AllText.cons wrapText_empty AllText.nil

theorem allText_command (app : HApp) (x : Ctx) (c : HCmd) : AllText (commandHelp app x c) := by
  unfold commandHelp
  simp only
  refine AllText.append (AllText.append (AllText.append (AllText.append (AllText.append ?_ ?_) ?_) ?_) ?_) ?_
  · exact allText_usage app x c
  · exact AllText.ite AllText.nil (allText_arguments _)
  · refine AllText.ite AllText.nil ?_
    unfold subCommandsSection heading
    exact AllText.cons (wrapText_paragraph _) (AllText.flatten _ (by
      intro p hp
      obtain ⟨d, _, rfl⟩ := List.mem_map.mp hp
      exact allText_subEntry d))
  · exact AllText.ite AllText.nil (allText_options _ _)
  · exact AllText.ite AllText.nil (allText_options _ _)
  · exact allText_description _

/-! ## Collections and sorting -/

theorem mem_insertByName (c x : HCmd) : ∀ l : List HCmd, x ∈ insertByName c l ↔ x = c ∨ x ∈ l := by
  intro l
  induction l with
  | nil => simp [insertByName]
  | cons d r ih =>
    simp only [insertByName]
    split
    · simp only [List.mem_cons, ih]
      constructor
      · rintro (h | h | h)
        · exact Or.inr (Or.inl h)
        · exact Or.inl h
        · exact Or.inr (Or.inr h)
      · rintro (h | h | h)
        · exact Or.inr (Or.inl h)
        · exact Or.inl h
        · exact Or.inr (Or.inr h)
    · simp only [List.mem_cons]

theorem mem_sortByName (x : HCmd) : ∀ l : List HCmd, x ∈ sortByName l ↔ x ∈ l := by
  intro l
  induction l with
  | nil => simp [sortByName]
  | cons d r ih =>
    have : sortByName (d :: r) = insertByName d (sortByName r) := rfl
    rw [this, mem_insertByName, ih, List.mem_cons]

theorem mem_foldl_dictSet (l : List HCmd) : ∀ (acc : List (Str × HCmd)) (p : Str × HCmd),
    p ∈ l.foldl (fun d c => dictSet c.name c d) acc → p ∈ acc ∨ p.2 ∈ l := by
  induction l with
  | nil => intro acc p h; exact Or.inl h
  | cons c r ih =>
    intro acc p h
    simp only [List.foldl_cons] at h
    rcases ih _ _ h with h1 | h1
    · rcases mem_dictSet h1 with h2 | h2
      · right; rw [h2]; exact List.mem_cons_self
      · exact Or.inl h2
    · right; exact List.mem_cons_of_mem _ h1

/-- a collection only holds commands that were added -/
theorem mem_collValues (l : List HCmd) (c : HCmd) (h : c ∈ collValues l) : c ∈ l := by
  unfold collValues at h
  obtain ⟨p, hp, rfl⟩ := List.mem_map.mp h
  rcases mem_foldl_dictSet l [] p hp with h1 | h1
  · cases h1
  · exact h1

theorem foldl_dictSet_nodup (l : List HCmd) : ∀ (acc : List (Str × HCmd)),
    (∀ c ∈ l, c.name ∉ acc.map (·.1)) → (l.map (·.name)).Nodup →
    l.foldl (fun d c => dictSet c.name c d) acc = acc ++ l.map (fun c => (c.name, c)) := by
  induction l with
  | nil => intro acc _ _; simp
  | cons c r ih =>
    intro acc hd hn
    simp only [List.map_cons, List.nodup_cons] at hn
    simp only [List.foldl_cons]
    rw [dictSet_of_not_mem (hd c List.mem_cons_self), ih _ _ hn.2]
    · simp
    · intro d hdr
      simp only [List.map_append, List.map_cons, List.map_nil, List.mem_append, List.mem_singleton, not_or]
      refine ⟨hd d (List.mem_cons_of_mem _ hdr), ?_⟩
      intro heq
      exact hn.1 (heq ▸ List.mem_map_of_mem hdr)

/-- with distinct names a collection iterates in registration order -/
theorem collValues_of_nodup (l : List HCmd) (h : (l.map (·.name)).Nodup) : collValues l = l := by
  unfold collValues
  rw [foldl_dictSet_nodup l [] (by intro c _; simp) h]
  simp [List.map_map, Function.comp_def]

theorem nodup_filter_names (l : List HCmd) (p : HCmd → Bool) (h : (l.map (·.name)).Nodup) :
    ((l.filter p).map (·.name)).Nodup :=
  List.Nodup.sublist (List.Sublist.map _ List.filter_sublist) h

/-- what is listed is enabled, named and not hidden -/
theorem mem_visibleNamed (l : List HCmd) (d : HCmd) (h : d ∈ visibleNamed l) :
    d ∈ l ∧ d.enabled = true ∧ d.anonymous = false ∧ d.hidden = false := by
  unfold visibleNamed at h
  rw [List.mem_filter, mem_sortByName] at h
  have h1 := mem_collValues _ _ h.1
  rw [List.mem_filter] at h1
  unfold live at h1
  rw [List.mem_filter] at h1
  refine ⟨h1.1.1, h1.1.2, ?_, ?_⟩
  · simpa using h1.2
  · simpa using h.2

/-- every enabled, named, non-hidden command is listed (distinct names) -/
theorem visibleNamed_complete (l : List HCmd) (hn : ((live l).map (·.name)).Nodup) (d : HCmd) (hd : d ∈ l)
    (he : d.enabled = true) (ha : d.anonymous = false) (hh : d.hidden = false) : d ∈ visibleNamed l := by
  unfold visibleNamed
  rw [List.mem_filter, mem_sortByName, collValues_of_nodup _ (nodup_filter_names _ _ hn)]
  refine ⟨?_, by simp [hh]⟩
  rw [List.mem_filter]
  refine ⟨?_, by simp [ha]⟩
  unfold live
  rw [List.mem_filter]
  exact ⟨hd, he⟩

theorem named_nonempty_of_mem (l : List HCmd) (hn : ((live l).map (·.name)).Nodup) (d : HCmd) (hd : d ∈ l)
    (he : d.enabled = true) (ha : d.anonymous = false) :
    (collValues ((live l).filter fun c => !c.anonymous)).isEmpty = false := by
  rw [collValues_of_nodup _ (nodup_filter_names _ _ hn)]
  have : d ∈ (live l).filter fun c => !c.anonymous := by
    rw [List.mem_filter]; unfold live; rw [List.mem_filter]
    exact ⟨⟨hd, he⟩, by simp [ha]⟩
  cases hl : (live l).filter fun c => !c.anonymous with
  | nil => rw [hl] at this; cases this
  | cons a b => rfl

theorem isEmpty_false_of_mem {α : Type} {l : List α} {x : α} (h : x ∈ l) : l.isEmpty = false := by
  cases l with
  | nil => cases h
  | cons a b => rfl

/-! ## Sections of a page -/

theorem mem_argumentsSection (args : List HArg) (a : HArg) (h : a ∈ args) :
    (2, argElem a) ∈ argumentsSection args := by
  unfold argumentsSection
  exact List.mem_cons_of_mem _ (List.mem_append_left _ (List.mem_map.mpr ⟨a, h, rfl⟩))

theorem mem_optionsSection (title : String) (opts : List HOpt) (o : HOpt) (h : o ∈ opts) :
    (2, optElem o) ∈ optionsSection title opts := by
  unfold optionsSection
  exact List.mem_cons_of_mem _ (List.mem_append_left _ (List.mem_map.mpr ⟨o, h, rfl⟩))

theorem mem_subCommandsSection (c d : HCmd) (h : d ∈ visibleSubs c) :
    (2, Element.paragraph (tagU d.name)) ∈ subCommandsSection c := by
  unfold subCommandsSection
  refine List.mem_cons_of_mem _ (List.mem_flatten.mpr ⟨subCommandEntry d, List.mem_map.mpr ⟨d, h, rfl⟩, ?_⟩)
  unfold subCommandEntry
  exact List.mem_cons_self

theorem mem_appCommandsSection (cmds : List HCmd) (d : HCmd) (h : d ∈ visibleNamed cmds) :
    (2, Element.labeled d.name (some d.descr) 2 true) ∈ appCommandsSection cmds := by
  unfold appCommandsSection
  exact List.mem_cons_of_mem _ (List.mem_append_left _ (List.mem_map.mpr ⟨d, h, rfl⟩))

/-- an entry of the COMMANDS block at indentation 2 is the name line of a listed sub-command -/
theorem subCommandsSection_entries (c : HCmd) (t : Str) (h : (2, Element.paragraph t) ∈ subCommandsSection c) :
    ∃ d ∈ visibleSubs c, t = tagU d.name := by
  unfold subCommandsSection heading at h
  rcases List.mem_cons.mp h with h | h
  · cases h
  · obtain ⟨p, hp, hi⟩ := List.mem_flatten.mp h
    obtain ⟨d, hd, rfl⟩ := List.mem_map.mp hp
    refine ⟨d, hd, ?_⟩
    unfold subCommandEntry at hi
    rcases List.mem_cons.mp hi with hi | hi
    · cases hi; rfl
    · exfalso
      simp only [List.mem_append] at hi
      rcases hi with (((hi | hi) | hi) | hi) | hi
      · split at hi
        · cases hi
        · simp at hi
      · split at hi
        · simp at hi
        · cases hi
      · split at hi
        · cases hi
        · simp at hi
      · split at hi
        · cases hi
        · simp at hi
      · split at hi
        · simp at hi
        · cases hi

/-- a labeled entry of the AVAILABLE COMMANDS block is a listed command -/
theorem appCommandsSection_entries (cmds : List HCmd) (l : Str) (t : Option Str) (p : Nat) (a : Bool) (i : Nat)
    (h : (i, Element.labeled l t p a) ∈ appCommandsSection cmds) : ∃ d ∈ visibleNamed cmds, l = d.name := by
  unfold appCommandsSection heading at h
  rcases List.mem_cons.mp h with h | h
  · cases h
  · rcases List.mem_append.mp h with h | h
    · obtain ⟨d, hd, he⟩ := List.mem_map.mp h
      refine ⟨d, hd, ?_⟩
      cases he; rfl
    · simp at h

theorem eq_of_nodup_names : ∀ (l : List HCmd), (l.map (·.name)).Nodup →
    ∀ d ∈ l, ∀ d' ∈ l, d'.name = d.name → d' = d := by
  intro l
  induction l with
  | nil => intro _ d hd; cases hd
  | cons a r ih =>
    intro hn d hd d' hd' he
    simp only [List.map_cons, List.nodup_cons] at hn
    rcases List.mem_cons.mp hd with rfl | hd1
    · rcases List.mem_cons.mp hd' with rfl | hd2
      · rfl
      · exact absurd (he ▸ List.mem_map_of_mem hd2) hn.1
    · rcases List.mem_cons.mp hd' with rfl | hd2
      · exact absurd (he ▸ List.mem_map_of_mem hd1) hn.1
      · exact ih hn.2 d hd1 d' hd2 he

theorem tagU_inj (a b : Str) (h : tagU a = tagU b) : a = b := by
  unfold tagU at h
  have h1 := List.append_cancel_left (by simpa [List.append_assoc] using h : S "<u>" ++ (a ++ S "</u>") = S "<u>" ++ (b ++ S "</u>"))
  exact List.append_cancel_right h1

/-! ## Labels show both names -/

theorem longText_infix (o : HOpt) : longText o <:+: optLabel o := by
  unfold optLabel
  split
  · exact ⟨[], _, by rw [List.nil_append]⟩
  · exact ⟨shortText o ++ S " (", S ")", by simp [List.append_assoc]⟩

theorem shortText_infix (o : HOpt) (x : Str) (h : o.short = some x) (hx : x ≠ []) : shortText o <:+: optLabel o := by
  unfold optLabel
  split
  · rw [h]
    have : x.isEmpty = false := by cases x <;> simp_all
    simp only [this]
    exact ⟨longText o ++ S " (", S ")", by simp [List.append_assoc]⟩
  · exact ⟨[], S " (" ++ longText o ++ S ")", by simp [List.append_assoc]⟩

/-! ## Inheritance -/

/-- the context below a chain of commands, outermost first -/
def Ctx.enterAll (x : Ctx) (chain : List HCmd) : Ctx := chain.foldl Ctx.enter x

theorem enterAll_opts_base (chain : List HCmd) : ∀ (x : Ctx) (o : HOpt), o ∈ x.opts → o ∈ (x.enterAll chain).opts := by
  induction chain with
  | nil => intro x o h; exact h
  | cons c r ih =>
    intro x o h
    exact ih (x.enter c) o (by simp only [Ctx.enter]; exact List.mem_append_right _ h)

theorem enterAll_opts_chain (chain : List HCmd) : ∀ (x : Ctx) (a : HCmd) (o : HOpt), a ∈ chain → o ∈ a.opts →
    o ∈ (x.enterAll chain).opts := by
  induction chain with
  | nil => intro x a o h; cases h
  | cons c r ih =>
    intro x a o ha ho
    rcases List.mem_cons.mp ha with rfl | ha'
    · exact enterAll_opts_base r (x.enter a) o (by simp only [Ctx.enter]; exact List.mem_append_left _ ho)
    · exact ih (x.enter c) a o ha' ho

theorem enterAll_args_chain (chain : List HCmd) : ∀ (x : Ctx) (a : HCmd) (g : HArg), a ∈ chain → g ∈ a.args →
    g ∈ (x.enterAll chain).args := by
  induction chain with
  | nil => intro x a o h; cases h
  | cons c r ih =>
    intro x a g ha hg
    rcases List.mem_cons.mp ha with rfl | ha'
    · have : ∀ (r : List HCmd) (y : Ctx), g ∈ y.args → g ∈ (y.enterAll r).args := by
        intro r
        induction r with
        | nil => intro y h; exact h
        | cons c' r' ih' => intro y h; exact ih' (y.enter c') (by simp only [Ctx.enter]; exact List.mem_append_left _ h)
      exact this r (x.enter a) (by simp only [Ctx.enter]; exact List.mem_append_right _ hg)
    · exact ih (x.enter c) a g ha' hg

/-- `findPath` hands a command the context of the chain of its ancestors -/
theorem findPath_ctx : ∀ (path : List Str) (x : Ctx) (cmds : List HCmd) (y : Ctx) (c : HCmd),
    findPath x cmds path = some (y, c) → ∃ chain : List HCmd, y = x.enterAll chain := by
  intro path
  induction path with
  | nil => intro x cmds y c h; cases h
  | cons n r ih =>
    intro x cmds y c h
    simp only [findPath] at h
    split at h
    · cases h
    · rename_i d hd
      split at h
      · simp only [Option.some.injEq, Prod.mk.injEq] at h
        exact ⟨[], h.1.symm⟩
      · obtain ⟨chain, hc⟩ := ih _ _ _ _ h
        exact ⟨d :: chain, hc⟩

/-! ## The wrap instances satisfy the contract -/

theorem wrapLen_wrap : WrapLen Clikit.Wrap.wrap := fun w t => wrap_len w t

theorem wrapH_len (w : Nat) (t : Str) : ∀ l ∈ wrapH w t, l.length ≤ w := wrapLoop_len w _ _ _

theorem wrapLen_wrapH : WrapLen wrapH := wrapH_len

theorem splitWord_nil (take : Nat) (prev cur : Str) :
    splitWord take prev cur [] = if cur.isEmpty then [] else [cur.reverse] := by
  cases take <;> rfl

theorem splitWord_take (k : Nat) (prev cur : Str) (c : Char) (r : Str) :
    splitWord (k + 1) prev cur (c :: r) =
      if k == 0 then (c :: cur).reverse :: splitWord 0 (c :: prev) [] r
      else splitWord k (c :: prev) (c :: cur) r := rfl

theorem splitWord_flatten : ∀ (t : Str) (take : Nat) (prev cur : Str),
    (splitWord take prev cur t).flatten = cur.reverse ++ t := by
  intro t
  induction t with
  | nil =>
    intro take prev cur
    rw [splitWord_nil]
    split <;> simp_all
  | cons c r ih =>
    intro take prev cur
    cases take with
    | succ k =>
      rw [splitWord_take]
      split
      · simp [ih]
      · simp [ih]
    | zero =>
      unfold splitWord
      simp only
      split
      · simp [ih]
      · split
        · split
          · simp [ih]
          · split
            · simp [ih]
            · simp [ih]
        · simp [ih]
theorem flatMap_split_flatten (cs : List Str) :
    (cs.flatMap fun c => if isBlankChunk c then [c] else splitWord 0 [] [] c).flatten = cs.flatten := by
  induction cs with
  | nil => rfl
  | cons c r ih =>
    rw [List.flatMap_cons, List.flatten_append, ih, List.flatten_cons]
    congr 1
    by_cases hb : isBlankChunk c = true
    · rw [if_pos hb]; simp
    · rw [if_neg hb, splitWord_flatten]; rfl

theorem chunksH_flatten (text : Str) : (chunksH text).flatten = munge text := by
  unfold chunksH
  rw [flatMap_split_flatten, flatten_splitChunks]

/-- the non-blank characters of the text are preserved, in order -/
theorem wrapH_content (w : Nat) (hw : 1 ≤ w) (text : Str) :
    nonblank (wrapH w text).flatten = nonblank text := by
  unfold wrapH
  rw [wrapLoop_content w hw _ _ _ (Nat.lt_succ_self _), chunksH_flatten, nonblank_munge]

/-! ## Which page: the two spellings -/

open Clikit.Parser Clikit.Resolver

/-- how a parse ends, forgetting the parsed values -/
def outcome {α : Type} : Except Err α → Option Err
  | .ok _ => none
  | .error e => some e

/-- the two lines parse with the same outcome under EVERY format (the help switch is an
option of every command and consumes nothing).  As a hypothesis this is stronger than any
application can satisfy (it also speaks about formats that do not declare the switch);
`Lemmas/HelpSame.helpResolve_congr_tree` replaces it by the formats of the commands of the tree,
where `parse_flag_appended` proves it. -/
def ParseAgree (cv : Conv) (a b : List Str) : Prop :=
  ∀ (f : Fmt) (len : Bool), outcome (parse cv f len a) = outcome (parse cv f len b)

theorem chooseDefault_congr (cv : Conv) (a b : List Str) (h : ParseAgree cv a b) :
    ∀ (l : List Cmd) (first : Option Cmd), chooseDefault cv a l first = chooseDefault cv b l first := by
  intro l
  induction l with
  | nil => intro first; rfl
  | cons d r ih =>
    intro first
    have hd := h d.fmt d.lenient
    simp only [chooseDefault, tryParse]
    cases ha : parse cv d.fmt d.lenient a with
    | ok x =>
      cases hb : parse cv d.fmt d.lenient b with
      | ok y => rfl
      | error e => rw [ha, hb] at hd; cases hd
    | error e =>
      cases hb : parse cv d.fmt d.lenient b with
      | ok y => rw [ha, hb] at hd; cases hd
      | error e' =>
        rw [ha, hb] at hd
        simp only [outcome, Option.some.injEq] at hd
        subst hd
        cases e <;> simp only [ih]

theorem created_congr (cv : Conv) (a b : List Str) (h : ParseAgree cv a b) (c : Cmd) (path : List Str) :
    created cv c path a = created cv c path b := by
  have hd := h c.fmt true
  simp only [created]
  cases ha : parse cv c.fmt true a with
  | ok x =>
    cases hb : parse cv c.fmt true b with
    | ok y => rfl
    | error e => rw [ha, hb] at hd; cases hd
  | error e =>
    cases hb : parse cv c.fmt true b with
    | ok y => rw [ha, hb] at hd; cases hd
    | error e' =>
      rw [ha, hb] at hd
      simp only [outcome, Option.some.injEq] at hd
      subst hd; rfl

/-- the help resolver depends on the line only through its leading tokens and the outcomes
of the parses -/
theorem helpResolve_congr (cv : Conv) (app : List Cmd) (a b : List Str) (hl : lead a = lead b)
    (h : ParseAgree cv a b) : helpResolve cv app a = helpResolve cv app b := by
  unfold helpResolve
  simp only [hl]
  split
  · rename_i c path _
    rw [chooseDefault_congr cv a b h]
    split
    · rfl
    · rw [created_congr cv a b h]
    · rw [created_congr cv a b h]
  · split
    · rfl
    · rw [chooseDefault_congr cv a b h]
      split
      · rfl
      · rw [created_congr cv a b h]
      · rfl

end Clikit.Help
