import Clikit.Lemmas.Parser
import Clikit.Lemmas.Dict
/-!
Invariants of the parser's scratch dictionaries (C02 `no_foreign_exception`): the argument
dictionary always holds exactly the first `n` arguments of the flattened format, in order, each
with a value of the right kind; every stored option value has the kind its option demands.
-/
namespace Clikit.Parser

theorem hasArgAt_nat (l : List FArg) (n : Nat) : hasArgAt l (n : Int) = decide (n < l.length) := by
  unfold hasArgAt
  simp

theorem getArgAt_nat {l : List FArg} {n : Nat} {a : FArg} (h : l[n]? = some a) :
    getArgAt l (n : Int) = .ok a := by
  have hlt : n < l.length := by
    rcases Nat.lt_or_ge n l.length with h' | h'
    · exact h'
    · rw [List.getElem?_eq_none h'] at h; cases h
  unfold getArgAt
  have h1 : ¬ ((n : Int) ≥ (l.length : Int)) := by omega
  have h2 : (n : Int) ≥ 0 := by omega
  simp only [h1, h2, if_true, if_false, Int.toNat_natCast, h]

def V.isTok : V → Bool
  | .tok _ => true
  | .cmd _ => false

def RawArg.isMany : RawArg → Bool
  | .many _ => true
  | .one _ => false

def RawArg.allTok : RawArg → Bool
  | .many l => l.all V.isTok
  | .one v => v.isTok

/-- how a slot of the parser's argument dictionary relates to the argument of the flattened
format at the same position -/
def SlotRel (a : FArg) (kv : ArgKey × RawArg) : Prop :=
  kv.1 = a.key ∧ kv.2.isMany = a.multi ∧ kv.2.allTok = true

/-- slot-wise correspondence between a list of arguments and a dictionary -/
inductive Slots : List FArg → List (ArgKey × RawArg) → Prop
  | nil : Slots [] []
  | cons {a kv as d} : SlotRel a kv → Slots as d → Slots (a :: as) (kv :: d)

/-- the argument dictionary holds exactly the first `d.length` arguments, in order -/
def ArgsInv (fa : List FArg) (d : List (ArgKey × RawArg)) : Prop :=
  ∃ pre suf, fa = pre ++ suf ∧ Slots pre d

theorem Slots.keys {pre : List FArg} {d : List (ArgKey × RawArg)} (h : Slots pre d) :
    d.map (·.1) = pre.map (·.key) := by
  induction h with
  | nil => rfl
  | cons hr _ ih => simp [ih, hr.1]

theorem Slots.snoc {pre : List FArg} {d : List (ArgKey × RawArg)} {a : FArg} {kv : ArgKey × RawArg}
    (h : Slots pre d) (hr : SlotRel a kv) : Slots (pre ++ [a]) (d ++ [kv]) := by
  induction h with
  | nil => exact .cons hr .nil
  | cons hr' _ ih => exact .cons hr' ih


theorem Slots.length {pre : List FArg} {d : List (ArgKey × RawArg)} (h : Slots pre d) : d.length = pre.length := by
  induction h with
  | nil => rfl
  | cons _ _ ih => simp [ih]

/-- looking up the key of an argument that has a slot finds that slot, and replacing its value
by one of the same kind keeps the correspondence -/
theorem Slots.get_set {pre : List FArg} {d : List (ArgKey × RawArg)} (h : Slots pre d)
    (hnd : (pre.map (·.key)).Nodup) {a : FArg} (ha : a ∈ pre) :
    ∃ v, dictGet? a.key d = some v ∧ v.isMany = a.multi ∧ v.allTok = true ∧
      ∀ v' : RawArg, v'.isMany = a.multi → v'.allTok = true → Slots pre (dictSet a.key v' d) := by
  induction h with
  | nil => cases ha
  | @cons b kv as d hr hs ih =>
    obtain ⟨k, v⟩ := kv
    obtain ⟨hk, hm, ht⟩ := hr
    simp only at hk hm ht
    simp only [List.map_cons, List.nodup_cons] at hnd
    rcases List.mem_cons.mp ha with hab | hab
    · subst hab
      refine ⟨v, by simp [dictGet?, hk], hm, ht, ?_⟩
      intro v' hm' ht'
      simp only [dictSet, hk, beq_self_eq_true, if_true]
      exact .cons ⟨rfl, hm', ht'⟩ hs
    · have hne : (k == a.key) = false := by
        cases hb : (k == a.key) with
        | false => rfl
        | true =>
          have := eq_of_beq hb
          exfalso; apply hnd.1
          rw [← hk, this]
          exact List.mem_map_of_mem hab
      obtain ⟨w, hw1, hw2, hw3, hw4⟩ := ih hnd.2 hab
      refine ⟨w, by simp [dictGet?, hne, hw1], hw2, hw3, ?_⟩
      intro v' hm' ht'
      simp only [dictSet, hne]
      exact .cons ⟨hk, hm, ht⟩ (hw4 v' hm' ht')


theorem cast_succ_sub_one (m : Nat) : ((m + 1 : Nat) : Int) - 1 = (m : Int) := by omega

/-- `_parse_argument` keeps the invariant, and can only fail with the cannot-parse error (in
strict mode, leaving the state as it was) -/
theorem parseArgument_inv {fa : List FArg} (hnd : (fa.map (·.key)).Nodup) {len : Bool} {tok : Str} {σ : St}
    (hi : ArgsInv fa σ.args) :
    (∃ σ', parseArgument fa len tok σ = .ok σ' ∧ ArgsInv fa σ'.args ∧ σ'.opts = σ.opts) ∨
    (parseArgument fa len tok σ = .error (.cannotParse, σ) ∧ len = false) := by
  obtain ⟨pre, suf, hfa, hs⟩ := hi
  have hlen := hs.length
  have hkeys := hs.keys
  cases suf with
  | cons a s =>
    left
    have hget : fa[σ.args.length]? = some a := by
      rw [hfa, hlen]; simp
    have hhas : hasArgAt fa (σ.args.length : Int) = true := by
      rw [hasArgAt_nat, hfa, hlen]; simp
    have hnotin : a.key ∉ σ.args.map (·.1) := by
      rw [hkeys]
      rw [hfa] at hnd
      simp only [List.map_append, List.map_cons] at hnd
      have := (List.nodup_append.mp hnd).2.2
      intro hmem
      exact this _ hmem _ List.mem_cons_self rfl
    unfold parseArgument
    simp only [hhas, if_true, getArgAt_nat hget]
    cases hm : a.multi with
    | true =>
      simp only [if_true, appendArg, dictGet?_none_of_not_mem hnotin, dictSet_of_not_mem hnotin]
      refine ⟨_, rfl, ⟨pre ++ [a], s, by simp [hfa], ?_⟩, rfl⟩
      exact hs.snoc ⟨rfl, by simp [RawArg.isMany, hm], by simp [RawArg.allTok, V.isTok]⟩
    | false =>
      simp only [Bool.false_eq_true, if_false, dictSet_of_not_mem hnotin]
      refine ⟨_, rfl, ⟨pre ++ [a], s, by simp [hfa], ?_⟩, rfl⟩
      exact hs.snoc ⟨rfl, by simp [RawArg.isMany, hm], by simp [RawArg.allTok, V.isTok]⟩
  | nil =>
    simp only [List.append_nil] at hfa
    subst hfa
    have hhas : hasArgAt fa (σ.args.length : Int) = false := by
      rw [hasArgAt_nat, hlen]; simp
    unfold parseArgument
    simp only [hhas, Bool.false_eq_true, if_false]
    cases hc : σ.args.length with
    | zero =>
      simp only [Int.natCast_zero, Int.lt_irrefl, decide_false, Bool.false_and, Bool.false_eq_true, if_false]
      cases len with
      | true => left; exact ⟨σ, rfl, ⟨fa, [], by simp, hs⟩, rfl⟩
      | false => right; exact ⟨rfl, rfl⟩
    | succ m =>
      have hpos : decide (((m + 1 : Nat) : Int) > 0) = true := by simp
      have hm1 : m < fa.length := by omega
      have hhas1 : hasArgAt fa (m : Int) = true := by rw [hasArgAt_nat]; simp [hm1]
      have hget1 : fa[m]? = some fa[m] := List.getElem?_eq_getElem hm1
      simp only [hpos, cast_succ_sub_one, hhas1, Bool.and_self, if_true, getArgAt_nat hget1]
      cases hmu : fa[m].multi with
      | false =>
        simp only [Bool.false_eq_true, if_false]
        cases len with
        | true => left; exact ⟨σ, rfl, ⟨fa, [], by simp, hs⟩, rfl⟩
        | false => right; exact ⟨rfl, rfl⟩
      | true =>
        left
        simp only [if_true]
        obtain ⟨v, hv1, hv2, hv3, hv4⟩ := hs.get_set hnd (List.getElem_mem hm1)
        cases v with
        | one y => simp [RawArg.isMany, hmu] at hv2
        | many l =>
          simp only [appendArg, hv1]
          refine ⟨_, rfl, ⟨fa, [], by simp, ?_⟩, rfl⟩
          apply hv4
          · simp [RawArg.isMany, hmu]
          · simp only [RawArg.allTok] at hv3 ⊢
            simp [List.all_append, hv3, V.isTok]

/-! ### Stored option values, and the invariant through the token loop -/

def Scalar.isTokLike : Scalar → Bool
  | .str _ => true
  | .none => true
  | _ => false

/-- a stored option value has the kind its option demands -/
def RawOptOK (o : Opt) : RawOpt → Prop
  | .many l => o.multi = true ∧ l.all Scalar.isTokLike = true
  | .one x => o.multi = false ∧ ((∃ s, x = .str s) ∨ (x = .bool true ∧ o.valReq = false ∧ o.valOpt = false))
  | .dflt dv => o.multi = false ∧ o.valOpt = true ∧ dv = o.default

def OptsInv (f : Fmt) (d : List (Str × RawOpt)) : Prop :=
  ∀ n v, (n, v) ∈ d → ∃ o, f.getOpt? n = some o ∧ RawOptOK o v

def Inv (f : Fmt) (σ : St) : Prop := ArgsInv f.fargs σ.args ∧ OptsInv f σ.opts

def ParseErr (e : Err) : Prop := e = .cannotParse ∨ e = .noSuchOption

/-- a result of a sub-parser: a state satisfying the invariant, or one of the two parse errors
raised from a state satisfying the invariant -/
def Good {α : Type} (f : Fmt) (stOf : α → St) : PR α → Prop
  | .ok x => Inv f (stOf x)
  | .error (e, σ') => ParseErr e ∧ Inv f σ'

theorem OptsInv.set {f : Fmt} {d : List (Str × RawOpt)} (h : OptsInv f d) {n : Str} {o : Opt} {v : RawOpt}
    (ho : f.getOpt? n = some o) (hv : RawOptOK o v) : OptsInv f (dictSet n v d) := by
  intro n' v' hmem
  rcases mem_dictSet hmem with heq | hin
  · cases heq; exact ⟨o, ho, hv⟩
  · exact h _ _ hin

theorem storeOpt_good {f : Fmt} {o : Opt} {name : Str} {value : Option Str} {σ : St}
    (hi : Inv f σ) (ho : f.getOpt? name = some o) :
    Good f id (storeOpt o name value σ) := by
  unfold storeOpt
  cases value with
  | none =>
    simp only
    cases hr : o.valReq with
    | true => simp only [if_true, Good]; exact ⟨Or.inl rfl, hi⟩
    | false =>
      simp only [Bool.false_eq_true, if_false]
      cases hm : o.multi with
      | true =>
        simp only [if_true]
        cases hd : dictGet? name σ.opts with
        | none =>
          simp only [Good, id]
          exact ⟨hi.1, hi.2.set ho (by simp [RawOptOK, hm, Scalar.isTokLike])⟩
        | some x =>
          obtain ⟨o', ho', hok⟩ := hi.2 _ _ (dictGet?_mem hd)
          rw [ho] at ho'; cases ho'
          cases x with
          | many l =>
            simp only [Good, id]
            refine ⟨hi.1, hi.2.set ho ?_⟩
            simp only [RawOptOK] at hok ⊢
            simp [hm, List.all_append, hok.2, Scalar.isTokLike]
          | one y => simp [RawOptOK, hm] at hok
          | dflt y => simp [RawOptOK, hm] at hok
      | false =>
        simp only [Bool.false_eq_true, if_false, Good, id]
        refine ⟨hi.1, hi.2.set ho ?_⟩
        cases hvo : o.valOpt with
        | true => simp [RawOptOK, hm, hvo]
        | false => simp [RawOptOK, hm, hr, hvo]
  | some v =>
    simp only
    cases hm : o.multi with
    | true =>
      simp only [if_true]
      cases hd : dictGet? name σ.opts with
      | none =>
        simp only [Good, id]
        exact ⟨hi.1, hi.2.set ho (by simp [RawOptOK, hm, Scalar.isTokLike])⟩
      | some x =>
        obtain ⟨o', ho', hok⟩ := hi.2 _ _ (dictGet?_mem hd)
        rw [ho] at ho'; cases ho'
        cases x with
        | many l =>
          simp only [Good, id]
          refine ⟨hi.1, hi.2.set ho ?_⟩
          simp only [RawOptOK] at hok ⊢
          simp [hm, List.all_append, hok.2, Scalar.isTokLike]
        | one y => simp [RawOptOK, hm] at hok
        | dflt y => simp [RawOptOK, hm] at hok
    | false =>
      simp only [Bool.false_eq_true, if_false, Good, id]
      exact ⟨hi.1, hi.2.set ho (by simp [RawOptOK, hm])⟩


theorem Good.map {α β : Type} {f : Fmt} {g : α → St} {g' : β → St} {r : PR α} (k : α → β)
    (h : Good f g r) (hk : ∀ x, g' (k x) = g x) :
    Good f g' (match r with | .error e => .error e | .ok x => .ok (k x)) := by
  cases r with
  | error e => exact h
  | ok x => simp only [Good] at h ⊢; rw [hk]; exact h

theorem addLong_good {f : Fmt} {name : Str} {value : Option Str} {toks : List Str} {σ : St}
    (hi : Inv f σ) : Good f (·.1) (addLong f name value toks σ) := by
  unfold addLong
  cases ho : f.getOpt? name with
  | none => exact ⟨Or.inr rfl, hi⟩
  | some o =>
    simp only
    split
    · exact ⟨Or.inl rfl, hi⟩
    · have := storeOpt_good (value := if (peekValue o value toks).1 == some [] then none else (peekValue o value toks).1) hi ho
      cases hs : storeOpt o name (if (peekValue o value toks).1 == some [] then none else (peekValue o value toks).1) σ with
      | error e => rw [hs] at this; exact this
      | ok σ' => rw [hs] at this; exact this

theorem addShort_good {f : Fmt} {name : Str} {value : Option Str} {toks : List Str} {σ : St}
    (hi : Inv f σ) : Good f (·.1) (addShort f name value toks σ) := by
  unfold addShort
  cases ho : f.getOpt? name with
  | none => exact ⟨Or.inr rfl, hi⟩
  | some o => exact addLong_good hi

theorem parseLong_good {f : Fmt} {name : Str} {toks : List Str} {σ : St}
    (hi : Inv f σ) : Good f (·.1) (parseLong f name toks σ) := by
  unfold parseLong
  split
  · exact addLong_good hi
  · split
    · split
      · exact addLong_good hi
      · exact addLong_good hi
    · exact addLong_good hi

theorem parseShortSet_good {f : Fmt} : ∀ (name : Str) (toks : List Str) (σ : St),
    Inv f σ → Good f (·.1) (parseShortSet f name toks σ) := by
  intro name
  induction name with
  | nil => intro toks σ hi; exact hi
  | cons c r ih =>
    intro toks σ hi
    unfold parseShortSet
    cases ho : f.getOpt? [c] with
    | none => exact ⟨Or.inr rfl, hi⟩
    | some o =>
      simp only
      split
      · exact addLong_good hi
      · have h1 := addLong_good (name := o.long) (value := none) (toks := toks) hi
        cases hs : addLong f o.long none toks σ with
        | error e => rw [hs] at h1; exact h1
        | ok p =>
          rw [hs] at h1
          obtain ⟨σ', toks'⟩ := p
          exact ih toks' σ' h1

theorem parseShort_good {f : Fmt} {name : Str} {toks : List Str} {σ : St}
    (hi : Inv f σ) (hne : name ≠ []) : Good f (·.1) (parseShort f name toks σ) := by
  unfold parseShort
  cases name with
  | nil => exact absurd rfl hne
  | cons c r =>
    simp only
    split
    · split
      · split
        · exact addShort_good hi
        · exact parseShortSet_good _ _ _ hi
      · exact parseShortSet_good _ _ _ hi
    · split
      · split
        · exact addShort_good hi
        · exact addShort_good hi
      · exact addShort_good hi


theorem parseArgument_good {f : Fmt} (hnd : (f.fargs.map (·.key)).Nodup) {len : Bool} {tok : Str} {σ : St}
    (hi : Inv f σ) : Good f id (parseArgument f.fargs len tok σ) := by
  rcases parseArgument_inv hnd (len := len) (tok := tok) hi.1 with ⟨σ', h1, h2, h3⟩ | ⟨h1, _⟩
  · rw [h1]; exact ⟨h2, h3 ▸ hi.2⟩
  · rw [h1]; exact ⟨Or.inl rfl, hi⟩

theorem step_good {f : Fmt} (hnd : (f.fargs.map (·.key)).Nodup) {len : Bool} {tok : Str} {rest : List Str}
    {po : Bool} {σ : St} (hi : Inv f σ) : Good f (·.1) (step f len tok rest po σ) := by
  unfold step
  split
  · have := parseArgument_good hnd (len := len) (tok := tok) hi
    cases hp : parseArgument f.fargs len tok σ with
    | error e => rw [hp] at this; exact this
    | ok σ' => rw [hp] at this; exact this
  · rename_i h1
    split
    · exact hi
    · split
      · have := parseLong_good (name := tok.drop 2) (toks := rest) hi
        cases hp : parseLong f (tok.drop 2) rest σ with
        | error e => rw [hp] at this; exact this
        | ok p => rw [hp] at this; obtain ⟨σ', r'⟩ := p; exact this
      · have hpa : Good f (·.1) (match parseArgument f.fargs len tok σ with
            | .error e => (.error e : PR (St × List Str × Bool))
            | .ok σ' => .ok (σ', rest, po)) := by
          have := parseArgument_good hnd (len := len) (tok := tok) hi
          cases hp : parseArgument f.fargs len tok σ with
          | error e => rw [hp] at this; exact this
          | ok σ' => rw [hp] at this; exact this
        cases po with
        | false => simp only [shortTest, Bool.false_eq_true, if_false]; exact hpa
        | true =>
          cases tok with
          | nil => simp at h1
          | cons c r =>
            simp only [shortTest, if_true]
            cases hc : (c == '-' && (c :: r) != ['-']) with
            | false => exact hpa
            | true =>
              simp only
              have hne : (c :: r).drop 1 ≠ [] := by
                simp only [Bool.and_eq_true, beq_iff_eq, bne_iff_ne, ne_eq] at hc
                obtain ⟨hc1, hc2⟩ := hc
                subst hc1
                simp only [List.drop_succ_cons, List.drop_zero]
                intro hr; subst hr; exact hc2 rfl
              have := parseShort_good (toks := rest) hi hne
              cases hp : parseShort f ((c :: r).drop 1) rest σ with
              | error e => rw [hp] at this; exact this
              | ok p => rw [hp] at this; obtain ⟨σ', r'⟩ := p; exact this

theorem loop_good {f : Fmt} (hnd : (f.fargs.map (·.key)).Nodup) (len : Bool) : ∀ (n : Nat) (toks : List Str)
    (po : Bool) (σ : St), toks.length < n → Inv f σ → Good f id (loop f len n toks po σ) := by
  intro n
  induction n with
  | zero => intro toks po σ hl; omega
  | succ n ih =>
    intro toks po σ hl hi
    cases toks with
    | nil => exact hi
    | cons tok rest =>
      have hr : rest.length < n := by simp at hl; omega
      unfold loop
      have hs := step_good hnd (len := len) (tok := tok) (rest := rest) (po := po) hi
      cases hp : step f len tok rest po σ with
      | error e => rw [hp] at hs; exact hs
      | ok p =>
        rw [hp] at hs
        obtain ⟨σ', rest', po'⟩ := p
        exact ih rest' po' σ' (Nat.lt_of_le_of_lt (step_len hp) hr) hs


/-! ### Re-alignment against omitted command names -/

/-- an entry of an argument dictionary is consistent with the flattened format -/
def EntryOK (fa : List FArg) (kv : ArgKey × RawArg) : Prop :=
  ∃ a ∈ fa, a.key = kv.1 ∧ kv.2.isMany = a.multi ∧ (kv.2.allTok = true ∨ ∃ j, kv.1 = .pseudo j)

def DictOK (fa : List FArg) (d : List (ArgKey × RawArg)) : Prop := ∀ kv ∈ d, EntryOK fa kv

theorem Slots.dictOK {pre : List FArg} {d : List (ArgKey × RawArg)} (h : Slots pre d) : DictOK pre d := by
  induction h with
  | nil => intro kv hkv; cases hkv
  | @cons a kv as d hr _ ih =>
    intro kv' hkv'
    rcases List.mem_cons.mp hkv' with h | h
    · subst h; exact ⟨a, List.mem_cons_self, hr.1.symm, hr.2.1, Or.inl hr.2.2⟩
    · obtain ⟨b, hb, h1, h2, h3⟩ := ih _ h
      exact ⟨b, List.mem_cons_of_mem _ hb, h1, h2, h3⟩

theorem DictOK.mono {fa fb : List FArg} {d : List (ArgKey × RawArg)} (h : DictOK fa d) (hsub : ∀ a ∈ fa, a ∈ fb) :
    DictOK fb d := by
  intro kv hkv
  obtain ⟨a, ha, h1, h2, h3⟩ := h kv hkv
  exact ⟨a, hsub a ha, h1, h2, h3⟩

theorem ArgsInv.dictOK {fa : List FArg} {d : List (ArgKey × RawArg)} (h : ArgsInv fa d) : DictOK fa d := by
  obtain ⟨pre, suf, hfa, hs⟩ := h
  exact hs.dictOK.mono (by intro a ha; rw [hfa]; exact List.mem_append_left _ ha)

theorem DictOK.set {fa : List FArg} {d : List (ArgKey × RawArg)} (h : DictOK fa d) {k : ArgKey} {v : RawArg}
    (hv : EntryOK fa (k, v)) : DictOK fa (dictSet k v d) := by
  intro kv hkv
  rcases mem_dictSet hkv with h1 | h1
  · subst h1; exact hv
  · exact h kv h1

/-- no single-valued slot of `fixed` belongs to an argument still to be filled -/
def NoOne (args : List FArg) (fixed : List (ArgKey × RawArg)) : Prop :=
  ∀ k v, (k, RawArg.one v) ∈ fixed → k ∉ args.map (·.key)

/-- the second `_copy_argument_values` call: token values onto the remaining arguments -/
theorem copyLoop_toks (fa : List FArg) (len : Bool) : ∀ (vals : List V) (args : List FArg)
    (fixed : List (ArgKey × RawArg)), (∀ v ∈ vals, v.isTok = true) → (args.map (·.key)).Nodup →
    (∀ a ∈ args, a ∈ fa) → DictOK fa fixed → NoOne args fixed →
    (∃ r fixed', copyLoop len vals args fixed = .ok (r, fixed') ∧ DictOK fa fixed') ∨
    (copyLoop len vals args fixed = .error .cannotParse ∧ len = false) := by
  intro vals
  induction vals with
  | nil => intro args fixed _ _ _ hd _; left; exact ⟨some args, fixed, by simp [copyLoop], hd⟩
  | cons v vals ih =>
    intro args fixed hv hnd hsub hd hno
    have hvt : v.isTok = true := hv v List.mem_cons_self
    have hvs : ∀ w ∈ vals, w.isTok = true := fun w hw => hv w (List.mem_cons_of_mem _ hw)
    cases args with
    | nil =>
      cases len with
      | true => left; exact ⟨none, fixed, by simp [copyLoop], hd⟩
      | false => right; exact ⟨by simp [copyLoop], rfl⟩
    | cons a args =>
      have ha : a ∈ fa := hsub a List.mem_cons_self
      simp only [List.map_cons, List.nodup_cons] at hnd
      cases hm : a.multi with
      | false =>
        simp only [copyLoop, hm, Bool.false_eq_true, if_false]
        apply ih args _ hvs hnd.2 (fun b hb => hsub b (List.mem_cons_of_mem _ hb))
        · exact hd.set ⟨a, ha, rfl, by simp [RawArg.isMany, hm], Or.inl (by simp [RawArg.allTok, hvt])⟩
        · intro k w hmem
          rcases mem_dictSet hmem with h1 | h1
          · cases h1; exact hnd.1
          · intro hk; exact hno k w h1 (by simp [hk])
      | true =>
        cases hg : dictGet? a.key fixed with
        | none =>
          simp only [copyLoop, hm, hg, if_true]
          apply ih (a :: args) _ hvs (by simp [hnd]) hsub
          · exact hd.set ⟨a, ha, rfl, by simp [RawArg.isMany, hm], Or.inl (by simp [RawArg.allTok, hvt])⟩
          · intro k w hmem
            rcases mem_dictSet hmem with h1 | h1
            · cases h1
            · exact hno k w h1
        | some x =>
          cases x with
          | one y =>
            exfalso
            exact hno _ _ (dictGet?_mem hg) (by simp)
          | many l =>
            simp only [copyLoop, hm, hg, if_true]
            obtain ⟨b, hb, hb1, hb2, hb3⟩ := hd _ (dictGet?_mem hg)
            apply ih (a :: args) _ hvs (by simp [hnd]) hsub
            · refine hd.set ⟨a, ha, rfl, by simp [RawArg.isMany, hm], ?_⟩
              rcases hb3 with hb3 | hb3
              · left
                simp only [RawArg.allTok] at hb3 ⊢
                simp [List.all_append, hb3, hvt]
              · right; exact hb3
            · intro k w hmem
              rcases mem_dictSet hmem with h1 | h1
              · cases h1
              · exact hno k w h1


/-- the first `_copy_argument_values` call: the command names that were not typed go onto
their (single-valued) pseudo-arguments; it never fails and never returns early -/
theorem copyLoop_cmds (len : Bool) : ∀ (cs : List CmdName) (ps rest : List FArg) (fixed : List (ArgKey × RawArg)),
    ps.length = cs.length → (∀ p ∈ ps, p.multi = false) →
    ∃ fixed', copyLoop len (cs.map V.cmd) (ps ++ rest) fixed = .ok (some rest, fixed') ∧
      ∀ kv ∈ fixed', kv ∈ fixed ∨ (∃ p ∈ ps, kv.1 = p.key ∧ kv.2.isMany = false) := by
  intro cs
  induction cs with
  | nil =>
    intro ps rest fixed hl _
    have : ps = [] := List.length_eq_zero_iff.mp (by simpa using hl)
    subst this
    exact ⟨fixed, by simp [copyLoop], fun kv h => Or.inl h⟩
  | cons c cs ih =>
    intro ps rest fixed hl hp
    cases ps with
    | nil => simp at hl
    | cons p ps =>
      have hpm : p.multi = false := hp p List.mem_cons_self
      obtain ⟨fixed', h1, h2⟩ := ih ps rest (dictSet p.key (.one (.cmd c)) fixed) (by simpa using hl)
        (fun q hq => hp q (List.mem_cons_of_mem _ hq))
      refine ⟨fixed', by simp only [List.map_cons, List.cons_append, copyLoop, hpm, Bool.false_eq_true, if_false]; exact h1, ?_⟩
      intro kv hkv
      rcases h2 kv hkv with h | ⟨q, hq, h3, h4⟩
      · rcases mem_dictSet h with h | h
        · right; exact ⟨p, List.mem_cons_self, by rw [h], by rw [h]; rfl⟩
        · left; exact h
      · right; exact ⟨q, List.mem_cons_of_mem _ hq, h3, h4⟩

theorem drop_tail {α : Type} (l : List α) (k : Nat) : (l.drop k).tail = l.drop (k + 1) := by
  rw [List.tail_drop]

/-- `_skip_command_names` consumes the same number `k` of values, command names and arguments -/
theorem skipCmdNames_spec : ∀ (actual : List V) (cmds : List CmdName) (args : List FArg),
    ∃ k, k ≤ cmds.length ∧ skipCmdNames actual cmds args = (actual.drop k, cmds.drop k, args.drop k) := by
  intro actual
  induction actual with
  | nil => intro cmds args; exact ⟨0, Nat.zero_le _, by simp [skipCmdNames]⟩
  | cons v actual ih =>
    intro cmds args
    cases cmds with
    | nil => exact ⟨0, Nat.zero_le _, by cases v <;> simp [skipCmdNames]⟩
    | cons cn cmds =>
      cases v with
      | cmd c => exact ⟨0, Nat.zero_le _, by simp [skipCmdNames]⟩
      | tok s =>
        simp only [skipCmdNames]
        split
        · obtain ⟨k, hk, h⟩ := ih cmds args.tail
          refine ⟨k + 1, by simp; omega, ?_⟩
          rw [h]
          simp [List.drop_succ_cons]
        · exact ⟨0, Nat.zero_le _, by simp⟩


theorem flattenArgs_allTok : ∀ {d : List (ArgKey × RawArg)}, (∀ kv ∈ d, kv.2.allTok = true) →
    ∀ v ∈ flattenArgs d, v.isTok = true := by
  intro d
  induction d with
  | nil => intro _ v hv; simp [flattenArgs] at hv
  | cons kv r ih =>
    intro h v hv
    obtain ⟨k, x⟩ := kv
    have hx := h (k, x) List.mem_cons_self
    have hr := ih (fun kv hkv => h kv (List.mem_cons_of_mem _ hkv))
    cases x with
    | one y =>
      simp only [flattenArgs, List.mem_cons] at hv
      rcases hv with hv | hv
      · subst hv; simpa [RawArg.allTok] using hx
      · exact hr v hv
    | many l =>
      simp only [flattenArgs, List.mem_append] at hv
      rcases hv with hv | hv
      · simp only [RawArg.allTok, List.all_eq_true] at hx; exact hx v hv
      · exact hr v hv

theorem Slots.allTok {pre : List FArg} {d : List (ArgKey × RawArg)} (h : Slots pre d) :
    ∀ kv ∈ d, kv.2.allTok = true := by
  induction h with
  | nil => intro kv hkv; cases hkv
  | cons hr _ ih =>
    intro kv hkv
    rcases List.mem_cons.mp hkv with h | h
    · subst h; exact hr.2.2
    · exact ih kv h

theorem DictOK.foldSet {fa : List FArg} : ∀ (fixed d : List (ArgKey × RawArg)), DictOK fa fixed → DictOK fa d →
    DictOK fa (fixed.foldl (fun d (kv : ArgKey × RawArg) => dictSet kv.1 kv.2 d) d) := by
  intro fixed
  induction fixed with
  | nil => intro d _ hd; exact hd
  | cons kv r ih =>
    intro d hf hd
    simp only [List.foldl_cons]
    exact ih _ (fun x hx => hf x (List.mem_cons_of_mem _ hx)) (hd.set (hf kv List.mem_cons_self))

theorem mem_pseudoArgs {n : Nat} {p : FArg} (h : p ∈ pseudoArgs n) : p.multi = false ∧ ∃ j, p.key = .pseudo j := by
  simp only [pseudoArgs, List.mem_map, List.mem_range] at h
  obtain ⟨j, _, hj⟩ := h
  subst hj
  exact ⟨rfl, j, rfl⟩

/-- `_insert_missing_command_names` on a state satisfying the invariant: it succeeds with a
consistent argument dictionary (options untouched), or - in strict mode only - raises the
cannot-parse error (too many arguments) -/
theorem insertMissing_good {f : Fmt} (hnd : (f.fargs.map (·.key)).Nodup) {len : Bool} {σ : St}
    (hi : ArgsInv f.fargs σ.args) :
    (∃ σ', insertMissing f len σ = .ok σ' ∧ DictOK f.fargs σ'.args ∧ σ'.opts = σ.opts) ∨
    (insertMissing f len σ = .error .cannotParse ∧ len = false) := by
  obtain ⟨pre, suf, hfa, hs⟩ := hi
  have hinv : ArgsInv f.fargs σ.args := ⟨pre, suf, hfa, hs⟩
  obtain ⟨k, hk, hskip⟩ := skipCmdNames_spec (flattenArgs σ.args) f.cmds f.fargs
  have hps : (pseudoArgs f.cmds.length).length = f.cmds.length := by simp [pseudoArgs]
  have hdrop : f.fargs.drop k = (pseudoArgs f.cmds.length).drop k ++
      f.args.map (fun a => ({ key := .real a.name, required := a.required, multi := a.multi } : FArg)) := by
    unfold Fmt.fargs
    rw [List.drop_append_of_le_length (by rw [hps]; exact hk)]
  obtain ⟨fixed1, hc1, hf1⟩ := copyLoop_cmds len (f.cmds.drop k) ((pseudoArgs f.cmds.length).drop k)
    (f.args.map (fun a => ({ key := .real a.name, required := a.required, multi := a.multi } : FArg))) []
    (by simp [hps]) (fun p hp => (mem_pseudoArgs (List.mem_of_mem_drop hp)).1)
  have hsubps : ∀ p ∈ (pseudoArgs f.cmds.length).drop k, p ∈ f.fargs := by
    intro p hp
    unfold Fmt.fargs
    exact List.mem_append_left _ (List.mem_of_mem_drop hp)
  have hsubre : ∀ a ∈ f.args.map (fun a => ({ key := .real a.name, required := a.required, multi := a.multi } : FArg)),
      a ∈ f.fargs := by
    intro a ha; unfold Fmt.fargs; exact List.mem_append_right _ ha
  have hd1 : DictOK f.fargs fixed1 := by
    intro kv hkv
    rcases hf1 kv hkv with h | ⟨p, hp, h1, h2⟩
    · cases h
    · have hp' := mem_pseudoArgs (List.mem_of_mem_drop hp)
      obtain ⟨j, hj⟩ := hp'.2
      exact ⟨p, hsubps p hp, h1.symm, by rw [h2, hp'.1], Or.inr ⟨j, by rw [h1, hj]⟩⟩
  have hno : NoOne (f.args.map (fun a => ({ key := .real a.name, required := a.required, multi := a.multi } : FArg))) fixed1 := by
    intro key v hmem hkey
    rcases hf1 _ hmem with h | ⟨p, hp, h1, _⟩
    · cases h
    · obtain ⟨j, hj⟩ := (mem_pseudoArgs (List.mem_of_mem_drop hp)).2
      simp only [List.map_map, List.mem_map, Function.comp] at hkey
      obtain ⟨a, _, ha⟩ := hkey
      simp only at h1
      rw [h1, hj] at ha
      cases ha
  have hndre : ((f.args.map (fun a => ({ key := .real a.name, required := a.required, multi := a.multi } : FArg))).map (·.key)).Nodup := by
    unfold Fmt.fargs at hnd
    rw [List.map_append] at hnd
    exact (List.nodup_append.mp hnd).2.1
  have htok : ∀ v ∈ (flattenArgs σ.args).drop k, v.isTok = true := fun v hv =>
    flattenArgs_allTok hs.allTok v (List.mem_of_mem_drop hv)
  unfold insertMissing
  simp only [hskip, hdrop, hc1]
  rcases copyLoop_toks f.fargs len _ _ fixed1 htok hndre hsubre hd1 hno with ⟨r, fixed2, h2, hd2⟩ | ⟨h2, hl⟩
  · left
    simp only [h2]
    exact ⟨_, rfl, DictOK.foldSet _ _ hd2 hinv.dictOK, rfl⟩
  · right
    simp only [h2]
    exact ⟨trivial, hl⟩


/-! ### Conversion and storing -/

/-- no `.other` error -/
def NoOther {α : Type} (r : Except Err α) : Prop := ∀ t, r ≠ .error (.other t)

theorem boolOfText_noOther (s : Str) : NoOther (boolOfText s) := by
  intro t h
  unfold boolOfText at h
  split_all h
  all_goals cases h

/-- converting a token (a `str`) or `None` never leaves the model -/
theorem conv_toklike_noOther (cv : Conv) (ty : VType) (n : Bool) {v : Scalar} (hv : v.isTokLike = true) :
    NoOther (conv cv ty n v) := by
  intro t h
  cases v <;> simp [Scalar.isTokLike] at hv
  all_goals
    unfold conv parseBoolean parseInt parseFloat parseString at h
    split_all h
    all_goals (first | contradiction | (cases h; done) | exact boolOfText_noOther _ t h | (cases h; contradiction))

theorem convList_noOther (cv : Conv) (ty : VType) (n : Bool) : ∀ {l : List Scalar}, l.all Scalar.isTokLike = true →
    NoOther (convList cv ty n l) := by
  intro l
  induction l with
  | nil => intro _ t h; simp [convList] at h
  | cons v r ih =>
    intro hl t h
    simp only [List.all_cons, Bool.and_eq_true] at hl
    simp only [convList, bind, Except.bind] at h
    split at h
    · rename_i hg; cases h; exact conv_toklike_noOther cv ty n hl.1 t hg
    · split at h
      · rename_i hg; cases h; exact ih hl.2 t hg
      · cases h

theorem vScalars_toks : ∀ {l : List V}, l.all V.isTok = true → ∃ s, vScalars l = .ok s ∧ s.all Scalar.isTokLike = true := by
  intro l
  induction l with
  | nil => intro _; exact ⟨[], rfl, rfl⟩
  | cons v r ih =>
    intro h
    simp only [List.all_cons, Bool.and_eq_true] at h
    obtain ⟨s, hs1, hs2⟩ := ih h.2
    cases v with
    | cmd c => simp [V.isTok] at h
    | tok t =>
      refine ⟨.str t :: s, ?_, by simp [Scalar.isTokLike, hs2]⟩
      simp [vScalars, V.scalar, hs1, bind, Except.bind, pure, Except.pure]

/-- facts about the format that real `ArgsFormat`s satisfy (C06, C07) and that the exclusion of
foreign exceptions depends on -/
structure FmtWF (cv : Conv) (f : Fmt) : Prop where
  /-- argument names are unique (they are dictionary keys) -/
  argNames : (f.args.map (·.name)).Nodup
  /-- C07 normal form: an option that accepts a value requires one, takes it optionally or is multi-valued -/
  optModes : ∀ o ∈ f.opts, o.accepts = true → o.valReq = true ∨ o.valOpt = true ∨ o.multi = true
  /-- the default of an optional-value option is a scalar whose conversion is inside the model
  (not, e.g., a float default on an INTEGER option) -/
  defaults : ∀ o ∈ f.opts, o.valOpt = true → o.multi = false →
    ∃ s, o.default = .scalar s ∧ NoOther (conv cv o.ty o.nullable s)

theorem getArg?_of_mem {f : Fmt} (hnd : (f.args.map (·.name)).Nodup) {a : Arg} (ha : a ∈ f.args) :
    f.getArg? a.name = some a := by
  unfold Fmt.getArg?
  generalize f.args = l at hnd ha
  induction l with
  | nil => cases ha
  | cons b r ih =>
    simp only [List.map_cons, List.nodup_cons] at hnd
    rcases List.mem_cons.mp ha with h | h
    · subst h; simp [List.find?]
    · have hne : (b.name == a.name) = false := by
        cases hb : (b.name == a.name) with
        | false => rfl
        | true =>
          exfalso; apply hnd.1
          rw [eq_of_beq hb]; exact List.mem_map_of_mem h
      simp [List.find?, hne, ih hnd.2 h]

theorem getOpt?_mem {f : Fmt} {n : Str} {o : Opt} (h : f.getOpt? n = some o) : o ∈ f.opts := by
  unfold Fmt.getOpt? at h
  split at h
  · rename_i hf; cases h; exact List.mem_of_find?_eq_some hf
  · exact List.mem_of_find?_eq_some h

theorem setArgument_noOther {cv : Conv} {f : Fmt} (hnd : (f.args.map (·.name)).Nodup) {n : Str} {v : RawArg}
    {a : Args} (hok : EntryOK f.fargs (.real n, v)) : NoOther (setArgument cv f n v a) := by
  obtain ⟨fa, hfa, hkey, hmany, htok⟩ := hok
  simp only at hkey hmany htok
  have htok' : v.allTok = true := by
    rcases htok with h | ⟨j, h⟩
    · exact h
    · cases h
  -- `fa` is the image of a real argument with that name
  unfold Fmt.fargs at hfa
  rcases List.mem_append.mp hfa with h | h
  · obtain ⟨j, hj⟩ := (mem_pseudoArgs h).2
    rw [hj] at hkey; cases hkey
  · simp only [List.mem_map] at h
    obtain ⟨arg, harg, hfa'⟩ := h
    subst hfa'
    simp only [ArgKey.real.injEq] at hkey
    subst hkey
    simp only at hmany
    intro t h
    unfold setArgument at h
    rw [getArg?_of_mem hnd harg] at h
    simp only at h
    cases v with
    | one x =>
      simp only [RawArg.isMany] at hmany
      simp only [← hmany, Bool.false_eq_true, if_false, bind, Except.bind, pure, Except.pure] at h
      cases x with
      | cmd c => simp [RawArg.allTok, V.isTok] at htok'
      | tok s =>
        simp only [V.scalar] at h
        split at h
        · rename_i hg; cases h
          exact conv_toklike_noOther cv _ _ (v := .str s) rfl t hg
        · cases h
    | many l =>
      simp only [RawArg.isMany] at hmany
      simp only [← hmany, if_true, bind, Except.bind, pure, Except.pure] at h
      simp only [RawArg.allTok] at htok'
      obtain ⟨s, hs1, hs2⟩ := vScalars_toks htok'
      simp only [hs1] at h
      split at h
      · rename_i hg; cases h; exact convList_noOther cv _ _ hs2 t hg
      · cases h


theorem storeArgs_noOther {cv : Conv} {f : Fmt} (hnd : (f.args.map (·.name)).Nodup) :
    ∀ {d : List (ArgKey × RawArg)} {a : Args}, DictOK f.fargs d → NoOther (storeArgs cv f d a) := by
  intro d
  induction d with
  | nil => intro a _ t h; simp [storeArgs] at h
  | cons kv r ih =>
    intro a hd t h
    obtain ⟨k, v⟩ := kv
    have hr : DictOK f.fargs r := fun x hx => hd x (List.mem_cons_of_mem _ hx)
    cases k with
    | pseudo j => simp only [storeArgs] at h; exact ih hr t h
    | real n =>
      simp only [storeArgs] at h
      split at h
      · simp only [bind, Except.bind] at h
        split at h
        · rename_i hg; cases h
          exact setArgument_noOther hnd (hd _ List.mem_cons_self) t hg
        · exact ih hr t h
      · exact ih hr t h

theorem setOption_noOther {cv : Conv} {f : Fmt} (hwf : FmtWF cv f) {n : Str} {v : RawOpt} {o : Opt} {a : Args}
    (ho : f.getOpt? n = some o) (hok : RawOptOK o v) : NoOther (setOption cv f n v a) := by
  intro t h
  have hmem := getOpt?_mem ho
  unfold setOption at h
  rw [ho] at h
  simp only at h
  cases v with
  | many l =>
    simp only [RawOptOK] at hok
    simp only [hok.1, if_true, bind, Except.bind, pure, Except.pure] at h
    split at h
    · rename_i hg; cases h; exact convList_noOther cv _ _ hok.2 t hg
    · cases h
  | one x =>
    simp only [RawOptOK] at hok
    simp only [hok.1, Bool.false_eq_true, if_false] at h
    cases hacc : o.accepts with
    | false =>
      simp only [hacc, Bool.false_eq_true, if_false] at h
      split at h <;> cases h
    | true =>
      simp only [hacc, if_true, bind, Except.bind, pure, Except.pure] at h
      rcases hok.2 with ⟨s, hs⟩ | ⟨_, h1, h2⟩
      · subst hs
        split at h
        · rename_i hg; cases h; exact conv_toklike_noOther cv _ _ (v := .str s) rfl t hg
        · cases h
      · rcases hwf.optModes o hmem hacc with h3 | h3 | h3
        · rw [h1] at h3; cases h3
        · rw [h2] at h3; cases h3
        · rw [hok.1] at h3; cases h3
  | dflt dv =>
    simp only [RawOptOK] at hok
    simp only [hok.1, Bool.false_eq_true, if_false] at h
    cases hacc : o.accepts with
    | false =>
      simp only [hacc, Bool.false_eq_true, if_false] at h
      cases h
    | true =>
      simp only [hacc, if_true] at h
      obtain ⟨s, hs, hno⟩ := hwf.defaults o hmem hok.2.1 hok.1
      rw [hok.2.2, hs] at h
      simp only [bind, Except.bind, pure, Except.pure] at h
      split at h
      · rename_i hg; cases h; exact hno t hg
      · cases h

theorem storeOpts_noOther {cv : Conv} {f : Fmt} (hwf : FmtWF cv f) :
    ∀ {d : List (Str × RawOpt)} {a : Args}, OptsInv f d → NoOther (storeOpts cv f d a) := by
  intro d
  induction d with
  | nil => intro a _ t h; simp [storeOpts] at h
  | cons kv r ih =>
    intro a hd t h
    obtain ⟨n, v⟩ := kv
    have hr : OptsInv f r := fun n' v' hx => hd n' v' (List.mem_cons_of_mem _ hx)
    obtain ⟨o, ho, hok⟩ := hd n v List.mem_cons_self
    simp only [storeOpts] at h
    split at h
    · simp only [bind, Except.bind] at h
      split at h
      · rename_i hg; cases h
        exact setOption_noOther hwf ho hok t hg
      · exact ih hr t h
    · exact ih hr t h

theorem pseudoArgs_keys (n : Nat) : (pseudoArgs n).map (·.key) = (List.range n).map ArgKey.pseudo := by
  simp [pseudoArgs, Function.comp_def]

theorem fargs_nodup {f : Fmt} (hnd : (f.args.map (·.name)).Nodup) : (f.fargs.map (·.key)).Nodup := by
  unfold Fmt.fargs
  rw [List.map_append, pseudoArgs_keys]
  apply List.nodup_append.mpr
  refine ⟨?_, ?_, ?_⟩
  · exact List.Pairwise.map _ (fun a b hne heq => hne (by cases heq; rfl)) List.nodup_range
  · simp only [List.map_map]
    have : ((fun x : FArg => x.key) ∘ fun a : Arg => ({ key := .real a.name, required := a.required, multi := a.multi } : FArg))
        = (fun n => ArgKey.real n) ∘ (fun a : Arg => a.name) := rfl
    rw [this, ← List.map_map]
    exact List.Pairwise.map _ (fun a b hne heq => hne (by cases heq; rfl)) hnd
  · intro x hx y hy hxy
    simp only [List.mem_map, List.mem_range] at hx hy
    obtain ⟨j, _, hj⟩ := hx
    obtain ⟨a, ⟨b, _, hb⟩, ha⟩ := hy
    subst hj; subst ha; subst hb
    cases hxy


/-! ### `parse()` as a whole -/

theorem finish_noForeign {cv : Conv} {f : Fmt} (hwf : FmtWF cv f) {len : Bool} {σ1 : St} (hi : Inv f σ1) {e : Err}
    (h : (finish cv f len σ1).1 = .error e) : e = .cannotParse ∨ e = .valueError := by
  have hnd := fargs_nodup hwf.argNames
  unfold finish at h
  rcases insertMissing_good hnd (len := len) hi.1 with ⟨σ2, h1, h2, h3⟩ | ⟨h1, _⟩
  · simp only [h1] at h
    split at h
    · simp at h; exact Or.inl h.symm
    · simp only [bind, Except.bind] at h
      split at h
      · rename_i hg
        cases h
        rcases storeArgs_err hg with hv | ⟨t, ht⟩
        · exact Or.inr hv
        · subst ht; exact absurd hg (storeArgs_noOther hwf.argNames h2 t)
      · rcases storeOpts_err h with hv | ⟨t, ht⟩
        · exact Or.inr hv
        · subst ht; exact absurd h (storeOpts_noOther hwf (h3 ▸ hi.2) t)
  · simp only [h1] at h
    simp at h; exact Or.inl h.symm

theorem parseFromR_noForeign {cv : Conv} {f : Fmt} (hwf : FmtWF cv f) (prev : St) (len : Bool) (toks : List Str) {e : Err}
    (h : (parseFromR true true prev cv f len toks).1 = .error e) :
    e = .cannotParse ∨ e = .noSuchOption ∨ e = .valueError := by
  have hnd := fargs_nodup hwf.argNames
  have hi0 : Inv f { args := [], opts := [] } :=
    ⟨⟨[], f.fargs, by simp, .nil⟩, fun n v hm => by cases hm⟩
  have hg := loop_good hnd len (toks.length + 1) toks true { args := [], opts := [] } (Nat.lt_succ_self _) hi0
  unfold parseFromR at h
  simp only [if_true] at h
  cases hl : loop f len (toks.length + 1) toks true { args := [], opts := [] } with
  | ok σ =>
    rw [hl] at hg
    simp only [hl, afterLoop] at h
    rcases finish_noForeign hwf hg h with h' | h'
    · exact Or.inl h'
    · exact Or.inr (Or.inr h')
  | error p =>
    obtain ⟨e', σ'⟩ := p
    rw [hl] at hg
    obtain ⟨hpe, hi'⟩ := hg
    cases hcond : ((e' == .cannotParse || e' == .noSuchOption) && len) with
    | true =>
      simp only [hl, afterLoop, hcond, if_true] at h
      rcases finish_noForeign hwf hi' h with h' | h'
      · exact Or.inl h'
      · exact Or.inr (Or.inr h')
    | false =>
      simp [hl, afterLoop, hcond] at h
      subst h
      rcases hpe with hpe | hpe
      · exact Or.inl hpe
      · exact Or.inr (Or.inl hpe)

end Clikit.Parser
