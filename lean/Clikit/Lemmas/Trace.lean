import Clikit.Model.Trace
/-!
Helper lemmas for C20 (`Props/C20.lean`): escaping, the numbered window, `Except` plumbing
of the render skeleton.
-/
namespace Clikit.Trace
open Clikit Clikit.Gen

/-! ## escape / unescape -/

theorem escape_head_ne_lt (r : Str) : (escape r).head? ≠ some '<' := by
  cases r with
  | nil => simp [escape]
  | cons c r =>
    by_cases h : c = '<'
    · simp [escape, h]
    · simp [escape, h]

theorem escape_eq_nil {r : Str} (h : escape r = []) : r = [] := by
  cases r with
  | nil => rfl
  | cons c r =>
    by_cases hc : c = '<' <;> simp [escape, hc] at h

/-- pastel's final `.replace("\\<", "<")` undoes `_escape`, whatever the text contains
(also when it contains `\<` itself). -/
theorem unescape_escape (m : Str) : unescape (escape m) = m := by
  induction m with
  | nil => simp [escape, unescape]
  | cons c r ih =>
    by_cases hc : c = '<'
    · subst hc
      simp [escape, unescape, ih]
    · simp only [escape, hc, if_false]
      cases hr : escape r with
      | nil =>
        have := escape_eq_nil hr
        subst this
        simp [unescape]
      | cons d r' =>
        have hd : d ≠ '<' := by
          have := escape_head_ne_lt r
          rw [hr] at this
          simpa using this
        rw [hr] at ih
        simp [unescape, hd, ih]

/-- every `<` is immediately preceded by a backslash (`prev` = the previous character was one) -/
def ltGuarded : Bool → Str → Bool
  | _, [] => true
  | prev, c :: r => (c != '<' || prev) && ltGuarded (c == '\\') r

theorem ltGuarded_escape (b : Bool) (m : Str) : ltGuarded b (escape m) = true := by
  induction m generalizing b with
  | nil => simp [escape, ltGuarded]
  | cons c r ih =>
    by_cases hc : c = '<'
    · subst hc
      simp [escape, ltGuarded, ih]
    · simp [escape, hc, ltGuarded, ih]

/-! ## the numbered window -/

theorem numberFrom_length (k m : Nat) (ls : List Str) : (numberFrom k m ls).length = ls.length := by
  induction ls generalizing k with
  | nil => simp [numberFrom]
  | cons l r ih => simp [numberFrom, ih]

theorem numberFrom_getElem? (k m : Nat) (ls : List Str) (i : Nat) :
    (numberFrom k m ls)[i]? = (ls[i]?).map (fun l => { number := k + i, marked := (m == k + i), body := l }) := by
  induction ls generalizing k i with
  | nil => simp [numberFrom]
  | cons l r ih =>
    cases i with
    | zero => simp [numberFrom]
    | succ i =>
      simp only [numberFrom, List.getElem?_cons_succ, ih]
      have : k + 1 + i = k + (i + 1) := by omega
      rw [this]

theorem snippetOffset_eq (line before : Nat) : snippetOffset line before = line - before - 1 := by
  unfold snippetOffset
  omega

theorem codeSnippet_getElem? (hl : List Str) (line before after i : Nat) :
    (codeSnippet hl line before after)[i]? =
      if i < after + before + 1 then
        (hl[(line - before - 1) + i]?).map
          (fun l => { number := (line - before - 1) + 1 + i, marked := (line == (line - before - 1) + 1 + i), body := l })
      else none := by
  unfold codeSnippet numberLines snippetLength
  rw [snippetOffset_eq, List.getElem?_take]
  by_cases h : i < after + before + 1
  · simp only [h, if_true, List.getElem?_drop, numberFrom_getElem?]
    have : 1 + (line - before - 1 + i) = line - before - 1 + 1 + i := by omega
    rw [this]
  · simp [h]

theorem codeSnippet_length (hl : List Str) (line before after : Nat) :
    (codeSnippet hl line before after).length = min (after + before + 1) (hl.length - (line - before - 1)) := by
  unfold codeSnippet numberLines snippetLength
  rw [snippetOffset_eq]
  simp [numberFrom_length]

/-! ## `Except` plumbing -/

theorem mapM_ok_iff {fmt : Str → Except Err Str} (ls : List Str) :
    (∃ out, ls.mapM fmt = .ok out) ↔ ∀ l ∈ ls, ∃ y, fmt l = .ok y := by
  induction ls with
  | nil => simp [pure, Except.pure]
  | cons l r ih =>
    simp only [List.mapM_cons, List.mem_cons, forall_eq_or_imp]
    cases hl : fmt l with
    | error e => simp [bind, Except.bind]
    | ok y =>
      cases hr : r.mapM fmt with
      | error e =>
        have : ¬ ∀ l ∈ r, ∃ y, fmt l = .ok y := by
          intro h
          have := ih.mpr h
          rw [hr] at this
          simp at this
        simp [bind, Except.bind, this]
      | ok ys =>
        have : ∀ l ∈ r, ∃ y, fmt l = .ok y := ih.mp ⟨ys, hr⟩
        simpa [bind, Except.bind, pure, Except.pure] using this

/-- `mapM` fails with `e` exactly when `e` is the failure of the first line that fails -/
theorem mapM_error_iff {fmt : Str → Except Err Str} (ls : List Str) (e : Err) :
    ls.mapM fmt = .error e ↔
      ∃ pre l post, ls = pre ++ l :: post ∧ (∀ x ∈ pre, ∃ y, fmt x = .ok y) ∧ fmt l = .error e := by
  induction ls with
  | nil => simp [pure, Except.pure]
  | cons a r ih =>
    simp only [List.mapM_cons]
    cases ha : fmt a with
    | error e' =>
      simp only [bind, Except.bind]
      constructor
      · intro h
        cases h
        exact ⟨[], a, r, rfl, by simp, ha⟩
      · rintro ⟨pre, l, post, heq, hpre, hl⟩
        cases pre with
        | nil =>
          simp at heq
          rw [← heq.1, ha] at hl
          cases hl
          rfl
        | cons p pre =>
          simp at heq
          have := hpre p (by simp)
          rw [← heq.1, ha] at this
          simp at this
    | ok y =>
      simp only [bind, Except.bind]
      cases hr : r.mapM fmt with
      | error e' =>
        simp only
        constructor
        · intro h
          cases h
          obtain ⟨pre, l, post, heq, hpre, hl⟩ := (ih.mp hr)
          refine ⟨a :: pre, l, post, by simp [heq], ?_, hl⟩
          intro x hx
          rcases List.mem_cons.mp hx with rfl | hx
          · exact ⟨y, ha⟩
          · exact hpre x hx
        · rintro ⟨pre, l, post, heq, hpre, hl⟩
          cases pre with
          | nil =>
            simp at heq
            rw [← heq.1, ha] at hl
            cases hl
          | cons p pre =>
            simp at heq
            have : r.mapM fmt = .error e := ih.mpr ⟨pre, l, post, heq.2, fun x hx => hpre x (by simp [hx]), hl⟩
            rw [hr] at this
            exact this
      | ok ys =>
        simp only [pure, Except.pure]
        constructor
        · intro h
          cases h
        · rintro ⟨pre, l, post, heq, hpre, hl⟩
          cases pre with
          | nil =>
            simp at heq
            rw [← heq.1, ha] at hl
            cases hl
          | cons p pre =>
            simp at heq
            have : r.mapM fmt = .error e := ih.mpr ⟨pre, l, post, heq.2, fun x hx => hpre x (by simp [hx]), hl⟩
            rw [hr] at this
            cases this

/-! ## when the render skeleton cannot fail -/

/-- the tokenizer produced a token stream for the frame's file -/
def FileOk (f : Frame) : Prop := ∃ toks, f.fileToks = .ok toks

/-- the stream ends with an ENDMARKER token (every complete `tokenize` run does) -/
def HasEnd (toks : List Tok) : Prop := ∃ t ∈ toks, t.srow ≠ 0 ∧ t.kind = .endmarker

/-- the tokenizer's outcome on the frame's line: a complete stream, or `TokenError`
(which the renderer catches) -/
def LineOk (f : Frame) : Prop :=
  f.lineToks = .error (.other "TokenError") ∨ ∃ toks, f.lineToks = .ok toks ∧ HasEnd toks

/-- contract of crashtest's `compact`: it only hands back frames it was given -/
def CompactSound (compactF : List Frame → List Coll) : Prop :=
  ∀ fs, ∀ c ∈ compactF fs, ∀ f ∈ c.frames, f ∈ fs

theorem splitGo_ne_nil (env : Env) (st : St) (toks : List Tok) (h : HasEnd toks) :
    splitGo env st toks ≠ [] := by
  induction toks generalizing st with
  | nil => obtain ⟨t, ht, _⟩ := h; simp at ht
  | cons t ts ih =>
    obtain ⟨u, hu, hrow, hkind⟩ := h
    unfold splitGo
    by_cases h0 : t.srow = 0
    · simp only [h0, if_true]
      rcases List.mem_cons.mp hu with rfl | hu
      · exact absurd h0 hrow
      · exact ih _ ⟨u, hu, hrow, hkind⟩
    · simp only [h0, if_false]
      by_cases he : t.kind = .endmarker
      · simp [he]
      · simp only [he, if_false]
        have hts : HasEnd ts := by
          rcases List.mem_cons.mp hu with rfl | hu
          · exact absurd hkind he
          · exact ⟨u, hu, hrow, hkind⟩
        cases classify env t with
        | none => exact ih _ hts
        | some ty => exact ih _ hts

theorem frameSnippet_ok (env : Env) (utf8 : Bool) (f : Frame) (b a : Nat) (h : FileOk f) :
    ∃ sn, frameSnippet env utf8 f b a = .ok sn := by
  obtain ⟨toks, ht⟩ := h
  simp [frameSnippet, ht, bind, Except.bind, pure, Except.pure]

theorem frameCodeLine_ok (env : Env) (f : Frame) (h : LineOk f) : ∃ cl, frameCodeLine env f = .ok cl := by
  rcases h with h | ⟨toks, ht, hend⟩
  · exact ⟨f.lineText, by simp [frameCodeLine, h]⟩
  · have hne := splitGo_ne_nil env St.init toks hend
    unfold frameCodeLine
    rw [ht]
    simp only
    cases hh : highlightedLines env toks with
    | nil =>
      exfalso
      apply hne
      have : (splitToLines env toks).map renderHL = [] := hh
      simpa [splitToLines] using this
    | cons l r => exact ⟨l, rfl⟩

theorem renderFrames_ok (env : Env) (utf8 debug : Bool) (w : Nat) (i : Int) (fs : List Frame)
    (h : ∀ f ∈ fs, FileOk f ∧ LineOk f) : ∃ r, renderFrames env utf8 debug w i fs = .ok r := by
  induction fs generalizing i with
  | nil => exact ⟨_, rfl⟩
  | cons f fs ih =>
    obtain ⟨hf, hl⟩ := h f (by simp)
    obtain ⟨sn, hsn⟩ := frameSnippet_ok env utf8 f C20.defaultBefore C20.defaultAfter hf
    obtain ⟨cl, hcl⟩ := frameCodeLine_ok env f hl
    obtain ⟨⟨rest, j⟩, hrest⟩ := ih (i - 1) (fun g hg => h g (by simp [hg]))
    cases debug <;>
      simp [renderFrames, hsn, hcl, hrest, bind, Except.bind, pure, Except.pure]

theorem renderColls_ok (env : Env) (utf8 debug : Bool) (w : Nat) (i : Int) (cs : List Coll)
    (h : ∀ c ∈ cs, ∀ f ∈ c.frames, FileOk f ∧ LineOk f) : ∃ r, renderColls env utf8 debug w i cs = .ok r := by
  induction cs generalizing i with
  | nil => exact ⟨_, rfl⟩
  | cons c cs ih =>
    have hc := h c (by simp)
    obtain ⟨⟨fr, j⟩, hfr⟩ := renderFrames_ok env utf8 debug w (collStart i c) c.frames hc
    obtain ⟨rest, hrest⟩ := ih j (fun d hd => h d (by simp [hd]))
    simp [renderColls, hfr, hrest, bind, Except.bind, pure, Except.pure]

theorem renderTrace_ok (env : Env) (compactF : List Frame → List Coll) (utf8 : Bool) (verbosity : Nat)
    (ignoreSet : Bool) (frames : List Frame) (hc : CompactSound compactF)
    (h : ∀ f ∈ frames, FileOk f ∧ LineOk f) :
    ∃ r, renderTrace env compactF utf8 verbosity ignoreSet frames = .ok r := by
  unfold renderTrace
  simp only
  split
  · have hall : ∀ c ∈ compactF (filterFrames ignoreSet (verbosity == IOFlags.DEBUG) frames),
        ∀ f ∈ c.frames, FileOk f ∧ LineOk f := by
      intro c hcm f hf
      have := hc _ c hcm f hf
      exact h f (List.mem_filter.mp this).1
    obtain ⟨body, hb⟩ := renderColls_ok env utf8 (verbosity == IOFlags.DEBUG)
      (intStr ((filterFrames ignoreSet (verbosity == IOFlags.DEBUG) frames).length - 1 : Int)).length
      ((filterFrames ignoreSet (verbosity == IOFlags.DEBUG) frames).length - 1 : Int) _ hall
    simp [hb, bind, Except.bind, pure, Except.pure]
  · exact ⟨_, rfl⟩

theorem renderSnippet_ok (env : Env) (utf8 : Bool) (f : Frame) (h : FileOk f) :
    ∃ r, renderSnippet env utf8 f = .ok r := by
  obtain ⟨sn, hsn⟩ := frameSnippet_ok env utf8 f C20.snippetBefore C20.snippetAfter h
  simp [renderSnippet, hsn, bind, Except.bind, pure, Except.pure]

/-! ## the hypotheses of `render_fails_iff` are decidable -/

theorem hasEndB_iff (toks : List Tok) : hasEndB toks = true ↔ HasEnd toks := by
  simp only [hasEndB, HasEnd, List.any_eq_true, Bool.and_eq_true, bne_iff_ne, ne_eq, beq_iff_eq]

theorem fileOkB_iff (f : Frame) : fileOkB f = true ↔ FileOk f := by
  unfold fileOkB FileOk
  cases f.fileToks with
  | ok toks => simp
  | error e => simp

theorem lineOkB_iff (f : Frame) : lineOkB f = true ↔ LineOk f := by
  unfold lineOkB LineOk
  cases f.lineToks with
  | ok toks => simp [hasEndB_iff]
  | error e => simp

/-- `framesOkB` (Model/Trace, evaluated by the driver on the real tokenizer's outcomes) decides the
hypothesis of `render_fails_iff` about the frames -/
theorem framesOkB_iff (fs : List Frame) : framesOkB fs = true ↔ ∀ f ∈ fs, FileOk f ∧ LineOk f := by
  simp only [framesOkB, List.all_eq_true, Bool.and_eq_true, fileOkB_iff, lineOkB_iff]

/-! ## the port of crashtest's `compact` only hands back frames it was given -/

theorem mem_slice {α : Type} {l : List α} {a b : Nat} {x : α} (h : x ∈ slice l a b) : x ∈ l :=
  List.mem_of_mem_drop (List.mem_of_mem_take h)

theorem compactGo_sound (all : List Frame) : ∀ (fuel i : Nat) (colls : List Coll) (cur : Coll),
    (∀ c ∈ colls, ∀ f ∈ c.frames, f ∈ all) → (∀ f ∈ cur.frames, f ∈ all) →
    ∀ c ∈ compactGo all fuel i colls cur, ∀ f ∈ c.frames, f ∈ all := by
  intro fuel
  induction fuel with
  | zero =>
    intro i colls cur hc hcur c hm f hf
    simp only [compactGo, List.mem_append, List.mem_singleton] at hm
    rcases hm with hm | rfl
    · exact hc c hm f hf
    · exact hcur f hf
  | succ fuel ih =>
    intro i colls cur hc hcur
    have hfin : ∀ c ∈ colls ++ [cur], ∀ f ∈ c.frames, f ∈ all := by
      intro c hm f hf
      simp only [List.mem_append, List.mem_singleton] at hm
      rcases hm with hm | rfl
      · exact hc c hm f hf
      · exact hcur f hf
    unfold compactGo
    split
    · split
      · exact hfin
      · rename_i frame hfr
        have hframe : frame ∈ all := List.mem_of_getElem? hfr
        split
        · rename_i d0 ds _
          split
          · exact ih _ colls _ hc hcur
          · exact ih _ _ _ hfin (fun f hf => mem_slice hf)
        · by_cases hrep : cur.count > 1
          · simp only [hrep, if_true]
            apply ih _ _ _ hfin
            intro f hf
            simp only [List.nil_append, List.mem_singleton] at hf
            exact hf ▸ hframe
          · simp only [hrep, if_false]
            apply ih _ _ _ hc
            intro f hf
            simp only [List.mem_append, List.mem_singleton] at hf
            rcases hf with hf | rfl
            · exact hcur f hf
            · exact hframe
    · exact hfin

/-- the contract `CompactSound` holds for the executable port `compact` (the one the driver runs and the
correspondence compares with crashtest's on every case) -/
theorem compact_sound : CompactSound compact := by
  intro fs c hc f hf
  exact compactGo_sound fs _ _ _ _ (by simp) (by simp) c hc f hf

end Clikit.Trace
