import Clikit.Model.Parser
/-!
Helper lemmas about the parser model (C01, C02): token consumption (termination), the
strict/lenient relation, error classification.
-/
namespace Clikit.Parser

/-! ### Token consumption: no step ever lengthens the token list -/

theorem peekValue_len (o : Opt) (v : Option Str) (toks : List Str) :
    (peekValue o v toks).2.length ≤ toks.length := by
  unfold peekValue
  split
  · split
    · simp
    · simp
    · split <;> simp
  · simp

theorem popValue_len (toks : List Str) : (popValue toks).2.length ≤ toks.length := by
  unfold popValue
  split
  · simp
  · split
    · simp
    · split <;> simp

theorem addLong_len {f : Fmt} {n : Str} {v : Option Str} {toks : List Str} {σ σ' : St}
    {toks' : List Str} (h : addLong f n v toks σ = .ok (σ', toks')) : toks'.length ≤ toks.length := by
  unfold addLong at h
  split at h
  · cases h
  · split at h
    · cases h
    · simp only at h
      split at h
      · cases h
      · cases h
        exact peekValue_len _ _ _

theorem addShort_len {f : Fmt} {n : Str} {v : Option Str} {toks : List Str} {σ σ' : St}
    {toks' : List Str} (h : addShort f n v toks σ = .ok (σ', toks')) : toks'.length ≤ toks.length := by
  unfold addShort at h
  split at h
  · cases h
  · exact addLong_len h

theorem parseLong_len {f : Fmt} {n : Str} {toks : List Str} {σ σ' : St}
    {toks' : List Str} (h : parseLong f n toks σ = .ok (σ', toks')) : toks'.length ≤ toks.length := by
  unfold parseLong at h
  split at h
  · exact addLong_len h
  · split at h
    · split at h
      · simp only at h
        exact Nat.le_trans (addLong_len h) (popValue_len _)
      · exact addLong_len h
    · exact addLong_len h

theorem parseShortSet_len {f : Fmt} : ∀ {n : Str} {toks : List Str} {σ σ' : St}
    {toks' : List Str}, parseShortSet f n toks σ = .ok (σ', toks') → toks'.length ≤ toks.length := by
  intro n
  induction n with
  | nil => intro toks σ σ' toks' h; simp [parseShortSet] at h; rw [h.2]; exact Nat.le_refl _
  | cons c r ih =>
    intro toks σ σ' toks' h
    unfold parseShortSet at h
    split at h
    · cases h
    · split at h
      · exact addLong_len h
      · split at h
        · cases h
        · rename_i heq
          exact Nat.le_trans (ih h) (addLong_len heq)

theorem parseShort_len {f : Fmt} {n : Str} {toks : List Str} {σ σ' : St}
    {toks' : List Str} (h : parseShort f n toks σ = .ok (σ', toks')) : toks'.length ≤ toks.length := by
  unfold parseShort at h
  split at h
  · cases h
  · split at h
    · split at h
      · split at h
        · exact addShort_len h
        · exact parseShortSet_len h
      · exact parseShortSet_len h
    · split at h
      · split at h
        · simp only at h
          exact Nat.le_trans (addShort_len h) (popValue_len _)
        · exact addShort_len h
      · exact addShort_len h


theorem step_len {f : Fmt} {len : Bool} {tok : Str} {rest : List Str} {po : Bool} {σ σ' : St}
    {rest' : List Str} {po' : Bool} (h : step f len tok rest po σ = .ok (σ', rest', po')) :
    rest'.length ≤ rest.length := by
  unfold step at h
  split at h
  · split at h
    · cases h
    · cases h; exact Nat.le_refl _
  · split at h
    · cases h; exact Nat.le_refl _
    · split at h
      · split at h
        · cases h
        · rename_i hg; cases h; exact parseLong_len hg
      · split at h
        · cases h
        · split at h
          · cases h
          · rename_i hg; cases h; exact parseShort_len hg
        · split at h
          · cases h
          · cases h; exact Nat.le_refl _

/-! ### Which errors the token loop can raise at all -/

/-- split every `if`/`match` of hypothesis `h`, zeta-reducing in between -/
macro "split_all " h:ident : tactic =>
  `(tactic| repeat' (first | split at $h:ident | (dsimp only at $h:ident)))

/-- the errors that appear literally in the token loop -/
def LoopErr (e : Err) : Prop :=
  e = .cannotParse ∨ e = .noSuchOption ∨ e = .noSuchArgument ∨ ∃ t, e = .other t

theorem LoopErr.ne_fuel {e : Err} (h : LoopErr e) : e ≠ .outOfFuel := by
  rcases h with h | h | h | ⟨t, h⟩ <;> simp [h]

theorem getArgAt_err {l : List FArg} {i : Int} {e : Err} (h : getArgAt l i = .error e) : LoopErr e := by
  unfold getArgAt at h
  split_all h
  all_goals (first | cases h | skip)
  all_goals simp [LoopErr]

theorem appendArg_err {k : ArgKey} {t : Str} {σ σ' : St} {e : Err}
    (h : appendArg k t σ = .error (e, σ')) : LoopErr e := by
  unfold appendArg at h
  split_all h
  all_goals (first | cases h | skip)
  all_goals simp [LoopErr]

theorem parseArgument_err {fa : List FArg} {len : Bool} {t : Str} {σ σ' : St} {e : Err}
    (h : parseArgument fa len t σ = .error (e, σ')) : LoopErr e := by
  unfold parseArgument at h
  split_all h
  all_goals (first | cases h | skip)
  all_goals (first | (rename_i hg; exact getArgAt_err hg) | exact appendArg_err h | simp [LoopErr])

theorem storeOpt_err {o : Opt} {n : Str} {v : Option Str} {σ σ' : St} {e : Err}
    (h : storeOpt o n v σ = .error (e, σ')) : LoopErr e := by
  unfold storeOpt at h
  split_all h
  all_goals (first | cases h | skip)
  all_goals simp [LoopErr]

theorem addLong_err {f : Fmt} {n : Str} {v : Option Str} {toks : List Str} {σ σ' : St} {e : Err}
    (h : addLong f n v toks σ = .error (e, σ')) : LoopErr e := by
  unfold addLong at h
  split_all h
  all_goals (first | cases h | skip)
  all_goals (first | (rename_i hg; exact storeOpt_err hg) | simp [LoopErr])

theorem addShort_err {f : Fmt} {n : Str} {v : Option Str} {toks : List Str} {σ σ' : St} {e : Err}
    (h : addShort f n v toks σ = .error (e, σ')) : LoopErr e := by
  unfold addShort at h
  split_all h
  all_goals (first | cases h | skip)
  all_goals (first | exact addLong_err h | simp [LoopErr])

theorem parseLong_err {f : Fmt} {n : Str} {toks : List Str} {σ σ' : St} {e : Err}
    (h : parseLong f n toks σ = .error (e, σ')) : LoopErr e := by
  unfold parseLong at h
  split_all h
  all_goals (first | exact addLong_err h | simp [LoopErr])

theorem parseShortSet_err {f : Fmt} : ∀ {n : Str} {toks : List Str} {σ σ' : St} {e : Err},
    parseShortSet f n toks σ = .error (e, σ') → LoopErr e := by
  intro n
  induction n with
  | nil => intro toks σ σ' e h; simp [parseShortSet] at h
  | cons c r ih =>
    intro toks σ σ' e h
    unfold parseShortSet at h
    split_all h
    all_goals (first | cases h | skip)
    all_goals (first | exact addLong_err h | exact ih h | (rename_i hg; exact addLong_err hg) | simp [LoopErr])

theorem parseShort_err {f : Fmt} {n : Str} {toks : List Str} {σ σ' : St} {e : Err}
    (h : parseShort f n toks σ = .error (e, σ')) : LoopErr e := by
  unfold parseShort at h
  split_all h
  all_goals (first | cases h | skip)
  all_goals (first | exact addShort_err h | exact parseShortSet_err h | simp [LoopErr])

theorem shortTest_err {po : Bool} {tok : Str} {e : Err} (h : shortTest po tok = .error e) : LoopErr e := by
  unfold shortTest at h
  split_all h
  all_goals (first | cases h | skip)
  all_goals simp [LoopErr]

theorem step_err {f : Fmt} {len : Bool} {tok : Str} {rest : List Str} {po : Bool} {σ σ' : St} {e : Err}
    (h : step f len tok rest po σ = .error (e, σ')) : LoopErr e := by
  unfold step at h
  split_all h
  all_goals (first | cases h | skip)
  all_goals first
    | (rename_i hg; exact parseArgument_err hg)
    | (rename_i hg; exact parseLong_err hg)
    | (rename_i hg; exact parseShort_err hg)
    | (rename_i hg; exact shortTest_err hg)
    | (rename_i hg _; exact shortTest_err hg)

/-- With `fuel > number of tokens` the loop never runs out of fuel: every iteration pops a
token and no sub-parser ever lengthens the list (a pushed-back token was popped before). -/
theorem loop_err (f : Fmt) (len : Bool) : ∀ (n : Nat) (toks : List Str) (po : Bool) (σ : St) (e : Err) (σ' : St),
    toks.length < n → loop f len n toks po σ = .error (e, σ') → LoopErr e := by
  intro n
  induction n with
  | zero => intro toks po σ e σ' hl; omega
  | succ n ih =>
    intro toks po σ e σ' hl h
    cases toks with
    | nil => simp [loop] at h
    | cons tok rest =>
      have hr : rest.length < n := by simp at hl; omega
      unfold loop at h
      split at h
      · rename_i hg; cases h; exact step_err hg
      · rename_i hg
        exact ih _ _ _ _ _ (Nat.lt_of_le_of_lt (step_len hg) hr) h

/-! ### Whatever strict parsing accepts, lenient parsing accepts identically -/

theorem parseArgument_strict_lenient {fa : List FArg} {t : Str} {σ σ' : St}
    (h : parseArgument fa false t σ = .ok σ') : parseArgument fa true t σ = .ok σ' := by
  unfold parseArgument at h ⊢
  split_all h
  all_goals (first | cases h | skip)
  all_goals simp_all

theorem step_strict_lenient {f : Fmt} {tok : Str} {rest : List Str} {po : Bool} {σ : St}
    {r : St × List Str × Bool} (h : step f false tok rest po σ = .ok r) :
    step f true tok rest po σ = .ok r := by
  unfold step at h ⊢
  split_all h
  all_goals (first | cases h | skip)
  all_goals (try (rename_i hg; have := parseArgument_strict_lenient hg))
  all_goals (cases po <;> simp_all)

theorem loop_strict_lenient (f : Fmt) : ∀ (n : Nat) (toks : List Str) (po : Bool) (σ σ' : St),
    loop f false n toks po σ = .ok σ' → loop f true n toks po σ = .ok σ' := by
  intro n
  induction n with
  | zero => intro toks po σ σ' h; simp [loop] at h
  | succ n ih =>
    intro toks po σ σ' h
    cases toks with
    | nil => simpa [loop] using h
    | cons tok rest =>
      unfold loop at h ⊢
      split at h
      · cases h
      · rename_i hg
        rw [step_strict_lenient hg]
        exact ih _ _ _ _ h

theorem copyLoop_strict_lenient : ∀ (vals : List V) (args : List FArg) (fixed : List (ArgKey × RawArg))
    (r : Option (List FArg) × List (ArgKey × RawArg)),
    copyLoop false vals args fixed = .ok r → copyLoop true vals args fixed = .ok r := by
  intro vals
  induction vals with
  | nil => intro args fixed r h; simpa [copyLoop] using h
  | cons v vals ih =>
    intro args fixed r h
    cases args with
    | nil => simp [copyLoop] at h
    | cons a args =>
      cases hm : a.multi with
      | false => simp only [copyLoop, hm] at h ⊢; exact ih _ _ _ h
      | true =>
        cases hd : dictGet? a.key fixed with
        | none => simp only [copyLoop, hm, hd] at h ⊢; exact ih _ _ _ h
        | some x =>
          cases x with
          | one y => simp [copyLoop, hm, hd] at h
          | many l => simp only [copyLoop, hm, hd] at h ⊢; exact ih _ _ _ h

theorem insertMissing_strict_lenient {f : Fmt} {σ σ' : St}
    (h : insertMissing f false σ = .ok σ') : insertMissing f true σ = .ok σ' := by
  unfold insertMissing at h ⊢
  split_all h
  all_goals (first | cases h | skip)
  rename_i h1 _ _ _ h2
  simp only [copyLoop_strict_lenient _ _ _ _ h1, copyLoop_strict_lenient _ _ _ _ h2]


/-- the error classes of the typed conversions -/
def ConvErr (e : Err) : Prop := e = .valueError ∨ ∃ t, e = .other t

theorem boolOfText_err {s : Str} {e : Err} (h : boolOfText s = .error e) : ConvErr e := by
  unfold boolOfText at h; split_all h; all_goals (first | cases h | skip); all_goals simp [ConvErr]

theorem conv_err {cv : Conv} {ty : VType} {n : Bool} {v : Scalar} {e : Err}
    (h : conv cv ty n v = .error e) : ConvErr e := by
  unfold conv parseBoolean parseInt parseFloat parseString at h
  split_all h
  all_goals (first | cases h | skip)
  all_goals (first | exact boolOfText_err h | simp [ConvErr])

theorem convList_err {cv : Conv} {ty : VType} {n : Bool} : ∀ {l : List Scalar} {e : Err},
    convList cv ty n l = .error e → ConvErr e := by
  intro l
  induction l with
  | nil => intro e h; simp [convList] at h
  | cons v r ih =>
    intro e h
    simp only [convList, bind, Except.bind] at h
    split_all h
    all_goals (first | cases h | skip)
    · rename_i hg; exact conv_err hg
    · rename_i hg; exact ih hg


/-! ### Errors of lenient re-alignment and of storing the values -/

theorem copyLoop_lenient_err : ∀ (vals : List V) (args : List FArg) (fixed : List (ArgKey × RawArg)) (e : Err),
    copyLoop true vals args fixed = .error e → ∃ t, e = .other t := by
  intro vals
  induction vals with
  | nil => intro args fixed e h; simp [copyLoop] at h
  | cons v vals ih =>
    intro args fixed e h
    cases args with
    | nil => simp [copyLoop] at h
    | cons a args =>
      cases hm : a.multi with
      | false => simp only [copyLoop, hm] at h; exact ih _ _ _ h
      | true =>
        cases hd : dictGet? a.key fixed with
        | none => simp only [copyLoop, hm, hd] at h; exact ih _ _ _ h
        | some x =>
          cases x with
          | one y => simp [copyLoop, hm, hd] at h; exact ⟨_, h.symm⟩
          | many l => simp only [copyLoop, hm, hd] at h; exact ih _ _ _ h

theorem insertMissing_lenient_err {f : Fmt} {σ : St} {e : Err}
    (h : insertMissing f true σ = .error e) : ∃ t, e = .other t := by
  unfold insertMissing at h
  split_all h
  all_goals (first | cases h | skip)
  · rename_i hg; exact copyLoop_lenient_err _ _ _ _ hg
  · exact ⟨_, rfl⟩
  · rename_i hg; exact copyLoop_lenient_err _ _ _ _ hg

theorem vScalar_err {v : V} {e : Err} (h : v.scalar = .error e) : ConvErr e := by
  unfold V.scalar at h; split_all h; all_goals (first | cases h | skip); all_goals simp [ConvErr]

theorem vScalars_err : ∀ {l : List V} {e : Err}, vScalars l = .error e → ConvErr e := by
  intro l
  induction l with
  | nil => intro e h; simp [vScalars] at h
  | cons v r ih =>
    intro e h
    simp only [vScalars, bind, Except.bind] at h
    split_all h
    all_goals (first | cases h | skip)
    · rename_i hg; exact vScalar_err hg
    · rename_i hg; exact ih hg

theorem setArgument_err {cv : Conv} {f : Fmt} {n : Str} {v : RawArg} {a : Args} {e : Err}
    (hs : (f.getArg? n).isSome) (h : setArgument cv f n v a = .error e) : ConvErr e := by
  unfold setArgument at h
  split at h
  · rename_i hn; simp [hn] at hs
  · simp only [bind, Except.bind, pure, Except.pure] at h
    split_all h
    all_goals (first | cases h | skip)
    all_goals first
      | (rename_i hg; exact vScalars_err hg)
      | (rename_i hg; exact vScalar_err hg)
      | (rename_i hg; exact convList_err hg)
      | (rename_i hg; exact conv_err hg)
      | (rename_i hg _; exact vScalars_err hg)
      | (rename_i hg _; exact vScalar_err hg)
      | simp [ConvErr]

theorem storeArgs_err {cv : Conv} {f : Fmt} : ∀ {l : List (ArgKey × RawArg)} {a : Args} {e : Err},
    storeArgs cv f l a = .error e → ConvErr e := by
  intro l
  induction l with
  | nil => intro a e h; simp [storeArgs] at h
  | cons kv r ih =>
    intro a e h
    obtain ⟨k, v⟩ := kv
    cases k with
    | pseudo j => simp only [storeArgs] at h; exact ih h
    | real n =>
      simp only [storeArgs] at h
      split at h
      · rename_i hs
        simp only [bind, Except.bind] at h
        split at h
        · rename_i hg; cases h; exact setArgument_err hs hg
        · exact ih h
      · exact ih h


theorem setOption_err {cv : Conv} {f : Fmt} {n : Str} {v : RawOpt} {a : Args} {e : Err}
    (hs : f.hasOpt n) (h : setOption cv f n v a = .error e) : ConvErr e := by
  unfold setOption at h
  split at h
  · rename_i hn; simp [Fmt.hasOpt, hn] at hs
  · simp only [bind, Except.bind, pure, Except.pure] at h
    split_all h
    all_goals (first | cases h | skip)
    all_goals first
      | (rename_i hg; exact convList_err hg)
      | (rename_i hg; exact conv_err hg)
      | simp [ConvErr]

theorem storeOpts_err {cv : Conv} {f : Fmt} : ∀ {l : List (Str × RawOpt)} {a : Args} {e : Err},
    storeOpts cv f l a = .error e → ConvErr e := by
  intro l
  induction l with
  | nil => intro a e h; simp [storeOpts] at h
  | cons kv r ih =>
    intro a e h
    obtain ⟨n, v⟩ := kv
    simp only [storeOpts] at h
    split at h
    · rename_i hs
      simp only [bind, Except.bind] at h
      split at h
      · rename_i hg; cases h; exact setOption_err hs hg
      · exact ih h
    · exact ih h


/-! ### `parse()` as a whole -/

theorem finish_strict_lenient {cv : Conv} {f : Fmt} {σ : St} {a : Args}
    (h : (finish cv f false σ).1 = .ok a) : (finish cv f true σ).1 = .ok a := by
  unfold finish at h ⊢
  cases hi : insertMissing f false σ with
  | error e => simp [hi] at h
  | ok σ2 =>
    simp only [insertMissing_strict_lenient hi]
    simp only [hi] at h
    cases hm : (missingArgs f σ2).isEmpty <;> simp [hm] at h ⊢
    exact h

theorem parseFromR_strict_lenient (ra ro : Bool) (prev : St) (cv : Conv) (f : Fmt) (toks : List Str) (a : Args)
    (h : (parseFromR ra ro prev cv f false toks).1 = .ok a) :
    (parseFromR ra ro prev cv f true toks).1 = .ok a := by
  unfold parseFromR at h ⊢
  dsimp only at h ⊢
  cases hl : loop f false (toks.length + 1) toks true
      { args := if ra = true then [] else prev.args, opts := if ro = true then [] else prev.opts } with
  | error e => obtain ⟨e, σ⟩ := e; simp [hl, afterLoop] at h
  | ok σ =>
    rw [loop_strict_lenient _ _ _ _ _ _ hl]
    simp only [hl, afterLoop] at h ⊢
    exact finish_strict_lenient h

theorem copyLoop_err (len : Bool) : ∀ (vals : List V) (args : List FArg) (fixed : List (ArgKey × RawArg)) (e : Err),
    copyLoop len vals args fixed = .error e → (len = false ∧ e = .cannotParse) ∨ ∃ t, e = .other t := by
  intro vals
  induction vals with
  | nil => intro args fixed e h; simp [copyLoop] at h
  | cons v vals ih =>
    intro args fixed e h
    cases args with
    | nil =>
      cases len with
      | true => simp [copyLoop] at h
      | false => simp [copyLoop] at h; exact Or.inl ⟨rfl, h.symm⟩
    | cons a args =>
      cases hm : a.multi with
      | false => simp only [copyLoop, hm] at h; exact ih _ _ _ h
      | true =>
        cases hd : dictGet? a.key fixed with
        | none => simp only [copyLoop, hm, hd] at h; exact ih _ _ _ h
        | some x =>
          cases x with
          | one y => simp [copyLoop, hm, hd] at h; exact Or.inr ⟨_, h.symm⟩
          | many l => simp only [copyLoop, hm, hd] at h; exact ih _ _ _ h

theorem insertMissing_err {f : Fmt} {len : Bool} {σ : St} {e : Err}
    (h : insertMissing f len σ = .error e) : (len = false ∧ e = .cannotParse) ∨ ∃ t, e = .other t := by
  unfold insertMissing at h
  split_all h
  all_goals (first | cases h | skip)
  · rename_i hg; exact copyLoop_err _ _ _ _ _ hg
  · exact Or.inr ⟨_, rfl⟩
  · rename_i hg; exact copyLoop_err _ _ _ _ _ hg

theorem finish_err {cv : Conv} {f : Fmt} {len : Bool} {σ : St} {e : Err}
    (h : (finish cv f len σ).1 = .error e) :
    (len = false ∧ e = .cannotParse) ∨ ConvErr e := by
  unfold finish at h
  cases hi : insertMissing f len σ with
  | error e' =>
    simp only [hi] at h
    cases h
    rcases insertMissing_err hi with hc | hc
    · exact Or.inl hc
    · exact Or.inr (Or.inr hc)
  | ok σ2 =>
    simp only [hi] at h
    split at h
    · rename_i hc
      simp at h; subst h
      cases len <;> simp_all
    · simp only [bind, Except.bind] at h
      split at h
      · rename_i hg; cases h; exact Or.inr (storeArgs_err hg)
      · exact Or.inr (storeOpts_err h)


/-- every error `parse` can end in, classified (no hypothesis on the format) -/
theorem parseFromR_err (ra ro : Bool) (prev : St) (cv : Conv) (f : Fmt) (len : Bool) (toks : List Str) (e : Err)
    (h : (parseFromR ra ro prev cv f len toks).1 = .error e) :
    (len = false ∧ (e = .cannotParse ∨ e = .noSuchOption)) ∨ e = .noSuchArgument ∨ ConvErr e := by
  unfold parseFromR at h
  dsimp only at h
  cases hl : loop f len (toks.length + 1) toks true
      { args := if ra = true then [] else prev.args, opts := if ro = true then [] else prev.opts } with
  | error p =>
    obtain ⟨e', σ⟩ := p
    have hc := loop_err f len _ _ _ _ _ _ (Nat.lt_succ_self _) hl
    cases hcond : ((e' == .cannotParse || e' == .noSuchOption) && len) with
    | true =>
      simp only [hl, afterLoop, hcond, if_true] at h
      rcases finish_err h with hf | hf
      · exact Or.inl ⟨hf.1, Or.inl hf.2⟩
      · exact Or.inr (Or.inr hf)
    | false =>
      simp [hl, afterLoop, hcond] at h
      subst h
      rcases hc with hc | hc | hc | ⟨t, hc⟩
      · subst hc; cases len <;> simp_all
      · subst hc; cases len <;> simp_all
      · exact Or.inr (Or.inl hc)
      · exact Or.inr (Or.inr (Or.inr ⟨t, hc⟩))
  | ok σ =>
    simp only [hl, afterLoop] at h
    rcases finish_err h with hf | hf
    · exact Or.inl ⟨hf.1, Or.inl hf.2⟩
    · exact Or.inr (Or.inr hf)


end Clikit.Parser
