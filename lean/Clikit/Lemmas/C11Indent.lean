import Clikit.Lemmas.C11Lex
import Clikit.Lemmas.C11Output
/-!
Formatting keeps the indentation of every line (C11): the plain rendering of a message is the
message with some tags deleted; tags contain neither a blank nor a newline; deleting such
characters keeps, line by line, a prefix of blanks.
-/
namespace Clikit.Output
open Clikit Clikit.Style Clikit.Markup

/-- every non-empty line starts with `n` blanks -/
def LinesIndented (n : Nat) (s : Str) : Prop := ∀ l ∈ splitNl s, l ≠ [] → spaces n <+: l

/-- `o` is `f` with some characters deleted, none of them a blank or a newline -/
inductive Del : Str → Str → Prop
  | nil : Del [] []
  | keep (c : Char) {f o : Str} : Del f o → Del (c :: f) (c :: o)
  | drop (c : Char) {f o : Str} : c ≠ ' ' → c ≠ '\n' → Del f o → Del (c :: f) o

theorem Del.refl : ∀ (s : Str), Del s s
  | [] => .nil
  | c :: r => .keep c (Del.refl r)

theorem Del.append {a a' b b' : Str} (h1 : Del a a') (h2 : Del b b') : Del (a ++ b) (a' ++ b') := by
  induction h1 with
  | nil => exact h2
  | keep c _ ih => exact .keep c ih
  | drop c h h' _ ih => exact .drop c h h' ih

theorem Del.all : ∀ (a : Str), (∀ c ∈ a, c ≠ ' ' ∧ c ≠ '\n') → Del a []
  | [], _ => .nil
  | c :: r, h => .drop c (h c (by simp)).1 (h c (by simp)).2
      (Del.all r (fun x hx => h x (List.mem_cons_of_mem _ hx)))

theorem Del.of_nil {o : Str} (h : Del [] o) : o = [] := by
  cases h; rfl

/-- lines pairwise related by `Del` -/
inductive LinesDel : List Str → List Str → Prop
  | nil : LinesDel [] []
  | cons {l l' : Str} {ls ls' : List Str} : Del l l' → LinesDel ls ls' → LinesDel (l :: ls) (l' :: ls')

theorem LinesDel.mem {ls ls' : List Str} (h : LinesDel ls ls') : ∀ l' ∈ ls', ∃ l ∈ ls, Del l l' := by
  induction h with
  | nil => intro l' hl; simp at hl
  | cons hd _ ih =>
    intro x hx
    rcases List.mem_cons.mp hx with rfl | hx
    · exact ⟨_, by simp, hd⟩
    · obtain ⟨l, hl, hdl⟩ := ih x hx
      exact ⟨l, List.mem_cons_of_mem _ hl, hdl⟩

/-- deletion never touches a newline, so it works line by line -/
theorem Del.lines {f o : Str} (h : Del f o) : LinesDel (splitNl f) (splitNl o) := by
  induction h with
  | nil => exact .cons .nil .nil
  | @keep c f o _ ih =>
    by_cases hc : c = '\n'
    · simp only [splitNl, hc, if_true]
      exact .cons .nil ih
    · simp only [splitNl, if_neg hc]
      cases hf : splitNl f with
      | nil => exact absurd hf (splitNl_ne_nil f)
      | cons l ls =>
        cases ho : splitNl o with
        | nil => exact absurd ho (splitNl_ne_nil o)
        | cons l' ls' =>
          rw [hf, ho] at ih
          cases ih with
          | cons hd ht => exact .cons (.keep c hd) ht
  | @drop c f o h1 h2 _ ih =>
    simp only [splitNl, if_neg h2]
    cases hf : splitNl f with
    | nil => exact absurd hf (splitNl_ne_nil f)
    | cons l ls =>
      cases ho : splitNl o with
      | nil => exact absurd ho (splitNl_ne_nil o)
      | cons l' ls' =>
        rw [hf, ho] at ih
        cases ih with
        | cons hd ht => exact .cons (.drop c h1 h2 hd) ht

theorem Del.spaces_prefix : ∀ (n : Nat) (a b : Str), Del (spaces n ++ a) b → ∃ b', b = spaces n ++ b'
  | 0, a, b, _ => ⟨b, by simp [spaces]⟩
  | n + 1, a, b, h => by
    have e : spaces (n + 1) ++ a = ' ' :: (spaces n ++ a) := by simp [spaces, List.replicate_succ]
    rw [e] at h
    cases h with
    | keep _ h' =>
      obtain ⟨b', hb⟩ := Del.spaces_prefix n a _ h'
      exact ⟨b', by rw [hb]; simp [spaces, List.replicate_succ]⟩
    | drop _ h1 _ _ => exact absurd rfl h1

/-- deleting non-blank, non-newline characters keeps every line indented -/
theorem Del.linesIndented {f o : Str} (h : Del f o) (n : Nat) (hf : LinesIndented n f) :
    LinesIndented n o := by
  intro l' hl' hne
  obtain ⟨l, hl, hd⟩ := h.lines.mem l' hl'
  have hl0 : l ≠ [] := by
    intro e; rw [e] at hd; exact hne hd.of_nil
  obtain ⟨l0, rfl⟩ := hf l hl hl0
  obtain ⟨b', rfl⟩ := Del.spaces_prefix n l0 l' hd
  exact List.prefix_append _ _

/-! ### tags contain neither a blank nor a newline; the scanner loses nothing -/

theorem isTagChar_not_blank (c : Char) (h : isTagChar c = true) : c ≠ ' ' ∧ c ≠ '\n' := by
  constructor <;> (intro e; subst e; revert h; decide)

theorem isTagStart_isTagChar (c : Char) (h : isTagStart c = true) : isTagChar c = true := by
  simp [isTagChar, h]

theorem tagRest_take : ∀ (r name : Str) (k : Nat), tagRest r = some (name, k) →
    r.take k = name ++ ['>'] ∧ ∀ c ∈ name, isTagChar c = true := by
  intro r
  induction r with
  | nil => intro name k h; simp [tagRest] at h
  | cons x r ih =>
    intro name k h
    unfold tagRest at h
    split at h
    · rename_i hx
      simp only [Option.some.injEq, Prod.mk.injEq] at h
      rw [← h.1, ← h.2, hx]; simp
    · split at h
      · rename_i hx
        cases hr : tagRest r with
        | none => simp [hr] at h
        | some p =>
          obtain ⟨n0, k0⟩ := p
          simp only [hr, Option.map, Option.some.injEq, Prod.mk.injEq] at h
          obtain ⟨h1, h2⟩ := ih n0 k0 hr
          rw [← h.1, ← h.2]
          refine ⟨by simp [List.take_succ_cons, h1], ?_⟩
          intro c hc
          rcases List.mem_cons.mp hc with rfl | hc
          · exact hx
          · exact h2 c hc
      · simp at h

theorem noBlank_lt : ('<' ≠ ' ' ∧ '<' ≠ '\n') ∧ ('/' ≠ ' ' ∧ '/' ≠ '\n') ∧ ('>' ≠ ' ' ∧ '>' ≠ '\n') := by decide

theorem matchTag_take (r : Str) (tok : Tok) (n : Nat) (h : matchTag r = some (tok, n)) :
    tok.lit = '<' :: r.take n ∧ tok.isTag = true ∧ ∀ c ∈ tok.lit, c ≠ ' ' ∧ c ≠ '\n' := by
  unfold matchTag at h
  split at h
  · simp at h
  · simp only [Option.some.injEq, Prod.mk.injEq] at h
    rw [← h.1, ← h.2]
    refine ⟨by simp [Tok.lit], rfl, ?_⟩
    intro c hc
    simp only [Tok.lit, List.mem_cons, List.not_mem_nil, or_false] at hc
    rcases hc with rfl | rfl | rfl <;> decide
  · rename_i c0 r0 _
    split at h
    · rename_i hs
      cases hr : tagRest r0 with
      | none => simp [hr] at h
      | some p =>
        obtain ⟨n0, k0⟩ := p
        simp only [hr, Option.map, Option.some.injEq, Prod.mk.injEq] at h
        obtain ⟨h1, h2⟩ := tagRest_take r0 n0 k0 hr
        rw [← h.1, ← h.2]
        refine ⟨by simp [Tok.lit, List.take_succ_cons, h1], rfl, ?_⟩
        intro c hc
        simp only [Tok.lit, List.mem_cons, List.mem_append, List.not_mem_nil, or_false] at hc
        rcases hc with rfl | rfl | (rfl | hc) | rfl
        · decide
        · decide
        · exact isTagChar_not_blank _ (isTagStart_isTagChar _ hs)
        · exact isTagChar_not_blank _ (h2 c hc)
        · decide
    · simp at h
  · rename_i c0 r0 _ _
    split at h
    · rename_i hs
      cases hr : tagRest r0 with
      | none => simp [hr] at h
      | some p =>
        obtain ⟨n0, k0⟩ := p
        simp only [hr, Option.map, Option.some.injEq, Prod.mk.injEq] at h
        obtain ⟨h1, h2⟩ := tagRest_take r0 n0 k0 hr
        rw [← h.1, ← h.2]
        refine ⟨by simp [Tok.lit, List.take_succ_cons, h1], rfl, ?_⟩
        intro c hc
        simp only [Tok.lit, List.mem_cons, List.mem_append, List.not_mem_nil, or_false] at hc
        rcases hc with rfl | (rfl | hc) | rfl
        · decide
        · exact isTagChar_not_blank _ (isTagStart_isTagChar _ hs)
        · exact isTagChar_not_blank _ (h2 c hc)
        · decide
    · simp at h

/-- a tag piece contains neither a blank nor a newline -/
def TagsTight (toks : List Tok) : Prop := ∀ t ∈ toks, t.isTag = true → ∀ c ∈ t.lit, c ≠ ' ' ∧ c ≠ '\n'

theorem mem_consText (c : Char) (toks : List Tok) (t : Tok) (h : t ∈ consText c toks) (ht : t.isTag = true) :
    t ∈ toks := by
  unfold consText at h
  split at h
  · rcases List.mem_cons.mp h with rfl | h
    · simp [Tok.isTag] at ht
    · exact List.mem_cons_of_mem _ h
  · rcases List.mem_cons.mp h with rfl | h
    · simp [Tok.isTag] at ht
    · exact h

/-- the scanner loses nothing, and its tags are tight -/
theorem lexAux_spec : ∀ (s : Str) (k : Nat), charsOf (lexAux k s) = s.drop k ∧ TagsTight (lexAux k s) := by
  intro s
  induction s with
  | nil => intro k; exact ⟨by simp [lexAux, charsOf], by intro t ht; simp [lexAux] at ht⟩
  | cons x r ih =>
    intro k
    cases k with
    | succ k => simp only [lexAux, List.drop_succ_cons]; exact ih k
    | zero =>
      simp only [lexAux, List.drop_zero]
      have plain : charsOf (consText x (lexAux 0 r)) = x :: r ∧ TagsTight (consText x (lexAux 0 r)) := by
        refine ⟨by rw [charsOf_consText, (ih 0).1]; simp, ?_⟩
        intro t ht hg
        exact (ih 0).2 t (mem_consText x _ t ht hg) hg
      split
      · rename_i hx
        split
        · rename_i tok n hm
          obtain ⟨h1, h2, h3⟩ := matchTag_take r tok n hm
          refine ⟨?_, ?_⟩
          · rw [charsOf_cons, (ih n).1, h1, hx]; simp
          · intro t ht hg
            rcases List.mem_cons.mp ht with rfl | ht
            · exact h3
            · exact (ih n).2 t ht hg
        · exact plain
      · exact plain

theorem dropLast_append_drop (s : Str) : s.dropLast ++ s.drop (s.length - 1) = s := by
  rw [List.dropLast_eq_take]
  exact List.take_append_drop _ _

/-- the cutter loses nothing and makes no new tags -/
theorem seg_spec : ∀ (toks : List Tok) (prev : Char),
    charsOf (seg prev toks) = charsOf toks ∧ (∀ t ∈ seg prev toks, t.isTag = true → t ∈ toks) := by
  intro toks
  induction toks with
  | nil => intro prev; simp [seg]
  | cons t r ih =>
    intro prev
    have keepTag : ∀ (p : Char), charsOf (t :: seg p r) = charsOf (t :: r) ∧
        (∀ x ∈ t :: seg p r, x.isTag = true → x ∈ t :: r) := by
      intro p
      refine ⟨by rw [charsOf_cons, charsOf_cons, (ih p).1], ?_⟩
      intro x hx hg
      rcases List.mem_cons.mp hx with rfl | hx
      · simp
      · exact List.mem_cons_of_mem _ ((ih p).2 x hx hg)
    have asText : ∀ (p : Char), charsOf (Tok.text t.lit :: seg p r) = charsOf (t :: r) ∧
        (∀ x ∈ Tok.text t.lit :: seg p r, x.isTag = true → x ∈ t :: r) := by
      intro p
      refine ⟨by rw [charsOf_cons, charsOf_cons, (ih p).1]; rfl, ?_⟩
      intro x hx hg
      rcases List.mem_cons.mp hx with rfl | hx
      · simp [Tok.isTag] at hg
      · exact List.mem_cons_of_mem _ ((ih p).2 x hx hg)
    cases t with
    | text s => simp only [seg]; exact keepTag _
    | «open» n | close n | closeAny =>
      simp only [seg]
      split
      · exact asText _
      · split
        · rename_i s
          refine ⟨?_, ?_⟩
          · simp only [charsOf, List.flatMap_cons, List.flatMap_nil, List.append_nil, Tok.lit]
            rw [dropLast_append_drop]
          · intro x hx hg
            simp only [List.mem_cons, List.not_mem_nil, or_false] at hx
            rcases hx with rfl | rfl | rfl
            · simp
            · simp [Tok.isTag] at hg
            · simp [Tok.isTag] at hg
        · exact keepTag _

/-- the pieces of a message: nothing lost, tags tight -/
theorem pieces_spec (msg : Str) (prev : Char) :
    charsOf (seg prev (lex msg)) = msg ∧ TagsTight (seg prev (lex msg)) := by
  obtain ⟨h1, h2⟩ := seg_spec (lex msg) prev
  obtain ⟨h3, h4⟩ := lexAux_spec msg 0
  refine ⟨by rw [h1]; simpa [lex] using h3, ?_⟩
  intro t ht hg
  exact h4 t (h2 t ht hg) hg

/-- what a plain run prints is the message with tight tags deleted -/
theorem del_texts (rv : Resolver) : ∀ (toks : List Tok), TagsTight toks → Del (charsOf toks) (texts rv toks) := by
  intro toks
  induction toks with
  | nil => intro _; exact .nil
  | cons t r ih =>
    intro h
    have hr : TagsTight r := fun x hx => h x (List.mem_cons_of_mem _ hx)
    have ht := h t (by simp)
    rw [charsOf_cons]
    cases t with
    | text s => simp only [texts]; exact (Del.refl _).append (ih hr)
    | «open» n =>
      simp only [texts]
      refine Del.append ?_ (ih hr)
      cases rv n with
      | unknown => exact Del.refl _
      | invalid => exact Del.all _ (ht rfl)
      | style p => exact Del.all _ (ht rfl)
    | close n =>
      simp only [texts]
      refine Del.append ?_ (ih hr)
      cases rv n with
      | unknown => exact Del.refl _
      | invalid => exact Del.all _ (ht rfl)
      | style p => exact Del.all _ (ht rfl)
    | closeAny =>
      simp only [texts]
      have : Del (Tok.closeAny.lit ++ charsOf r) ([] ++ texts rv r) := Del.append (Del.all _ (ht rfl)) (ih hr)
      simpa using this

/-- the indented text has every line indented -/
theorem linesIndented_indentText (n : Nat) (s : Str) : LinesIndented n (indentText n s) := by
  intro l hl hne
  rw [splitNl_indentText] at hl
  obtain ⟨l0, _, rfl⟩ := List.mem_map.mp hl
  unfold indentLine at hne ⊢
  split
  · rename_i h; rw [if_pos h] at hne; exact absurd (List.isEmpty_iff.mp h) hne
  · exact List.prefix_append _ _

theorem splitNl_chars (s : Str) : (∀ l ∈ splitNl s, ∀ c ∈ l, c ∈ s) ∧ ((splitNl s).length ≥ 2 → '\n' ∈ s) := by
  induction s with
  | nil => simp [splitNl]
  | cons x r ih =>
    by_cases hx : x = '\n'
    · simp only [splitNl, hx, if_true]
      refine ⟨?_, fun _ => by simp⟩
      intro l hl c hc
      rcases List.mem_cons.mp hl with rfl | hl
      · simp at hc
      · exact List.mem_cons_of_mem _ (ih.1 l hl c hc)
    · simp only [splitNl, if_neg hx]
      cases hs : splitNl r with
      | nil => exact absurd hs (splitNl_ne_nil r)
      | cons l0 ls =>
        rw [hs] at ih
        refine ⟨?_, ?_⟩
        · intro l hl c hc
          rcases List.mem_cons.mp hl with rfl | hl
          · rcases List.mem_cons.mp hc with rfl | hc
            · simp
            · exact List.mem_cons_of_mem _ (ih.1 l0 (by simp) c hc)
          · exact List.mem_cons_of_mem _ (ih.1 l (List.mem_cons_of_mem _ hl) c hc)
        · intro hlen
          exact List.mem_cons_of_mem _ (ih.2 (by simpa using hlen))

theorem joinNl_chars : ∀ (ls : List Str) (c : Char), c ∈ joinNl ls →
    (c = '\n' ∧ ls.length ≥ 2) ∨ ∃ l ∈ ls, c ∈ l
  | [], c, h => by simp [joinNl] at h
  | [l], c, h => by simp only [joinNl] at h; exact Or.inr ⟨l, by simp, h⟩
  | l :: l' :: ls, c, h => by
    rw [joinNl_cons_cons] at h
    rcases List.mem_append.mp h with h | h
    · exact Or.inr ⟨l, by simp, h⟩
    · rcases List.mem_cons.mp h with rfl | h
      · exact Or.inl ⟨rfl, by simp⟩
      · rcases joinNl_chars (l' :: ls) c h with ⟨rfl, _⟩ | ⟨x, hx, hc⟩
        · exact Or.inl ⟨rfl, by simp⟩
        · exact Or.inr ⟨x, List.mem_cons_of_mem _ hx, hc⟩

/-- indentation only adds blanks -/
theorem indentText_chars (n : Nat) (s : Str) (c : Char) (h : c ∈ indentText n s) : c = ' ' ∨ c ∈ s := by
  unfold indentText at h
  rcases joinNl_chars _ c h with ⟨rfl, hl⟩ | ⟨l, hl, hc⟩
  · exact Or.inr ((splitNl_chars s).2 (by simpa using hl))
  · obtain ⟨l0, h0, rfl⟩ := List.mem_map.mp hl
    unfold indentLine at hc
    split at hc
    · exact Or.inr ((splitNl_chars s).1 l0 h0 c hc)
    · rcases List.mem_append.mp hc with hc | hc
      · exact Or.inl (mem_spaces n c hc)
      · exact Or.inr ((splitNl_chars s).1 l0 h0 c hc)

/-- the plain rendering of a backslash-free message whose lines are indented has its lines
indented -/
theorem plain_keeps_indent (rv : Resolver) (st st' : Stack) (n : Nat) (msg o : Str) (hb : '\\' ∉ msg)
    (hi : LinesIndented n msg) (h : plainFormat rv st msg = .ok (o, st')) : LinesIndented n o := by
  simp only [plainFormat] at h
  rw [colorize_noBs _ _ _ _ hb] at h
  split at h
  · obtain ⟨h1, h2⟩ := pieces_spec msg (lastOr ' ' msg)
    have e := render_plain_texts rv _ st o st' h
    have hd := del_texts rv _ h2
    rw [h1, ← e] at hd
    exact hd.linesIndented n hi
  · simp only [Except.ok.injEq, Prod.mk.injEq] at h
    rw [← h.1]; exact hi

end Clikit.Output
