import Clikit.Base
import Clikit.Gen.Logic
import Clikit.Gen.C07
/-!
C07 - option / argument flags, names and typed conversion.

The *decision logic over flag words* (`_validate_flags`, `_add_default_flags`, the flag
predicates, which converter `parse` selects, `set_default` over default kinds) is **not** written
here: it is `Clikit.Gen.*` (`Gen/Logic.lean`, `Gen/C07.lean`), translated statement by statement
from the current source on every run.  This file composes those translations into models of
the constructors

* `AbstractOption.__init__`  (`mkAbstract`, the two overridable hooks are parameters:
  Python dispatches `self._validate_flags` / `self._add_default_flags` dynamically),
* `Option.__init__` + `Option.set_default`            (`mkOption`, `optSetDefault`),
* `Argument.__init__` + `Argument.set_default`        (`mkArgument`, `argSetDefault`),
* `CommandOption.__init__` (alias loop)               (`mkCommandOption`),

the name checks (regexes `^[a-zA-Z0-9\-]+\Z`, `^[a-zA-Z]\Z`, `name[:1].isalpha()`, dash
stripping) over `List Char`, and `clikit.utils.string.parse_*` over a small value type.

External engines are parameters (DESIGN 3.5):
* `alpha : Char → Bool` is CPython's `str.isalpha` on one character (Unicode aware),
* `FloatEng` is CPython's `float()`, `int()` on a float and `str()` of a float.
`int()` on text is modelled executably (`pyInt`) for ASCII text.
-/
namespace Clikit.Flags
open Clikit.Gen

/-! ### Flag words -/

/-- Python `flags & c` used as a condition. -/
def has (f c : Nat) : Bool := f &&& c != 0

/-- The translated functions raise by class name. -/
def liftErr {α : Type} : Except String α → Except Err α
  | .ok a => .ok a
  | .error t => if t == "ValueError" then .error .valueError else .error (.other t)

/-- What was passed for a name / description parameter. -/
inductive NameArg where
  | none                -- `None`
  | nonStr              -- any non-string object
  | str (s : Str)
  deriving DecidableEq, Repr

/-- A default value, up to what the constructors look at (`is None`, `isinstance(_, list)`).
`list` is any list, including the fresh `[]` the constructors create. -/
inductive DefVal where
  | none | scalar | list
  deriving DecidableEq, Repr

/-! ### Names -/

def isAsciiLetter (c : Char) : Bool :=
  (97 ≤ c.toNat && c.toNat ≤ 122) || (65 ≤ c.toNat && c.toNat ≤ 90)

def isAsciiDigit (c : Char) : Bool := 48 ≤ c.toNat && c.toNat ≤ 57

/-- the character class `[a-zA-Z0-9\-]` -/
def nameChar (c : Char) : Bool := isAsciiLetter c || isAsciiDigit c || c == '-'

/-- `re.match(r"^[a-zA-Z0-9\-]+\Z", s)` (no flags: `^` start, `\Z` very end) -/
def reName (s : Str) : Bool := !s.isEmpty && s.all nameChar

/-- `re.match(r"^[a-zA-Z]\Z", s)` -/
def reLetter (s : Str) : Bool :=
  match s with
  | [c] => isAsciiLetter c
  | _ => false

/-- `s[:1].isalpha()`: false for the empty string. -/
def headIsAlpha (alpha : Char → Bool) (s : Str) : Bool :=
  match s with
  | [] => false
  | c :: _ => alpha c

/-- `AbstractOption._remove_double_dash_prefix` (non-strings pass through) -/
def removeDoubleDash : NameArg → NameArg
  | .str ('-' :: '-' :: r) => .str r
  | a => a

/-- `AbstractOption._remove_dash_prefix` (None and non-strings pass through) -/
def removeDash : NameArg → NameArg
  | .str ('-' :: r) => .str r
  | a => a

def stripDash (s : Str) : Str :=
  match s with
  | '-' :: r => r
  | _ => s

def stripDoubleDash (s : Str) : Str :=
  match s with
  | '-' :: '-' :: r => r
  | _ => s

/-- `AbstractOption._validate_long_name`; returns the name on success. -/
def validateLongName (alpha : Char → Bool) : NameArg → Except Err Str
  | .none => .error .valueError
  | .nonStr => .error .valueError
  | .str s =>
    if s.isEmpty then .error .valueError
    else if s.length < 2 then .error .valueError
    else if !headIsAlpha alpha s then .error .valueError
    else if !reName s then .error .valueError
    else .ok s

/-- `AbstractOption._validate_short_name`; returns the (optional) name on success. -/
def validateShortName (short : NameArg) (flags : Nat) : Except Err (Option Str) :=
  match short with
  | .none => if has flags AbsOptFlags.PREFER_SHORT_NAME then .error .valueError else .ok none
  | .nonStr => .error .valueError
  | .str s =>
    if s.isEmpty then .error .valueError
    else if !reLetter s then .error .valueError
    else .ok (some s)

/-! ### Constructors -/

/-- `AbstractOption.__init__`: (long name, short name, flags after defaults). -/
def mkAbstract (alpha : Char → Bool) (validate : Nat → Except String Unit)
    (addDefault : Option Str → Nat → Nat) (long short : NameArg) (flags : Nat) :
    Except Err (Str × Option Str × Nat) :=
  let long := removeDoubleDash long
  let short := removeDash short
  match liftErr (validate flags) with
  | .error e => .error e
  | .ok _ =>
    match validateLongName alpha long with
    | .error e => .error e
    | .ok l =>
      match validateShortName short flags with
      | .error e => .error e
      | .ok s => .ok (l, s, addDefault s flags)

structure OptionObj where
  longName : Str
  shortName : Option Str
  flags : Nat
  default : DefVal
  deriving DecidableEq, Repr

/-- the numbering of default kinds used by the translated `set_default` (tools/genparts/c07.py) -/
def DefVal.code : DefVal → Nat
  | .none => 0
  | .scalar => 1
  | .list => 2

def DefVal.ofCode : Nat → Except Err DefVal
  | 0 => .ok .none
  | 1 => .ok .scalar
  | 2 => .ok .list
  | _ => .error (.other "model: unknown default kind")

/-- `Option.set_default` on an option whose flags are `flags`: the new default
(the decisions are the translated `Gen.optSetDefaultKind`). -/
def optSetDefault (flags : Nat) (d : DefVal) : Except Err DefVal :=
  match liftErr (optSetDefaultKind flags d.code) with
  | .error e => .error e
  | .ok k => DefVal.ofCode k

/-- `Option.__init__` -/
def mkOption (alpha : Char → Bool) (long short : NameArg) (flags : Nat) (d : DefVal) :
    Except Err OptionObj :=
  match liftErr (optValidateFlags flags) with
  | .error e => .error e
  | .ok _ =>
    match mkAbstract alpha optValidateFlags optAddDefaultFlags long short flags with
    | .error e => .error e
    | .ok (l, s, fl) =>
      let d0 := if optIsMultiValued fl then DefVal.list else DefVal.none
      if optAcceptsValue fl || d != .none then
        match optSetDefault fl d with
        | .error e => .error e
        | .ok d' => .ok ⟨l, s, fl, d'⟩
      else .ok ⟨l, s, fl, d0⟩

structure ArgumentObj where
  name : Str
  flags : Nat
  default : DefVal
  deriving DecidableEq, Repr

/-- the name check at the head of `Argument.__init__` -/
def validateArgName (alpha : Char → Bool) : NameArg → Except Err Str
  | .none => .error .valueError
  | .nonStr => .error .valueError
  | .str s =>
    if s.isEmpty then .error .valueError
    else if !headIsAlpha alpha s then .error .valueError
    else if !reName s then .error .valueError
    else .ok s

/-- the description check of `Argument.__init__` -/
def validateArgDescription : NameArg → Except Err Unit
  | .none => .ok ()
  | .nonStr => .error .valueError
  | .str s => if s.isEmpty then .error .valueError else .ok ()

/-- `Argument.set_default` (the decisions are the translated `Gen.argSetDefaultKind`) -/
def argSetDefault (flags : Nat) (d : DefVal) : Except Err DefVal :=
  match liftErr (argSetDefaultKind flags d.code) with
  | .error e => .error e
  | .ok k => DefVal.ofCode k

/-- `Argument.__init__` -/
def mkArgument (alpha : Char → Bool) (name : NameArg) (flags : Nat) (desc : NameArg) (d : DefVal) :
    Except Err ArgumentObj :=
  match validateArgName alpha name with
  | .error e => .error e
  | .ok n =>
    match validateArgDescription desc with
    | .error e => .error e
    | .ok _ =>
      match liftErr (argValidateFlags flags) with
      | .error e => .error e
      | .ok _ =>
        let fl := argAddDefaultFlags flags
        let d0 := if argIsMultiValued fl then DefVal.list else DefVal.none
        if argIsOptional fl || d != .none then
          match argSetDefault fl d with
          | .error e => .error e
          | .ok d' => .ok ⟨n, fl, d'⟩
        else .ok ⟨n, fl, d0⟩

structure CommandOptionObj where
  longName : Str
  shortName : Option Str
  flags : Nat
  longAliases : List Str
  shortAliases : List Str
  deriving DecidableEq, Repr

/-- one round of the alias loop of `CommandOption.__init__`: `(isShort, alias without dash)` -/
def checkAlias (alpha : Char → Bool) (a : Str) : Except Err (Bool × Str) :=
  let a := stripDash a
  if a.length == 1 then
    (if !reLetter a then .error .valueError else .ok (true, a))
  else if !headIsAlpha alpha a then .error .valueError
  else if !reName a then .error .valueError
  else .ok (false, a)

/-- the alias loop: long and short aliases in the order given; the first bad alias raises -/
def aliasLoop (alpha : Char → Bool) : List Str → List Str → List Str → Except Err (List Str × List Str)
  | [], ls, ss => .ok (ls, ss)
  | a :: r, ls, ss =>
    match checkAlias alpha a with
    | .error e => .error e
    | .ok (true, a') => aliasLoop alpha r ls (ss ++ [a'])
    | .ok (false, a') => aliasLoop alpha r (ls ++ [a']) ss

/-- `CommandOption.__init__` (`aliases=None` is the empty list) -/
def mkCommandOption (alpha : Char → Bool) (long short : NameArg) (aliases : List Str) (flags : Nat) :
    Except Err CommandOptionObj :=
  match mkAbstract alpha absValidateFlags absAddDefaultFlags long short flags with
  | .error e => .error e
  | .ok (l, s, fl) =>
    match aliasLoop alpha aliases [] [] with
    | .error e => .error e
    | .ok (ls, ss) => .ok ⟨l, s, fl, ls, ss⟩

/-! ### Values and conversion (`clikit.utils.string`) -/

/-- A Python float, opaque: the model never computes with it. -/
structure PyFloat where
  tok : Str
  deriving DecidableEq, Repr

inductive PyVal where
  | none
  | bool (b : Bool)
  | int (n : Int)
  | str (s : Str)
  | float (x : PyFloat)
  deriving DecidableEq, Repr

/-- CPython's float machinery, a parameter of the model. -/
structure FloatEng where
  /-- `float(text)`; `none` = `ValueError` -/
  ofStr : Str → Option PyFloat
  /-- `float(n)` for an int (`OverflowError` for huge ones) -/
  ofInt : Int → Except Err PyFloat
  /-- `int(x)` for a float (`ValueError` for nan, `OverflowError` for inf) -/
  toInt : PyFloat → Except Err Int
  /-- `str(x)` -/
  repr : PyFloat → Str

inductive Conv where
  | string | boolean | int | float
  deriving DecidableEq, Repr

/-- ASCII whitespace accepted by `int()` around the literal -/
def isWs (c : Char) : Bool :=
  c == ' ' || c == '\t' || c == '\n' || c == '\x0b' || c == '\x0c' || c == '\r'

def digitVal? (c : Char) : Option Nat :=
  if isAsciiDigit c then some (c.toNat - 48) else none

/-- `int()` literal body `digit (_? digit)* ws*`, scanned left to right; `acc` is the value of the
digits read so far.  The caller has checked that the first character is a digit. -/
def intBody : Str → Nat → Option Nat
  | [], acc => some acc
  | c :: r, acc =>
    match digitVal? c with
    | some d => intBody r (acc * 10 + d)
    | none =>
      if c == '_' then
        match r with
        | c2 :: r2 =>
          match digitVal? c2 with
          | some d => intBody r2 (acc * 10 + d)
          | none => none
        | [] => none
      else if (c :: r).all isWs then some acc
      else none

/-- unsigned part: must start with a digit (not `_`, not empty) -/
def pyIntAbs (s : Str) : Option Nat :=
  match s with
  | [] => none
  | c :: _ => if (digitVal? c).isSome then intBody s 0 else none

/-- `int(text)` for ASCII text, base 10: `ws* [+-]? digit (_? digit)* ws*`; `none` = `ValueError` -/
def pyInt (s : Str) : Option Int :=
  match s.dropWhile isWs with
  | '-' :: r => (pyIntAbs r).map (fun (n : Nat) => - Int.ofNat n)
  | '+' :: r => (pyIntAbs r).map (fun (n : Nat) => Int.ofNat n)
  | s1 => (pyIntAbs s1).map (fun (n : Nat) => Int.ofNat n)

def digitChar (d : Nat) : Char := Char.ofNat (48 + d)

/-- `str(n)` for a natural number -/
def natRepr (n : Nat) : Str :=
  if n < 10 then [digitChar n] else natRepr (n / 10) ++ [digitChar (n % 10)]
termination_by n
decreasing_by omega

/-- `str(n)` for an int -/
def intRepr : Int → Str
  | .ofNat n => natRepr n
  | .negSucc n => '-' :: natRepr (n + 1)

def nullText : Str := ['n', 'u', 'l', 'l']

/-- `value is None or value == "null"` -/
def isNullish : PyVal → Bool
  | .none => true
  | .str s => s == nullText
  | _ => false

/-- the raw call `int(value)` -/
def intCall (eng : FloatEng) : PyVal → Except Err Int
  | .none => .error (.other "TypeError")
  | .bool b => .ok (if b then 1 else 0)
  | .int n => .ok n
  | .str s => match pyInt s with
    | some n => .ok n
    | none => .error .valueError
  | .float x => eng.toInt x

/-- the raw call `float(value)` -/
def floatCall (eng : FloatEng) : PyVal → Except Err PyFloat
  | .none => .error (.other "TypeError")
  | .bool b => eng.ofInt (if b then 1 else 0)
  | .int n => eng.ofInt n
  | .str s => match eng.ofStr s with
    | some x => .ok x
    | none => .error .valueError
  | .float x => .ok x

/-- `except (TypeError, ValueError): raise ValueError(...)` -/
def catchTypeValue {α : Type} : Except Err α → Except Err α
  | .ok a => .ok a
  | .error e =>
    if e == .valueError || e == .other "TypeError" then .error .valueError else .error e

def parseString (eng : FloatEng) (nullable : Bool) (v : PyVal) : Except Err PyVal :=
  if nullable && isNullish v then .ok .none
  else match v with
    | .none => .ok (.str nullText)
    | .bool b => .ok (.str (if b then "true".toList else "false".toList))
    | .int n => .ok (.str (intRepr n))
    | .str s => .ok (.str s)
    | .float x => .ok (.str (eng.repr x))

def falseWords : List Str := ["false".toList, "0".toList, "no".toList, "off".toList]
def trueWords : List Str := ["true".toList, "1".toList, "yes".toList, "on".toList]

/-- the string branch of `parse_boolean` -/
def boolText (s : Str) : Except Err PyVal :=
  if s.isEmpty then .ok (.bool false)
  else if falseWords.contains s then .ok (.bool false)
  else if trueWords.contains s then .ok (.bool true)
  else .error .valueError

def parseBoolean (nullable : Bool) (v : PyVal) : Except Err PyVal :=
  if nullable && isNullish v then .ok .none
  else match v with
    | .bool b => .ok (.bool b)
    | .int n => boolText (intRepr n)
    | .str s => boolText s
    | .none => .error .valueError
    | .float _ => .error .valueError

def parseInt (eng : FloatEng) (nullable : Bool) (v : PyVal) : Except Err PyVal :=
  if nullable && isNullish v then .ok .none
  else match catchTypeValue (intCall eng v) with
    | .ok n => .ok (.int n)
    | .error e => .error e

def parseFloat (eng : FloatEng) (nullable : Bool) (v : PyVal) : Except Err PyVal :=
  if nullable && isNullish v then .ok .none
  else match catchTypeValue (floatCall eng v) with
    | .ok x => .ok (.float x)
    | .error e => .error e

def parseAs (eng : FloatEng) : Conv → Bool → PyVal → Except Err PyVal
  | .string => parseString eng
  | .boolean => parseBoolean
  | .int => parseInt eng
  | .float => parseFloat eng

/-- the numbering of converters used by the translated `parse` (tools/genparts/c07.py) -/
def Conv.ofCode : Nat → Conv
  | 1 => .boolean
  | 2 => .int
  | 3 => .float
  | _ => .string

/-- `Option.parse`: converter and `nullable` are the translated `Gen.optParseKind/optParseNullable` -/
def optParse (eng : FloatEng) (flags : Nat) (v : PyVal) : Except Err PyVal :=
  parseAs eng (Conv.ofCode (optParseKind flags)) (optParseNullable flags) v

/-- `Argument.parse` -/
def argParse (eng : FloatEng) (flags : Nat) (v : PyVal) : Except Err PyVal :=
  parseAs eng (Conv.ofCode (argParseKind flags)) (argParseNullable flags) v

/-- the value has the Python type the converter declares -/
def hasType : Conv → PyVal → Bool
  | .string, .str _ => true
  | .boolean, .bool _ => true
  | .int, .int _ => true
  | .float, .float _ => true
  | _, _ => false

/-! ### Deciders of the hypotheses about CPython's engines

`AlphaOK alpha` (Lemmas/Flags.lean) and the round-trip hypotheses of `parse_float_repr` are facts
about CPython (`str.isalpha`, `float` / `repr`).  The harness tables what the running interpreter
answers and the driver decides the hypotheses on those tables (`c07.alpha_ok`, `c07.float_rt`). -/

/-- the 63 characters of `[a-zA-Z0-9\-]` -/
def nameCharList : List Char := ((List.range 128).map Char.ofNat).filter nameChar

/-- `str.isalpha` as a table of what the interpreter answered (false off the table) -/
def alphaOfTable (tbl : List (Char × Bool)) (c : Char) : Bool :=
  match tbl.lookup c with
  | some b => b
  | none => false

/-- decides `AlphaOK` of every `isalpha` that answers as the table says on `[a-zA-Z0-9\-]`: each of
the 63 characters is in the table, with the answer "is an ASCII letter" -/
def alphaTableOK (tbl : List (Char × Bool)) : Bool :=
  nameCharList.all (fun c => tbl.lookup c == some (isAsciiLetter c))

/-- decides the two hypotheses of `parse_float_repr` for one float: `float(repr(x)) == x` and
`repr(x) != "null"` -/
def floatRtB (eng : FloatEng) (x : PyFloat) : Bool :=
  eng.ofStr (eng.repr x) == some x && eng.repr x != nullText

end Clikit.Flags
