import Clikit.Model.App
import Clikit.Model.History
/-!
# A STATEFUL version of the composed application model (C17)

`App.runApp` is a pure function of the command tree, the handlers and the tokens.  The REAL
application object keeps state between two calls of `run()`:

* **the leniency setting of every command's config** (`Config._lenient_args_parsing`: `None`, `True`
  or `False`).  `Command.parse(args)` reads it (`is_lenient_args_parsing_enabled()`) whenever it is
  called without an explicit mode: in `ResolveResult._parse` (trial parses of default commands,
  the final parse of the selected command) - and `HelpResolver.create_resolved_command`, which
  `HelpTextHandler` runs for `help <command>` / `<command> -h`, WRITES it: it switches the setting on,
  parses and puts a value back.  Where and what it puts back is read from the source on every run
  (`Gen/C17.lean`, the three flags of `Proto.source`);
* **the scratch dictionaries of an args parser object** (`DefaultArgsParser._arguments/_options`) when
  a parser OBJECT is installed with `Config.set_args_parser` (possibly the same object for several
  commands).  Without it `Config.args_parser` answers `default_args_parser`, a NEW `DefaultArgsParser()`
  on every access.  `Parser.parseFrom prev` is the parse of an object whose dictionaries hold `prev`
  (C05; what `parse()` re-initialises is read from the source: `Gen/C05.lean`).

`AppState` carries both, `runAppS` is `ConsoleApplication.run` threading it: every parse of a command
goes through `parseS` (leniency read from the state, scratch state of the command's parser object
threaded), the help handler through `createdS` (the toggle).  Everything else is `App.runApp`'s
building blocks; the resolver loops are re-stated over a parse FUNCTION that threads a state
(`tryParseG`, `pickDefaultG`, `resolveG`, `chooseDefaultG`, `helpResolveG`: the text of
`Resolver.tryParse/pickDefault/resolve`, `Help.chooseDefault/helpResolve` with the state passed along;
`Lemmas/AppState.lean` proves that they are the originals when the parse function answers what the pure
`parse` answers).

How the leniency in force is read.  The tree a model run works on is extracted from the application AS
CONFIGURED: `Cmd.lenient` is `is_lenient_args_parsing_enabled()` under the configured setting.  The state
holds, per command (name path), the raw setting as configured and as it is now:
  now = configured  ->  `Cmd.lenient`;
  now = `True`/`False` (and not the configured value)  ->  that value;
  now = `None`, configured not `None`  ->  the inherited default `Config.default_lenient_args_parsing`
    (`False`); no protocol ever writes `None` over an explicit setting (`helpCreateP_none`).

Not state of the application object (and therefore not here): the raw args of a run
(`HelpResolver.resolve` deletes `tokens[0]` of the run's own `RawArgs`: `Help.stripHelp`), the I/O of a
run, handler objects (parameters `hs`: a handler given as an object that keeps state of its own is
outside the model; a handler FACTORY makes a new object per run), listeners other than the two default ones.
-/
namespace Clikit.AppState
open Clikit Clikit.Parser Clikit.Resolver Clikit.Switches Clikit.Help Clikit.App

/-! ## The state -/

/-- `config._lenient_args_parsing` of one command: as configured, and now -/
structure LenEntry where
  configured : Option Bool
  current : Option Bool
  deriving DecidableEq, Repr, Inhabited

structure AppState where
  /-- per command (name path) the leniency setting; a command without entry: `None`, never written -/
  len : List (List Str × LenEntry)
  /-- `Config.set_args_parser`: which parser OBJECT (a number) a command's config holds; a command without
  entry uses `default_args_parser` (a new object per access).  Never written by a run. -/
  parserOf : List (List Str × Nat)
  /-- per parser object the scratch dictionaries its last `parse()` left behind -/
  scratch : List (Nat × St)
  deriving DecidableEq, Repr, Inhabited

def lenEntry (s : AppState) (p : List Str) : LenEntry :=
  (dictGet? p s.len).getD { configured := none, current := none }

def scratchOf (s : AppState) (k : Nat) : St := (dictGet? k s.scratch).getD St.empty

/-- `config._lenient_args_parsing = v` -/
def setCurrent (s : AppState) (p : List Str) (v : Option Bool) : AppState :=
  { s with len := dictSet p { lenEntry s p with current := v } s.len }

/-- the application as configured: `raw` = the `_lenient_args_parsing` of the configs that have one set,
`parsers` = the installed parser objects; every parser object is new -/
def initState (raw : List (List Str × Option Bool)) (parsers : List (List Str × Nat)) : AppState :=
  { len := raw.map (fun pv => (pv.1, { configured := pv.2, current := pv.2 })), parserOf := parsers, scratch := [] }

/-- every command's setting is the configured one (true of `initState`, kept by every run: `Props/C17`) -/
def Restored (s : AppState) : Prop := ∀ p, (lenEntry s p).current = (lenEntry s p).configured

/-- the leniency settings and the parser wiring of `s` are those of `s0` (the scratch states may differ) -/
def SameLen (s0 s : AppState) : Prop := (∀ p, lenEntry s p = lenEntry s0 p) ∧ s.parserOf = s0.parserOf

/-- `command.config.is_lenient_args_parsing_enabled()` now (see the header) -/
def effLenient (s : AppState) (p : List Str) (c : Cmd) : Bool :=
  let e := lenEntry s p
  if e.current == e.configured then c.lenient
  else match e.current with
    | some b => b
    | none => false

/-- **`Command.parse(args, lenient)`** of the command `c` with name path `p`: `ov = none` reads the mode from
the config; the parse runs on the command's parser object and leaves its scratch state there -/
def parseS (cv : Conv) (s : AppState) (p : List Str) (c : Cmd) (ov : Option Bool) (toks : List Str) :
    Except Err Args × AppState :=
  let l := match ov with
    | some b => b
    | none => effLenient s p c
  match dictGet? p s.parserOf with
  | none => ((parseFrom St.empty cv c.fmt l toks).1, s)          -- `DefaultArgsParser()`, dropped afterwards
  | some k =>
    let r := parseFrom (scratchOf s k) cv c.fmt l toks
    (r.1, { s with scratch := dictSet k r.2 s.scratch })

/-- `ResolveResult._parse`: `self._command.parse(self._raw_args)` -/
def parseCfg (cv : Conv) : AppState → List Str → Cmd → List Str → Except Err Args × AppState :=
  fun s p c toks => parseS cv s p c none toks

/-! ## The resolver loops over a parse function that threads a state -/

section Generic
variable {σ : Type}

/-- a parse of a command (name path, command, tokens) on a state -/
abbrev ParseFn (σ : Type) := σ → List Str → Cmd → List Str → Except Err Args × σ

/-- `Resolver.tryParse` -/
def tryParseG (pf : ParseFn σ) (s : σ) (p : List Str) (c : Cmd) (tokens : List Str) : Except Err (Option Args) × σ :=
  let r := pf s p c tokens
  (match r.1 with
    | .ok a => .ok (some a)
    | .error .cannotParse => .ok none
    | .error e => .error e, r.2)

/-- `Resolver.pickDefault` -/
def pickDefaultG (pf : ParseFn σ) (tokens : List Str) (path : List Str) :
    σ → List Cmd → Option (List Str × Option Args) → Except Err (Option (List Str × Option Args)) × σ
  | s, [], first => (.ok first, s)
  | s, d :: r, first =>
    let t := tryParseG pf s (path ++ [d.name]) d tokens
    match t.1 with
    | .error e => (.error e, t.2)
    | .ok (some a) => (.ok (some (path ++ [d.name], some a)), t.2)
    | .ok none =>
      pickDefaultG pf tokens path t.2 r (match first with
        | none => some (path ++ [d.name], none)
        | some f => some f)

/-- `Resolver.resolve` -/
def resolveG (pf : ParseFn σ) (s : σ) (app : List Cmd) (tokens : List Str) : Except Err (List Str × Args) × σ :=
  let ls := lead tokens
  match walk (namedColl app) none ls with
  | some (c, path) =>
    let d := pickDefaultG pf tokens path s (defaultColl c.subs).values none
    match d.1 with
    | .error e => (.error e, d.2)
    | .ok (some r) => (Resolver.created r, d.2)
    | .ok none =>
      let t := tryParseG pf d.2 path c tokens
      match t.1 with
      | .error e => (.error e, t.2)
      | .ok a => (Resolver.created (path, a), t.2)
  | none =>
    if !ls.isEmpty then (.error .cannotResolve, s)
    else
      let d := pickDefaultG pf tokens [] s (defaultColl app).values none
      match d.1 with
      | .error e => (.error e, d.2)
      | .ok (some r) => (Resolver.created r, d.2)
      | .ok none => (.error .cannotResolve, d.2)

/-- `Help.chooseDefault`; `path` = the name path of the command whose default sub-commands are tried -/
def chooseDefaultG (pf : ParseFn σ) (toks : List Str) (path : List Str) :
    σ → List Cmd → Option Cmd → Except Err (Option Cmd) × σ
  | s, [], first => (.ok first, s)
  | s, d :: r, first =>
    let t := tryParseG pf s (path ++ [d.name]) d toks
    match t.1 with
    | .error e => (.error e, t.2)
    | .ok (some _) => (.ok (some d), t.2)
    | .ok none => chooseDefaultG pf toks path t.2 r (match first with | none => some d | some f => some f)

/-- what `create_resolved_command` of the help resolver does on a state: name path, command, tokens -/
abbrev CreateFn (σ : Type) := σ → List Str → Cmd → List Str → Except Err (List Str) × σ

/-- `Help.helpResolve` -/
def helpResolveG (pf : ParseFn σ) (cr : CreateFn σ) (s : σ) (app : List Cmd) (toks : List Str) :
    Except Err (List Str) × σ :=
  let ls := lead toks
  match walk (namedColl app) none ls with
  | some (c, path) =>
    let d := chooseDefaultG pf toks path s (defaultColl c.subs).values none
    match d.1 with
    | .error e => (.error e, d.2)
    | .ok (some dc) => cr d.2 (path ++ [dc.name]) dc toks
    | .ok none => cr d.2 path c toks
  | none =>
    if !ls.isEmpty then (.error .cannotResolve, s)
    else
      let d := chooseDefaultG pf toks [] s (defaultColl app).values none
      match d.1 with
      | .error e => (.error e, d.2)
      | .ok (some dc) => cr d.2 [dc.name] dc toks
      | .ok none => (.error .cannotResolve, d.2)

end Generic

/-! ## The help resolver's toggle -/

/-- where and what `HelpResolver.create_resolved_command` puts back -/
structure Proto where
  inFinally : Bool          -- in a `finally` block
  afterReturn : Bool        -- (only) after the call returned normally
  previous : Bool           -- the value it found (rather than `False`)
  deriving DecidableEq, Repr, Inhabited

/-- the code as it is (regenerated on every run) -/
def Proto.source : Proto :=
  { inFinally := Gen.C17.helpRestoresInFinally, afterReturn := Gen.C17.helpRestoresAfterReturn,
    previous := Gen.C17.helpRestoresPrevious }

/-- `History.helpCreate` for a given protocol: `config._lenient_args_parsing` after
`create_resolved_command` ran on a config whose setting was `cur` -/
def helpCreateP (pr : Proto) (cur : Option Bool) (innerOk : Bool) : Option Bool :=
  let during : Option Bool := some true
  let restored : Option Bool := if pr.previous then cur else some false
  if innerOk then (if pr.inFinally || pr.afterReturn then restored else during)
  else (if pr.inFinally then restored else during)

/-- **`HelpResolver.create_resolved_command`** for the command `c` (name path `p`): remember the setting,
`config.enable_lenient_args_parsing()`, a new `ResolveResult` parses (`command.parse(raw_args)`: the config now
answers `True` - `is_lenient_args_parsing_enabled()` returns the setting when it is not `None`), an unparsable
result raises its error; on the way out the setting is what the protocol leaves (`helpCreateP`). -/
def createdS (pr : Proto) (cv : Conv) (s : AppState) (p : List Str) (c : Cmd) (toks : List Str) :
    Except Err (List Str) × AppState :=
  let found := (lenEntry s p).current
  let s1 := setCurrent s p (some true)
  let r := parseS cv s1 p c (some true) toks
  let ok := match r.1 with
    | .ok _ => true
    | .error _ => false
  (match r.1 with
    | .ok _ => .ok p
    | .error e => .error e,
   setCurrent r.2 p (helpCreateP pr found ok))

/-! ## One run -/

/-- `App.resolveCommand` -/
def resolveCommandS (cv : Conv) (s : AppState) (app : List Cmd) (toks : List Str) :
    Except Err (List Str × Args) × AppState :=
  if helpSwitch toks then
    match (Coll.ofList app).get? helpName with
    | none => (.error (.other "NoSuchCommandException"), s)
    | some h =>
      let r := parseS cv s [h.name] h (some true) toks             -- `command.parse(args, True)`
      (match r.1 with
        | .error e => .error e
        | .ok a => .ok ([h.name], a), r.2)
  else resolveG (parseCfg cv) s app toks

/-- `Help.handlerTarget` (`HelpTextHandler.handle`) -/
def handlerTargetS (pr : Proto) (cv : Conv) (s : AppState) (app : List Cmd) (toks : List Str) (a : Args) :
    Except Err Target × AppState :=
  if dictHas (S "command") a.args then
    let r := helpResolveG (parseCfg cv) (createdS pr cv) s app (stripHelp toks)
    (match r.1 with
      | .ok p => .ok (.cmd p)
      | .error e => .error e, r.2)
  else (.ok .app, s)

/-- `App.handlerOutcome`, from what the help handler's resolution answered -/
def outcomeOfT (hs : Handlers) (path : List Str) (a : Args) (t : Except Err Target) : Run.Outcome :=
  if isHelpPath path then
    match t with
    | .ok _ => .ret ret0
    | .error e => .raise (excOf e)
  else hs path a

/-- `App.whatOf`, from what the help handler's resolution answered -/
def whatOfT (hs : Handlers) (path : List Str) (a : Args) (t : Except Err Target) : What :=
  if versionSet a then .version
  else if isHelpPath path then
    match t with
    | .ok t => .helpPage t
    | .error e => .error e
  else .ran path a (hs path a)

/-- **`ConsoleApplication.run` on an application object in state `s`**: the result and the state the
application object is left in.  The handler's effect on the state takes place when the handler is called
(`Run.run` counts the calls: not when the PRE_HANDLE listener handled the event). -/
def runAppSP (pr : Proto) (env : Env) (cv : Conv) (app : List Cmd) (hs : Handlers) (s : AppState) (toks : List Str) :
    Result × AppState :=
  let io := createIO toks env.debug
  let rc := resolveCommandS cv s app toks
  match rc.1 with
  | .error e =>
    let r := Run.run (ioDebug io) (.error (excOf e)) [] (.ret ret0) env.render
    ({ io := io, what := .error e, status := r.status, escaped := r.escaped, reported := r.reported, invoked := [] },
     rc.2)
  | .ok (path, a) =>
    -- what calling the handler does: `HelpTextHandler` resolves (and toggles), any other handler is a parameter
    let t := if isHelpPath path then handlerTargetS pr cv rc.2 app toks a else (.ok .app, rc.2)
    let r := Run.run (ioDebug io) (.ok ()) [versionListener (versionSet a)] (outcomeOfT hs path a t.1) env.render
    ({ io := io, what := whatOfT hs path a t.1, status := r.status, escaped := r.escaped, reported := r.reported,
       invoked := if isHelpPath path then [] else List.replicate r.handlerCalls (path, a) },
     if r.handlerCalls == 0 then rc.2 else t.2)

/-- the code as it is -/
def runAppS (env : Env) (cv : Conv) (app : List Cmd) (hs : Handlers) (s : AppState) (toks : List Str) :
    Result × AppState :=
  runAppSP Proto.source env cv app hs s toks

/-- a sequence of runs on ONE application object: the results and the state it is left in -/
def runHistorySP (pr : Proto) (env : Env) (cv : Conv) (app : List Cmd) (hs : Handlers) :
    AppState → List (List Str) → List Result × AppState
  | s, [] => ([], s)
  | s, l :: rest =>
    let r := runAppSP pr env cv app hs s l
    let h := runHistorySP pr env cv app hs r.2 rest
    (r.1 :: h.1, h.2)

def runHistoryS (env : Env) (cv : Conv) (app : List Cmd) (hs : Handlers) (s : AppState) (hist : List (List Str)) :
    List Result × AppState :=
  runHistorySP Proto.source env cv app hs s hist

end Clikit.AppState
