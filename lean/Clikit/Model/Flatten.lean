import Clikit.Model.Builder
import Clikit.Model.Parser
/-!
# The flattened view of a built format (bridge C06 -> C01 / C02 / C05)

`DefaultArgsParser.parse` never looks at the chain of base formats: it reads
`fmt.get_command_names()`, `fmt.get_arguments()` (base first) and `fmt.get_options()` (with the
base) and works on those three listings - the `Parser.Fmt` of `Model/Parser.lean`.  The harness
reads the same listings from the REAL format object (`harness/parser_common.py`, `flatten`).

`flattenRec` is that reading on the builder model's format `ArgsFmt.FormatRec`.  The builder model
carries exactly what `ArgsFormatBuilder` / `ArgsFormat` look at (names, aliases, the required /
optional / multi-valued bits of an argument); what only the parser looks at - value type,
nullability and default of an argument; the four value-mode predicates, type, nullability and
default of an option - is NOT in the builder model.  It is supplied by two functions `aa`, `oa`
from the element (its names and its `tag`, which stands for the identity of the Python object) to
those attributes, so every theorem about `flattenRec aa oa f` holds for EVERY choice of them.
-/
namespace Clikit.Flatten
open Clikit

/-- what the parser reads from an `Argument` beyond what the builder looks at -/
structure ArgAttrs where
  ty : Parser.VType
  nullable : Bool
  default : Parser.PyVal
  deriving Repr, Inhabited

/-- what the parser reads from an `Option` beyond its names -/
structure OptAttrs where
  accepts : Bool      -- accepts_value()
  valReq : Bool       -- is_value_required()
  valOpt : Bool       -- is_value_optional()
  multi : Bool        -- is_multi_valued()
  ty : Parser.VType
  nullable : Bool
  default : Parser.PyVal
  deriving Repr, Inhabited

/-- `{"name": c.string, "aliases": list(c.aliases)}` -/
def flatCmd (c : ArgsFmt.CmdName) : Parser.CmdName := { name := c.name, aliases := c.aliases }

/-- `a.name`, `a.is_required()`, `a.is_multi_valued()` + the parser-side attributes -/
def flatArg (aa : ArgsFmt.Arg → ArgAttrs) (a : ArgsFmt.Arg) : Parser.Arg :=
  { name := a.name, required := a.required, multi := a.multi,
    ty := (aa a).ty, nullable := (aa a).nullable, default := (aa a).default }

/-- `o.long_name`, `o.short_name` + the parser-side attributes -/
def flatOpt (oa : ArgsFmt.Opt → OptAttrs) (o : ArgsFmt.Opt) : Parser.Opt :=
  { long := o.long, short := o.short,
    accepts := (oa o).accepts, valReq := (oa o).valReq, valOpt := (oa o).valOpt, multi := (oa o).multi,
    ty := (oa o).ty, nullable := (oa o).nullable, default := (oa o).default }

/-- **The flattened format** the parser works on, read from a format of the builder model exactly
as `parse()` (and `flatten` of the harness) reads it from an `ArgsFormat`:
`get_command_names()`, `get_arguments().values()`, `get_options().values()`, all with the default
`include_base=True`. -/
def flattenRec (aa : ArgsFmt.Arg → ArgAttrs) (oa : ArgsFmt.Opt → OptAttrs) (f : ArgsFmt.FormatRec) :
    Parser.Fmt :=
  { cmds := (f.getCommandNames true).map flatCmd
    args := (ArgsFmt.dictVals (f.getArguments true)).map (flatArg aa)
    opts := (ArgsFmt.dictVals (f.getOptions true)).map (flatOpt oa) }

/-- attributes of an argument created with flags only (`Argument(name, flags, description)`):
a string argument, not nullable, default `None` (`[]` for a multi-valued one) -/
def plainArg (a : ArgsFmt.Arg) : ArgAttrs :=
  { ty := .string, nullable := false, default := if a.multi then .list [] else .scalar .none }

/-- attributes of an option created without flags (`Option(long, short, 0, description)`): a flag -/
def plainOpt (_ : ArgsFmt.Opt) : OptAttrs :=
  { accepts := false, valReq := false, valOpt := false, multi := false,
    ty := .string, nullable := false, default := .scalar .none }

end Clikit.Flatten
