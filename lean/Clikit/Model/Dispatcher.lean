import Clikit.Base
import Clikit.Gen.C12
/-!
C12 - executable model of `clikit.api.event.EventDispatcher` AS THE CODE IS
(src/clikit/api/event/event_dispatcher.py, event.py).

Concrete state (mirrors the two attributes of the Python object):

* `listeners` = `self._listeners`: event name ↦ (priority ↦ list of listeners), both levels
  are Python dicts, i.e. association lists in insertion order (`dictSet` keeps the position
  of an existing key, a new key goes last);
* `sorted` = `self._sorted`: event name ↦ the cached flat list, filled lazily by
  `_sort_listeners`, dropped by `add_listener`.

Event names are modelled by natural numbers (the code only compares them for equality and
hashes them).  A listener is a callable; the model keeps its identity (`id`) and the one
thing it does that the dispatcher can observe: whether it calls `event.stop_propagation()`.
`v == listener` in `get_listener_priority` is identity of the callable, here equality of the
structure.

Every `d[k]` the Python code evaluates is a `lookup` that can fail with `KeyError`
(`Err.other "KeyError"`); Props/C12 proves that no history reaches such a branch.
-/
namespace Clikit.Dispatcher

structure Listener where
  id : Nat
  stops : Bool
  deriving DecidableEq, Repr, Inhabited

/-- `self._listeners[event]`: priority ↦ listeners, dict insertion order. -/
abbrev Buckets := List (Int × List Listener)

structure State where
  listeners : List (Nat × Buckets)
  sorted : List (Nat × List Listener)
  deriving Repr

/-- `EventDispatcher.__init__` -/
def init : State := { listeners := [], sorted := [] }

/-- `d[k]` -/
def lookup {κ ν : Type} [BEq κ] (k : κ) (d : List (κ × ν)) : Except Err ν :=
  match dictGet? k d with
  | some v => .ok v
  | none => .error (.other "KeyError")

/-- `add_listener(event_name, listener, priority)`, statement by statement. -/
def addListener (s : State) (e : Nat) (l : Listener) (p : Int) : Except Err State := do
  -- if event_name not in self._listeners: self._listeners[event_name] = {}
  let ls1 := if dictHas e s.listeners then s.listeners else dictSet e [] s.listeners
  -- if priority not in self._listeners[event_name]: self._listeners[event_name][priority] = []
  let d0 ← lookup e ls1
  let d1 := if dictHas p d0 then d0 else dictSet p [] d0
  let ls2 := dictSet e d1 ls1
  -- self._listeners[event_name][priority].append(listener)
  let d2 ← lookup e ls2
  let b ← lookup p d2
  let ls3 := dictSet e (dictSet p (b ++ [l]) d2) ls2
  -- if event_name in self._sorted: del self._sorted[event_name]
  let srt := if dictHas e s.sorted then dictDel e s.sorted else s.sorted
  return { listeners := ls3, sorted := srt }

/-- `sorted(items, key=lambda t: -t[0])`: Python's `sorted` is a stable sort by the key.
The key function `Gen.C12.sortKey` is regenerated from the source on every run
(tools/genparts/c12.py). -/
def sortBuckets (d : Buckets) : Buckets :=
  d.mergeSort (fun a b => decide (Gen.C12.sortKey a.1 ≤ Gen.C12.sortKey b.1))

/-- the two nested `for` loops of `_sort_listeners` appending to `self._sorted[event_name]` -/
def flatten (d : Buckets) : List Listener := d.flatMap (fun b => b.2)

/-- `_sort_listeners(event_name)` -/
def sortListeners (s : State) (e : Nat) : Except Err State := do
  let d ← lookup e s.listeners
  return { s with sorted := dictSet e (flatten (sortBuckets d)) s.sorted }

/-- `get_listeners(event_name)` with a name -/
def getListeners (s : State) (e : Nat) : Except Err (State × List Listener) :=
  if !dictHas e s.listeners then .ok (s, [])
  else do
    let s' ← if !dictHas e s.sorted then sortListeners s e else pure s
    let r ← lookup e s'.sorted
    return (s', r)

/-- the loop `for event_name, _ in self._listeners.items(): if event_name not in self._sorted: …` -/
def sortAll : List (Nat × Buckets) → State → Except Err State
  | [], s => .ok s
  | (e, _) :: rest, s => do
    let s' ← if !dictHas e s.sorted then sortListeners s e else pure s
    sortAll rest s'

/-- `get_listeners()` without a name: returns the `_sorted` dict itself -/
def getAllListeners (s : State) : Except Err (State × List (Nat × List Listener)) := do
  let s' ← sortAll s.listeners s
  return (s', s'.sorted)

/-- `_do_dispatch`: `stopped` is `event.is_propagation_stopped()`; a listener that stops
sets the flag.  Returns the listeners that were called (in call order) and the final flag. -/
def doDispatch : List Listener → Bool → List Listener × Bool
  | [], stopped => ([], stopped)
  | l :: rest, stopped =>
    if stopped then ([], stopped)
    else
      let r := doDispatch rest (stopped || l.stops)
      (l :: r.1, r.2)

/-- `dispatch(event_name, event)`; `stopped` = the event's flag on entry (a fresh `Event()`
has `false`). -/
def dispatch (s : State) (e : Nat) (stopped : Bool) :
    Except Err (State × List Listener × Bool) := do
  let (s', ls) ← getListeners s e
  if ls.isEmpty then return (s', [], stopped)      -- `if listeners:`
  else
    let r := doDispatch ls stopped
    return (s', r.1, r.2)

/-! ### Event objects of user classes

`Event` is a public base class; an application may derive its own event classes and implement
the stop protocol itself (`stop_propagation()` / `is_propagation_stopped()` overridden: the
state forwarded to a wrapped event, kept under another attribute, or "stopped as soon as a
result is there").  The dispatcher may consult nothing but that public protocol.  `EvProto σ`
is such a class with instance state `σ`; `touch` is whatever else a listener does to the event
(e.g. count its call, store a result). -/

structure EvProto (σ : Type) where
  /-- `event.is_propagation_stopped()` -/
  isStopped : σ → Bool
  /-- `event.stop_propagation()` -/
  stop : σ → σ
  /-- what every called listener does to the event besides (possibly) stopping it -/
  touch : σ → σ

/-- `_do_dispatch` on an event of a user class: the loop asks `event.is_propagation_stopped()`
before each listener; the listener touches the event and, if it is a stopping one, calls
`event.stop_propagation()`. -/
def doDispatchEv {σ : Type} (P : EvProto σ) : List Listener → σ → List Listener × σ
  | [], s => ([], s)
  | l :: rest, s =>
    if P.isStopped s then ([], s)
    else
      let s1 := P.touch s
      let r := doDispatchEv P rest (if l.stops then P.stop s1 else s1)
      (l :: r.1, r.2)

/-- the stock `Event`: one flag -/
def plainEvent : EvProto Bool := { isStopped := id, stop := fun _ => true, touch := id }

/-- a user event that counts as stopped once `n` listeners have seen it (every listener counts
itself on the event) or `stop_propagation()` was called: state = (calls so far, flag) -/
def budgetEvent (n : Nat) : EvProto (Nat × Bool) :=
  { isStopped := fun s => s.2 || decide (n ≤ s.1), stop := fun s => (s.1, true), touch := fun s => (s.1 + 1, s.2) }

/-- `dispatch(event_name, event)` with a fresh budget event of limit `n`; returns the listeners
called and `event.is_propagation_stopped()` afterwards. -/
def dispatchN (s : State) (e : Nat) (n : Nat) :
    Except Err (State × List Listener × Bool) := do
  let (s', ls) ← getListeners s e
  if ls.isEmpty then return (s', [], (budgetEvent n).isStopped (0, false))      -- `if listeners:`
  else
    let r := doDispatchEv (budgetEvent n) ls (0, false)
    return (s', r.1, (budgetEvent n).isStopped r.2)

/-- `has_listeners(event_name)` with a name -/
def hasListeners (s : State) (e : Nat) : Except Err Bool :=
  if !dictHas e s.listeners then .ok false
  else do
    let d ← lookup e s.listeners
    return decide (d.length > 0)

/-- `has_listeners()` without a name: some event's dict is truthy -/
def hasAnyListeners (s : State) : Bool :=
  s.listeners.any (fun x => !x.2.isEmpty)

/-- `get_listener_priority(event_name, listener)`: first bucket (dict order) containing it -/
def getPriority (s : State) (e : Nat) (l : Listener) : Except Err (Option Int) :=
  if !dictHas e s.listeners then .ok none
  else do
    let d ← lookup e s.listeners
    return (d.find? (fun b => b.2.contains l)).map (fun b => b.1)

/-! ### Histories -/

inductive Op where
  | add (e : Nat) (l : Listener) (p : Int)
  | dispatch (e : Nat) (stopped : Bool)
  /-- dispatch of a fresh user event (`budgetEvent n`) that reports itself stopped after `n` calls -/
  | dispatchN (e : Nat) (n : Nat)
  | hasListeners (e : Option Nat)
  | getListeners (e : Option Nat)
  | getPriority (e : Nat) (l : Listener)
  deriving Repr

inductive Out where
  | unit
  | called (ls : List Listener) (stopped : Bool)
  | bool (b : Bool)
  | list (ls : List Listener)
  | dict (d : List (Nat × List Listener))
  | prio (p : Option Int)
  deriving Repr, DecidableEq

def step (s : State) : Op → Except Err (State × Out)
  | .add e l p => do let s' ← addListener s e l p; return (s', .unit)
  | .dispatch e st => do let (s', c, st') ← dispatch s e st; return (s', .called c st')
  | .dispatchN e n => do let (s', c, st') ← dispatchN s e n; return (s', .called c st')
  | .hasListeners (some e) => do let b ← hasListeners s e; return (s, .bool b)
  | .hasListeners none => .ok (s, .bool (hasAnyListeners s))
  | .getListeners (some e) => do let (s', l) ← getListeners s e; return (s', .list l)
  | .getListeners none => do let (s', d) ← getAllListeners s; return (s', .dict d)
  | .getPriority e l => do let p ← getPriority s e l; return (s, .prio p)

def run (s : State) : List Op → Except Err (State × List Out)
  | [] => .ok (s, [])
  | op :: ops => do
    let (s1, o) ← step s op
    let (s2, os) ← run s1 ops
    return (s2, o :: os)

/-! ### The abstract specification: the log of registrations -/

structure Reg where
  ev : Nat
  prio : Int
  l : Listener
  deriving DecidableEq, Repr

def regOf : Op → List Reg
  | .add e l p => [⟨e, p, l⟩]
  | _ => []

/-- the registrations made by a history, in order -/
def logOf (ops : List Op) : List Reg := ops.flatMap regOf

/-- the registrations for event `e`, in registration order -/
def regsFor (log : List Reg) (e : Nat) : List Reg := log.filter (fun r => r.ev == e)

/-- insert a new registration behind everything of priority ≥ its own -/
def insR (r : Reg) : List Reg → List Reg
  | [] => [r]
  | y :: t => if r.prio > y.prio then r :: y :: t else y :: insR r t

/-- the order the property demands: registrations for `e`, stably sorted by descending
priority (insertion sort, independent of how the code sorts) -/
def specOrder (log : List Reg) (e : Nat) : List Reg :=
  (regsFor log e).foldl (fun acc r => insR r acc) []

/-- prefix of a list up to and including the first element satisfying `p` -/
def takeThrough {α : Type} (p : α → Bool) : List α → List α
  | [] => []
  | x :: t => if p x then [x] else x :: takeThrough p t

/-- the registrations a dispatch of `e` must call, in order -/
def callSeq (log : List Reg) (e : Nat) (stopped : Bool) : List Reg :=
  if stopped then [] else takeThrough (fun r => r.l.stops) (specOrder log e)

/-- the registrations a dispatch of `e` with a fresh budget event of limit `n` must call: the
event is stopped after the first stopping listener or after `n` calls, whichever comes first -/
def callSeqN (log : List Reg) (e : Nat) (n : Nat) : List Reg :=
  (callSeq log e false).take n

/-- events with registrations, in order of first registration -/
def events : List Reg → List Nat
  | [] => []
  | r :: t => r.ev :: (events t).filter (fun e => e != r.ev)

/-- executable form of the specification of one operation, given the log so far
(`get_listeners()` in a canonical key order; `get_listener_priority` of a listener that was
registered under several priorities: the first registration) -/
def specOut (log : List Reg) : Op → Out
  | .add _ _ _ => .unit
  | .dispatch e st =>
    .called ((callSeq log e st).map (fun r => r.l)) (st || (callSeq log e st).any (fun r => r.l.stops))
  | .dispatchN e n =>
    .called ((callSeqN log e n).map (fun r => r.l))
      ((callSeqN log e n).any (fun r => r.l.stops) || decide (n ≤ (callSeqN log e n).length))
  | .hasListeners (some e) => .bool (!(regsFor log e).isEmpty)
  | .hasListeners none => .bool (!log.isEmpty)
  | .getListeners (some e) => .list ((specOrder log e).map (fun r => r.l))
  | .getListeners none => .dict ((events log).map (fun e => (e, (specOrder log e).map (fun r => r.l))))
  | .getPriority e l => .prio (((regsFor log e).find? (fun r => r.l == l)).map (fun r => r.prio))

def specRun (log : List Reg) : List Op → List Out
  | [] => []
  | op :: ops => specOut log op :: specRun (log ++ regOf op) ops

/-! ### Decider for "each callable is registered at most once per event" (Props/C12)

The assumption under which the correspondence generates histories (every registration uses a
fresh callable) and under which "each once" speaks about listeners rather than registrations.
Evaluated by the driver on the log of every generated history (`c12.run`, field `wf`). -/

/-- no two registrations in the log are for the same event with the same listener -/
def regOnceB : List Reg → Bool
  | [] => true
  | r :: t => !(t.any (fun x => r.ev == x.ev && r.l == x.l)) && regOnceB t

end Clikit.Dispatcher
