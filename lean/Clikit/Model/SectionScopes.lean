import Clikit.Model.SectionIndent
/-!
C11 - indentation scopes over SEVERAL section outputs.

A program is a tree: `with target.indent(n):` / `with target.increment_indent(n):` around statements that
create sections of one output (`output.section()`, inheriting the output's indentation) and that write to,
overwrite and clear them.  The target of a scope is a section or the output the sections belong to (at I/O
level: `io.indent(n)` / `io.section().indent(n)` - the standard outputs of those I/Os).

`compile` turns a program into the history with indentation it performs (`Section.IOp`, model
`SectionIndent`: `Indent.__init__` is an `indent i n`, `Indent.__exit__` the `indent i saved`); running it is
`Section.runI` - the redraws of the sections shown below included.  `lexical` is the STATEMENT of scoping:
the indentation of a written line is fixed by the scopes around the write (handed down, never handed back),
a redraw does not enter into it.
-/
namespace Clikit.SecScopes
open Clikit.Section

/-- what a scope sets the indentation of -/
inductive Tgt where
  | out             -- the output the sections belong to: inherited by the sections created inside
  | sec (i : Nat)   -- section `i` (creation order)
  deriving DecidableEq, Repr

inductive SProg where
  | skip
  | seq (a b : SProg)
  | create                       -- `output.section()`
  | act (o : Op)                 -- `write_line | overwrite | clear | clear(n)` on a section
  | scope (t : Tgt) (increment : Bool) (n : Nat) (body : SProg)
  | raise
  | attempt (body : SProg)       -- `try: … except: pass`
  deriving Repr

/-- `_indent` of the output and of every section (creation order) -/
structure Env where
  out : Nat
  ind : List Nat
  deriving DecidableEq, Repr

/-- `Indent.__init__`: the new value -/
def newInd (increment : Bool) (n cur : Nat) : Nat := if increment then cur + n else n

/-- The history a program performs, the indentations afterwards, whether an exception is propagating.
A scope on a section that does not exist (yet) is not expressible in Python; its body runs unscoped. -/
def compile : SProg → Env → List IOp × Env × Bool
  | .skip, e => ([], e, false)
  | .seq a b, e =>
    match compile a e with
    | (h1, e1, true) => (h1, e1, true)
    | (h1, e1, false) =>
      match compile b e1 with
      | (h2, e2, r) => (h1 ++ h2, e2, r)
  | .create, e => ([.create e.out], { e with ind := e.ind ++ [e.out] }, false)
  | .act o, e => ([.op o], e, false)
  | .scope .out inc n body, e =>
    match compile body { e with out := newInd inc n e.out } with
    | (h, e', r) => (h, { e' with out := e.out }, r)
  | .scope (.sec i) inc n body, e =>
    if i < e.ind.length then
      match compile body { e with ind := setAt (newInd inc n (indOf e.ind i)) i e.ind } with
      | (h, e', r) =>
        (.indent i (newInd inc n (indOf e.ind i)) :: h ++ [.indent i (indOf e.ind i)],
         { e' with ind := setAt (indOf e.ind i) i e'.ind }, r)
    else compile body e
  | .raise, e => ([], e, true)
  | .attempt body, e =>
    match compile body e with
    | (h, e', _) => (h, e', false)

/-- The STATEMENT of scoping, as a base history (`Section.Op`): every write carries the lines behind the
indentation the enclosing scopes fix for its section (`padOp`); a section created inside scopes on the
output starts from the indentation they fix.  Indentation is handed down only: what a scope sets is gone
after it, only the sections created inside (`new`: their inherited indentation) remain. -/
def lexical : SProg → Env → List Op × List Nat × Bool
  | .skip, _ => ([], [], false)
  | .seq a b, e =>
    match lexical a e with
    | (h1, n1, true) => (h1, n1, true)
    | (h1, n1, false) =>
      match lexical b { e with ind := e.ind ++ n1 } with
      | (h2, n2, r) => (h1 ++ h2, n1 ++ n2, r)
  | .create, e => ([.create], [e.out], false)
  | .act o, e => ([padOp (indOf e.ind (target o)) o], [], false)
  | .scope .out inc n body, e => lexical body { e with out := newInd inc n e.out }
  | .scope (.sec i) inc n body, e =>
    if i < e.ind.length then lexical body { e with ind := setAt (newInd inc n (indOf e.ind i)) i e.ind }
    else lexical body e
  | .raise, _ => ([], [], true)
  | .attempt body, e =>
    match lexical body e with
    | (h, n, _) => (h, n, false)

/-- how `Section.flat` carries the indentations along a history -/
def indAfter : List Nat → List IOp → List Nat
  | ind, [] => ind
  | ind, .create n :: r => indAfter (ind ++ [n]) r
  | ind, .indent i n :: r => indAfter (setAt n i ind) r
  | ind, .op _ :: r => indAfter ind r

/-- Every scope names a section that exists when it is entered, every operation one that exists
(valid, number of sections afterwards, exception propagating). -/
def validP : SProg → Nat → Bool × Nat × Bool
  | .skip, k => (true, k, false)
  | .seq a b, k =>
    match validP a k with
    | (v1, k1, true) => (v1, k1, true)
    | (v1, k1, false) => match validP b k1 with | (v2, k2, r) => (v1 && v2, k2, r)
  | .create, k => (true, k + 1, false)
  | .act o, k => (match o with | .create => false | _ => decide (target o < k), k, false)
  | .scope .out _ _ body, k => validP body k
  | .scope (.sec i) _ _ body, k => match validP body k with | (v, k', r) => (decide (i < k) && v, k', r)
  | .raise, k => (true, k, true)
  | .attempt body, k => match validP body k with | (v, k', _) => (v, k', false)

end Clikit.SecScopes
