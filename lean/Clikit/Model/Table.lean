import Clikit.Base
import Clikit.Gen.C14
import Clikit.Model.Wrap
/-!
# C14 - `Table.render` : `CellWrapper.fit`, `BorderUtil.draw_border / draw_row`

Executable model of `ui/components/table.py`, `cell_wrapper.py`, `border_util.py` as they are
in /repo now (with the D15 repair e37b7a5).  Core Lean only.

Representation.  Python keeps `_wrapped_rows` / `_cell_lengths` row by row and updates one
column at a time through an index; the model keeps the same cells **column by column**
(`Column` = the cells of one table column, header row first), so that `_wrap_columns`' loop
over the columns is a structural recursion.  A `Cell` is the pair
(`_wrapped_rows[i][col]`, `_cell_lengths[i][col]`).  `long_column_lengths[col]` is the pair
`(length, long?)`: Python overwrites the entry of a short column with `None`, its length stays
available in `_column_lengths[col]`.

Numbers are `Nat`.  The available width Python computes can be negative when the terminal
is narrower than the borders; the model answers `.error (.other "unmodelled:…")` there (the
theorems show that this branch, like every `ValueError`, is unreachable for the widths of
the property's quantifier).  Inside `_wrap_columns` the model's truncated subtractions are
exact (lemma `splitPass_inv` : no subtraction underflows).

Cells are tag-free here (visible width = length); `_word_wraps` / `_word_cuts` are not
observable through `Table.render` and are not modelled.
-/
namespace Clikit.Table
open Clikit.Wrap
open Clikit.Gen.C14 (TableStyle BorderChars)

/-! ### strings -/

/-- `str.rstrip()` over the modelled alphabet (whitespace = blank, newline) -/
def rstrip (s : Str) : Str := (s.reverse.dropWhile isWs).reverse

/-- `s.split("\n")` -/
def splitLines : Str → List Str
  | [] => [[]]
  | c :: r =>
    if c == '\n' then [] :: splitLines r
    else match splitLines r with
      | l :: ls => (c :: l) :: ls
      | [] => [[c]]

/-- `"\n".join(lines)` -/
def joinLines : List Str → Str
  | [] => []
  | [l] => l
  | l :: l2 :: r => l ++ '\n' :: joinLines (l2 :: r)

/-- `max(0, x₁, x₂, …)` (the `max_length = max(max_length, …)` loops) -/
def listMax : List Nat → Nat
  | [] => 0
  | x :: r => max x (listMax r)

/-- `get_max_line_length` -/
def maxLineLen (s : Str) : Nat := listMax ((splitLines s).map List.length)

/-- Python `s * n` -/
def rep (n : Nat) (s : Str) : Str := (List.replicate n s).flatten

/-! ### `CellWrapper` -/

structure Cell where
  text : Str
  len : Nat
  deriving Repr, DecidableEq

abbrev Column := List Cell

/-- `add_cell` + `_init_rows` for one cell: the cell is right-stripped, its length recorded -/
def mkCell (s : Str) : Cell := ⟨rstrip s, (rstrip s).length⟩

/-- `_column_lengths[col]` as `_init_rows` / `_refresh_column_length` compute it -/
def colLen (c : Column) : Nat := listMax (c.map (·.len))

/-- `_init_rows`: `rows` are the header row (if any) and the rows, each of `n` cells -/
def initRows (n : Nat) (rows : List (List Str)) : List Column :=
  (List.range n).map (fun j => rows.map (fun r => mkCell (r.getD j [])))

/-- an entry of `long_column_lengths`: `(length, true)` or `(length, false)` for `None` -/
abbrev LCol := Nat × Bool

def countLong : List LCol → Nat
  | [] => 0
  | (_, true) :: r => countLong r + 1
  | (_, false) :: r => countLong r

def longSum : List LCol → Nat
  | [] => 0
  | (l, true) :: r => l + longSum r
  | (_, false) :: r => longSum r

def shortSum : List LCol → Nat
  | [] => 0
  | (_, true) :: r => shortSum r
  | (l, false) :: r => l + shortSum r

/-- one execution of the `for` loop inside `while repeat`.  `threshold = a0 / n` is fixed
during the pass; `length <= threshold` is the exact comparison `length * n ≤ a0` (Python
compares the `int` with the correctly rounded quotient; both agree below 2^53).
Returns (`long_column_lengths`, `available_width`, `repeat`). -/
def splitPass (n a0 : Nat) : List LCol → Nat → List LCol × Nat × Bool
  | [], a => ([], a, false)
  | (l, false) :: r, a =>
    let p := splitPass n a0 r a
    ((l, false) :: p.1, p.2.1, p.2.2)
  | (l, true) :: r, a =>
    if l * n ≤ a0 then
      let p := splitPass n a0 r (a - l)
      ((l, false) :: p.1, p.2.1, true)
    else
      let p := splitPass n a0 r a
      ((l, true) :: p.1, p.2.1, p.2.2)

/-- `while repeat:` (fuel-indexed; `wrapColumns` supplies `n + 1`) -/
def splitLoop (n : Nat) : Nat → List LCol → Nat → Except Err (List LCol × Nat)
  | 0, _, _ => .error .outOfFuel
  | f + 1, ls, a =>
    let p := splitPass n a ls a
    if p.2.2 then splitLoop n f p.1 p.2.1 else .ok (p.1, p.2.1)

/-- `_wrap_column` for one cell -/
def wrapCell (w : Nat) (c : Cell) : Except Err Cell :=
  if c.len > w then do
    let ls ← wrapE w c.text
    let t := joinLines ls
    pure ⟨t, maxLineLen t⟩
  else pure c

/-- `_wrap_column` -/
def wrapColumn (w : Nat) : Column → Except Err Column
  | [] => pure []
  | c :: r => do
    let c' ← wrapCell w c
    let r' ← wrapColumn w r
    pure (c' :: r')

/-- what `fit` leaves for one column -/
structure ColOut where
  /-- the width `_wrap_column` was called with (`none`: column not wrapped) -/
  assigned : Option Nat
  /-- final `_column_lengths[col]` -/
  width : Nat
  cells : Column
  deriving Repr, DecidableEq

/-- the width handed to `_wrap_column` for a long column: the last long column
(`remaining = 0`) gets what is left, the others their clamped share -/
def assignWidth (share : Nat → Nat → Nat → Nat) (l av ac remaining : Nat) : Except Err Nat :=
  if remaining = 0 then pure av
  else if ac = 0 then throw (.other "ZeroDivisionError")
  else pure (max 1 (min (share l ac av) (av - remaining)))

/-- the "Fit columns into available width" loop of `_wrap_columns` (repaired distribution).
`av` = `available_width`, `ac` = `actual_width`; `countLong r` is both `remaining_columns`
after the decrement and the test `col == last_adapted_col` (no long column follows). -/
def distribute (share : Nat → Nat → Nat → Nat) :
    List (LCol × Column) → Nat → Nat → Except Err (List ColOut)
  | [], _, _ => pure []
  | ((l, false), col) :: r, av, ac => do
    let r' ← distribute share r av ac
    pure (⟨none, l, col⟩ :: r')
  | ((l, true), col) :: r, av, ac => do
    let remaining := countLong (r.map (·.1))
    let w ← assignWidth share l av ac remaining
    let col' ← wrapColumn w col
    let len' := colLen col'
    let r' ← distribute share r (av - len') (ac - l)
    pure (⟨some w, len', col'⟩ :: r')

/-- `_wrap_columns` -/
def wrapColumns (share : Nat → Nat → Nat → Nat) (avail : Nat) (cols : List Column) :
    Except Err (List ColOut) := do
  let lens := cols.map colLen
  let n := lens.length
  if n = 0 then throw (.other "ZeroDivisionError")
  let p ← splitLoop n (n + 1) (lens.map (fun l => (l, true))) avail
  distribute share (p.1.zip cols) p.2 (longSum p.1)

/-- `CellWrapper.fit(max_total_width, nb_columns, formatter)` -/
def fit (share : Nat → Nat → Nat → Nat) (avail : Nat) (cols : List Column) :
    Except Err (List ColOut) :=
  if ((cols.map colLen).sum ≤ avail) then pure (cols.map (fun c => ⟨none, colLen c, c⟩))
  else wrapColumns share avail cols

/-! ### `int(round(length / actual_width * available_width))` -/

/-- Python's `round()` of a non-negative float: half to even (`x - floor x` is exact) -/
def halfEven (x : Float) : Nat :=
  let f := x.floor
  let d := x - f
  let n := f.toUInt64.toNat
  if d < 0.5 then n else if d > 0.5 then n + 1 else if n % 2 == 0 then n else n + 1

/-- the executable `share`: IEEE-754 double arithmetic as CPython does it (DESIGN 3.4) -/
def floatShare (l a w : Nat) : Nat :=
  halfEven ((Float.ofNat l / Float.ofNat a) * Float.ofNat w)

/-- an exact-arithmetic share (half-even rounding of the rational `l * w / a`), used by the
kernel-checked examples; the theorems hold for every `share` function -/
def exactShare (l a w : Nat) : Nat :=
  let q := (l * w) / a
  let r2 := 2 * ((l * w) % a)
  if r2 < a then q else if r2 > a then q + 1 else if q % 2 == 0 then q else q + 1

/-! ### `BorderUtil` -/

/-- `len(fmt.format(""))` -/
def fmtLen (f : Str × Str) : Nat := f.1.length + f.2.length

/-- `excess_column_width` -/
def excess (st : TableStyle) : Nat := max (fmtLen st.header_cell_format) (fmtLen st.cell_format)

/-- `border_width` -/
def borderWidth (st : TableStyle) (n : Nat) : Nat :=
  st.border.line_vl_char.length + (n - 1) * st.border.line_vc_char.length
    + st.border.line_vr_char.length

/-- `TableStyle.get_column_alignments(nb_columns)` -/
def alignmentsOf (n : Nat) (given : List Nat) : Except Err (List Nat) :=
  if given.length > n then .error (.other "IndexError")
  else pure (given ++ List.replicate (n - given.length) Clikit.Gen.C14.defaultAlignment)

/-- the body of `draw_border` after the indentation: `line_char * len` and crossings -/
def borderBody (lineCh c r : Str) : List Nat → Str
  | [] => []
  | [x] => rep x lineCh ++ r
  | x :: y :: xs => rep x lineCh ++ c ++ borderBody lineCh c r (y :: xs)

/-- `draw_border` before the `rstrip` -/
def borderRaw (indent : Nat) (lens : List Nat) (lineCh l c r : Str) : Str :=
  rep indent [' '] ++ l ++ borderBody lineCh c r lens

/-- padding of one cell line by alignment; `none` when `total_pad_length < 0` -/
def padCell (pad : Str) (align w : Nat) (line : Str) : Option Str :=
  if line.length ≤ w then
    let total := w - line.length
    if align = Clikit.Gen.C14.LEFT then some (line ++ rep total pad)
    else if align = Clikit.Gen.C14.RIGHT then some (rep total pad ++ line)
    else some (rep (total / 2) pad ++ line ++ rep (total - total / 2) pad)
  else none

/-- one column of a table row: (column width, alignment, the cell's lines) -/
abbrev RowCol := Nat × Nat × List Str

/-- the pieces `draw_row` appends for line `k` of a row, one per column:
`cell_format.format(padded)` followed by the centre or right border -/
def rowPieces (st : TableStyle) (fmt : Str × Str) (k : Nat) : List RowCol → List Str
  | [] => []
  | (w, a, ls) :: r =>
    let sep := if r.isEmpty then st.border.line_vr_char else st.border.line_vc_char
    (match padCell st.padding_char a w (ls.getD k []) with
      | some p => fmt.1 ++ p ++ fmt.2 ++ sep
      | none => []) :: rowPieces st fmt k r

/-- line `k` of `draw_row` before the `rstrip` -/
def rowLineRaw (st : TableStyle) (fmt : Str × Str) (indent : Nat) (row : List RowCol) (k : Nat) :
    Str :=
  rep indent [' '] ++ st.border.line_vl_char ++ (rowPieces st fmt k row).flatten

/-- `draw_row` before the `rstrip`s: `total_lines` lines -/
def drawRowRaw (st : TableStyle) (fmt : Str × Str) (indent : Nat) (row : List RowCol) : List Str :=
  (List.range (listMax (row.map (fun c => c.2.2.length)))).map (rowLineRaw st fmt indent row)

/-- a line before the final `rstrip`: `true` marks a border line (written only if non-empty) -/
abbrev RawLine := Bool × Str

/-- `line.rstrip()`; a border line that is empty afterwards is not written -/
def finish (l : RawLine) : Option Str :=
  let s := rstrip l.2
  if l.1 && s.isEmpty then none else some s

/-- the cells of wrapped row `i`, split into lines, with width and alignment
(`alignments[col]`, `IndexError` -> `LEFT`); `j` is the index of the first column of `outs` -/
def rowDataFrom (aligns : List Nat) (i : Nat) : Nat → List ColOut → List RowCol
  | _, [] => []
  | j, o :: r =>
    (o.width, aligns.getD j Clikit.Gen.C14.LEFT, splitLines ((o.cells.getD i ⟨[], 0⟩).text))
      :: rowDataFrom aligns i (j + 1) r

def rowData (outs : List ColOut) (aligns : List Nat) (i : Nat) : List RowCol :=
  rowDataFrom aligns i 0 outs

/-! ### `Table` -/

structure Table where
  /-- `_header_row` (`none` for `[]`) -/
  header : Option (List Str)
  rows : List (List Str)
  /-- `_nb_columns`; every row has this many cells (enforced by `add_row`/`set_header_row`) -/
  n : Nat
  deriving Repr

/-- the rows handed to the cell wrapper: header cells first -/
def Table.allRows (t : Table) : List (List Str) :=
  (match t.header with | some h => [h] | none => []) ++ t.rows

/-- `available_width` of `_get_cell_wrapper`, `none` when it is negative -/
def availableWidth (st : TableStyle) (n width indent : Nat) : Option Nat :=
  let need := indent + borderWidth st n + n * excess st
  if need ≤ width then some (width - need) else none

/-- `_render_rows` before the `rstrip`s -/
def renderRowsRaw (st : TableStyle) (aligns : List Nat) (hasHeader : Bool) (nrows : Nat)
    (outs : List ColOut) (indent : Nat) : List RawLine :=
  let b := st.border
  let blens := outs.map (fun o => o.width + excess st)
  let top := (true, borderRaw indent blens b.line_ht_char b.corner_tl_char b.crossing_t_char b.corner_tr_char)
  let mid := (true, borderRaw indent blens b.line_hc_char b.crossing_l_char b.crossing_c_char b.crossing_r_char)
  let bot := (true, borderRaw indent blens b.line_hb_char b.corner_bl_char b.crossing_b_char b.corner_br_char)
  let row (fmt : Str × Str) (i : Nat) : List RawLine :=
    (drawRowRaw st fmt indent (rowData outs aligns i)).map (fun s => (false, s))
  if hasHeader then
    [top] ++ row st.header_cell_format 0 ++ [mid]
      ++ ((List.range (nrows - 1)).map (fun i => row st.cell_format (i + 1))).flatten ++ [bot]
  else
    [top] ++ ((List.range nrows).map (fun i => row st.cell_format i)).flatten ++ [bot]

/-- everything `Table.render` computes before drawing: the fitted columns -/
def layout (share : Nat → Nat → Nat → Nat) (st : TableStyle) (t : Table) (width indent : Nat) :
    Except Err (List ColOut) :=
  match availableWidth st t.n width indent with
  | none => .error (.other "unmodelled:negative-available-width")
  | some avail => fit share avail (initRows t.n t.allRows)

/-- `Table.render(io, indentation)` before the `rstrip`s -/
def renderRaw (share : Nat → Nat → Nat → Nat) (st : TableStyle) (given : List Nat) (t : Table)
    (width indent : Nat) : Except Err (List RawLine) :=
  if t.rows.isEmpty then pure []
  else do
    let outs ← layout share st t width indent
    let aligns ← alignmentsOf outs.length given
    pure (renderRowsRaw st aligns t.header.isSome t.allRows.length outs indent)

/-- `Table.render(io, indentation)`: the lines written -/
def render (share : Nat → Nat → Nat → Nat) (st : TableStyle) (given : List Nat) (t : Table)
    (width indent : Nat) : Except Err (List Str) := do
  let raw ← renderRaw share st given t width indent
  pure (raw.filterMap finish)

/-! ### Deciders for the hypotheses of the rendering theorems (Props/C14)

Evaluated by the driver on the style, table, alignments and terminal width of every generated
case (`c14.render`, answer field `wf`) and compared with what the REAL style / table say.
`Props.C14.wf_decides` ties them to the hypotheses (`feasible`, `styleOk`, `rightSolid` of
Lemmas/Table are the same expressions). -/

/-- "at least one character per column beside the borders": `available_width ≥ nb_columns` -/
def feasibleB (st : TableStyle) (t : Table) (width indent : Nat) : Bool :=
  decide (indent + borderWidth st t.n + t.n * excess st + t.n ≤ width)

/-- a border line is either drawn with a one-character line string and corner/crossing strings
as long as the vertical border strings, or is entirely blank (then it is not written) -/
def borderOkB (st : TableStyle) (lineCh l c r : Str) : Bool :=
  (lineCh.length == 1 && l.length == st.border.line_vl_char.length
    && c.length == st.border.line_vc_char.length && r.length == st.border.line_vr_char.length)
  || (lineCh.isEmpty && l.all isWs && c.all isWs && r.all isWs)

/-- what the rectangle needs from a table style -/
def styleOkB (st : TableStyle) (hasHeader : Bool) : Bool :=
  st.padding_char.length == 1 && fmtLen st.cell_format == excess st
  && (!hasHeader || fmtLen st.header_cell_format == excess st)
  && borderOkB st st.border.line_ht_char st.border.corner_tl_char st.border.crossing_t_char st.border.corner_tr_char
  && borderOkB st st.border.line_hc_char st.border.crossing_l_char st.border.crossing_c_char st.border.crossing_r_char
  && borderOkB st st.border.line_hb_char st.border.corner_bl_char st.border.crossing_b_char st.border.corner_br_char

/-- the string ends with a non-blank character -/
def solidEndB (s : Str) : Bool :=
  match s.getLast? with
  | some c => !isWs c
  | none => false

/-- the right border string and the three right corner/crossing strings end non-blank -/
def rightSolidB (st : TableStyle) : Bool :=
  solidEndB st.border.line_vr_char && solidEndB st.border.corner_tr_char
  && solidEndB st.border.crossing_r_char && solidEndB st.border.corner_br_char

/-- all hypotheses of `render_ok`, `rect`, `within_terminal` (and `1 ≤ n` of `rect_equal`) -/
def wfB (st : TableStyle) (given : List Nat) (t : Table) (width indent : Nat) : Bool :=
  feasibleB st t width indent && decide (given.length ≤ t.n) && styleOkB st t.header.isSome
  && decide (1 ≤ t.n)

end Clikit.Table
