import Clikit.Gen.C09
import Clikit.Model.Tokenizer
import Clikit.Model.Run
/-!
# Model of the global switches of the default application configuration (C09)

`Gen.C09.*` are the decisions of `DefaultApplicationConfig.create_io`, `resolve_help_command`
and `print_version`, regenerated from the source on every run.  `has_option_token` is membership
in the option tokens of the raw args (`RawArgs.option_tokens`, C08: the tokens before the first
`--`).
-/
namespace Clikit.Switches
open Clikit Clikit.Gen.C09

/-- `args.has_option_token(t)` -/
def hasTok (toks : List Str) (t : Str) : Bool := (Tokenizer.optionTokens toks).contains t

/-- what `create_io` decides from the tokens -/
structure IOCfg where
  ansi : AnsiMode
  verbosity : Nat
  quiet : Bool
  interactive : Bool
  deriving DecidableEq, Repr, Inhabited

def createIO (toks : List Str) (debug : Bool) : IOCfg :=
  { ansi := ansiMode (hasTok toks), verbosity := verbosity (hasTok toks) debug,
    quiet := quiet (hasTok toks), interactive := !interactionOff (hasTok toks) }

/-- is the help command substituted for the command line's own resolution -/
def helpSwitch (toks : List Str) : Bool := helpRequested (hasTok toks)

/-- the PRE_HANDLE listener of the default configuration, as a C04 listener: when the parsed
args have the version option set it prints name and version and marks the event handled (the
status code stays 0) -/
def versionListener (versionSet : Bool) : Run.Listener :=
  if versionSet then .handled { falsy := true, toInt := .ok 0 } false else .pass

end Clikit.Switches
