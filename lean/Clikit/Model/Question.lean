import Clikit.Base
import Clikit.Gen.C18
/-!
C18 - choice questions, confirmations and the retry loop.

Model of the code **as it is in /repo** (after the repair D22 "questions looped forever at
end of input"):

* `ui/components/choice_question.py`  `SelectChoiceValidator.validate`  -> `validate`
  (`validateOne` is the body of its `for value in selected_choices` loop),
  `ChoiceQuestion._write_prompt` -> `promptCheck` (only its partial operations
  `choices[int(default)]`; the text of the prompt is not part of the property),
* `ui/components/question.py`  `_read_from_input` + the tail of `_do_ask` -> `answerOf`,
  `_validate_attempts` -> `askLoop`, `ask` -> `ask`,
* `ui/components/confirmation_question.py`  `_get_default_normalizer` -> `normalize`,
  `Question.ask` without validator -> `confirm`.

The input is a *script*: the lines the user types (without their line terminator; the
harness appends `"\n"` to each) and a flag saying what comes after them: end of input
(`read_line` returns `""` for ever) or a stream that blocks (the dialogue is then
`pending`).  `askLoop` is structurally recursive on the script: every pass of the Python
`while` loop either leaves the loop or consumes one line, because since D22 the read is
outside the `try` and "Aborted" at end of input is no longer retried.  No fuel is
needed - that recursion *is* the termination argument.

`stty` is not available in the modelled environment (`_has_stty_available()` is false), so
`_do_ask` always takes the `_read_from_input` branch; the autocompleter is not modelled.

`int()` is a parameter `toInt : Str → Option Int` of everything below; the theorems hold for
every `toInt`.  The driver instantiates it with `pyInt`, CPython 3.12's `int(str)`: optional
surrounding white space (`str.isspace` minus U+001C..U+001F), an optional sign directly
followed by decimal digits (any Unicode Nd character), single underscores allowed between
digits.
-/
namespace Clikit.Question

/-! ### tie to the source

`Clikit.Gen.C18` is regenerated from the current source on every run
(tools/genparts/c18.py).  The facts this model is written against are pinned here: if the
source stops saying them, this file stops compiling and the check reports the broken
obligation (and searches for a failing input) instead of trusting a stale model. -/

-- `multiFormatOk` models this regular expression
example : Gen.C18.multiSelectRegex = "^[a-zA-Z0-9_-]+(?:,[a-zA-Z0-9_-]+)*$" := by decide
-- `validateOne`: `0 <= value < len(values)`, ambiguity = more than one equal choice,
-- the value is looked up before the index
example : Gen.C18.rangeLow = 0 ∧ Gen.C18.rangeOps = ["LtE", "Lt"] := by decide
example : Gen.C18.ambiguousAbove = 1 := by decide
example : Gen.C18.valueBeforeIndex = true := by decide
-- `askLoop`: the answer is read inside the loop but outside the `try` (repair D22), and the
-- `try` catches `Exception`
example : Gen.C18.readInsideTry = false ∧ Gen.C18.readInsideLoop = true := by decide
example : Gen.C18.retryCatches = ["Exception"] := by decide
-- `matchYes` models the default pattern of a confirmation
example : Gen.C18.confirmDefaultRegex = "(?i)^y" := by decide

/-! ### strings -/

/-- `bytes.strip()`: the white space `_read_from_input` removes from the line it read. -/
def isByteSpace (c : Char) : Bool :=
  c == ' ' || c == '\t' || c == '\n' || c == '\r' || c == '\x0b' || c == '\x0c'

/-- `str.isspace()` of CPython 3.12 (checked against the interpreter by the harness). -/
def isPySpace (c : Char) : Bool :=
  let n := c.toNat
  (9 ≤ n && n ≤ 13) || (28 ≤ n && n ≤ 32) || n == 0x85 || n == 0xa0 || n == 0x1680 ||
  (0x2000 ≤ n && n ≤ 0x200a) || n == 0x2028 || n == 0x2029 || n == 0x202f || n == 0x205f ||
  n == 0x3000

/-- the white space `int()` skips around the literal: U+001C..U+001F are *not* skipped. -/
def isIntSpace (c : Char) : Bool :=
  isPySpace c && !(28 ≤ c.toNat && c.toNat ≤ 31)

def stripWith (p : Char → Bool) (s : Str) : Str :=
  ((s.dropWhile p).reverse.dropWhile p).reverse

def bytesStrip : Str → Str := stripWith isByteSpace
def pyStrip : Str → Str := stripWith isPySpace

/-- first segment and remaining segments of `s.split(sep)` -/
def splitAux (sep : Char) : Str → Str × List Str
  | [] => ([], [])
  | c :: r =>
    if c == sep then ([], (splitAux sep r).1 :: (splitAux sep r).2)
    else (c :: (splitAux sep r).1, (splitAux sep r).2)

/-- `s.split(sep)` for a one-character separator (never empty: `"".split(",") == [""]`). -/
def splitOn (sep : Char) (s : Str) : List Str :=
  (splitAux sep s).1 :: (splitAux sep s).2

/-! ### `int()` -/

/-- Code points of the characters with decimal value 0 (Unicode 15.0, general category Nd);
the digits 1-9 of each script follow their zero.  Checked against the running interpreter
on all code points by the harness. -/
def decimalZeros : List Nat :=
  [0x30, 0x660, 0x6f0, 0x7c0, 0x966, 0x9e6, 0xa66, 0xae6, 0xb66, 0xbe6, 0xc66, 0xce6, 0xd66,
   0xde6, 0xe50, 0xed0, 0xf20, 0x1040, 0x1090, 0x17e0, 0x1810, 0x1946, 0x19d0, 0x1a80, 0x1a90,
   0x1b50, 0x1bb0, 0x1c40, 0x1c50, 0xa620, 0xa8d0, 0xa900, 0xa9d0, 0xa9f0, 0xaa50, 0xabf0,
   0xff10, 0x104a0, 0x10d30, 0x11066, 0x110f0, 0x11136, 0x111d0, 0x112f0, 0x11450, 0x114d0,
   0x11650, 0x116c0, 0x11730, 0x118e0, 0x11950, 0x11c50, 0x11d50, 0x11da0, 0x11f50, 0x16a60,
   0x16ac0, 0x16b50, 0x1d7ce, 0x1d7d8, 0x1d7e2, 0x1d7ec, 0x1d7f6, 0x1e140, 0x1e2f0, 0x1e4f0,
   0x1e950, 0x1fbf0]

/-- `Py_UNICODE_TODECIMAL` -/
def digitVal (c : Char) : Option Nat :=
  match decimalZeros.find? (fun z => z ≤ c.toNat && c.toNat < z + 10) with
  | some z => some (c.toNat - z)
  | none => none

/-- value of a run of decimal digits, most significant first -/
def digitsValue : Str → Nat → Option Nat
  | [], acc => some acc
  | c :: r, acc =>
    match digitVal c with
    | some d => digitsValue r (10 * acc + d)
    | none => none

/-- decimal digits, single underscores allowed between digits -/
def pyNat (s : Str) : Option Nat :=
  if (splitOn '_' s).all (fun g => !g.isEmpty && g.all (fun c => (digitVal c).isSome)) then
    digitsValue (s.filter (· != '_')) 0
  else none

/-- CPython 3.12 `int(s)` for a `str` (base 10); `none` is `ValueError`: white space around
the literal, an optional sign directly followed by digits. -/
def pyInt (s : Str) : Option Int :=
  let t := stripWith isIntSpace s
  if t.head? = some '-' then (pyNat t.tail).map (fun n => - Int.ofNat n)
  else if t.head? = some '+' then (pyNat t.tail).map Int.ofNat
  else (pyNat t).map Int.ofNat

/-! ### the validator of `ChoiceQuestion` -/

/-- What a choice question returns: one choice, or a list of choices when multi-select. -/
inductive Answer where
  | one (v : Str)
  | many (vs : List Str)
  deriving DecidableEq, Repr

instance : DecidableEq (Except Err Answer) := fun a b =>
  match a, b with
  | .ok x, .ok y => if h : x = y then isTrue (h ▸ rfl) else isFalse (fun e => h (by cases e; rfl))
  | .error x, .error y => if h : x = y then isTrue (h ▸ rfl) else isFalse (fun e => h (by cases e; rfl))
  | .ok _, .error _ => isFalse (fun e => by cases e)
  | .error _, .ok _ => isFalse (fun e => by cases e)

instance : DecidableEq (Except Err Unit) := fun a b =>
  match a, b with
  | .ok (), .ok () => isTrue rfl
  | .error x, .error y => if h : x = y then isTrue (h ▸ rfl) else isFalse (fun e => h (by cases e; rfl))
  | .ok _, .error _ => isFalse (fun e => by cases e)
  | .error _, .ok _ => isFalse (fun e => by cases e)

/-- `[a-zA-Z0-9_-]` -/
def isWordChar (c : Char) : Bool :=
  ('a' ≤ c && c ≤ 'z') || ('A' ≤ c && c ≤ 'Z') || ('0' ≤ c && c ≤ '9') || c == '_' || c == '-'

/-- `re.match("^[a-zA-Z0-9_-]+(?:,[a-zA-Z0-9_-]+)*$", s)`: non-empty words separated by single
commas; `$` also matches before one trailing line feed. -/
def multiFormatOk (s : Str) : Bool :=
  let body := if s.getLast? = some '\n' then s.dropLast else s
  (splitOn ',' body).all (fun p => !p.isEmpty && p.all isWordChar)

/-- The body of `for value in selected_choices`:
1. more than one choice equal to the value: "ambiguous" `ValueError`;
2. `values[values.index(value)]` - the value wins over the index;
3. otherwise `int(value)` (a `ValueError` there is "invalid") and the range test
   `0 <= value < len(values)`. -/
def validateOne (toInt : Str → Option Int) (choices : List Str) (v : Str) : Except Err Str :=
  if (choices.filter (· == v)).length > 1 then .error .valueError
  else match choices.find? (· == v) with
    | some c => .ok c
    | none =>
      match toInt v with
      | none => .error .valueError
      | some i =>
        if 0 ≤ i ∧ i < (choices.length : Int) then
          match choices[i.toNat]? with
          | some c => .ok c
          | none => .error (.other "IndexError")
        else .error .valueError

/-- the `for` loop: the first failing value raises -/
def validateAll (toInt : Str → Option Int) (choices : List Str) : List Str → Except Err (List Str)
  | [] => .ok []
  | v :: r =>
    match validateOne toInt choices v with
    | .error e => .error e
    | .ok c =>
      match validateAll toInt choices r with
      | .error e => .error e
      | .ok cs => .ok (c :: cs)

/-- `SelectChoiceValidator.validate(selected)`.  `none` is Python's `None` (empty answer and
no default): `None.replace` raises `AttributeError`.  Multi-select removes every U+0020,
checks the comma format and splits; single-select validates the answer *as typed* (interior
blanks kept). -/
def validate (toInt : Str → Option Int) (choices : List Str) (multi : Bool)
    (answer : Option Str) : Except Err Answer :=
  match answer with
  | none => .error (.other "AttributeError")
  | some sel =>
    if multi then
      let collapsed := sel.filter (· != ' ')
      if multiFormatOk collapsed then
        match validateAll toInt choices (splitOn ',' collapsed) with
        | .ok cs => .ok (.many cs)
        | .error e => .error e
      else .error .valueError
    else
      match validateOne toInt choices sel with
      | .ok c => .ok (.one c)
      | .error e => .error e

/-- every selected value is one of the choices -/
def Answer.within (choices : List Str) : Answer → Prop
  | .one v => v ∈ choices
  | .many vs => ∀ v ∈ vs, v ∈ choices

/-- a list answer (multi-select) or a single value -/
def Answer.isMany : Answer → Bool
  | .one _ => false
  | .many _ => true

/-! ### the prompt -/

/-- `choices[i]` with Python's negative indices -/
def pyIndex (n : Nat) (i : Int) : Int := if i < 0 then i + n else i

def pyGetItem (choices : List Str) (i : Int) : Except Err Str :=
  if 0 ≤ pyIndex choices.length i then
    match choices[(pyIndex choices.length i).toNat]? with
    | some c => .ok c
    | none => .error (.other "IndexError")
  else .error (.other "IndexError")

def promptPart (toInt : Str → Option Int) (choices : List Str) (d : Str) : Except Err Unit :=
  match toInt d with
  | none => .error .valueError
  | some i =>
    match pyGetItem choices i with
    | .ok _ => .ok ()
    | .error e => .error e

def promptParts (toInt : Str → Option Int) (choices : List Str) : List Str → Except Err Unit
  | [] => .ok ()
  | p :: r =>
    match promptPart toInt choices (pyStrip p) with
    | .error e => .error e
    | .ok _ => promptParts toInt choices r

/-- The partial operations of `ChoiceQuestion._write_prompt`: the default is shown as
`choices[int(default)]` (each `default.split(",")` part, stripped, when multi-select).  They
run before anything is written, outside the retry loop's `try`. -/
def promptCheck (toInt : Str → Option Int) (choices : List Str) (multi : Bool)
    (default : Option Str) : Except Err Unit :=
  match default with
  | none => .ok ()
  | some d => if multi then promptParts toInt choices (splitOn ',' d) else promptPart toInt choices d

/-! ### asking -/

/-- `_read_from_input` + the end of `_do_ask` on a line that was read: strip it, an empty
answer is replaced by the default. -/
def answerOf (default : Option Str) (line : Str) : Option Str :=
  if (bytesStrip line).isEmpty then default else some (bytesStrip line)

/-- what the validator makes of one typed line -/
def lineResult (toInt : Str → Option Int) (choices : List Str) (multi : Bool)
    (default : Option Str) (line : Str) : Except Err Answer :=
  validate toInt choices multi (answerOf default line)

inductive Result where
  | value (a : Answer)          -- the validator accepted
  | default (d : Option Str)    -- non-interactive: `self.default` as it is
  | error (e : Err)             -- an exception leaves `ask`
  | pending                     -- the script is used up and the stream blocks
  deriving DecidableEq, Repr

/-- result, `read_line` calls made (the one that hits end of input included), error lines
printed, prompts printed -/
structure Outcome where
  result : Result
  reads : Nat
  errors : Nat
  prompts : Nat
  deriving DecidableEq, Repr

def Outcome.add (o : Outcome) (r e p : Nat) : Outcome :=
  { o with reads := o.reads + r, errors := o.errors + e, prompts := o.prompts + p }

/-- `raise error` after the loop; with `attempts == 0` the loop is never entered and
`raise None` is a `TypeError`. -/
def raiseLast (err : Option Err) : Outcome :=
  ⟨.error (err.getD (.other "TypeError")), 0, 0, 0⟩

def printed (err : Option Err) : Nat := if err.isSome then 1 else 0

/-- `Question._validate_attempts`: `att` is `attempts` (`none` = no limit), `err` is `error`.
```
while attempts is None or attempts:
    if error is not None: self._write_error(io, error)
    value = interviewer()                       # prompt, read; "Aborted" at end of input
    try: return self._validator(value)
    except Exception as e: error = e
    if attempts is not None: attempts -= 1
raise error
``` -/
def askLoop (toInt : Str → Option Int) (choices : List Str) (multi : Bool) (default : Option Str)
    (eof : Bool) : List Str → Option Nat → Option Err → Outcome
  | script, att, err =>
    if att = some 0 then raiseLast err
    else
      match promptCheck toInt choices multi default with
      | .error e => ⟨.error e, 0, printed err, 0⟩
      | .ok _ =>
        match script with
        | [] =>
          if eof then ⟨.error .runtimeError, 1, printed err, 1⟩
          else ⟨.pending, 0, printed err, 1⟩
        | line :: rest =>
          match lineResult toInt choices multi default line with
          | .ok a => ⟨.value a, 1, printed err, 1⟩
          | .error e =>
            (askLoop toInt choices multi default eof rest (att.map (· - 1)) (some e)).add
              1 (printed err) 1

/-! ### the loop with fuel (DESIGN 3.6), before and after the repair

`askLoop` above terminates by construction.  To give "terminates" content, the same `while`
loop is written once more the way DESIGN 3.6 prescribes - one unit of fuel per pass, an
explicit `outOfFuel` - for the code as it is now (`askFuel`) and as it was before the repair
D22 (`askFuelOld`: the read and the prompt were *inside* the `try`, so "Aborted" at end of
input and a failing prompt were just one more invalid answer).  Props/C18 proves that
`|script| + 1` units always suffice for `askFuel` (and that it then is `askLoop`), while
`askFuelOld` with unlimited attempts runs out of every amount of fuel at end of input. -/

def outOfFuel : Outcome := ⟨.error .outOfFuel, 0, 0, 0⟩

def askFuel (toInt : Str → Option Int) (choices : List Str) (multi : Bool) (default : Option Str)
    (eof : Bool) : Nat → List Str → Option Nat → Option Err → Outcome
  | 0, _, _, _ => outOfFuel
  | fuel + 1, script, att, err =>
    if att = some 0 then raiseLast err
    else
      match promptCheck toInt choices multi default with
      | .error e => ⟨.error e, 0, printed err, 0⟩
      | .ok _ =>
        match script with
        | [] =>
          if eof then ⟨.error .runtimeError, 1, printed err, 1⟩
          else ⟨.pending, 0, printed err, 1⟩
        | line :: rest =>
          match lineResult toInt choices multi default line with
          | .ok a => ⟨.value a, 1, printed err, 1⟩
          | .error e =>
            (askFuel toInt choices multi default eof fuel rest (att.map (· - 1)) (some e)).add
              1 (printed err) 1

/-- the loop before D22: `try: return self._validator(interviewer())  except Exception …` -/
def askFuelOld (toInt : Str → Option Int) (choices : List Str) (multi : Bool)
    (default : Option Str) (eof : Bool) : Nat → List Str → Option Nat → Option Err → Outcome
  | 0, _, _, _ => outOfFuel
  | fuel + 1, script, att, err =>
    if att = some 0 then raiseLast err
    else
      match promptCheck toInt choices multi default with
      | .error e =>
        (askFuelOld toInt choices multi default eof fuel script (att.map (· - 1)) (some e)).add
          0 (printed err) 0
      | .ok _ =>
        match script with
        | [] =>
          if eof then
            (askFuelOld toInt choices multi default eof fuel [] (att.map (· - 1))
              (some .runtimeError)).add 1 (printed err) 1
          else ⟨.pending, 0, printed err, 1⟩
        | line :: rest =>
          match lineResult toInt choices multi default line with
          | .ok a => ⟨.value a, 1, printed err, 1⟩
          | .error e =>
            (askFuelOld toInt choices multi default eof fuel rest (att.map (· - 1)) (some e)).add
              1 (printed err) 1

/-- `ChoiceQuestion.ask(io)` -/
def ask (toInt : Str → Option Int) (choices : List Str) (multi : Bool) (default : Option Str)
    (limit : Option Nat) (interactive : Bool) (script : List Str) (eof : Bool) : Outcome :=
  if interactive then askLoop toInt choices multi default eof script limit none
  else ⟨.default default, 0, 0, 0⟩

/-! ### confirmation -/

def isAsciiLetter (c : Char) : Bool :=
  ('a' ≤ c && c ≤ 'z') || ('A' ≤ c && c ≤ 'Z')

/-- the non-ASCII characters that CPython 3.12's `re` treats as case variants of an ASCII
letter under `(?i)`: dotted/dotless i, the Kelvin sign, the long s (checked against the
interpreter on all code points by the harness) -/
def ciExtra (p c : Char) : Bool :=
  ((p == 'i' || p == 'I') && (c.toNat == 0x130 || c.toNat == 0x131)) ||
  ((p == 'k' || p == 'K') && c.toNat == 0x212a) ||
  ((p == 's' || p == 'S') && c.toNat == 0x17f)

/-- one literal ASCII pattern character against one answer character; under `(?i)` the two
cases of an ASCII letter (32 apart) are the same, plus `ciExtra` -/
def charEq (ci : Bool) (p c : Char) : Bool :=
  p == c || (ci && ((isAsciiLetter p && isAsciiLetter c &&
    (p.toNat == c.toNat + 32 || c.toNat == p.toNat + 32)) || ciExtra p c))

def hasPrefix (ci : Bool) : Str → Str → Bool
  | [], _ => true
  | _ :: _, [] => false
  | p :: ps, c :: cs => charEq ci p c && hasPrefix ci ps cs

/-- `re.match("(?i)^(?:p1|p2|…)", a) is not None` for literal ASCII alternatives
(`ci` = `(?i)`). -/
def matchPrefix (ci : Bool) (prefixes : List Str) (a : Str) : Bool :=
  prefixes.any (fun p => hasPrefix ci p a)

/-- the default pattern `(?i)^y` -/
def matchYes : Str → Bool := matchPrefix true [['y']]

/-- `ConfirmationQuestion._get_default_normalizer`; the answer is a `bool` (the default took
the place of an empty answer) or the stripped, non-empty text. -/
def normalize (isTrue : Str → Bool) (default : Bool) : Bool ⊕ Str → Bool
  | .inl b => b
  | .inr a =>
    if default = false then (!a.isEmpty && isTrue a)     -- `answer and answer_is_true`
    else (a.isEmpty || isTrue a)                          -- `not answer or answer_is_true`

inductive CResult where
  | answer (b : Bool)
  | error (e : Err)
  | pending
  deriving DecidableEq, Repr

structure COutcome where
  result : CResult
  reads : Nat
  prompts : Nat
  deriving DecidableEq, Repr

/-- `ConfirmationQuestion.ask(io)`: no validator, hence no retry loop - one `_do_ask`. -/
def confirm (isTrue : Str → Bool) (default : Bool) (interactive : Bool) (script : List Str)
    (eof : Bool) : COutcome :=
  if interactive then
    match script with
    | [] => if eof then ⟨.error .runtimeError, 1, 1⟩ else ⟨.pending, 0, 1⟩
    | line :: _ =>
      let a := bytesStrip line
      ⟨.answer (normalize isTrue default (if a.isEmpty then .inl default else .inr a)), 1, 1⟩
  else ⟨.answer default, 0, 0⟩

/-! ### deciders for the hypotheses of the interchangeability theorems (Props/C18 `interchange_dec`)

"An index and the value it denotes are interchangeable" holds for values that can be typed and are
not ambiguous.  `interchangeHypB` is that side condition, executable: the driver answers it for
every (list, index) pair the harness generates (entry `c18.interchange_hyp`, together with the index
text `str(i)` the model uses), the harness evaluates the same condition with Python's own `str`,
`bytes.strip` and `re`, and the two are compared; where it is true the oracle demands the
interchangeability. -/

/-- one item of a multi-select answer: `[a-zA-Z0-9_-]+` -/
def wordyB (p : Str) : Bool := !p.isEmpty && p.all isWordChar

/-- the value survives `_read_from_input` (it is not empty and has no surrounding white space) -/
def typableB (v : Str) : Bool := !v.isEmpty && bytesStrip v == v

/-- `choices[i]` exists, occurs once, the text of `i` is not itself a choice, and the value can be
typed (as a whole line when single-select, as one item when multi-select) -/
def interchangeHypB (choices : List Str) (multi : Bool) (i : Nat) : Bool :=
  match choices[i]? with
  | none => false
  | some v =>
    (choices.filter (· == v)).length == 1 && !(choices.contains (Nat.toDigits 10 i)) &&
    (if multi then wordyB v else typableB v)

/-- the prompt can be built (the hypothesis `promptCheck … = .ok ()` of the attempt theorems) -/
def promptOkB (toInt : Str → Option Int) (choices : List Str) (multi : Bool) (default : Option Str) : Bool :=
  match promptCheck toInt choices multi default with
  | .ok _ => true
  | .error _ => false

/-! ### several questions on ONE input whose script is typed incrementally

An application asks its questions one after the other on the same I/O.  The input script of a
`BufferedIO` / `StringInputStream` may be extended (`append_input` / `append`), replaced
(`set_input` / `set`) or dropped (`clear_input` / `clear`) between the questions.  The state of the
input is the list of lines that are still UNREAD: a dialogue consumes the lines it read (the read
that meets the end of input consumes nothing), appending puts lines behind the unread ones and
never brings a line back that was already answered. -/

inductive SQ where
  /-- `ChoiceQuestion(choices, default)` + `set_multi_select` + `set_max_attempts` -/
  | choice (choices : List Str) (multi : Bool) (default : Option Str) (limit : Option Nat)
  /-- `ConfirmationQuestion(default, pattern)` -/
  | confirm (ci : Bool) (prefixes : List Str) (default : Bool)
  deriving Repr

inductive SStep where
  | append (lines : List Str)
  | set (lines : List Str)
  | clear
  | ask (q : SQ)
  deriving Repr

inductive SOut where
  | choice (o : Outcome)
  | confirm (o : COutcome)
  deriving DecidableEq, Repr

def SOut.reads : SOut → Nat
  | .choice o => o.reads
  | .confirm o => o.reads

/-- the dialogue is still waiting for input -/
def SOut.pending : SOut → Bool
  | .choice o => decide (o.result = .pending)
  | .confirm o => decide (o.result = .pending)

/-- one question asked on the lines that are unread at that moment -/
def askQ (toInt : Str → Option Int) (interactive eof : Bool) (q : SQ) (unread : List Str) : SOut :=
  match q with
  | .choice c m d l => .choice (ask toInt c m d l interactive unread eof)
  | .confirm ci p d => .confirm (confirm (matchPrefix ci p) d interactive unread eof)

/-- the outcomes of the questions of a session, in order; `unread` = the lines not yet read -/
def session (toInt : Str → Option Int) (interactive eof : Bool) : List SStep → List Str → List SOut
  | [], _ => []
  | .append ls :: rest, unread => session toInt interactive eof rest (unread ++ ls)
  | .set ls :: rest, _ => session toInt interactive eof rest ls
  | .clear :: rest, _ => session toInt interactive eof rest []
  | .ask q :: rest, unread =>
    let o := askQ toInt interactive eof q unread
    o :: session toInt interactive eof rest (unread.drop o.reads)

end Clikit.Question
