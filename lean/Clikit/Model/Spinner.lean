import Clikit.Base
import Clikit.Gen.C19
/-!
C19 - the automatic progress indicator (`ProgressIndicator.auto`, `_spin`, `advance`,
`set_message`, `start`, `finish`, `_display`, `_overwrite`).

Small-step semantics of two logical threads over the fields they share.  A thread is always
parked *before* a visible operation (a stream write, `Event.set`, `Event.is_set`,
`Thread.start`, `Thread.join`) or inside `time.sleep`; one step performs that operation and
runs the thread's local code up to the next one, reading the shared fields as they are at that
moment (so a frame's text is computed one step before it is written).  A schedule is any list
of choices: the main thread steps, the spinner steps, or the clock advances.  A choice that is
not enabled (thread blocked in `join`, asleep, finished) is a no-op, so every list is a schedule.

`step` follows the code as it is in the repository (one stream write per frame, repair of D23; `except
BaseException`, repair of D32); `stepOld` is the pre-fix write protocol (erase sequence and text are two
writes), `stepOldExcept` the pre-fix exception handling (`except (Exception, KeyboardInterrupt)`).  The facts about the source
that this file hard-codes (which exceptions `auto()` catches, the order of its exception path and of
`finish()`, one write per frame, the strict throttle comparison) are regenerated into `Gen/C19.lean` on
every run and pinned by `Props.C19.source_shape`.
Times are virtual milliseconds.  Quiet outputs and the `{elapsed}` placeholder are outside the model.
-/
namespace Clikit.Spinner

/-! ### Vocabulary -/

inductive Tid where
  | main | spin
  deriving DecidableEq, Repr, Inhabited

/-- A format string, split at its placeholders (`re.sub` with `_overwrite_callback`). -/
inductive Seg where
  | lit (s : Str)
  | indicator
  | message
  deriving DecidableEq, Repr

/-- What a body can raise.  `systemExit` stands for every `BaseException` that is neither an `Exception` nor
`KeyboardInterrupt` (`SystemExit`, `GeneratorExit`).  The code as it is catches `BaseException` (repair of D32);
before, `auto()` caught `(Exception, KeyboardInterrupt)` only. -/
inductive ExcKind where
  | exception | keyboardInterrupt | systemExit
  deriving DecidableEq, Repr

def ExcKind.pyName : ExcKind → String
  | .exception => "Exception"
  | .keyboardInterrupt => "KeyboardInterrupt"
  | .systemExit => "SystemExit"

/-- Does the `except` clause of `auto()` - read from the current source, `Gen.C19.caught` - catch it?
(`SystemExit` derives from `BaseException` only.) -/
def ExcKind.caught (k : ExcKind) : Bool :=
  Clikit.Gen.C19.caught.contains k.pyName || Clikit.Gen.C19.caught.contains "BaseException"

/-- The caller's code inside `with indicator.auto(start, end):`. -/
inductive BodyOp where
  | setMessage (m : Str)
  | work (d : Nat)
  | raise (k : ExcKind)
  | exitBlock
  deriving DecidableEq, Repr

/-- How the main thread left the `auto` block.  `raised k`: the body raised `k`, the `except` clause of
`auto()` ran and re-raised it.  `escaped k`: the body raised `k` and no `except` clause of `auto()` matched
(possible in the pre-fix variant only).  `error`: the protocol itself failed. -/
inductive Outcome where
  | normal
  | raised (k : ExcKind)
  | escaped (k : ExcKind)
  | error (e : Err)
  deriving DecidableEq, Repr

/-- Which code is modelled: the repository as it is (`Proto.now`) or a pre-fix variant, kept for the proved
counterexamples.  `twoWrites`: a frame is two stream writes (before the repair of D23).  `narrowExcept`:
`auto()` catches `(Exception, KeyboardInterrupt)` only (before the repair of D32). -/
structure Proto where
  twoWrites : Bool
  narrowExcept : Bool
  deriving DecidableEq, Repr

/-- the code as it is -/
abbrev Proto.now : Proto := ⟨false, false⟩
/-- before `fix: write a progress indicator frame with a single write` -/
abbrev Proto.d23 : Proto := ⟨true, false⟩
/-- before `fix: stop the progress indicator thread when the block is left by SystemExit` -/
abbrev Proto.d32 : Proto := ⟨false, true⟩

/-- does the `except` clause of `auto()` catch `k`? -/
def caughtBy (p : Proto) (k : ExcKind) : Bool :=
  if p.narrowExcept then (k == .exception || k == .keyboardInterrupt) else k.caught

structure Cfg where
  ansi : Bool
  interval : Nat
  period : Nat
  values : List Str
  fmt : List Seg
  startMsg : Str
  endMsg : Str
  body : List BodyOp
  deriving Repr

def ESC : Char := Char.ofNat 27
/-- `"\x0D\x1B[2K"` -/
def crEl : Str := ['\r', ESC, '[', '2', 'K']
def nl : Str := ['\n']

/-- `self._values[self._current % len(self._values)]` (the constructor rejects fewer than two values) -/
def value (cfg : Cfg) (i : Nat) : Str := cfg.values.getD (i % cfg.values.length) []

def renderSeg (v m : Str) : Seg → Str
  | .lit s => s
  | .indicator => v
  | .message => m

/-- `re.sub(..., self._overwrite_callback, self._fmt)` -/
def render (fmt : List Seg) (v m : Str) : Str := fmt.flatMap (renderSeg v m)

/-- The stream writes of one `_overwrite(text)`. -/
def frameWrites (old : Proto) (cfg : Cfg) (text : Str) : List Str :=
  if cfg.ansi then (if old.twoWrites then [crEl, text] else [crEl ++ text]) else [text ++ nl]

/-! ### Configurations -/

inductive SpinPc where
  | notStarted
  | begin
  | test
  | write (pending : List Str)
  | sleeping (wake : Nat)
  | done
  deriving DecidableEq, Repr

/-- What the main thread does once its pending writes are out. -/
inductive MainK where
  | spawn
  | body (rest : List BodyOp)
  | excSet (k : ExcKind)
  | finEnd
  deriving DecidableEq, Repr

inductive MainPc where
  | begin
  | writing (pending : List Str) (k : MainK)
  | spawn
  | working (wake : Nat) (rest : List BodyOp)
  | excSet (k : ExcKind)
  | excJoin (k : ExcKind)
  | finSet
  | finJoin
  | exited (o : Outcome)
  deriving DecidableEq, Repr

structure St where
  flag : Bool
  message : Str
  current : Nat
  updateTime : Nat
  started : Bool
  clock : Nat
  /-- the stream, newest write first -/
  out : List (Tid × Str)
  spin : SpinPc
  main : MainPc
  /-- the spinner thread died of an exception (`advance` on an indicator that is not started) -/
  crashed : Bool
  deriving Repr

def init : St :=
  { flag := false, message := [], current := 0, updateTime := 0, started := false, clock := 0,
    out := [], spin := .notStarted, main := .begin, crashed := false }

def frameText (cfg : Cfg) (c : St) : Str := render cfg.fmt (value cfg c.current) c.message

/-! ### The main thread -/

/-- Local code of the main thread from the end of one body statement to its next visible operation. -/
def nextBody (old : Proto) (cfg : Cfg) (c : St) : List BodyOp → St
  | .setMessage m :: rest =>
      let c1 := { c with message := m }
      { c1 with main := .writing (frameWrites old cfg (frameText cfg c1)) (.body rest) }
  | .work d :: rest => { c with main := .working (c.clock + d) rest }
  | .raise k :: _ =>
      if caughtBy old k then { c with main := .writing [nl] (.excSet k) }
      else { c with main := .exited (.escaped k) }
  | .exitBlock :: _ | [] =>
      -- finish(end_message, reset_indicator=True)
      if c.started then { c with main := .finSet } else { c with main := .exited (.error .runtimeError) }

def contMain (old : Proto) (cfg : Cfg) (c : St) : MainK → St
  | .spawn => { c with main := .spawn }
  | .body rest => nextBody old cfg c rest
  | .excSet k => { c with main := .excSet k }
  | .finEnd => { c with started := false, main := .exited .normal }

def enabledMain (c : St) : Bool :=
  match c.main with
  | .exited _ => false
  | .working w _ => decide (w ≤ c.clock)
  | .excJoin _ | .finJoin => c.spin == .done || c.spin == .notStarted
  | _ => true

def stepMain (old : Proto) (cfg : Cfg) (c : St) : St :=
  match c.main with
  | .begin =>
      -- auto(): Event(), Thread(target=_spin); start(start_message) up to its stream write
      if c.started then { c with main := .exited (.error .runtimeError) }
      else
        let c1 := { c with message := cfg.startMsg, started := true,
                           updateTime := c.clock + cfg.interval, current := 0 }
        { c1 with main := .writing (frameWrites old cfg (frameText cfg c1)) .spawn }
  | .writing [] k => contMain old cfg c k
  | .writing [b] k => contMain old cfg { c with out := (.main, b) :: c.out } k
  | .writing (b :: p) k => { c with out := (.main, b) :: c.out, main := .writing p k }
  | .spawn =>
      -- self._auto_thread.start(); then the body begins
      nextBody old cfg { c with spin := if c.spin == .notStarted then .begin else c.spin } cfg.body
  | .working w rest => if w ≤ c.clock then nextBody old cfg c rest else c
  | .excSet k => { c with flag := true, main := .excJoin k }
  | .excJoin k =>
      if c.spin == .done then { c with main := .exited (.raised k) }
      else if c.spin == .notStarted then { c with main := .exited (.error .runtimeError) }
      else c
  | .finSet => { c with flag := true, main := .finJoin }
  | .finJoin =>
      if c.spin == .done then
        let c1 := { c with message := cfg.endMsg, current := 0 }
        { c1 with main := .writing (frameWrites old cfg (frameText cfg c1) ++ [nl]) .finEnd }
      else if c.spin == .notStarted then { c with main := .exited (.error .runtimeError) }
      else c
  | .exited _ => c

/-! ### The spinner thread (`_spin`) -/

def enabledSpin (c : St) : Bool :=
  match c.spin with
  | .notStarted | .done => false
  | .sleeping w => decide (w ≤ c.clock)
  | _ => true

def toSleep (cfg : Cfg) (c : St) : St := { c with spin := .sleeping (c.clock + cfg.period) }

def stepSpin (old : Proto) (cfg : Cfg) (c : St) : St :=
  match c.spin with
  | .notStarted | .done => c
  | .begin => { c with spin := .test }
  | .test =>
      if c.flag then { c with spin := .done }
      else if !c.started then { c with spin := .done, crashed := true }       -- advance(): RuntimeError
      else if !cfg.ansi then toSleep cfg c                                     -- advance(): no redraw
      else if c.clock < c.updateTime then toSleep cfg c                        -- throttled
      else
        let c1 := { c with updateTime := c.clock + cfg.interval, current := c.current + 1 }
        { c1 with spin := .write (frameWrites old cfg (frameText cfg c1)) }
  | .write [] => toSleep cfg c
  | .write [b] => toSleep cfg { c with out := (.spin, b) :: c.out }
  | .write (b :: p) => { c with out := (.spin, b) :: c.out, spin := .write p }
  | .sleeping w => if w ≤ c.clock then { c with spin := .test } else c

/-! ### Schedules -/

inductive Choice where
  | main
  | spin
  | tick (dt : Nat)
  deriving DecidableEq, Repr

abbrev Schedule := List Choice

def stepG (old : Proto) (cfg : Cfg) (c : St) : Choice → St
  | .main => stepMain old cfg c
  | .spin => stepSpin old cfg c
  | .tick dt => { c with clock := c.clock + dt }

/-- the code as it is (one write per frame) -/
def step (cfg : Cfg) (c : St) (ch : Choice) : St := stepG .now cfg c ch
/-- the pre-fix write protocol (erase and text are two writes, D23) -/
def stepOld (cfg : Cfg) (c : St) (ch : Choice) : St := stepG .d23 cfg c ch
/-- the pre-fix exception handling (`except (Exception, KeyboardInterrupt)`, D32) -/
def stepOldExcept (cfg : Cfg) (c : St) (ch : Choice) : St := stepG .d32 cfg c ch

def runG (old : Proto) (cfg : Cfg) (s : Schedule) (c : St) : St := s.foldl (stepG old cfg) c
def run (cfg : Cfg) (s : Schedule) (c : St) : St := runG .now cfg s c
def runOld (cfg : Cfg) (s : Schedule) (c : St) : St := runG .d23 cfg s c
def runOldExcept (cfg : Cfg) (s : Schedule) (c : St) : St := runG .d32 cfg s c

/-- the write trace in stream order -/
def St.trace (c : St) : List (Tid × Str) := c.out.reverse
def trace (cfg : Cfg) (s : Schedule) : List (Tid × Str) := (run cfg s init).trace

/-! ### The completion policy used by the correspondence runs

Non-preemptive: keep the thread that ran last while it is enabled, else the other one, else advance
the clock to the next wake-up; the step indices in `pre` force a switch when both are enabled.
`policy` only *computes a schedule*; the theorems quantify over all schedules. -/

def nextWake (c : St) : Option Nat :=
  let ws := (match c.spin with | .sleeping w => [w] | _ => []) ++
            (match c.main with | .working w _ => [w] | _ => [])
  match ws.filter (fun w => c.clock < w) with
  | [] => none
  | w :: r => some (r.foldl min w)

def policy (old : Proto) (cfg : Cfg) : Nat → Nat → Tid → List Nat → St → Schedule
  | 0, _, _, _, _ => []
  | fuel + 1, k, cur, pre, c =>
    let em := enabledMain c
    let es := enabledSpin c
    if !em && !es then
      match nextWake c with
      | none => []
      | some w => .tick (w - c.clock) :: policy old cfg fuel (k + 1) cur pre (stepG old cfg c (.tick (w - c.clock)))
    else
      let curOk := if cur == .main then em else es
      let otherOk := if cur == .main then es else em
      let other := if cur == .main then Tid.spin else Tid.main
      let pick := if curOk then (if pre.contains k && otherOk then other else cur) else other
      let ch := if pick == .main then Choice.main else Choice.spin
      ch :: policy old cfg fuel (k + 1) pick pre (stepG old cfg c ch)

/-! ### Terminal line -/

structure Term where
  /-- completed lines, oldest first -/
  lines : List Str
  line : Str
  col : Nat
  /-- progress through `ESC [ 2 K` -/
  esc : Nat
  deriving Repr, DecidableEq

def Term.init : Term := { lines := [], line := [], col := 0, esc := 0 }

def putAt (line : Str) (col : Nat) (ch : Char) : Str :=
  if col < line.length then line.set col ch
  else line ++ List.replicate (col - line.length) ' ' ++ [ch]

def Term.feed1 (t : Term) (ch : Char) : Term :=
  match t.esc with
  | 0 =>
    if ch = '\r' then { t with col := 0 }
    else if ch = '\n' then { lines := t.lines ++ [t.line], line := [], col := 0, esc := 0 }
    else if ch = ESC then { t with esc := 1 }
    else { t with line := putAt t.line t.col ch, col := t.col + 1 }
  | 1 => if ch = '[' then { t with esc := 2 } else { t with esc := 0 }
  | 2 => if ch = '2' then { t with esc := 3 } else { t with esc := 0 }
  | _ => if ch = 'K' then { t with line := [], esc := 0 } else { t with esc := 0 }

def Term.feed (t : Term) (s : Str) : Term := s.foldl Term.feed1 t

/-- the terminal after a sequence of writes (stream order) -/
def termOf (ws : List Str) : Term := ws.foldl Term.feed Term.init

/-- the line shown after each write -/
def linesAfter (ws : List Str) : List Str :=
  (List.range ws.length).map (fun i => (termOf (ws.take (i + 1))).line)

/-- all messages a run of this configuration can display -/
def bodyMsgs : List BodyOp → List Str
  | [] => []
  | .setMessage m :: r => m :: bodyMsgs r
  | _ :: r => bodyMsgs r

def msgs (cfg : Cfg) : List Str := cfg.startMsg :: cfg.endMsg :: bodyMsgs cfg.body

/-- `line` is exactly one frame: some indicator value and some message in the format. -/
def isFrame (cfg : Cfg) (line : Str) : Bool :=
  (msgs cfg).any (fun m => cfg.values.any (fun v => render cfg.fmt v m == line))

/-! ### Manual (thread-free) mode -/

inductive MOp where
  | start (m : Str)
  | advance
  | setMessage (m : Str)
  | finish (m : Str) (reset : Bool)
  | tick (dt : Nat)
  deriving DecidableEq, Repr

inductive MKind where
  | start | advance | setMessage | finish | newline
  deriving DecidableEq, Repr

structure MEv where
  kind : MKind
  time : Nat
  bytes : Str
  deriving DecidableEq, Repr

structure MSt where
  message : Str
  started : Bool
  current : Nat
  updateTime : Nat
  clock : Nat
  /-- newest first -/
  out : List MEv
  deriving Repr

def MSt.init : MSt := { message := [], started := false, current := 0, updateTime := 0, clock := 0, out := [] }

def mframe (cfg : Cfg) (c : MSt) : Str := render cfg.fmt (value cfg c.current) c.message

/-- `_display()` on behalf of `kind` -/
def mdisplay (cfg : Cfg) (kind : MKind) (c : MSt) : MSt :=
  { c with out := (frameWrites .now cfg (mframe cfg c)).reverse.map (fun b => ⟨kind, c.clock, b⟩) ++ c.out }

def mstep (cfg : Cfg) (c : MSt) : MOp → MSt × Option Err
  | .start m =>
      if c.started then (c, some .runtimeError)
      else (mdisplay cfg .start { c with message := m, started := true,
                                         updateTime := c.clock + cfg.interval, current := 0 }, none)
  | .advance =>
      if !c.started then (c, some .runtimeError)
      else if !cfg.ansi then (c, none)
      else if c.clock < c.updateTime then (c, none)
      else (mdisplay cfg .advance { c with updateTime := c.clock + cfg.interval, current := c.current + 1 }, none)
  | .setMessage m => (mdisplay cfg .setMessage { c with message := m }, none)
  | .finish m reset =>
      if !c.started then (c, some .runtimeError)
      else
        let c1 := mdisplay cfg .finish { c with message := m, current := if reset then 0 else c.current }
        ({ c1 with out := ⟨.newline, c.clock, nl⟩ :: c1.out, started := false }, none)
  | .tick dt => ({ c with clock := c.clock + dt }, none)

def mrun (cfg : Cfg) (ops : List MOp) (c : MSt) : MSt := ops.foldl (fun c op => (mstep cfg c op).1) c

/-! ### Deciders for the hypotheses of the theorems (Props/C19)

The terminal theorems (`no_mixture`, `end_message_shown`) assume that no message, indicator value or
literal part of the format contains a character the terminal interprets (CR, LF, ESC); the frame-shape
theorems assume that there is an indicator value (the constructor rejects fewer than two).  Both are
decided here on the configuration of every correspondence case (driver key `wf`). -/

/-- not CR, LF, ESC -/
def cleanChB (ch : Char) : Bool := ch != '\r' && ch != '\n' && ch != ESC
def cleanB (s : Str) : Bool := s.all cleanChB

def cleanSegB : Seg → Bool
  | .lit s => cleanB s
  | _ => true

/-- every message of the run, every indicator value and every literal of the format is clean -/
def cleanCfgB (cfg : Cfg) : Bool :=
  (msgs cfg).all cleanB && cfg.values.all cleanB && cfg.fmt.all cleanSegB

/-- there is an indicator value -/
def hasValuesB (cfg : Cfg) : Bool := decide (0 < cfg.values.length)

end Clikit.Spinner
