import Clikit.Base
import Clikit.Gen.C05
/-!
# Model of `DefaultArgsParser.parse`, `Args` and the typed conversions (C01, C02, C05)

The model follows `src/clikit/args/default_args_parser.py` and `src/clikit/api/args/args.py`
statement by statement, on the *flattened* format (command names, arguments base-first, options)
that `parse()` itself builds.  Partial Python operations (`token[0]`, negative indexing,
unpacking `None`, `.append` on a string) have explicit `.other` error branches so that
"no foreign exception escapes" is a theorem about guards, not an artefact of the error type.
The token loop is fuel-indexed (DESIGN 3.6): `outOfFuel` unreachable = termination.

`int()` / `float()` are parameters (`Conv`): the theorems hold for every conversion table, the
correspondence harness fills the table with what CPython returns for the texts of each case.
-/
namespace Clikit.Parser

/-! ## Values -/

inductive VType where
  | string | boolean | integer | float
  deriving DecidableEq, Repr, Inhabited

/-- A Python scalar.  Floats are carried as their `repr` text (never computed with). -/
inductive Scalar where
  | none
  | bool (b : Bool)
  | int (n : Int)
  | str (s : Str)
  | float (repr : Str)
  deriving DecidableEq, Repr, Inhabited

inductive PyVal where
  | scalar (s : Scalar)
  | list (l : List Scalar)
  deriving DecidableEq, Repr, Inhabited

/-- `int(text)` and `float(text)` of CPython, as tables (`none` = ValueError). -/
structure Conv where
  intOf : Str → Option Int
  floatOf : Str → Option Str

def nullText : Str := "null".toList

/-- text of a decimal integer as `str(n)` prints it -/
def intRepr (n : Int) : Str := (toString n).toList

def falseTexts : List Str := ["false".toList, "0".toList, "no".toList, "off".toList]
def trueTexts : List Str := ["true".toList, "1".toList, "yes".toList, "on".toList]

/-- `nullable and (value is None or value == "null")` -/
def isNullInput (nullable : Bool) (v : Scalar) : Bool :=
  nullable && (v == .none || v == .str nullText)

/-- `parse_string` -/
def parseString (nullable : Bool) (v : Scalar) : Except Err Scalar :=
  if isNullInput nullable v then .ok .none
  else match v with
    | .none => .ok (.str nullText)
    | .bool b => .ok (.str (if b then "true".toList else "false".toList))
    | .int n => .ok (.str (intRepr n))
    | .str s => .ok (.str s)
    | .float r => .ok (.str r)

/-- the string branch of `parse_boolean` -/
def boolOfText (s : Str) : Except Err Scalar :=
  if s == [] then .ok (.bool false)
  else if falseTexts.contains s then .ok (.bool false)
  else if trueTexts.contains s then .ok (.bool true)
  else .error .valueError

/-- `parse_boolean` -/
def parseBoolean (nullable : Bool) (v : Scalar) : Except Err Scalar :=
  if isNullInput nullable v then .ok .none
  else match v with
    | .bool b => .ok (.bool b)
    | .int n => boolOfText (intRepr n)
    | .str s => boolOfText s
    | .none => .error .valueError
    | .float _ => .error .valueError

/-- `parse_int`; a float input (`int(1.5)`, `int(inf)`) is outside the model -/
def parseInt (cv : Conv) (nullable : Bool) (v : Scalar) : Except Err Scalar :=
  if isNullInput nullable v then .ok .none
  else match v with
    | .int n => .ok (.int n)
    | .bool b => .ok (.int (if b then 1 else 0))
    | .str s => match cv.intOf s with
      | some n => .ok (.int n)
      | none => .error .valueError
    | .none => .error .valueError            -- int(None): TypeError, caught since the D3 repair
    | .float _ => .error (.other "float-input-to-int-not-modelled")

/-- `parse_float`; an int input (`float(10**400)` overflows) is outside the model -/
def parseFloat (cv : Conv) (nullable : Bool) (v : Scalar) : Except Err Scalar :=
  if isNullInput nullable v then .ok .none
  else match v with
    | .float r => .ok (.float r)
    | .str s => match cv.floatOf s with
      | some r => .ok (.float r)
      | none => .error .valueError
    | .none => .error .valueError
    | .bool _ => .error (.other "bool-input-to-float-not-modelled")
    | .int _ => .error (.other "int-input-to-float-not-modelled")

/-- `Option.parse` / `Argument.parse`: BOOLEAN, then INTEGER, then FLOAT, else string -/
def conv (cv : Conv) (ty : VType) (nullable : Bool) (v : Scalar) : Except Err Scalar :=
  match ty with
  | .boolean => parseBoolean nullable v
  | .integer => parseInt cv nullable v
  | .float => parseFloat cv nullable v
  | .string => parseString nullable v

/-! ## Formats (flattened) -/

structure CmdName where
  name : Str
  aliases : List Str
  deriving DecidableEq, Repr, Inhabited

/-- `CommandName.match` -/
def CmdName.matches (c : CmdName) (s : Str) : Bool := c.name == s || c.aliases.contains s

structure Arg where
  name : Str
  required : Bool
  multi : Bool
  ty : VType
  nullable : Bool
  default : PyVal
  deriving DecidableEq, Repr, Inhabited

/-- An option as the parser sees it: the four mode predicates are kept independent, as in
the code; C07 proves which combinations a constructed option can have. -/
structure Opt where
  long : Str
  short : Option Str
  accepts : Bool      -- accepts_value()
  valReq : Bool       -- is_value_required()
  valOpt : Bool       -- is_value_optional()
  multi : Bool        -- is_multi_valued()
  ty : VType
  nullable : Bool
  default : PyVal
  deriving DecidableEq, Repr, Inhabited

structure Fmt where
  cmds : List CmdName
  args : List Arg      -- `fmt.get_arguments()` order (base first)
  opts : List Opt      -- `fmt.get_options()` order
  deriving Repr, Inhabited

/-- keys of the parser's argument dictionary: the synthesised `cmdNM` pseudo-arguments and the
real argument names (the pseudo names are chosen by the code not to clash with real ones) -/
inductive ArgKey where
  | pseudo (j : Nat)
  | real (name : Str)
  deriving DecidableEq, Repr, Inhabited

/-- an argument of the flattened format `_fmt` -/
structure FArg where
  key : ArgKey
  required : Bool
  multi : Bool
  deriving DecidableEq, Repr, Inhabited

def pseudoArgs (n : Nat) : List FArg :=
  (List.range n).map fun j => { key := .pseudo j, required := true, multi := false }

/-- `arguments` of `parse()`: one required pseudo-argument per command name, then the real ones -/
def Fmt.fargs (f : Fmt) : List FArg :=
  pseudoArgs f.cmds.length ++ f.args.map fun a => { key := .real a.name, required := a.required, multi := a.multi }

/-- `ArgsFormat.has_option` / `get_option`: by long name first, then by short name -/
def Fmt.getOpt? (f : Fmt) (name : Str) : Option Opt :=
  match f.opts.find? (fun o => o.long == name) with
  | some o => some o
  | none => f.opts.find? (fun o => o.short == some name)

def Fmt.hasOpt (f : Fmt) (name : Str) : Bool := (f.getOpt? name).isSome

/-- `has_argument(i)` for a Python int: `i < len(arguments)` (true for negative `i`!) -/
def hasArgAt (l : List FArg) (i : Int) : Bool := decide (i < (l.length : Int))

/-- `get_argument(i)` for a Python int: `NoSuchArgumentException` if `i >= len`, then list
indexing with Python's negative-index rule -/
def getArgAt (l : List FArg) (i : Int) : Except Err FArg :=
  if i ≥ (l.length : Int) then .error .noSuchArgument
  else if i ≥ 0 then
    match l[i.toNat]? with
    | some a => .ok a
    | none => .error (.other "IndexError")
  else
    let k := (l.length : Int) + i
    if k ≥ 0 then
      match l[k.toNat]? with
      | some a => .ok a
      | none => .error (.other "IndexError")
    else .error (.other "IndexError")

/-! ## Parser state -/

/-- what an argument slot can hold while parsing: a token, or a `CommandName` object put there
by `_insert_missing_command_names` -/
inductive V where
  | tok (s : Str)
  | cmd (c : CmdName)
  deriving DecidableEq, Repr, Inhabited

inductive RawArg where
  | one (v : V)
  | many (l : List V)
  deriving DecidableEq, Repr, Inhabited

inductive RawOpt where
  | one (v : Scalar)           -- a token (`str`), `True`, or the option's default
  | many (l : List Scalar)
  | dflt (v : PyVal)           -- `option.default` of an optional-value option given without value
  deriving DecidableEq, Repr, Inhabited

structure St where
  args : List (ArgKey × RawArg)
  opts : List (Str × RawOpt)
  deriving DecidableEq, Repr, Inhabited

def St.empty : St := { args := [], opts := [] }

/-- errors raised while the token loop runs carry the state reached so far (in lenient mode
`parse()` continues with it) -/
abbrev PR (α : Type) := Except (Err × St) α

/-- `self._arguments[arg.name].append(token)`, creating the list first when the name is absent -/
def appendArg (key : ArgKey) (tok : Str) (σ : St) : PR St :=
  match dictGet? key σ.args with
  | none => .ok { σ with args := dictSet key (.many [.tok tok]) σ.args }
  | some (.many l) => .ok { σ with args := dictSet key (.many (l ++ [.tok tok])) σ.args }
  | some (.one _) => .error (.other "AttributeError", σ)

/-- `_parse_argument` -/
def parseArgument (fa : List FArg) (lenient : Bool) (tok : Str) (σ : St) : PR St :=
  let c : Int := (σ.args.length : Int)
  if hasArgAt fa c then
    match getArgAt fa c with
    | .error e => .error (e, σ)
    | .ok a =>
      if a.multi then appendArg a.key tok σ
      else .ok { σ with args := dictSet a.key (.one (.tok tok)) σ.args }
  else if decide (c > 0) && hasArgAt fa (c - 1) then
    match getArgAt fa (c - 1) with
    | .error e => .error (e, σ)
    | .ok a =>
      if a.multi then appendArg a.key tok σ
      else if lenient then .ok σ else .error (.cannotParse, σ)
  else if lenient then .ok σ else .error (.cannotParse, σ)

/-- the look-ahead of `_add_long_option`: when no value was attached, the option accepts one
and tokens remain, the next token is consumed as the value unless it starts with `-`
(an empty token is consumed and means "no value") -/
def peekValue (o : Opt) (value : Option Str) (tokens : List Str) : Option Str × List Str :=
  if value.isNone && o.accepts && tokens.length != 0 then
    match tokens with
    | [] => (value, tokens)
    | [] :: rest => (some [], rest)                              -- `elif not nxt: value = ""`
    | (c :: cs) :: rest => if c != '-' then (some (c :: cs), rest) else (value, (c :: cs) :: rest)
  else (value, tokens)

/-- the second half of `_add_long_option`: record the (possibly absent) value under `name` -/
def storeOpt (o : Opt) (name : Str) (value : Option Str) (σ : St) : PR St :=
  match value with
  | none =>
    if o.valReq then .error (.cannotParse, σ)
    else if o.multi then
      -- `self._options[name].append(None)`
      match dictGet? name σ.opts with
      | none => .ok { σ with opts := dictSet name (.many [.none]) σ.opts }
      | some (.many l) => .ok { σ with opts := dictSet name (.many (l ++ [.none])) σ.opts }
      | some _ => .error (.other "AttributeError", σ)
    else
      let v : RawOpt := if o.valOpt then .dflt o.default else .one (.bool true)
      .ok { σ with opts := dictSet name v σ.opts }
  | some v =>
    if o.multi then
      match dictGet? name σ.opts with
      | none => .ok { σ with opts := dictSet name (.many [.str v]) σ.opts }
      | some (.many l) => .ok { σ with opts := dictSet name (.many (l ++ [.str v])) σ.opts }
      | some _ => .error (.other "AttributeError", σ)
    else .ok { σ with opts := dictSet name (.one (.str v)) σ.opts }

/-- `_add_long_option`; returns the new state and the remaining tokens -/
def addLong (f : Fmt) (name : Str) (value : Option Str) (tokens : List Str) (σ : St) :
    PR (St × List Str) :=
  match f.getOpt? name with
  | none => .error (.noSuchOption, σ)
  | some o =>
    if value.isSome && !o.accepts then .error (.cannotParse, σ)
    else
      let p := peekValue o value tokens
      let value := if p.1 == some [] then none else p.1            -- `--foo=` : no value
      match storeOpt o name value σ with
      | .error e => .error e
      | .ok σ' => .ok (σ', p.2)

/-- `_add_short_option` -/
def addShort (f : Fmt) (name : Str) (value : Option Str) (tokens : List Str) (σ : St) :
    PR (St × List Str) :=
  match f.getOpt? name with
  | none => .error (.noSuchOption, σ)
  | some o => addLong f o.long value tokens σ

/-- `name.find("=")`: the part before the first `=` and, if there is one, the part after it -/
def splitEq : Str → Str × Option Str
  | [] => ([], none)
  | c :: r => if c == '=' then ([], some r) else
      let (a, b) := splitEq r
      (c :: a, b)

/-- `value = tokens.pop(0)` (or `None`), pushed back when it starts with `-` -/
def popValue (tokens : List Str) : Option Str × List Str :=
  match tokens with
  | [] => (none, [])
  | v :: rest =>
    match v with
    | [] => (some [], rest)                  -- "" is falsy: kept as the value ""
    | c :: _ => if c == '-' then (none, v :: rest) else (some v, rest)

/-- `_parse_long_option` (`name` = the token without its leading `--`) -/
def parseLong (f : Fmt) (name : Str) (tokens : List Str) (σ : St) : PR (St × List Str) :=
  match splitEq name with
  | (n, some v) => addLong f n (some v) tokens σ
  | (_, none) =>
    match f.getOpt? name with
    | some o =>
      if o.accepts then
        let (value, tokens) := popValue tokens
        addLong f name value tokens σ
      else addLong f name none tokens σ
    | none => addLong f name none tokens σ

/-- `_parse_short_option_set`: the loop over the characters of a group -/
def parseShortSet (f : Fmt) : Str → List Str → St → PR (St × List Str)
  | [], tokens, σ => .ok (σ, tokens)
  | c :: r, tokens, σ =>
    match f.getOpt? [c] with
    | none => .error (.noSuchOption, σ)
    | some o =>
      if o.accepts then
        addLong f o.long (if r.isEmpty then none else some r) tokens σ       -- then `break`
      else
        match addLong f o.long none tokens σ with
        | .error e => .error e
        | .ok (σ', tokens') => parseShortSet f r tokens' σ'

/-- `_parse_short_option` (`name` = the token without its leading `-`) -/
def parseShort (f : Fmt) (name : Str) (tokens : List Str) (σ : St) : PR (St × List Str) :=
  match name with
  | [] => .error (.other "IndexError", σ)            -- `name[0]`; unreachable from the loop
  | c :: r =>
    if r.length ≥ 1 then
      match f.getOpt? [c] with
      | some o => if o.accepts then addShort f [c] (some r) tokens σ else parseShortSet f name tokens σ
      | none => parseShortSet f name tokens σ
    else
      match f.getOpt? [c] with
      | some o =>
        if o.accepts then
          let (value, tokens) := popValue tokens
          addShort f name value tokens σ
        else addShort f name none tokens σ
      | none => addShort f name none tokens σ

/-- `parse_options and token[0] == "-" and token != "-"` (`token[0]` of an empty token would
raise IndexError; the loop tests `token == ""` first) -/
def shortTest (po : Bool) (tok : Str) : Except Err Bool :=
  if po then
    match tok with
    | [] => .error (.other "IndexError")
    | c :: _ => .ok (c == '-' && tok != ['-'])
  else .ok false

/-- one iteration of the `while True` loop of `_parse` on the popped token `tok`:
new state, remaining tokens, `parse_options` -/
def step (f : Fmt) (lenient : Bool) (tok : Str) (rest : List Str) (po : Bool) (σ : St) :
    PR (St × List Str × Bool) :=
  if po && tok == [] then
    match parseArgument f.fargs lenient tok σ with
    | .error e => .error e
    | .ok σ' => .ok (σ', rest, po)
  else if po && tok == ['-', '-'] then .ok (σ, rest, false)
  else if po && tok.take 2 == ['-', '-'] then
    match parseLong f (tok.drop 2) rest σ with
    | .error e => .error e
    | .ok (σ', rest') => .ok (σ', rest', po)
  else
    match shortTest po tok with
    | .error e => .error (e, σ)
    | .ok true =>
      match parseShort f (tok.drop 1) rest σ with
      | .error e => .error e
      | .ok (σ', rest') => .ok (σ', rest', po)
    | .ok false =>
      match parseArgument f.fargs lenient tok σ with
      | .error e => .error e
      | .ok σ' => .ok (σ', rest, po)

/-- the `while True` loop of `_parse`, fuel-indexed -/
def loop (f : Fmt) (lenient : Bool) : Nat → List Str → Bool → St → PR St
  | 0, _, _, σ => .error (.outOfFuel, σ)
  | _ + 1, [], _, σ => .ok σ
  | n + 1, tok :: rest, po, σ =>
    match step f lenient tok rest po σ with
    | .error e => .error e
    | .ok (σ', rest', po') => loop f lenient n rest' po' σ'

/-- `_flatten(self._arguments.values())` (only tokens can be there at that point) -/
def flattenArgs : List (ArgKey × RawArg) → List V
  | [] => []
  | (_, .one v) :: r => v :: flattenArgs r
  | (_, .many l) :: r => l ++ flattenArgs r

def V.truthy : V → Bool
  | .tok s => s != []
  | .cmd _ => true

def V.text? : V → Option Str
  | .tok s => some s
  | .cmd _ => none

/-- `_skip_command_names`.  An iterator together with the value last fetched from it is a list
whose head is that value (`None` = the empty list); the three results are the values, command
names and arguments not yet consumed. -/
def skipCmdNames : List V → List CmdName → List FArg → (List V × List CmdName × List FArg)
  | .tok s :: actual, cn :: cmds, args =>
    -- `while arg and command_name and command_name.match(arg)`
    if s != [] && cn.matches s then skipCmdNames actual cmds args.tail
    else (.tok s :: actual, cn :: cmds, args)
  | actual, cmds, args => (actual, cmds, args)

/-- the `while value is not None` loop of `_copy_argument_values`; `vals` = current value and
the rest of its iterator, `args` likewise with `argument`.
Result: `none` = the lenient early `return` (Python returns `None`), otherwise the
arguments not yet consumed (head = the current `argument`). -/
def copyLoop (lenient : Bool) : List V → List FArg → List (ArgKey × RawArg) →
    Except Err (Option (List FArg) × List (ArgKey × RawArg))
  | [], args, fixed => .ok (some args, fixed)
  | _ :: _, [], fixed => if lenient then .ok (none, fixed) else .error .cannotParse
  | v :: vals, a :: args, fixed =>
    if a.multi then
      match dictGet? a.key fixed with
      | none => copyLoop lenient vals (a :: args) (dictSet a.key (.many [v]) fixed)
      | some (.many l) => copyLoop lenient vals (a :: args) (dictSet a.key (.many (l ++ [v])) fixed)
      | some (.one _) => .error (.other "AttributeError")
    else copyLoop lenient vals args (dictSet a.key (.one v) fixed)

/-- `_insert_missing_command_names` -/
def insertMissing (f : Fmt) (lenient : Bool) (σ : St) : Except Err St :=
  let (actual, cmds, args) := skipCmdNames (flattenArgs σ.args) f.cmds f.fargs
  match copyLoop lenient (cmds.map V.cmd) args [] with
  | .error e => .error e
  | .ok (none, _) => .error (.other "TypeError")          -- `_, argument = None`
  | .ok (some args', fixed) =>
    match copyLoop lenient actual args' fixed with
    | .error e => .error e
    | .ok (_, fixed') =>
      .ok { σ with args := fixed'.foldl (fun d (kv : ArgKey × RawArg) => dictSet kv.1 kv.2 d) σ.args }

/-! ## `Args` -/

structure Args where
  args : List (Str × PyVal)     -- `_arguments`, insertion order
  opts : List (Str × PyVal)     -- `_options`, keyed by long name
  deriving DecidableEq, Repr, Inhabited

def Fmt.getArg? (f : Fmt) (name : Str) : Option Arg := f.args.find? (fun a => a.name == name)

def convList (cv : Conv) (ty : VType) (nullable : Bool) : List Scalar → Except Err (List Scalar)
  | [] => .ok []
  | v :: r => do
    let v' ← conv cv ty nullable v
    let r' ← convList cv ty nullable r
    return v' :: r'

def V.scalar : V → Except Err Scalar
  | .tok s => .ok (.str s)
  | .cmd _ => .error (.other "CommandName-as-argument-value")

def vScalars : List V → Except Err (List Scalar)
  | [] => .ok []
  | v :: r => do
    let a ← v.scalar
    let b ← vScalars r
    return a :: b

/-- `Args.set_argument` -/
def setArgument (cv : Conv) (f : Fmt) (name : Str) (value : RawArg) (a : Args) : Except Err Args :=
  match f.getArg? name with
  | none => .error .noSuchArgument
  | some arg =>
    if arg.multi then do
      let l ← match value with
        | .many l => vScalars l
        | .one v => do let s ← v.scalar; pure [s]
      let l' ← convList cv arg.ty arg.nullable l
      return { a with args := dictSet arg.name (.list l') a.args }
    else
      match value with
      | .one v => do
        let s ← v.scalar
        let s' ← conv cv arg.ty arg.nullable s
        return { a with args := dictSet arg.name (.scalar s') a.args }
      | .many _ => .error (.other "list-value-for-single-argument")

/-- `Args.set_option` -/
def setOption (cv : Conv) (f : Fmt) (name : Str) (value : RawOpt) (a : Args) : Except Err Args :=
  match f.getOpt? name with
  | none => .error .noSuchOption
  | some o =>
    if o.multi then do
      let l : List Scalar := match value with
        | .many l => l
        | .one v => [v]
        | .dflt (.list l) => l
        | .dflt (.scalar v) => [v]
      let l' ← convList cv o.ty o.nullable l
      return { a with opts := dictSet o.long (.list l') a.opts }
    else if o.accepts then
      match value with
      | .one v => do
        let v' ← conv cv o.ty o.nullable v
        return { a with opts := dictSet o.long (.scalar v') a.opts }
      | .dflt (.scalar v) => do
        let v' ← conv cv o.ty o.nullable v
        return { a with opts := dictSet o.long (.scalar v') a.opts }
      | .dflt (.list _) => .error (.other "list-default-for-single-option")
      | .many _ => .error (.other "list-value-for-single-option")
    else
      match value with
      | .one (.bool false) => .ok { a with opts := dictDel o.long a.opts }
      | _ => .ok { a with opts := dictSet o.long (.scalar (.bool true)) a.opts }

def storeArgs (cv : Conv) (f : Fmt) : List (ArgKey × RawArg) → Args → Except Err Args
  | [], a => .ok a
  | (.pseudo _, _) :: r, a => storeArgs cv f r a           -- `fmt.has_argument(name)` is false
  | (.real n, v) :: r, a =>
    if (f.getArg? n).isSome then do
      let a' ← setArgument cv f n v a
      storeArgs cv f r a'
    else storeArgs cv f r a

def storeOpts (cv : Conv) (f : Fmt) : List (Str × RawOpt) → Args → Except Err Args
  | [], a => .ok a
  | (n, v) :: r, a =>
    if f.hasOpt n then do
      let a' ← setOption cv f n v a
      storeOpts cv f r a'
    else storeOpts cv f r a

/-- the required arguments of `_fmt` that received no value -/
def missingArgs (f : Fmt) (σ : St) : List FArg :=
  f.fargs.filter fun a => !(dictHas a.key σ.args) && a.required

/-- `try: self._parse(...) except (CannotParseArgsException, NoSuchOptionException): if not lenient: raise` -/
def afterLoop (lenient : Bool) (r : PR St) : Except Err St :=
  match r with
  | .ok σ => .ok σ
  | .error (e, σ) =>
    if (e == .cannotParse || e == .noSuchOption) && lenient then .ok σ else .error e

def stateOf (r : PR St) : St :=
  match r with
  | .ok σ => σ
  | .error (_, σ) => σ

/-- the rest of `parse()` after the token loop: re-alignment against omitted command names,
validation, conversion and storing -/
def finish (cv : Conv) (f : Fmt) (lenient : Bool) (σ1 : St) : Except Err Args × St :=
  match insertMissing f lenient σ1 with
  | .error e => (.error e, σ1)
  | .ok σ2 =>
    if !(missingArgs f σ2).isEmpty && !lenient then (.error .cannotParse, σ2)
    else
      let res := do
        let a ← storeArgs cv f σ2.args { args := [], opts := [] }
        storeOpts cv f σ2.opts a
      (res, σ2)

/-- `DefaultArgsParser.parse` on a parser object whose scratch dictionaries hold `prev` (left
there by an earlier parse; C05).  `ra` / `ro` say whether `parse()` re-initialises
`self._arguments` / `self._options` first. -/
def parseFromR (ra ro : Bool) (prev : St) (cv : Conv) (f : Fmt) (lenient : Bool) (tokens : List Str) :
    Except Err Args × St :=
  let σ0 : St := { args := if ra then [] else prev.args, opts := if ro then [] else prev.opts }
  let r := loop f lenient (tokens.length + 1) tokens true σ0
  match afterLoop lenient r with
  | .error e => (.error e, stateOf r)
  | .ok σ1 => finish cv f lenient σ1

/-- what the code does: the two flags are read from the current source (Gen/C05.lean) -/
def parseFrom (prev : St) (cv : Conv) (f : Fmt) (lenient : Bool) (tokens : List Str) :
    Except Err Args × St :=
  parseFromR Gen.C05.resetsArguments Gen.C05.resetsOptions prev cv f lenient tokens

/-- a parse by a fresh parser object -/
def parse (cv : Conv) (f : Fmt) (lenient : Bool) (tokens : List Str) : Except Err Args :=
  (parseFrom St.empty cv f lenient tokens).1

/-! ## Reading an `Args` -/

/-- `Args.option(name)` -/
def Args.option (f : Fmt) (a : Args) (name : Str) : Except Err PyVal :=
  match f.getOpt? name with
  | none => .error .noSuchOption
  | some o =>
    match dictGet? o.long a.opts with
    | some v => .ok v
    | none => .ok (if o.accepts then o.default else .scalar (.bool false))

/-- `Args.options(include_defaults)` as (name, value) pairs in dictionary order -/
def Args.options (f : Fmt) (a : Args) (includeDefaults : Bool) : List (Str × PyVal) :=
  if includeDefaults then
    f.opts.foldl (fun d o =>
      if dictHas o.long d then d
      else dictSet o.long (if o.accepts then o.default else .scalar (.bool false)) d) a.opts
  else a.opts

/-- `Args.argument(name)` -/
def Args.argument (f : Fmt) (a : Args) (name : Str) : Except Err PyVal :=
  match f.getArg? name with
  | none => .error .noSuchArgument
  | some arg =>
    match dictGet? arg.name a.args with
    | some v => .ok v
    | none => .ok arg.default

/-- `Args.argument(i)` for a position -/
def Args.argumentAt (f : Fmt) (a : Args) (i : Nat) : Except Err PyVal :=
  match f.args[i]? with
  | none => .error .noSuchArgument
  | some arg =>
    match dictGet? arg.name a.args with
    | some v => .ok v
    | none => .ok arg.default

/-- `Args.arguments(include_defaults)` -/
def Args.arguments (f : Fmt) (a : Args) (includeDefaults : Bool) : List (Str × PyVal) :=
  f.args.filterMap fun arg =>
    match dictGet? arg.name a.args with
    | some v => some (arg.name, v)
    | none => if includeDefaults then some (arg.name, arg.default) else none

/-! ## Well-formedness of a flattened format, executable (the driver evaluates it on every format
read from the real builder; `Lemmas/Realign.lean` proves it equivalent to the hypotheses of the
re-alignment theorems) -/

/-- a multi-valued argument stands in the last position only -/
def multiLastB : List FArg → Bool
  | [] => true
  | [_] => true
  | a :: b :: r => !a.multi && multiLastB (b :: r)

/-- the argument keys are distinct -/
def nodupKeysB : List FArg → Bool
  | [] => true
  | a :: r => !(r.any fun b => b.key == a.key) && nodupKeysB r

end Clikit.Parser
