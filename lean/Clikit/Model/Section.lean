import Clikit.Model.Term
/-!
C15 - `SectionOutput` (src/clikit/api/io/section_output.py) as it is in /repo now
(D12 and D16 repaired).

All sections of one `Output` share the list `Output._section_outputs`; a new section is
inserted at the FRONT, so the list is newest-first.  A section keeps `_content` (its logical
lines, each followed by a `"\n"` item - here just the list of lines) and `_lines`, the number
of screen rows it believes to occupy (`rows`).

Scope, by construction of the types: content is a list of newline-free lines of plain
characters - no style tags (the formatter is then the identity), no tabs (`_count_rows`
counts a tab as 8 blanks), indentation 0.  The width is `Terminal().width` (`COLUMNS`), `w ≥ 1`
in every theorem (`w = 0` is a `ZeroDivisionError` in `_count_rows`).
-/
namespace Clikit.Section
open Clikit.Term

structure Sec where
  content : List Str
  rows : Nat
  deriving Repr, DecidableEq

/-- The operations; `i` is the creation index of the section object (0 = created first). -/
inductive Op where
  | create                                   -- `output.section()`
  | write (i : Nat) (lines : List Str)       -- `s.write_line("\n".join(lines))`
  | overwrite (i : Nat) (lines : List Str)   -- `s.overwrite("\n".join(lines))`
  | clear (i : Nat)                          -- `s.clear()`
  | clearN (i : Nat) (n : Nat)               -- `s.clear(n)`
  deriving Repr, DecidableEq

/-- `math.ceil(len(line) / width) or 1` -/
def countRows (w : Nat) (l : Str) : Nat :=
  let c := (l.length + w - 1) / w
  if c = 0 then 1 else c

/-- `"\n".join(lines).split("\n")`: the empty join is one empty line. -/
def normLines : List Str → List Str
  | [] => [[]]
  | ls => ls

def split3 {α : Type} : Nat → List α → Option (List α × α × List α)
  | _, [] => none
  | 0, x :: r => some ([], x, r)
  | p + 1, x :: r =>
    match split3 p r with
    | some (a, s, b) => some (x :: a, s, b)
    | none => none

/-- The sections NEWER than section `i` (they precede it in the shared list), the section, and
the older ones. -/
def locate (secs : List Sec) (i : Nat) : Option (List Sec × Sec × List Sec) :=
  if i < secs.length then split3 (secs.length - 1 - i) secs else none

/-- `_pop_stream_content_until_current_section(extra)`: the control codes … -/
def popCmds (newer : List Sec) (extra : Nat) : List Cmd :=
  let n := extra + (newer.map (·.rows)).sum
  if n > 0 then [.up n, .eraseBelow] else []

/-- … and the erased content, `"".join(reversed(erased_content))`, written back afterwards. -/
def reprint (newer : List Sec) : List Cmd :=
  ((newer.map (·.content)).reverse.flatten).map .print

/-- `write` on an ANSI output: pop, `add_content`, the text with a newline, the erased content. -/
def writeSec (w : Nat) (newer : List Sec) (s : Sec) (lines : List Str) : Sec × List Cmd :=
  let ls := normLines lines
  ({ content := s.content ++ ls, rows := s.rows + (ls.map (countRows w)).sum },
   popCmds newer 0 ++ ls.map .print ++ reprint newer)

/-- `clear(lines)` on an ANSI output; `n = 0` stands for `clear()`, `clear(None)` and `clear(0)`
(`if lines:`).  Nothing happens when the content is empty.  `clear(n)` slices
`_content[-(2n):]`, i.e. the last `n` lines or all of them when there are fewer. -/
def clearSec (w : Nat) (newer : List Sec) (s : Sec) (n : Nat) : Sec × List Cmd :=
  if s.content.isEmpty then (s, [])
  else
    let keep := s.content.length - n
    let kept := if n = 0 then [] else s.content.take keep
    let gone := if n = 0 then s.rows else ((s.content.drop keep).map (countRows w)).sum
    ({ content := kept, rows := s.rows - gone }, popCmds newer gone ++ reprint newer)

/-- `overwrite`: `self.clear(); self.write_line(message)` -/
def overwriteSec (w : Nat) (newer : List Sec) (s : Sec) (lines : List Str) : Sec × List Cmd :=
  let r1 := clearSec w newer s 0
  let r2 := writeSec w newer r1.1 lines
  (r2.1, r1.2 ++ r2.2)

/-- Apply a method to section `i`.  An index that names no section is not expressible in
Python (there is no such object); the state is left alone. -/
def modify (secs : List Sec) (i : Nat) (f : List Sec → Sec → Sec × List Cmd) :
    List Sec × List Cmd :=
  match locate secs i with
  | none => (secs, [])
  | some (a, s, b) => let r := f a s; (a ++ r.1 :: b, r.2)

/-- One operation: new state and what is written to the stream.  On an output without ANSI
support `write` falls through to `Output.write` (text plus newline, nothing recorded) and
`clear` returns at once. -/
def step (ansi : Bool) (w : Nat) (secs : List Sec) : Op → List Sec × List Cmd
  | .create => ({ content := [], rows := 0 } :: secs, [])
  | .write i ls =>
    if ansi then modify secs i (fun a s => writeSec w a s ls)
    else if i < secs.length then (secs, (normLines ls).map .print) else (secs, [])
  | .overwrite i ls =>
    if ansi then modify secs i (fun a s => overwriteSec w a s ls)
    else if i < secs.length then (secs, (normLines ls).map .print) else (secs, [])
  | .clear i => if ansi then modify secs i (fun a s => clearSec w a s 0) else (secs, [])
  | .clearN i n => if ansi then modify secs i (fun a s => clearSec w a s n) else (secs, [])

/-- A history: final state and everything written. -/
def run (ansi : Bool) (w : Nat) : List Sec → List Op → List Sec × List Cmd
  | secs, [] => (secs, [])
  | secs, op :: r =>
    let r1 := step ansi w secs op
    let r2 := run ansi w r1.1 r
    (r2.1, r1.2 ++ r2.2)

/-- The same history op by op (what the driver answers). -/
def trace (ansi : Bool) (w : Nat) : List Sec → List Op → List (List Cmd × List Sec)
  | _, [] => []
  | secs, op :: r =>
    let r1 := step ansi w secs op
    (r1.2, r1.1) :: trace ansi w r1.1 r

/-- Is every index of the history the index of a section created before? -/
def validOps : Nat → List Op → Bool
  | _, [] => true
  | k, .create :: r => validOps (k + 1) r
  | k, .write i _ :: r => decide (i < k) && validOps k r
  | k, .overwrite i _ :: r => decide (i < k) && validOps k r
  | k, .clear i :: r => decide (i < k) && validOps k r
  | k, .clearN i _ :: r => decide (i < k) && validOps k r

/-! ### what the property demands (declarative side of the theorems) -/

/-- The screen rows a list of logical lines occupies at width `w`. -/
def linesRows (w : Nat) (c : List Str) : List Str := c.flatMap (chunk w)

/-- The contents of all sections in CREATION order (the list is newest-first), as screen rows. -/
def stacked (w : Nat) (secs : List Sec) : List Str :=
  secs.reverse.flatMap (fun s => linesRows w s.content)

/-- The row counter of a section is exact. -/
def Good (w : Nat) (s : Sec) : Prop := s.rows = (linesRows w s.content).length

/-- `l[i] := f l[i]`, nothing when there is no `l[i]`. -/
def updAt {α : Type} (f : α → α) : Nat → List α → List α
  | _, [] => []
  | 0, x :: r => f x :: r
  | i + 1, x :: r => x :: updAt f i r

/-- What the operations ask for, on the contents in CREATION order: `write` appends the lines,
`overwrite` replaces everything, `clear` empties, `clear(n)` drops the last `n` lines (`0`: all). -/
def specStep (st : List (List Str)) : Op → List (List Str)
  | .create => st ++ [[]]
  | .write i ls => updAt (fun c => c ++ normLines ls) i st
  | .overwrite i ls => updAt (fun _ => normLines ls) i st
  | .clear i => updAt (fun _ => []) i st
  | .clearN i n => updAt (fun c => if n = 0 then [] else c.take (c.length - n)) i st

/-- The lines a history appends to an output without ANSI support (`k` sections exist). -/
def plainLines : Nat → List Op → List Str
  | _, [] => []
  | k, .create :: r => plainLines (k + 1) r
  | k, .write i ls :: r => (if i < k then normLines ls else []) ++ plainLines k r
  | k, .overwrite i ls :: r => (if i < k then normLines ls else []) ++ plainLines k r
  | k, .clear _ :: r => plainLines k r
  | k, .clearN _ _ :: r => plainLines k r

/-- The lines an operation asks to write. -/
def opLines : Op → List Str
  | .write _ ls => normLines ls
  | .overwrite _ ls => normLines ls
  | _ => []

/-! ### deciders for the hypotheses of the byte-level theorems (Props/C15 `wf_decides`)

Executable versions of `TextOk` / `OpOk` (Lemmas/Section.lean) and of `1 ≤ w`: the driver evaluates
them on every generated history (`wf` of entry `c15.run`), the harness compares with `true`. -/

/-- a written line is text: no newline inside, no ESC -/
def textOkB (l : Str) : Bool := !(l.contains '\n') && !(l.contains ESC)

def opOkB : Op → Bool
  | .write _ ls => ls.all textOkB
  | .overwrite _ ls => ls.all textOkB
  | _ => true

/-- the hypotheses of `stream_refines`: a usable width and text lines only -/
def wfB (w : Nat) (ops : List Op) : Bool := decide (1 ≤ w) && ops.all opOkB

/-- the start situation of `screen_refines`: the cursor is on the row after the last row shown -/
def anchoredB (scr : Screen) : Bool := scr.cur == scr.rows.length

end Clikit.Section
