import Clikit.Base
import Clikit.Gen.Consts
import Clikit.Gen.C20
/-!
C20 - the error-trace renderer (`src/clikit/ui/components/exception_trace.py`).

* `Highlighter.split_to_lines`  → `splitToLines`: a fold over an INPUT token stream.  The
  tokenizer (`tokenize.tokenize` on the raw source) is external (DESIGN 3.5): its output -
  or its failure - is a parameter of the model.  Every emitted piece goes through
  `Highlighter._highlight` (`renderSeg`): `<` is escaped, the text is never read as markup.
* `Highlighter.line_numbers` / `code_snippet` → `numberLines`, `lineNumbers`, `codeSnippet`.
* `ExceptionTrace._render_trace` frame filter → `filterFrames`; recursion folding is
  crashtest's `FrameCollection.compact`: a parameter of `renderTrace` (an executable port,
  `compact`, is what the driver passes; it is compared, nothing is proved about it).
* `ExceptionTrace.render` → `renderMarkup` (the strings handed to the formatter, indentation
  of `Output.write` included) and `render fmt` (the formatter `fmt` may fail: pastel raises
  `ValueError` on a closing tag that does not match).

The style strings and the window sizes come from `Gen/C20.lean`, regenerated from the source.
-/
namespace Clikit.Trace
open Clikit Clikit.Gen

/-! ## strings -/

def lit (x : String) : Str := x.toList
def natStr (n : Nat) : Str := (toString n).toList
def intStr (n : Int) : Str := (toString n).toList
def spaces (n : Nat) : Str := List.replicate n ' '

/-- `"{:>{}}".format(s, w)` -/
def rjust (w : Nat) (s : Str) : Str := spaces (w - s.length) ++ s

/-- `text.replace("<", "\\<")` (`ExceptionTrace._escape`, the D9 repair) -/
def escape : Str → Str
  | [] => []
  | c :: r => if c = '<' then '\\' :: '<' :: escape r else c :: escape r

/-- `text.replace("\\<", "<")`: what pastel does last to everything it prints -/
def unescape : Str → Str
  | [] => []
  | [c] => [c]
  | c :: d :: r => if c = '\\' ∧ d = '<' then '<' :: unescape r else c :: unescape (d :: r)

/-- `s.split(sep)` for a one-character separator -/
def splitOn (sep : Char) : Str → List Str
  | [] => [[]]
  | c :: r =>
    if c = sep then [] :: splitOn sep r
    else match splitOn sep r with
      | [] => [[c]]
      | h :: t => (c :: h) :: t

/-- `"\n".join(parts)` -/
def joinNL : List Str → Str
  | [] => []
  | [x] => x
  | x :: y :: r => x ++ '\n' :: joinNL (y :: r)

/-- `message.replace("\n", "\n  ")` -/
def replaceNL : Str → Str
  | [] => []
  | c :: r => if c = '\n' then '\n' :: ' ' :: ' ' :: replaceNL r else c :: replaceNL r

/-- the indentation `Output.write` applies: every non-empty piece between newlines -/
def indentStr (n : Nat) (s : Str) : Str :=
  if n = 0 then s
  else joinNL ((splitOn '\n' s).map fun p => if p.isEmpty then p else spaces n ++ p)

/-- `buffer.rstrip("\n")` -/
def rstripNL (s : Str) : Str := (s.reverse.dropWhile (· == '\n')).reverse

/-- `s[a:b]` for `0 ≤ a`, `0 ≤ b` -/
def slice {α : Type} (s : List α) (a b : Nat) : List α := (s.drop a).take (b - a)

/-- `"<{}>{}</>".format(style, text)` -/
def wrap (style text : Str) : Str := '<' :: style ++ '>' :: text ++ ['<', '/', '>']

/-! ## tokens (the tokenizer's output is input data) -/

/-- the `tokenize` token types the highlighter tells apart -/
inductive Kind where
  | str | num | comment | op | newline | endmarker | other
  deriving DecidableEq, Repr, Inhabited

/-- `TokenInfo(type, string, start, end, line)` -/
structure Tok where
  kind : Kind
  text : Str
  srow : Nat
  scol : Nat
  erow : Nat
  ecol : Nat
  line : Str
  deriving Repr, Inhabited

inductive Theme where
  | dflt | comment | str | num | keyword | builtin | op
  deriving DecidableEq, Repr, Inhabited

def Theme.style : Theme → Str
  | .dflt => C20.tokenDefault
  | .comment => C20.tokenComment
  | .str => C20.tokenString
  | .num => C20.tokenNumber
  | .keyword => C20.tokenKeyword
  | .builtin => C20.tokenBuiltin
  | .op => C20.tokenOp

/-- one piece appended to `line` by `Highlighter._highlight(token_type, text)`; the type is
`none` while nothing has been tokenized yet -/
abbrev Seg := Option Theme × Str
/-- a highlighted line = the pieces appended to `line` so far -/
abbrev HLine := List Seg

/-- `Highlighter._highlight`: the text as it is without a type, otherwise
`"<{theme}>{text with every '<' escaped}</>"` (the source is text, not markup) -/
def renderSeg : Seg → Str
  | (none, t) => t
  | (some th, t) => wrap th.style (escape t)
/-- the string `split_to_lines` returns for the line -/
def renderHL (l : HLine) : Str := l.flatMap renderSeg
/-- the same line with the `<style>` / `</>` tags stripped and `\<` un-escaped -/
def plainHL (l : HLine) : Str := l.flatMap (·.2)

/-- `keyword.kwlist` and the names of `__builtins__` of the running interpreter -/
structure Env where
  keywords : List Str
  builtins : List Str

/-- the `if token_string in self.KEYWORDS … else` chain; `none` = `continue` (NEWLINE) -/
def classify (env : Env) (t : Tok) : Option Theme :=
  if env.keywords.contains t.text then some .keyword
  else if env.builtins.contains t.text || t.text == lit "self" then some .builtin
  else match t.kind with
    | .str => some .str
    | .num => some .num
    | .comment => some .comment
    | .op => some .op
    | .newline => none
    | _ => some .dflt

/-- the local variables of `split_to_lines` -/
structure St where
  lines : List HLine
  line : HLine
  buffer : Str
  curType : Option Theme
  curLine : Nat
  curCol : Nat
  deriving Inhabited

def St.init : St := { lines := [], line := [], buffer := [], curType := none, curLine := 1, curCol := 0 }

/-- the `if lineno > current_line:` block -/
def rowChange (st : St) (t : Tok) : St :=
  if t.srow > st.curLine then
    { st with
      lines := st.lines ++ List.replicate (t.srow - st.curLine - 1) [] ++ [st.line ++ [(st.curType, rstripNL st.buffer)]]
      line := [], curLine := t.srow, curCol := 0, buffer := [] }
  else st

/-- the part of the loop body after the token's class is known -/
def absorb (st : St) (t : Tok) (newTy : Theme) : St :=
  let curTy := st.curType.getD newTy
  let buf := if t.scol > st.curCol then st.buffer ++ slice t.line st.curCol t.scol else st.buffer
  let line := if curTy != newTy then st.line ++ [(some curTy, buf)] else st.line
  let buf := if curTy != newTy then [] else buf
  if t.srow < t.erow then
    -- the token spans several lines
    let tl := splitOn '\n' t.text
    { lines := st.lines ++ [line] ++ ((tl.drop 1).dropLast.map fun l => [(some newTy, l)])
      line := [], buffer := (tl.getLastD []).take t.ecol, curType := some newTy
      curLine := t.erow, curCol := st.curCol }
  else
    { lines := st.lines, line := line, buffer := buf ++ t.text, curType := some newTy
      curLine := t.srow, curCol := t.ecol }

/-- the `for token_info in tokens:` loop -/
def splitGo (env : Env) : St → List Tok → List HLine
  | st, [] => st.lines
  | st, t :: ts =>
    if t.srow = 0 then splitGo env st ts                       -- encoding line
    else if t.kind = .endmarker then st.lines ++ [st.line ++ [(st.curType, st.buffer)]]
    else
      match classify env t with
      | none => splitGo env (rowChange st t) ts                -- NEWLINE: `continue`
      | some newTy => splitGo env (absorb (rowChange st t) t newTy) ts

/-- `Highlighter.split_to_lines`, given what the tokenizer produced.  Total: every theme
lookup is guarded (`_highlight` returns the text as it is while the type is `None`). -/
def splitToLines (env : Env) (toks : List Tok) : List HLine := splitGo env St.init toks

/-- the strings `highlighted_lines` returns -/
def highlightedLines (env : Env) (toks : List Tok) : List Str :=
  (splitToLines env toks).map renderHL

/-! ## line numbers and the snippet window -/

structure Ui where
  arrow : Str
  delimiter : Str

def ui (utf8 : Bool) : Ui :=
  if utf8 then { arrow := C20.arrowUtf8, delimiter := C20.delimiterUtf8 }
  else { arrow := C20.arrowAscii, delimiter := C20.delimiterAscii }

/-- one numbered line before it is turned into a string -/
structure SnipLine where
  number : Nat
  marked : Bool
  body : Str
  deriving Repr, DecidableEq

/-- `for i, line in enumerate(lines)` with `i + 1 = k` -/
def numberFrom (k mark : Nat) : List Str → List SnipLine
  | [] => []
  | l :: r => { number := k, marked := (mark == k), body := l } :: numberFrom (k + 1) mark r

def numberLines (lines : List Str) (mark : Nat) : List SnipLine := numberFrom 1 mark lines

/-- `max_line_length = max(3, len(str(len(lines))))` -/
def numberWidth (total : Nat) : Nat := max C20.minNumberWidth (natStr total).length

def boldDefault : Str := lit "fg=default;options=bold"

/-- the string `line_numbers` builds for one line -/
def renderSnip (u : Ui) (w : Nat) (l : SnipLine) : Str :=
  (if l.marked then wrap C20.lineMarker u.arrow ++ [' '] else [' ', ' ']) ++
  wrap (if l.marked then boldDefault else C20.lineNumber) (rjust w (natStr l.number)) ++
  wrap C20.lineNumber u.delimiter ++ ' ' :: l.body

/-- `Highlighter.line_numbers(lines, mark_line)`; with `mark_line=None` the variable
`snippet` is never bound -/
def lineNumbers (lines : List Str) (mark : Option Nat) : Except Err (List SnipLine) :=
  match mark, lines with
  | some m, _ => .ok (numberLines lines m)
  | none, [] => .ok []
  | none, _ :: _ => .error (.other "UnboundLocalError")

/-- `offset = max(line - lines_before - 1, 0)` -/
def snippetOffset (line before : Nat) : Nat := (max ((line : Int) - (before : Int) - 1) 0).toNat
/-- `length = lines_after + lines_before + 1` -/
def snippetLength (before after : Nat) : Nat := after + before + 1

/-- `Highlighter.code_snippet` after highlighting: number all lines, cut the window -/
def codeSnippet (hl : List Str) (line before after : Nat) : List SnipLine :=
  ((numberLines hl line).drop (snippetOffset line before)).take (snippetLength before after)

def renderSnippetLines (utf8 : Bool) (hl : List Str) (line before after : Nat) : List Str :=
  (codeSnippet hl line before after).map (renderSnip (ui utf8) (numberWidth hl.length))

/-! ## frames -/

/-- what the renderer reads from a crashtest `Frame` -/
structure Frame where
  /-- `_get_relative_file_path(frame.filename)` (os-dependent, supplied) -/
  file : Str
  /-- `re.match(ignore, frame.filename)` (external `re`, supplied) -/
  ignored : Bool
  lineno : Nat
  func : Str
  /-- the tokenizer's outcome on `frame.file_content` -/
  fileToks : Except Err (List Tok)
  /-- `frame.line.strip()` -/
  lineText : Str
  /-- the tokenizer's outcome on `frame.line.strip()` -/
  lineToks : Except Err (List Tok)

/-- `Frame.__eq__` -/
def Frame.same (a b : Frame) : Bool := a.file == b.file && a.func == b.func && a.lineno == b.lineno

/-- the negation of `self._ignore and re.match(self._ignore, frame.filename) and not io.is_debug()` -/
def keepFrame (ignoreSet debug : Bool) (f : Frame) : Bool := !(ignoreSet && f.ignored && !debug)

def filterFrames (ignoreSet debug : Bool) (fs : List Frame) : List Frame :=
  fs.filter (keepFrame ignoreSet debug)

/-- a crashtest `FrameCollection`: frames + `_count` -/
structure Coll where
  frames : List Frame
  count : Nat

def sameFrames : List Frame → List Frame → Bool
  | [], [] => true
  | a :: r, b :: s => a.same b && sameFrames r s
  | _, _ => false

/-- indices `j ≥ k` of the frames equal to `f` in `fs` (whose first element has index `k`) -/
def dupIndices (f : Frame) (k : Nat) : List Frame → List Nat
  | [] => []
  | g :: r => if g.same f then k :: dupIndices f (k + 1) r else dupIndices f (k + 1) r

/-- executable port of crashtest's `FrameCollection.compact` (compared with the real one by
the correspondence run; external engine - no theorem depends on it).  The `while` loop
advances `i` in every iteration, so `fuel = len + 1` is never exhausted. -/
def compactGo (all : List Frame) : Nat → Nat → List Coll → Coll → List Coll
  | 0, _, colls, cur => colls ++ [cur]
  | fuel + 1, i, colls, cur =>
    if i + 1 < all.length then
      match all[i]? with
      | none => colls ++ [cur]
      | some frame =>
        match dupIndices frame (i + 1) (all.drop (i + 1)) with
        | d0 :: ds =>
          match (d0 :: ds).find? (fun d => sameFrames (slice all i d) cur.frames) with
          | some d => compactGo all fuel d colls { cur with count := cur.count + 1 }
          | none => compactGo all fuel d0 (colls ++ [cur]) { frames := slice all i d0, count := 0 }
        | [] =>
          let colls' := if cur.count > 1 then colls ++ [cur] else colls
          let cur' : Coll := if cur.count > 1 then { frames := [], count := 0 } else cur
          compactGo all fuel (i + 1) colls' { cur' with frames := cur'.frames ++ [frame] }
    else colls ++ [cur]

def compact (all : List Frame) : List Coll := compactGo all (all.length + 1) 0 [] { frames := [], count := 0 }

/-! ## rendering -/

/-- `_render_line(io, line, new_line, indent)` at io indentation `ioIndent` -/
def renderLine (ioIndent : Nat) (line : Str) (newLine : Bool := false) (indent : Nat := 0) : List Str :=
  (if newLine then [[]] else []) ++ [indentStr ioIndent (spaces indent ++ line)]

/-- `code_snippet(frame.file_content, frame.lineno, before, after)` for a frame -/
def frameSnippet (env : Env) (utf8 : Bool) (f : Frame) (before after : Nat) : Except Err (List Str) := do
  let toks ← f.fileToks
  return renderSnippetLines utf8 (highlightedLines env toks) f.lineno before after

/-- the `try: highlighted_lines(frame.line.strip())[0] except tokenize.TokenError:` of the
verbose frame list -/
def frameCodeLine (env : Env) (f : Frame) : Except Err Str :=
  match f.lineToks with
  | .error (.other "TokenError") => .ok f.lineText
  | .error e => .error e
  | .ok toks =>
    match highlightedLines env toks with
    | [] => .error (.other "IndexError")
    | l :: _ => .ok l

/-- the frame header `N  file:line in function` -/
def frameHeader (i : Int) (w : Nat) (f : Frame) : Str :=
  wrap (lit "fg=yellow") (rjust w (intStr i)) ++ lit "  " ++ wrap boldDefault f.file ++ lit ":<b>" ++
    natStr f.lineno ++ lit "</b> in " ++ wrap (lit "fg=cyan") f.func

/-- the body of `for frame in collection:`; returns the lines and the next `i` -/
def renderFrames (env : Env) (utf8 debug : Bool) (w : Nat) : Int → List Frame → Except Err (List Str × Int)
  | i, [] => .ok ([], i)
  | i, f :: fs => do
    let head := renderLine 2 (frameHeader i w f) true
    let code ←
      if debug then do
        let sn ← frameSnippet env utf8 f C20.defaultBefore C20.defaultAfter
        pure (sn.flatMap fun cl => renderLine 2 (spaces w ++ cl) false 1)
      else do
        let cl ← frameCodeLine env f
        pure (renderLine 2 (spaces w ++ lit "  " ++ cl))
    let (rest, j) ← renderFrames env utf8 debug w (i - 1) fs
    return (head ++ code ++ rest, j)

/-- the `Previous frame(s) repeated N times` line -/
def repeatedLine (w : Nat) (c : Coll) : Str :=
  wrap (lit "fg=blue") (rjust w (lit "...")) ++ lit "  Previous " ++
    (if c.frames.length > 1 then wrap (lit "fg=yellow") (natStr c.frames.length) ++ lit " frames" else lit "frame") ++
    lit " repeated " ++ wrap (lit "fg=blue") (natStr (c.count - 1)) ++ lit " times"

/-- `i -= len(collection) * collection.repetitions + len(collection)` for a repeated collection -/
def collStart (i : Int) (c : Coll) : Int :=
  if c.count > 1 then i - ((c.frames.length * (c.count - 1) + c.frames.length : Nat) : Int) else i

/-- the body of `for collection in frame_collections:` -/
def renderColls (env : Env) (utf8 debug : Bool) (w : Nat) : Int → List Coll → Except Err (List Str)
  | _, [] => .ok []
  | i, c :: cs => do
    let rep := if c.count > 1 then renderLine 2 (repeatedLine w c) true else []
    let (fr, j) ← renderFrames env utf8 debug w (collStart i c) c.frames
    let rest ← renderColls env utf8 debug w j cs
    return rep ++ fr ++ rest

/-- `ExceptionTrace._render_trace`; `compactF` is crashtest's `FrameCollection.compact` -/
def renderTrace (env : Env) (compactF : List Frame → List Coll) (utf8 : Bool) (verbosity : Nat)
    (ignoreSet : Bool) (frames : List Frame) : Except Err (List Str) :=
  let debug := verbosity == IOFlags.DEBUG
  let stack := filterFrames ignoreSet debug frames
  let remaining : Int := (stack.length : Int) - 1
  if verbosity ≥ IOFlags.VERBOSE ∧ remaining ≠ 0 then do
    let w := (intStr remaining).length
    let body ← renderColls env utf8 debug w remaining (compactF stack)
    return renderLine 2 (wrap (lit "fg=yellow") (lit "Stack trace") ++ [':']) true ++ body
  else .ok []

/-- the two lines that carry the class name and the message -/
def nameLine (name : Str) : Str := indentStr 2 (lit "<error>" ++ name ++ lit "</error>")
def messageLine (msg : Str) : Str := indentStr 2 (lit "<b>" ++ replaceNL (escape msg) ++ lit "</b>")

/-- `_render_snippet` -/
def renderSnippet (env : Env) (utf8 : Bool) (f : Frame) : Except Err (List Str) := do
  let sn ← frameSnippet env utf8 f C20.snippetBefore C20.snippetAfter
  return renderLine 2 (lit "at " ++ wrap (lit "fg=green") f.file ++ lit ":<b>" ++ natStr f.lineno ++
      lit "</b> in " ++ wrap (lit "fg=cyan") f.func) true
    ++ sn.flatMap fun cl => renderLine 4 cl

/-- `ExceptionTrace._render_exception` (no solution provider): the strings handed to
`io.write_line`, with the indentation `Output.write` adds.  An exception that was never
raised has no frames and renders nothing. -/
def renderException (env : Env) (compactF : List Frame → List Coll) (utf8 : Bool) (verbosity : Nat)
    (ignoreSet : Bool) (name msg : Str) (frames : List Frame) : Except Err (List Str) :=
  match frames.getLast? with
  | none => .ok []
  | some cur => do
    let tr ← renderTrace env compactF utf8 verbosity ignoreSet frames
    let sn ← renderSnippet env utf8 cur
    return tr ++ [[], nameLine name, [], messageLine msg] ++ sn

/-- the line of simple mode -/
def simpleLine (msg : Str) : Str := lit "<error>" ++ escape msg ++ lit "</error>"

/-- everything `render` hands to the formatter, in order -/
def renderMarkup (env : Env) (compactF : List Frame → List Coll) (simple utf8 : Bool) (verbosity : Nat)
    (ignoreSet : Bool) (name msg : Str) (frames : List Frame) : Except Err (List Str) :=
  if simple then .ok [simpleLine msg]
  else renderException env compactF utf8 verbosity ignoreSet name msg frames

/-- `ExceptionTrace.render(io, simple)`: every line goes through the output's formatter
`fmt` (pastel), which may raise. -/
def render (fmt : Str → Except Err Str) (env : Env) (compactF : List Frame → List Coll) (simple utf8 : Bool)
    (verbosity : Nat) (ignoreSet : Bool) (name msg : Str) (frames : List Frame) : Except Err (List Str) := do
  let ls ← renderMarkup env compactF simple utf8 verbosity ignoreSet name msg frames
  ls.mapM fmt

/-! ## deciders for the hypotheses of the theorems (Props/C20)

The theorems of Props/C20 assume facts about what the external engines delivered: the tokenizer
contract `WF` (`lines_verbatim`), "the tokenizer produced a stream for every frame's file and a
complete stream or `TokenError` for every frame's line" (`render_fails_iff`).  They are decided
here on the REAL tokenizer output of every correspondence case (driver keys `contract`,
`frames_ok`). -/

/-- the physical line of row `r` as the tokenizer reports it: the `line` attribute of the first
token that starts on the row (`[]` when there is none) -/
def physOf (toks : List Tok) (r : Nat) : Str :=
  match toks.find? (fun t => t.srow == r) with
  | some t => t.line
  | none => []

/-- decides the tokenizer contract `WF` of `lines_verbatim` (Lemmas/TraceVerbatim), clause by clause -/
def wfB (env : Env) (phys : Nat → Str) : Nat → Nat → List Tok → Bool
  | _, _, [] => true
  | row, col, t :: ts =>
    if t.srow = 0 then wfB env phys row col ts
    else if t.kind = .endmarker then true
    else
      t.erow == t.srow && t.line == phys t.srow && decide (t.scol ≤ t.ecol) &&
      t.text == slice t.line t.scol t.ecol &&
      ((t.srow == row && decide (col ≤ t.scol)) || t.srow == row + 1) &&
      !((phys t.srow).take t.scol).contains '\n' &&
      match classify env t with
      | none => wfB env phys t.srow (if t.srow > row then 0 else col) ts
      | some _ => wfB env phys t.srow t.ecol ts

/-- a token (before the ENDMARKER) spans several rows: the stream is outside `lines_verbatim` -/
def multiB : List Tok → Bool
  | [] => false
  | t :: ts =>
    if t.srow = 0 then multiB ts
    else if t.kind = .endmarker then false
    else decide (t.srow < t.erow) || multiB ts

/-- the status of a token stream with respect to `lines_verbatim`: `wf` (the hypothesis holds),
`multi` (a multi-line token: the theorem does not speak about the stream), `violated` (single-line
tokens only, and the tokenizer does not behave as the hypothesis says) -/
def contractStatus (env : Env) (toks : List Tok) : String :=
  if wfB env (physOf toks) 1 0 toks then "wf" else if multiB toks then "multi" else "violated"

/-- the stream ends with an ENDMARKER token -/
def hasEndB (toks : List Tok) : Bool := toks.any (fun t => t.srow != 0 && t.kind == .endmarker)

/-- the tokenizer produced a stream for the frame's file -/
def fileOkB (f : Frame) : Bool :=
  match f.fileToks with
  | .ok _ => true
  | .error _ => false

/-- the tokenizer's outcome on the frame's line is a complete stream or `TokenError` -/
def lineOkB (f : Frame) : Bool :=
  match f.lineToks with
  | .error e => e == .other "TokenError"
  | .ok toks => hasEndB toks

/-- decides the hypothesis `∀ f ∈ frames, FileOk f ∧ LineOk f` of `render_fails_iff` -/
def framesOkB (fs : List Frame) : Bool := fs.all (fun f => fileOkB f && lineOkB f)

end Clikit.Trace
