import Clikit.Base
import Clikit.Gen.C08
/-!
# C08 - model of `clikit.args.token_parser.TokenParser` and of the raw-args kinds

`TokenParser` is a scanner with one character of look-ahead: its state is
`(_string, _cursor, _current, _next_)` with the invariant `_current = _string[_cursor]`,
`_next_ = _string[_cursor + 1]` (`None` past the end).  `Cursor` below is that state
literally, with `_next()` as `Cursor.next`.  The scanner is written twice:

* `pqC` / `ptokC` / `toksC` / `tokenizeC` follow the methods `_parse_quoted_string`,
  `_parse_token`, `_parse`, `parse` on the object state, statement by statement (this is
  what the driver runs and the correspondence compares with the real class);
* `pq` / `ptok` / `toks` / `tokenize` work on the *remaining text* `_string[_cursor:]`
  (head = `_current`, second element = `_next_`, `_next()` = drop one character, a no-op at
  the end) - the form the theorems are proved about.

`tokenizeC_eq` (Lemmas, via `pqC_sim`, `ptokC_sim`, `toksC_sim`) proves that the two agree
for every string and every fuel.

The `while self._is_valid(): ...` loops are recursive functions that return the text
produced by the rest of the loop, indexed by fuel (DESIGN 3.6): the functions are
structurally recursive on the fuel and answer `.error .outOfFuel` when it is used up;
`tokenize` supplies `|s| + 1`.  That this is always enough - Python's loops terminate - is
theorem `tokenize_total`, not something the definitions make true by construction.

The model follows the code as it is after the repair of D8 (`"\\" + None`): a backslash at
the very end of the string is kept as a backslash.
-/
namespace Clikit.Tokenizer
open Clikit.Gen.C08 (isSpace optionsEnd)

/-! ### the scanner state as the Python object holds it -/

/-- `TokenParser`'s fields. -/
structure Cursor where
  string : Str
  cursor : Nat
  current : Option Char
  next_ : Option Char
  deriving Repr, DecidableEq

/-- state set up by `TokenParser.parse(string)` before it calls `_parse()` -/
def Cursor.init (s : Str) : Cursor :=
  { string := s, cursor := 0
    current := if s.length > 0 then s[0]? else none
    next_ := if s.length > 1 then s[1]? else none }

/-- `_is_valid()` -/
def Cursor.isValid (c : Cursor) : Bool := c.current.isSome

/-- `_next()` -/
def Cursor.next (c : Cursor) : Cursor :=
  if !c.isValid then c
  else
    let cursor := c.cursor + 1
    { string := c.string, cursor := cursor, current := c.next_
      next_ := if cursor + 1 < c.string.length then c.string[cursor + 1]? else none }

/-- the text the scanner still has to read -/
def Cursor.rest (c : Cursor) : Str := c.string.drop c.cursor

/-- the invariant tying `_current`/`_next_` to the cursor -/
def Cursor.WF (c : Cursor) : Prop :=
  c.current = c.string[c.cursor]? ∧ c.next_ = c.string[c.cursor + 1]?

/-! ### the scanner over the remaining text -/

/-- `c in ['"', "'"]` -/
def isQ (c : Char) : Bool := c == '\'' || c == '"'

/-- `_parse_escape_sequence()`, entered with `_current == "\\"`; the argument is the text
after the backslash (its head is `_next_`).  Result: the sequence and the remaining text
after the two `_next()` calls. -/
def esc : Str → Str × Str
  | [] => (['\\'], [])                       -- `_next_ is None`: the backslash itself (repaired D8)
  | c :: r => if isQ c then ([c], r)          -- `\"`, `\'`: the quote
              else (['\\', c], r)             -- `\x`: backslash kept

/-- `_parse_escape_sequence()` on the object state, with its use of the look-ahead `_next_`
and the two `_next()` calls, literally.  `Cursor.escape_eq` (Lemmas) shows that on the
remaining text it is `esc`. -/
def Cursor.escape (c : Cursor) : Str × Cursor :=
  let sequence :=
    match c.next_ with
    | none => ['\\']                                    -- `elif self._next_ is None`
    | some d => if isQ d then [d] else ['\\', d]         -- `in ['"', "'"]` / `"\\" + self._next_`
  (sequence, c.next.next)

/-- `_parse_quoted_string()` after `delimiter = self._current; self._next()`: the loop.
Returns the string and the remaining text. -/
def pq : Nat → Char → Str → Except Err (Str × Str)
  | 0, _, _ => .error .outOfFuel
  | _ + 1, _, [] => .ok ([], [])               -- `while self._is_valid()` ends: unterminated quote
  | n + 1, d, c :: r =>
    if c == d then .ok ([], r)                 -- skip last delimiter, `break`
    else if c == '\\' then
      match pq n d (esc r).2 with
      | .error e => .error e
      | .ok (str, r2) => .ok ((esc r).1 ++ str, r2)
    else if c == '"' then                      -- nested string, re-emitted with its quotes
      match pq n '"' r with
      | .error e => .error e
      | .ok (inner, r1) =>
        match pq n d r1 with
        | .error e => .error e
        | .ok (str, r2) => .ok ('"' :: inner ++ '"' :: str, r2)
    else if c == '\'' then
      match pq n '\'' r with
      | .error e => .error e
      | .ok (inner, r1) =>
        match pq n d r1 with
        | .error e => .error e
        | .ok (str, r2) => .ok ('\'' :: inner ++ '\'' :: str, r2)
    else
      match pq n d r with
      | .error e => .error e
      | .ok (str, r2) => .ok (c :: str, r2)

/-- `_parse_token()`: the token and the remaining text. -/
def ptok : Nat → Str → Except Err (Str × Str)
  | 0, _ => .error .outOfFuel
  | _ + 1, [] => .ok ([], [])
  | n + 1, c :: r =>
    if isSpace c then .ok ([], r)              -- `self._next(); break`
    else if c == '\\' then
      match ptok n (esc r).2 with
      | .error e => .error e
      | .ok (t, r2) => .ok ((esc r).1 ++ t, r2)
    else if isQ c then
      match pq n c r with                      -- `delimiter = c`, first delimiter skipped
      | .error e => .error e
      | .ok (q, r1) =>
        match ptok n r1 with
        | .error e => .error e
        | .ok (t, r2) => .ok (q ++ t, r2)
    else
      match ptok n r with
      | .error e => .error e
      | .ok (t, r2) => .ok (c :: t, r2)

/-- `_parse()`: the list of tokens. -/
def toks : Nat → Str → Except Err (List Str)
  | 0, _ => .error .outOfFuel
  | _ + 1, [] => .ok []
  | n + 1, c :: r =>
    if isSpace c then toks n r                 -- skip spaces, `continue`
    else
      match ptok (n + 1) (c :: r) with         -- `tokens.append(self._parse_token())`
      | .error e => .error e
      | .ok (t, r1) =>
        match toks n r1 with
        | .error e => .error e
        | .ok ts => .ok (t :: ts)

/-- `TokenParser().parse(s)` -/
def tokenize (s : Str) : Except Err (List Str) := toks (s.length + 1) s

/-! ### the same scanner on the object state, method by method -/

/-- `_parse_quoted_string()` on the object state (loop after the first delimiter was skipped) -/
def pqC : Nat → Char → Cursor → Except Err (Str × Cursor)
  | 0, _, _ => .error .outOfFuel
  | n + 1, d, c =>
    match c.current with
    | none => .ok ([], c)
    | some x =>
      if x == d then .ok ([], c.next)
      else if x == '\\' then
        match pqC n d c.escape.2 with
        | .error e => .error e
        | .ok (str, c2) => .ok (c.escape.1 ++ str, c2)
      else if x == '"' then
        match pqC n '"' c.next with
        | .error e => .error e
        | .ok (inner, c1) =>
          match pqC n d c1 with
          | .error e => .error e
          | .ok (str, c2) => .ok ('"' :: inner ++ '"' :: str, c2)
      else if x == '\'' then
        match pqC n '\'' c.next with
        | .error e => .error e
        | .ok (inner, c1) =>
          match pqC n d c1 with
          | .error e => .error e
          | .ok (str, c2) => .ok ('\'' :: inner ++ '\'' :: str, c2)
      else
        match pqC n d c.next with
        | .error e => .error e
        | .ok (str, c2) => .ok (x :: str, c2)

/-- `_parse_token()` on the object state -/
def ptokC : Nat → Cursor → Except Err (Str × Cursor)
  | 0, _ => .error .outOfFuel
  | n + 1, c =>
    match c.current with
    | none => .ok ([], c)
    | some x =>
      if isSpace x then .ok ([], c.next)
      else if x == '\\' then
        match ptokC n c.escape.2 with
        | .error e => .error e
        | .ok (t, c2) => .ok (c.escape.1 ++ t, c2)
      else if isQ x then
        match pqC n x c.next with
        | .error e => .error e
        | .ok (q, c1) =>
          match ptokC n c1 with
          | .error e => .error e
          | .ok (t, c2) => .ok (q ++ t, c2)
      else
        match ptokC n c.next with
        | .error e => .error e
        | .ok (t, c2) => .ok (x :: t, c2)

/-- `_parse()` on the object state -/
def toksC : Nat → Cursor → Except Err (List Str)
  | 0, _ => .error .outOfFuel
  | n + 1, c =>
    match c.current with
    | none => .ok []
    | some x =>
      if isSpace x then toksC n c.next
      else
        match ptokC (n + 1) c with
        | .error e => .error e
        | .ok (t, c1) =>
          match toksC n c1 with
          | .error e => .error e
          | .ok ts => .ok (t :: ts)

/-- `TokenParser().parse(s)` on the object state -/
def tokenizeC (s : Str) : Except Err (List Str) := toksC (s.length + 1) (Cursor.init s)

/-! ### raw args -/

/-- `list(itertools.takewhile(lambda arg: arg != "--", tokens))` - the same expression in
`StringArgs.__init__` and `ArgvArgs.__init__` (the separator is read from the source). -/
def optionTokens (ts : List Str) : List Str := ts.takeWhile (fun t => t != optionsEnd)

/-- what the args parser and the command resolver can observe of a `RawArgs` -/
structure Raw where
  scriptName : Option Str
  tokens : List Str
  optionTokens : List Str
  deriving Repr, DecidableEq

/-- `StringArgs(s)` -/
def stringArgs (s : Str) : Except Err Raw :=
  match tokenizeC s with
  | .error e => .error e
  | .ok ts => .ok { scriptName := none, tokens := ts, optionTokens := optionTokens ts }

/-- `ArgvArgs(argv)` for an explicit list: `argv.pop(0)` raises `IndexError` on `[]`. -/
def argvArgs : List Str → Except Err Raw
  | [] => .error (.other "IndexError")
  | script :: ts => .ok { scriptName := some script, tokens := ts, optionTokens := optionTokens ts }

/-- `has_token` / `has_option_token` -/
def Raw.hasToken (a : Raw) (t : Str) : Bool := a.tokens.contains t
def Raw.hasOptionToken (a : Raw) (t : Str) : Bool := a.optionTokens.contains t

/-! ### the quoting scheme the property speaks about (specification side) -/

/-- escape both quote kinds with a backslash, leave everything else alone -/
def escq : Str → Str
  | [] => []
  | c :: r => if isQ c then '\\' :: c :: escq r else c :: escq r

/-- Exactly what quoting can express: scanning left to right, a backslash takes the next
character with it; that character must exist and must not be a quote. -/
def expressible : Str → Bool
  | [] => true
  | c :: r =>
    if c == '\\' then
      match r with
      | [] => false
      | d :: r' => !isQ d && expressible r'
    else expressible r

/-- a character that needs no quoting: no whitespace, no quote, no backslash -/
def plain (c : Char) : Bool := !isSpace c && !isQ c && !(c == '\\')

/-- text without any quote or backslash -/
def unquoted (s : Str) : Bool := s.all (fun c => !isQ c && !(c == '\\'))

/-- how a token is written down -/
inductive Style where
  | single | double | bare
  deriving Repr, DecidableEq

def Style.render : Style → Str → Str
  | .single, t => '\'' :: (escq t ++ ['\''])
  | .double, t => '"' :: (escq t ++ ['"'])
  | .bare, t => t

/-- which tokens a style can write: quotes need `expressible`, bare words must be
non-empty and plain -/
def Style.admits : Style → Str → Bool
  | .bare, t => !t.isEmpty && t.all plain
  | _, t => expressible t

/-- a token together with the whitespace before it and the way it is written -/
structure Piece where
  sep : Str
  style : Style
  tok : Str
  deriving Repr

/-- the command string: separator, token, separator, token, ... -/
def render : List Piece → Str
  | [] => []
  | p :: ps => p.sep ++ (p.style.render p.tok ++ render ps)

/-- all separators are whitespace and non-empty except possibly the first (`first = true`);
every token is admitted by its style -/
def wfPieces (first : Bool) : List Piece → Bool
  | [] => true
  | p :: ps => p.sep.all isSpace && (first || !p.sep.isEmpty) && p.style.admits p.tok
      && wfPieces false ps

/-- maximal runs of non-whitespace characters (what Python's `s.split()` returns): a
non-whitespace character starts a run that extends over the non-whitespace characters
that follow it -/
def runs : Str → List Str
  | [] => []
  | c :: r =>
    if isSpace c then runs r
    else (c :: r.takeWhile (fun x => !isSpace x)) :: runs (r.dropWhile (fun x => !isSpace x))
termination_by s => s.length
decreasing_by
  · simp
  · have := (List.dropWhile_suffix (l := r) (fun x => !isSpace x)).length_le
    simp only [List.length_cons]; omega

/-! ### the whitespace table, observable

`isSpace` (`Gen/C08.lean`) is generated from `str.isspace` of the interpreter that ran the
generator.  `spacesIn lo n` lists the code points `lo ≤ k < lo + n` the table calls whitespace, so
that the driver can be asked about EVERY code point and compared with the interpreter that runs
the real tokenizer (`c08.spaces`).  Surrogates are not `Char`s (`Char.ofNat` maps them to NUL,
which is not whitespace - neither is a lone surrogate for Python). -/
def spacesIn (lo n : Nat) : List Nat :=
  ((List.range n).map (· + lo)).filter (fun k => isSpace (Char.ofNat k))

end Clikit.Tokenizer
