import Clikit.Model.Spinner
/-!
# What a `ProgressIndicator` is built on (C19)

The constructor takes an `Output` or an `IO`.  Built on an `IO` it DRAWS on the error output of that I/O
(`if isinstance(io, IO): io = io.error_output`), and everything it asks afterwards - ANSI support (which of the two
ways of drawing is used), verbosity and ANSI support again when no format is given (`_determine_best_format`),
quiet - it asks the output it draws on.  The standard output and the error output of an I/O are configured
individually and may differ (`prog > out.txt` on a terminal: plain standard output, ANSI-capable error output).
-/
namespace Clikit.Spinner

/-- what the component can ask an output about: `supports_ansi()`, the verbosity (0 normal, 1 verbose,
2 very verbose, 4 debug), `is_quiet()` -/
structure Caps where
  ansi : Bool
  verbosity : Nat
  quiet : Bool
  deriving Repr, DecidableEq

/-- the constructor argument `io` -/
inductive Built where
  | output (o : Caps)
  | io (std err : Caps)
  deriving Repr, DecidableEq

/-- the output the frames are drawn on -/
def Built.drawn : Built → Caps
  | .output o => o
  | .io _ err => err

/-- `ProgressIndicator.NORMAL` and `NORMAL_NO_ANSI` (compared with the literals read from the source in
`Props.C19.formats_from_source`) -/
def normalFmt : List Seg := [.lit [' '], .indicator, .lit [' '], .message]
def plainFmt : List Seg := [.lit [' '], .message]

def Seg.text : Seg → String
  | .lit s => String.ofList s
  | .indicator => "{indicator}"
  | .message => "{message}"

def fmtText (f : List Seg) : String := String.join (f.map Seg.text)

/-- `_determine_best_format()` asked of the output `o`.  `none`: the verbose formats; they show the elapsed time,
which is outside this model. -/
def bestFormat (o : Caps) : Option (List Seg) :=
  if o.verbosity ≥ 1 then none else some (if o.ansi then normalFmt else plainFmt)

/-- the configuration the constructor arrives at, for the format given (`none`: no format given) and the
remaining parameters in `base`; `none`: outside the model (frames with the elapsed time / a quiet output, which
shows nothing) -/
def cfgBuilt (b : Built) (fmt : Option (List Seg)) (base : Cfg) : Option Cfg :=
  if b.drawn.quiet then none
  else match fmt with
    | some f => some { base with ansi := b.drawn.ansi, fmt := f }
    | none => (bestFormat b.drawn).map fun f => { base with ansi := b.drawn.ansi, fmt := f }

end Clikit.Spinner
