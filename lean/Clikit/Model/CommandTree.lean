import Clikit.Model.Run
/-!
# Which dispatcher a command of the tree consults: `Command.__init__` / `add_sub_command` (C04)

`ConsoleApplication` builds one `Command(config, application)` per top-level command config;
`Command.__init__` stores `self._application = application`, takes
`self._dispatcher = application.config.dispatcher if application else None`, and builds every
enabled sub-command config with `add_sub_command`: `Command(sub_config, self._application, self)` -
recursively, sub-commands of sub-commands likewise.  The resolver selects ANY command of that tree
(a named sub-command, a default or anonymous sub-command, at any depth), and `_do_handle` of the
SELECTED command dispatches PRE_HANDLE only `if self._dispatcher and ...has_listeners(PRE_HANDLE)`.

`Run.run` takes the PRE_HANDLE listeners as a parameter.  This file says which listeners the selected
command consults: the listeners registered on the dispatcher of ITS `_dispatcher` attribute - the
application's when the attribute is that dispatcher, none when the attribute is `None`.
-/
namespace Clikit.CommandTree
open Clikit

/-- a command config, as far as `Command.__init__` walks it: its enabled sub-command configs -/
inductive Cfg where
  | node (subs : List Cfg)
  deriving Repr, Inhabited

/-- the application object: its identity and the identity of `application.config.dispatcher` -/
structure App where
  id : Nat
  dispatcher : Nat
  deriving Repr, DecidableEq, Inhabited

/-- a built `Command`: `_application`, `_dispatcher`, `_sub_commands` -/
inductive Cmd where
  | node (application : Option App) (dispatcher : Option Nat) (subs : List Cmd)
  deriving Repr, Inhabited

def Cmd.application : Cmd → Option App
  | .node a _ _ => a

def Cmd.dispatcher : Cmd → Option Nat
  | .node _ d _ => d

def Cmd.subs : Cmd → List Cmd
  | .node _ _ s => s

def Cfg.subs : Cfg → List Cfg
  | .node s => s

mutual
/-- `Command.__init__(config, application, parent_command)` -/
def build (application : Option App) : Cfg → Cmd
  | .node subs =>
    -- self._application = application
    -- self._dispatcher = application.config.dispatcher if application else None
    -- for sub_config in config.sub_command_configs: self.add_sub_command(sub_config)
    --   add_sub_command: command = self.__class__(config, self._application, self)
    .node application (application.map (fun a => a.dispatcher)) (buildAll application subs)
/-- the loop over `config.sub_command_configs` -/
def buildAll (application : Option App) : List Cfg → List Cmd
  | [] => []
  | c :: cs => build application c :: buildAll application cs
end

/-- the command reached from `c` by descending into the sub-commands with these positions -/
def descend : Cmd → List Nat → Option Cmd
  | c, [] => some c
  | c, i :: p =>
    match c.subs[i]? with
    | some s => descend s p
    | none => none

/-- the same walk on the configs -/
def descendCfg : Cfg → List Nat → Option Cfg
  | c, [] => some c
  | c, i :: p =>
    match c.subs[i]? with
    | some s => descendCfg s p
    | none => none

/-- `_do_handle` of command `c`: the PRE_HANDLE listeners it consults, `ls` being the ones registered on the
dispatcher of application `app` (`if self._dispatcher and self._dispatcher.has_listeners(PRE_HANDLE)`) -/
def consulted {α : Type} (app : App) (c : Cmd) (ls : List α) : List α :=
  match c.dispatcher with
  | some d => if d == app.dispatcher then ls else []
  | none => []

/-- the listeners consulted by the command selected at `path` below the top-level command built from
`tree` by application `app`; `none`: there is no such command -/
def consultedAt {α : Type} (app : App) (tree : Cfg) (path : List Nat) (ls : List α) : Option (List α) :=
  (descend (build (some app) tree) path).map (fun c => consulted app c ls)

/-- `ConsoleApplication.run` when the resolver selects the command at `path` of the top-level command `tree` -/
def runAt (debug : Bool) (resolved : Except Run.Exc Unit) (app : App) (tree : Cfg) (path : List Nat)
    (ls : List Run.Listener) (handler : Run.Outcome) (render : Run.Exc → Bool) : Option Run.Result :=
  (consultedAt app tree path ls).map (fun ls' => Run.run debug resolved ls' handler render)

end Clikit.CommandTree
