import Clikit.Base
/-!
# How the aliases of the commands of a tree get configured (`CommandConfig.add_alias`,
`add_aliases`, `set_aliases`) - C03

The resolver looks names up among the names and aliases *as configured per command*.  The
configuration calls receive lists the caller owns: the same list object may be handed to several
commands (`a.set_aliases(xs); b.set_aliases(xs)`), it may be the list another command's config
hands out (`b.set_aliases(a.aliases)`), and the caller may go on changing it.  This model gives the
calls value semantics - a command is configured with what a call said *when it was made* - which
is what the code does as long as every setter copies what it receives.

Commands and caller-owned lists are numbered by the harness (commands in configuration order).
-/
namespace Clikit.AliasCfg
open Clikit

inductive Op where
  /-- `cfg_c.add_alias(a)` -/
  | add (c : Nat) (a : Str)
  /-- `cfg_c.add_aliases([..])` with a list nobody else holds -/
  | adds (c : Nat) (l : List Str)
  /-- `cfg_c.set_aliases([..])` with a list nobody else holds -/
  | set (c : Nat) (l : List Str)
  /-- the caller makes the list object `k` -/
  | newList (k : Nat) (l : List Str)
  /-- `cfg_c.set_aliases(list_k)` -/
  | setList (c k : Nat)
  /-- `cfg_c.add_aliases(list_k)` -/
  | addsList (c k : Nat)
  /-- the caller appends to its own list: `list_k.append(a)` -/
  | appendList (k : Nat) (a : Str)
  /-- `cfg_c.set_aliases(cfg_d.aliases)` -/
  | setFrom (c d : Nat)
  deriving Repr

structure St where
  /-- the aliases command `c` is configured with -/
  cmds : Nat → List Str
  /-- the current content of the caller's list `k` -/
  lists : Nat → List Str

def St.init : St := ⟨fun _ => [], fun _ => []⟩

def upd (f : Nat → List Str) (i : Nat) (v : List Str) : Nat → List Str := fun j => if j = i then v else f j

def step (s : St) : Op → St
  | .add c a => { s with cmds := upd s.cmds c (s.cmds c ++ [a]) }
  | .adds c l => { s with cmds := upd s.cmds c (s.cmds c ++ l) }
  | .set c l => { s with cmds := upd s.cmds c l }
  | .newList k l => { s with lists := upd s.lists k l }
  | .setList c k => { s with cmds := upd s.cmds c (s.lists k) }
  | .addsList c k => { s with cmds := upd s.cmds c (s.cmds c ++ s.lists k) }
  | .appendList k a => { s with lists := upd s.lists k (s.lists k ++ [a]) }
  | .setFrom c d => { s with cmds := upd s.cmds c (s.cmds d) }

def run (s : St) (ops : List Op) : St := ops.foldl step s

/-- the command on whose config the call is made (`none`: the caller works on its own list) -/
def Op.target : Op → Option Nat
  | .add c _ | .adds c _ | .set c _ | .setList c _ | .addsList c _ | .setFrom c _ => some c
  | .newList _ _ | .appendList _ _ => none

end Clikit.AliasCfg
