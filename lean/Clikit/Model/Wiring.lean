import Clikit.Model.Run
/-!
# How the handler is wired to a command: `Config.handler` / `Command._do_handle`, last two lines (C04)

`set_handler(x)` stores `x`; `Config.handler` answers, in this order: nothing stored - the default
handler (returned as it is); `x` can be called - `x()` (a lazy factory: a function, a class, a
partial, any object with `__call__`; called WITHOUT arguments, it may raise); otherwise `x` itself.
`_do_handle` then calls `getattr(handler, handler_method)(args, io, self)`: an object without an
attribute of that name (the default handler among them) raises before any handler code runs.

The run model (`Run.run`) takes the handler as an `Outcome` and counts its invocation; `runWired`
puts the lookup in front of it: the outcome is the one of the object the lookup reaches, and an
invocation is counted only if there is such an object.
-/
namespace Clikit.Run

/-- the object `Config.handler` answers, as far as `_do_handle` looks at it -/
inductive Target where
  | handler (o : Outcome)     -- has the configured handler method; calling it does `o`
  | broken (e : Exc)          -- no such attribute / cannot be called with (args, io, command): raises `e`
  deriving Repr, Inhabited

/-- what `Config._handler` holds -/
inductive Stored where
  | unset (e : Exc)                     -- `None`: the default handler, which has no handler method (`e`)
  | factory (r : Except Exc Target)     -- callable: `x()` returns the handler or raises
  | object (t : Target)                 -- anything else: the handler itself
  deriving Repr, Inhabited

/-- `Config.handler` -/
def Stored.target : Stored → Except Exc Target
  | .unset e => .ok (.broken e)
  | .factory r => r
  | .object t => .ok t

/-- the last statement of `_do_handle`: what happens, and how many handler invocations it is -/
def Stored.call (s : Stored) : Outcome × Nat :=
  match s.target with
  | .error e => (.raise e, 0)
  | .ok (.broken e) => (.raise e, 0)
  | .ok (.handler o) => (o, 1)

/-- a result of the run model for the outcome `s.call.1`, read for the wiring `s`: the call site counts as a handler
invocation only if the lookup reached an object with the handler method -/
def wiredResult (s : Stored) (r : Result) : Result :=
  { r with handlerCalls := r.handlerCalls * s.call.2 }

/-- `ConsoleApplication.run` for a command whose handler is wired as `s` -/
def runWired (debug : Bool) (resolved : Except Exc Unit) (listeners : List Listener) (s : Stored)
    (render : Exc → Bool) : Result :=
  wiredResult s (run debug resolved listeners s.call.1 render)

end Clikit.Run
