import Clikit.Model.AppState
/-!
# The I/O of a run: created per run from the configuration, changed by handlers (C17)

`DefaultApplicationConfig.create_io` builds, for EVERY run, new objects: `Input`, two `Output`s, the I/O, and the
formatters - `PlainFormatter(style_set)` / `AnsiFormatter(style_set, True)` (ONE object for both outputs) under
`--no-ansi` / `--ansi`, else one formatter PER output, chosen by `stream.supports_ansi()`.  `style_set` is
`application.config.style_set`, the one `StyleSet` object of the configuration, which lives as long as the application.

**Does `add_style` on the run's formatter change the configuration's style set?  No.**  `AnsiFormatter.__init__` and
`PlainFormatter.__init__` create a `Pastel` object of their own (which registers its four styles itself: `IOEnv.pastel`)
and register every style of `style_set.styles` in it (`StyleConverter.convert`, `Pastel.add_style`); the formatter keeps
no reference to the `StyleSet`.  `add_style` of both formatters writes the `Pastel` object's dictionary only.  A formatter
is therefore a COPY of the style set at the time of its construction (`mkFormatter`), and nothing of the per-run objects
is stored in the configuration or the application (`runIOP .perRun` returns the world as it was).  The harness reads the
real `config.style_set` after every run and compares it with `World.styleSet`.

What is state here:
* `World`: what of the I/O machinery outlives a run - the configuration's style set and, only under the protocol of the
  seeded change of round eight (`FmtProto.cachedPerConfig`: `create_io` keeps one formatter object per
  (class, arguments) in the configuration), the cached formatter OBJECTS;
* `IOState`: the objects of ONE run - a heap of formatter objects (by position), the two outputs (which formatter
  object, `_format_output`, verbosity, quiet, indentation), `Input._interactive`.  Two outputs may hold ONE formatter
  object (`--ansi`, `--no-ansi`, after `io.set_formatter`): a style added through one output then shows on the other.

A style is its tag and a `Look` (what `StyleConverter.convert` makes of it, opaque text here); a registry is a Python
dict (tag -> look, `dictSet`).  A handler is ANY function `IOState -> IOState x lines shown` (`Handler`); the handlers of
the harness are programs of public setter calls and probe lines (`HOp`, `execOps`).  What a line `<tag>tag</tag>` shows
is decided by the state at that moment (`showLine`): nothing (quiet / verbosity), else the indentation and - the tag not
registered in the output's formatter: the literal text; registered: the tag removed, with ANSI codes iff the output formats
(`_format_output`) and the formatter is an `AnsiFormatter`.

The shape of `create_io` taken here (a constructor call in every branch of the formatter selection, the outputs and the
I/O constructed from them) is the text `tools/genparts/c09.py` matches in the source on every run before it regenerates
`Gen/C09.lean`; `c17.app_hist` compares the state every handler finds with the real objects.

Not modelled: the terminal dimensions, the streams (their `supports_ansi()` is a parameter: `IOEnv.streams`), what the
application itself writes (help pages, error reports: C13, C04), `set_verbosity` rejecting other values than the four flags,
a handler reaching the configuration (`command.application.config.style_set.add(..)` changes an object that is NOT per run).
-/
namespace Clikit.RunIO
open Clikit Clikit.Switches Clikit.Gen.C09 Clikit.Parser Clikit.Resolver Clikit.App Clikit.AppState

/-- what a style looks like (`StyleConverter.convert(style)`: colours and options), opaque -/
abbrev Look := Str
/-- a dict tag -> look: `StyleSet.styles`, `Pastel._styles` -/
abbrev Styles := List (Str × Look)

/-- an `AnsiFormatter` (`ansi`) or a `PlainFormatter` object: the registry of its own `Pastel` object -/
structure Formatter where
  ansi : Bool
  forced : Bool
  styles : Styles
  deriving DecidableEq, Repr, Inhabited

/-- `for tag, style in style_set.styles.items(): pastel.add_style(tag, ..)` -/
def registerAll (reg ss : Styles) : Styles := ss.foldl (fun r tl => dictSet tl.1 tl.2 r) reg

/-- `AnsiFormatter(style_set, forced)` / `PlainFormatter(style_set)`: a NEW `Pastel` (holding `pastel`, the styles it
registers itself) into which the styles of the set are COPIED -/
def mkFormatter (pastel ss : Styles) (ansi forced : Bool) : Formatter :=
  { ansi := ansi, forced := ansi && forced, styles := registerAll pastel ss }

/-- `formatter.add_style(style)` -/
def Formatter.addStyle (f : Formatter) (t : Str) (l : Look) : Formatter := { f with styles := dictSet t l f.styles }

structure Output where
  fmt : Nat                 -- which formatter object of the run's heap
  streamAnsi : Bool         -- `stream.supports_ansi()`
  formatOutput : Bool       -- `_format_output`
  verbosity : Nat
  quiet : Bool
  indent : Nat
  deriving DecidableEq, Repr, Inhabited

/-- `Output(stream, formatter)` -/
def mkOutput (streamAnsi : Bool) (ref : Nat) (f : Formatter) : Output :=
  { fmt := ref, streamAnsi := streamAnsi, formatOutput := (streamAnsi && f.ansi) || f.forced,
    verbosity := 0, quiet := false, indent := 0 }

/-- the objects of one run -/
structure IOState where
  fmts : List Formatter
  out : Output
  err : Output
  interactive : Bool
  deriving DecidableEq, Repr, Inhabited

/-- key of the seeded cache: (formatter class, the further constructor arguments) -/
abbrev FmtKey := Bool × Bool

/-- what outlives a run -/
structure World where
  styleSet : Styles                       -- `application.config.style_set`
  cache : List (FmtKey × Formatter)       -- formatter objects kept by the configuration (seeded protocol only)
  deriving DecidableEq, Repr, Inhabited

/-- a freshly built application whose configuration holds the style set `ss` -/
def World.fresh (ss : Styles) : World := { styleSet := ss, cache := [] }

/-- how `create_io` comes by its formatters: a constructor call per run (the code as it is), or one object per
configuration and (class, arguments), built when first needed (the seeded change `C17-8`) -/
inductive FmtProto where
  | perRun | cachedPerConfig
  deriving DecidableEq, Repr, Inhabited

structure IOEnv where
  pastel : Styles            -- the styles `Pastel.__init__` registers
  streams : Bool × Bool      -- `supports_ansi()` of the output / error stream handed to `run()`
  deriving DecidableEq, Repr, Inhabited

/-- the formatters `create_io` asks for: key of the output's, of the error output's, and whether the code assigns ONE
constructor call to both (`output_formatter = error_formatter = ..`) -/
def keysOf (m : AnsiMode) (streams : Bool × Bool) : FmtKey × FmtKey × Bool :=
  match m with
  | .off => ((false, false), (false, false), true)
  | .forced => ((true, true), (true, true), true)
  | .auto => ((streams.1, false), (streams.2, false), false)

def loadFmt (pr : FmtProto) (e : IOEnv) (w : World) (k : FmtKey) : Formatter :=
  match pr with
  | .perRun => mkFormatter e.pastel w.styleSet k.1 k.2
  | .cachedPerConfig => (dictGet? k w.cache).getD (mkFormatter e.pastel w.styleSet k.1 k.2)

/-- **`create_io`**: the I/O objects of a run and the cache keys of the formatter objects 0, 1 of its heap.  Under the
cached protocol two requests with one key answer ONE object. -/
def createIOP (pr : FmtProto) (e : IOEnv) (w : World) (cfg : IOCfg) : IOState × List FmtKey :=
  let ks := keysOf cfg.ansi e.streams
  let one := ks.2.2 || (pr == .cachedPerConfig && ks.1 == ks.2.1)
  let f1 := loadFmt pr e w ks.1
  let f2 := if one then f1 else loadFmt pr e w ks.2.1
  ({ fmts := if one then [f1] else [f1, f2],
     out := { mkOutput e.streams.1 0 f1 with verbosity := cfg.verbosity, quiet := cfg.quiet },
     err := { mkOutput e.streams.2 (if one then 0 else 1) f2 with verbosity := cfg.verbosity, quiet := cfg.quiet },
     interactive := cfg.interactive },
   if one then [ks.1] else [ks.1, ks.2.1])

/-- the I/O a run on a freshly built application with style set `ss` hands to its handler -/
def freshIO (e : IOEnv) (ss : Styles) (cfg : IOCfg) : IOState := (createIOP .perRun e (World.fresh ss) cfg).1

/-! ## What a handler does -/

inductive Chan where
  | out | err
  deriving DecidableEq, Repr, Inhabited

def IOState.chan (s : IOState) : Chan → Output
  | .out => s.out
  | .err => s.err

def IOState.setChan (s : IOState) (c : Chan) (o : Output) : IOState :=
  match c with
  | .out => { s with out := o }
  | .err => { s with err := o }

/-- both outputs (`none`: the method of the I/O) or one (`io.output.…` / `io.error_output.…`) -/
def IOState.onChans (s : IOState) (on : Option Chan) (f : Output → Output) : IOState :=
  match on with
  | none => { s with out := f s.out, err := f s.err }
  | some c => s.setChan c (f (s.chan c))

def modifyAt {α : Type} (f : α → α) : Nat → List α → List α
  | _, [] => []
  | 0, x :: r => f x :: r
  | n + 1, x :: r => x :: modifyAt f n r

inductive How where
  | literal                  -- the tag is not registered: the text as written
  | stripped (look : Look)   -- registered, the tags removed (the look is in the registry, not in the text)
  | ansi (look : Look)       -- registered, replaced by ANSI codes
  deriving DecidableEq, Repr, Inhabited

/-- a probe line `<tag>tag</tag>` written with flag `need` (0: none) on a channel: nothing, or indentation and rendering -/
structure Shown where
  chan : Chan
  tag : Str
  need : Nat
  text : Option (Nat × How)
  deriving DecidableEq, Repr, Inhabited

/-- `Output.write_line("<tag>tag</tag>", need)`.  `_may_write` for `need` one of 0 / VERBOSE / VERY_VERBOSE / DEBUG:
not quiet and `verbosity >= need`.  `format` of an `AnsiFormatter` colours, `remove_format` and both methods of a
`PlainFormatter` remove the tags of registered styles; an unknown tag stays. -/
def showLine (s : IOState) (c : Chan) (tag : Str) (need : Nat) : Shown :=
  let o := s.chan c
  { chan := c, tag := tag, need := need,
    text := if o.quiet || o.verbosity < need then none
      else some (o.indent,
        match s.fmts[o.fmt]? with
        | none => .literal
        | some f =>
          match dictGet? tag f.styles with
          | none => .literal
          | some l => if o.formatOutput && f.ansi then .ansi l else .stripped l) }

/-- the public setters a handler of the harness calls, and probe lines -/
inductive HOp where
  | addStyle (on : Chan) (tag : Str) (look : Look)      -- `io.formatter.add_style` (= the output's) / `io.error_output.formatter.add_style`
  | setFormatter (ifPlain ifAnsi : Formatter)            -- `io.set_formatter(A if isinstance(io.formatter, PlainFormatter) else B)`, A / B new objects
  | setVerbosity (n : Nat)                               -- `io.set_verbosity`
  | setQuiet (on : Option Chan) (b : Bool)               -- `io.set_quiet` / `io.error_output.set_quiet`
  | setInteractive (b : Bool)                            -- `io.set_interactive`
  | indent (on : Option Chan) (inc : Bool) (n : Nat)     -- `io.indent(n)` / `io.error_output.increment_indent(n)`, not used as a `with` block
  | write (c : Chan) (tag : Str) (need : Nat)
  deriving DecidableEq, Repr, Inhabited

/-- `Output.set_formatter`: `_format_output = True if formatter.force_ansi() else stream.supports_ansi()` -/
def Output.setFormatter (o : Output) (ref : Nat) (f : Formatter) : Output :=
  { o with fmt := ref, formatOutput := f.forced || o.streamAnsi }

def execOp (s : IOState) : HOp → IOState × List Shown
  | .addStyle c t l => ({ s with fmts := modifyAt (fun f => f.addStyle t l) (s.chan c).fmt s.fmts }, [])
  | .setFormatter a b =>
    let new := match s.fmts[s.out.fmt]? with
      | some f => if f.ansi then b else a
      | none => b
    let ref := s.fmts.length
    ({ s with fmts := s.fmts ++ [new], out := s.out.setFormatter ref new, err := s.err.setFormatter ref new }, [])
  | .setVerbosity n => (s.onChans none (fun o => { o with verbosity := n }), [])
  | .setQuiet on b => (s.onChans on (fun o => { o with quiet := b }), [])
  | .setInteractive b => ({ s with interactive := b }, [])
  | .indent on inc n => (s.onChans on (fun o => { o with indent := if inc then o.indent + n else n }), [])
  | .write c t need => (s, [showLine s c t need])

/-- a handler: ANY function of the I/O state it is given -/
abbrev Handler := IOState → IOState × List Shown

def execOps : List HOp → Handler
  | [], s => (s, [])
  | op :: r, s =>
    let x := execOp s op
    let y := execOps r x.1
    (y.1, x.2 ++ y.2)

/-! ## A run -/

/-- the handler calls of a run on its I/O: what each call FOUND and what it showed; the state at the end -/
def runCalls : IOState → List Handler → List (IOState × List Shown) × IOState
  | s, [] => ([], s)
  | s, h :: r =>
    let x := h s
    let y := runCalls x.1 r
    ((s, x.2) :: y.1, y.2)

/-- the formatter objects 0.. of the run's heap ARE the cached objects: what was done to them stays in the cache -/
def writeBack (cache : List (FmtKey × Formatter)) (keys : List FmtKey) (fmts : List Formatter) : List (FmtKey × Formatter) :=
  (keys.zip fmts).foldl (fun c kf => dictSet kf.1 kf.2 c) cache

/-- **the I/O side of `ConsoleApplication.run`**: `create_io`, the handler calls on that I/O; afterwards the I/O is
garbage - under `.perRun` NOTHING of it is referenced from the configuration or the application -/
def runIOP (pr : FmtProto) (e : IOEnv) (w : World) (cfg : IOCfg) (calls : List Handler) :
    List (IOState × List Shown) × World :=
  let c := createIOP pr e w cfg
  let r := runCalls c.1 calls
  (r.1, match pr with
    | .perRun => w
    | .cachedPerConfig => { w with cache := writeBack w.cache c.2 r.2.fmts })

/-- what the handler of a command does to the I/O it is given (a parameter, as `App.Handlers`) -/
abbrev IOHandlers := List Str → Args → Handler

/-- what a run gives: `App.Result` and, per handler call, the I/O state found and the lines shown -/
abbrev RunObs := Result × List (IOState × List Shown)

/-- **`ConsoleApplication.run` on an application object in state `s`** (`AppState.runAppSP`) with the I/O of the run:
the I/O is created from the tokens of THIS line (`Result.io`) and the style set of the configuration; the handlers that
are called (`Result.invoked`) work on it. -/
def runAppIOP (pr : Proto) (fp : FmtProto) (env : Env) (e : IOEnv) (cv : Conv) (app : List Cmd) (hs : Handlers)
    (hio : IOHandlers) (s : AppState × World) (toks : List Str) : RunObs × (AppState × World) :=
  let r := runAppSP pr env cv app hs s.1 toks
  let io := runIOP fp e s.2 r.1.io (r.1.invoked.map fun pa => hio pa.1 pa.2)
  ((r.1, io.1), (r.2, io.2))

/-- the code as it is: a formatter per run -/
def runAppIO (env : Env) (e : IOEnv) (cv : Conv) (app : List Cmd) (hs : Handlers) (hio : IOHandlers)
    (s : AppState × World) (toks : List Str) : RunObs × (AppState × World) :=
  runAppIOP Proto.source .perRun env e cv app hs hio s toks

def runHistoryIOP (pr : Proto) (fp : FmtProto) (env : Env) (e : IOEnv) (cv : Conv) (app : List Cmd) (hs : Handlers)
    (hio : IOHandlers) : AppState × World → List (List Str) → List RunObs × (AppState × World)
  | s, [] => ([], s)
  | s, l :: rest =>
    let r := runAppIOP pr fp env e cv app hs hio s l
    let h := runHistoryIOP pr fp env e cv app hs hio r.2 rest
    (r.1 :: h.1, h.2)

def runHistoryIO (env : Env) (e : IOEnv) (cv : Conv) (app : List Cmd) (hs : Handlers) (hio : IOHandlers)
    (s : AppState × World) (hist : List (List Str)) : List RunObs × (AppState × World) :=
  runHistoryIOP Proto.source .perRun env e cv app hs hio s hist

end Clikit.RunIO
