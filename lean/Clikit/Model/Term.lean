import Clikit.Base
/-!
C15 - a line-level terminal.

The screen is a list of rows (row 0 is the first row the model knows about; everything that
scrolled away or lies above is outside) and the row the cursor is on.  All writers modelled
here end every piece of text with a newline, so the cursor column is 0 between commands and is
not part of the state.

* `print l` - the characters of `l` followed by `"\n"`.  With auto-wrap and *deferred* wrap
  (xterm, VT100: after the last column is filled the cursor stays there with a pending-wrap
  flag, which a following newline clears) a line of `ℓ` characters occupies
  `max 1 ⌈ℓ/w⌉` rows; in particular a line of exactly `w` characters plus newline is ONE row.
  Characters are written over what the rows held before (`overlay`), nothing is cleared.
* `up n` - CUU, `ESC [ n A`; stops at row 0.
* `eraseBelow` - ED 0, `ESC [ 0 J`, issued at column 0: the cursor row and everything below
  become blank.

`emit` is the byte stream of a command list, `lex` reads it back (`Props.C15.lex_emit`).
The harness validates this model against a character-level emulator (LF, CR, CUU, ED,
auto-wrap with the pending-wrap flag) on every generated stream.
-/
namespace Clikit.Term

def ESC : Char := Char.ofNat 27

/-- Rows a printed line occupies: cut every `w` characters; an empty line is one empty row.
(fuel = length of the line; never exhausted for `w ≥ 1`) -/
def chunkF (w : Nat) : Nat → Str → List Str
  | 0, l => [l]
  | f + 1, l => if l.length ≤ w then [l] else l.take w :: chunkF w f (l.drop w)

def chunk (w : Nat) (l : Str) : List Str := chunkF w l.length l

structure Screen where
  rows : List Str
  cur : Nat
  deriving Repr, DecidableEq

inductive Cmd where
  | print (l : Str)
  | up (n : Nat)
  | eraseBelow
  deriving Repr, DecidableEq

/-- Write the rows `k` over the rows `old` (character cells beyond the new text keep what they
showed). -/
def overlay : List Str → List Str → List Str
  | [], old => old
  | k, [] => k
  | a :: k, b :: old => (a ++ b.drop a.length) :: overlay k old

def exec (w : Nat) (s : Screen) : Cmd → Screen
  | .print l =>
    let k := chunk w l
    let top := s.rows.take s.cur ++ List.replicate (s.cur - s.rows.length) []
    { rows := top ++ overlay k (s.rows.drop s.cur), cur := s.cur + k.length }
  | .up n => { s with cur := s.cur - n }
  | .eraseBelow => { rows := s.rows.take s.cur, cur := s.cur }

def execs (w : Nat) (s : Screen) (cmds : List Cmd) : Screen := cmds.foldl (exec w) s

/-! ### bytes -/

def emitCmd : Cmd → Str
  | .print l => l ++ ['\n']
  | .up n => ESC :: '[' :: (Nat.toDigits 10 n ++ ['A'])
  | .eraseBelow => [ESC, '[', '0', 'J']

def emit (cmds : List Cmd) : Str := cmds.flatMap emitCmd

/-- The text up to the next newline; fails when the text contains ESC or is not terminated. -/
def takeLine : Str → Option (Str × Str)
  | [] => none
  | c :: r =>
    if c = '\n' then some ([], r)
    else if c = ESC then none
    else match takeLine r with
      | some (l, t) => some (c :: l, t)
      | none => none

def spanDigits : Str → Str × Str
  | [] => ([], [])
  | c :: r =>
    if c.isDigit then
      let p := spanDigits r
      (c :: p.1, p.2)
    else ([], c :: r)

/-- Lexer for exactly the control sequences the section output emits.  One unit of fuel per
command. -/
def lexF : Nat → Str → Option (List Cmd)
  | _, [] => some []
  | 0, _ :: _ => none
  | f + 1, c :: r =>
    if c = ESC then
      match r with
      | '[' :: r' =>
        match spanDigits r' with
        | (d, 'A' :: t) =>
          if d = [] then none
          else match lexF f t with
            | some cs => some (.up (Nat.ofDigitChars 10 d 0) :: cs)
            | none => none
        | (d, 'J' :: t) =>
          if d = ['0'] then
            match lexF f t with
            | some cs => some (.eraseBelow :: cs)
            | none => none
          else none
        | _ => none
      | _ => none
    else
      match takeLine (c :: r) with
      | some (l, t) =>
        match lexF f t with
        | some cs => some (.print l :: cs)
        | none => none
      | none => none

def lex (s : Str) : Option (List Cmd) := lexF (s.length + 1) s

end Clikit.Term
