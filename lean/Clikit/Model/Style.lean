import Clikit.Base
import Clikit.Gen.C11
/-!
# Styles and their SGR rendering (C11)

`Style` is `clikit.api.formatter.Style`; `PastelStyle` is `pastel.style.Style` (the third-party
engine, `/venv/lib/python3.12/site-packages/pastel/style.py`); `convert` is
`StyleConverter.convert` built from the option-name table regenerated from the source;
`apply` is `pastel.Style.apply`.  The colour / option code tables are regenerated from pastel's
source on every run (`Clikit.Gen.C11`).
-/
namespace Clikit.Style
open Clikit Clikit.Gen.C11

/-- `clikit.api.formatter.Style` -/
structure Style where
  tag : Option Str := none
  fg : Option Str := none
  bg : Option Str := none
  bold : Bool := false
  italic : Bool := false
  dark : Bool := false
  underlined : Bool := false
  blinking : Bool := false
  inverse : Bool := false
  hidden : Bool := false
  deriving DecidableEq, Repr

/-- `style.is_<attr>()` -/
def Style.has (s : Style) : Attr → Bool
  | .bold => s.bold
  | .italic => s.italic
  | .dark => s.dark
  | .underlined => s.underlined
  | .blinking => s.blinking
  | .inverse => s.inverse
  | .hidden => s.hidden

/-- `pastel.style.Style`: `_fg`, `_bg` (the names given), `_foreground`, `_background` (codes),
`_options` (an `OrderedDict` code → name). -/
structure PastelStyle where
  fgName : Option Str := none
  bgName : Option Str := none
  fg : Option Nat := none
  bg : Option Nat := none
  opts : List (Nat × Str) := []
  deriving DecidableEq, Repr

/-- `Style()` - the stack's `empty_style` -/
def emptyStyle : PastelStyle := {}

/-- pastel `Style.__eq__`: codes and the option dictionary (order-sensitive, both are
`OrderedDict`s); the names given for the colours are not compared. -/
def PastelStyle.eqv (a b : PastelStyle) : Bool :=
  a.fg == b.fg && a.bg == b.bg && a.opts == b.opts

/-- `if foreground:` on `None` / `""` / a name -/
def truthy : Option Str → Option Str
  | some (c :: r) => some (c :: r)
  | _ => none

/-- `Style.set_foreground` -/
def setForeground (name : Str) : Except Err Nat :=
  match dictGet? name foregroundColors with
  | some c => .ok c
  | none => .error .valueError

/-- `Style.set_background`: membership is tested on FOREGROUND_COLORS, the code is read from
BACKGROUND_COLORS -/
def setBackground (name : Str) : Except Err Nat :=
  if dictHas name foregroundColors then
    match dictGet? name backgroundColors with
    | some c => .ok c
    | none => .error (.other "KeyError")
  else .error .valueError

/-- `Style.set_option`: `self._options[OPTIONS[option]] = option` (the `not in` test of the
source compares a name with integer keys and is always true) -/
def setOption (opts : List (Nat × Str)) (name : Str) : Except Err (List (Nat × Str)) :=
  match dictGet? name options with
  | some c => .ok (dictSet c name opts)
  | none => .error .valueError

/-- `Style.set_options` -/
def setOptions : List (Nat × Str) → List Str → Except Err (List (Nat × Str))
  | acc, [] => .ok acc
  | acc, n :: r =>
    match setOption acc n with
    | .ok acc' => setOptions acc' r
    | .error e => .error e

/-- `if foreground: self.set_foreground(foreground)` -/
def foregroundOf (fgN : Option Str) : Except Err (Option Nat) :=
  match truthy fgN with
  | some n => (setForeground n).map some
  | none => .ok none

/-- `if background: self.set_background(background)` -/
def backgroundOf (bgN : Option Str) : Except Err (Option Nat) :=
  match truthy bgN with
  | some n => (setBackground n).map some
  | none => .ok none

/-- `pastel.Style(foreground, background, options)` -/
def mkStyle (fgN bgN : Option Str) (optNames : List Str) : Except Err PastelStyle :=
  match foregroundOf fgN with
  | .error e => .error e
  | .ok fg =>
    match backgroundOf bgN with
    | .error e => .error e
    | .ok bg =>
      match setOptions [] optNames with
      | .error e => .error e
      | .ok opts => .ok { fgName := fgN, bgName := bgN, fg := fg, bg := bg, opts := opts }

/-- the option names `StyleConverter.convert` collects, in the order of its `append`s -/
def optionNames (s : Style) : List Str :=
  (converterOptions.filter (fun p => s.has p.1)).map (·.2)

/-- `StyleConverter.convert` -/
def convert (s : Style) : Except Err PastelStyle :=
  mkStyle s.fg s.bg (optionNames s)

/-- `add_style(tag, ps.foreground, ps.background, ps.options)`: pastel builds a NEW style from
the names the converted style reports. -/
def rebuild (ps : PastelStyle) : Except Err PastelStyle :=
  mkStyle ps.fgName ps.bgName (ps.opts.map (·.2))

/-- the styles a formatter's pastel instance knows: `_styles`, a dict name → style.  The key is
`none` for `add_style(Style())` (tag `None`). -/
abbrev Registry := List (Option Str × PastelStyle)

/-- `AnsiFormatter.add_style` / `PlainFormatter.add_style` / one round of the constructor loop -/
def register (reg : Registry) (s : Style) : Except Err Registry :=
  match convert s with
  | .error e => .error e
  | .ok ps =>
    match rebuild ps with
    | .error e => .error e
    | .ok ps' => .ok (dictSet s.tag ps' reg)

def registerAll : Registry → List Style → Except Err Registry
  | reg, [] => .ok reg
  | reg, s :: r =>
    match register reg s with
    | .ok reg' => registerAll reg' r
    | .error e => .error e

/-- the four styles `Pastel.__init__` registers itself -/
def pastelDefaults : List (Str × Option Str × Option Str) :=
  [(['e', 'r', 'r', 'o', 'r'], some ['w', 'h', 'i', 't', 'e'], some ['r', 'e', 'd']),
   (['i', 'n', 'f', 'o'], some ['g', 'r', 'e', 'e', 'n'], none),
   (['c', 'o', 'm', 'm', 'e', 'n', 't'], some ['y', 'e', 'l', 'l', 'o', 'w'], none),
   (['q', 'u', 'e', 's', 't', 'i', 'o', 'n'], some ['b', 'l', 'a', 'c', 'k'], some ['c', 'y', 'a', 'n'])]

def pastelRegistry : Except Err Registry :=
  pastelDefaults.foldlM (fun reg (p : Str × Option Str × Option Str) =>
    match mkStyle p.2.1 p.2.2 [] with
    | .ok ps => .ok (dictSet (some p.1) ps reg)
    | .error e => .error e) []

def styleOfDefault (d : Str × Option Str × Option Str × List Attr) : Style :=
  { tag := some d.1, fg := d.2.1, bg := d.2.2.1,
    bold := d.2.2.2.contains .bold, italic := d.2.2.2.contains .italic, dark := d.2.2.2.contains .dark,
    underlined := d.2.2.2.contains .underlined, blinking := d.2.2.2.contains .blinking,
    inverse := d.2.2.2.contains .inverse, hidden := d.2.2.2.contains .hidden }

/-- the registry of a formatter built with clikit's `DefaultStyleSet` -/
def defaultRegistry : Except Err Registry :=
  match pastelRegistry with
  | .ok reg => registerAll reg (defaultStyles.map styleOfDefault)
  | .error e => .error e

/-! ## SGR strings -/

def ESC : Char := Char.ofNat 27

def digitChar (n : Nat) : Char :=
  match n % 10 with
  | 0 => '0' | 1 => '1' | 2 => '2' | 3 => '3' | 4 => '4'
  | 5 => '5' | 6 => '6' | 7 => '7' | 8 => '8' | _ => '9'

def digitsAux : Nat → Nat → Str → Str
  | 0, _, acc => acc
  | fuel + 1, n, acc =>
    if n < 10 then digitChar n :: acc else digitsAux fuel (n / 10) (digitChar n :: acc)

/-- `str(n)` for a natural number -/
def natStr (n : Nat) : Str := digitsAux (n + 1) n []

/-- `";".join(map(str, codes))` -/
def joinCodes : List Nat → Str
  | [] => []
  | [c] => natStr c
  | c :: r => natStr c ++ ';' :: joinCodes r

/-- `if self._foreground: codes.append(self._foreground)` -/
def colourCodes : Option Nat → List Nat
  | some c => if c != 0 then [c] else []
  | none => []

/-- the `codes` list of `Style.apply`: foreground, background (when truthy), then the option
codes in the order they were first set -/
def codes (p : PastelStyle) : List Nat :=
  colourCodes p.fg ++ colourCodes p.bg ++ p.opts.map (·.1)

/-- `"\033[%sm"` -/
def sgrOpen (cs : List Nat) : Str := ESC :: '[' :: (joinCodes cs ++ ['m'])

/-- `"\033[0m"` -/
def sgrReset : Str := [ESC, '[', '0', 'm']

/-- what `Style.apply` returns for a code list -/
def wrap (cs : List Nat) (text : Str) : Str :=
  match cs with
  | [] => text
  | _ => sgrOpen cs ++ text ++ sgrReset

/-- `pastel.Style.apply` -/
def apply (p : PastelStyle) (text : Str) : Str := wrap (codes p) text

/-! ## Removing SGR sequences (what the oracle's regex `\x1b\[[0-9;]*m` does) -/

/-- length of `[0-9;]*m` at the start of `s`, if it is there -/
def paramsLen : Str → Option Nat
  | [] => none
  | c :: r =>
    if c = 'm' then some 1
    else if c.isDigit || c = ';' then (paramsLen r).map (· + 1)
    else none

/-- length of `[` `[0-9;]*` `m` at the start of `s` (the text after an ESC) -/
def seqLen : Str → Option Nat
  | '[' :: r => (paramsLen r).map (· + 1)
  | _ => none

/-- skip `k` characters, then delete every `ESC [ params m` -/
def stripAux : Nat → Str → Str
  | _, [] => []
  | k + 1, _ :: r => stripAux k r
  | 0, c :: r =>
    if c = ESC then
      match seqLen r with
      | some n => stripAux n r
      | none => c :: stripAux 0 r
    else c :: stripAux 0 r

def stripAnsi (s : Str) : Str := stripAux 0 s

/-! ## The SGR specification, executable (for the driver)

An executable copy of the specification `expectedCodes` of Lemmas/C11Sgr (ECMA-48 / xterm
numbering, written down independently of pastel's tables); `Props.C11.spec_codes_decides` proves
the two equal.  The driver answers it for every style of the exhaustive table (`c11.sgr`, field
`spec`), the harness compares it with the oracle's own table. -/

/-- colour names and their SGR colour index -/
def specColorIndex : List (Str × Nat) :=
  [(['b', 'l', 'a', 'c', 'k'], 0),
   (['r', 'e', 'd'], 1),
   (['g', 'r', 'e', 'e', 'n'], 2),
   (['y', 'e', 'l', 'l', 'o', 'w'], 3),
   (['b', 'l', 'u', 'e'], 4),
   (['m', 'a', 'g', 'e', 'n', 't', 'a'], 5),
   (['c', 'y', 'a', 'n'], 6),
   (['l', 'i', 'g', 'h', 't', '_', 'g', 'r', 'a', 'y'], 7),
   (['d', 'e', 'f', 'a', 'u', 'l', 't'], 9),
   (['d', 'a', 'r', 'k', '_', 'g', 'r', 'a', 'y'], 60),
   (['l', 'i', 'g', 'h', 't', '_', 'r', 'e', 'd'], 61),
   (['l', 'i', 'g', 'h', 't', '_', 'g', 'r', 'e', 'e', 'n'], 62),
   (['l', 'i', 'g', 'h', 't', '_', 'y', 'e', 'l', 'l', 'o', 'w'], 63),
   (['l', 'i', 'g', 'h', 't', '_', 'b', 'l', 'u', 'e'], 64),
   (['l', 'i', 'g', 'h', 't', '_', 'm', 'a', 'g', 'e', 'n', 't', 'a'], 65),
   (['l', 'i', 'g', 'h', 't', '_', 'c', 'y', 'a', 'n'], 66),
   (['w', 'h', 'i', 't', 'e'], 67)]

/-- SGR code of each style attribute -/
def specAttrCode : Attr → Nat
  | .bold => 1
  | .dark => 2
  | .italic => 3
  | .underlined => 4
  | .blinking => 5
  | .inverse => 7
  | .hidden => 8

/-- the order in which the attributes of a style are rendered -/
def specAttrOrder : List Attr := [.bold, .italic, .dark, .underlined, .blinking, .inverse, .hidden]

def specColour (base : Nat) : Option Str → Option (List Nat)
  | none => some []
  | some n => (dictGet? n specColorIndex).map (fun i => [base + i])

/-- the codes a style has to be rendered with (`none`: a colour name outside the table) -/
def specCodes (s : Style) : Option (List Nat) :=
  match specColour 30 s.fg, specColour 40 s.bg with
  | some f, some b => some (f ++ b ++ (specAttrOrder.filter s.has).map specAttrCode)
  | _, _ => none

end Clikit.Style
