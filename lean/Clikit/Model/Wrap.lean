import Clikit.Base
/-!
# `textwrap.wrap(text, width)` with its default options (external engine, DESIGN 3.5)

An executable greedy model of CPython 3.12's `textwrap.TextWrapper(width).wrap(text)`
(`expand_tabs`, `replace_whitespace`, `drop_whitespace`, `break_long_words` all `True`,
empty indents, no `max_lines`) for texts over the alphabet the generators use:

* whitespace is the blank and the newline (no tabs: `expandtabs` is not modelled);
* no hyphens (so `wordsep_re` splits exactly into maximal runs of blanks / non-blanks and
  `break_on_hyphens` never finds a hyphen);
* no other Unicode whitespace (`chunk.strip() == ''` is "all characters are blanks").

The harness compares `wrap` with the real `textwrap.wrap` on every text x width it is used on.
Core Lean only.  Used by the table model (C14) and the help-page model (C13).
-/
namespace Clikit.Wrap

/-- whitespace of the modelled alphabet -/
def isWs (c : Char) : Bool := c == ' ' || c == '\n'

/-- `_munge_whitespace`: every whitespace character becomes one blank -/
def munge (s : Str) : Str := s.map (fun c => if isWs c then ' ' else c)

/-- `_split`: maximal runs of blanks and of non-blanks, in order (`wordsep_re` without
hyphens; empty chunks are filtered out by `_split`, none arise here) -/
def splitChunks : Str → List Str
  | [] => []
  | c :: r =>
    match splitChunks r with
    | (d :: ds) :: cs =>
      if (c == ' ') == (d == ' ') then (c :: d :: ds) :: cs else [c] :: (d :: ds) :: cs
    | cs => [c] :: cs

/-- `chunk.strip() == ''` -/
def isBlankChunk (c : Str) : Bool := c.all (· == ' ')

/-- the inner `while chunks:` loop: pop chunks while `cur_len + len(chunk) <= width`;
returns (chunks put on the line, chunks left) -/
def fillLine (w : Nat) : Nat → List Str → List Str × List Str
  | _, [] => ([], [])
  | cur, c :: r =>
    if cur + c.length ≤ w then
      let p := fillLine w (cur + c.length) r
      (c :: p.1, p.2)
    else ([], c :: r)

/-- `_handle_long_word` (with `break_long_words`): when the next chunk is longer than the
width, `chunk[:space_left]` goes onto the line and `chunk[space_left:]` stays on the stack -/
def breakLong (w : Nat) (line : List Str) : List Str → List Str × List Str
  | [] => (line, [])
  | d :: r =>
    if d.length > w then
      let space := w - (line.map List.length).sum
      (line ++ [d.take space], d.drop space :: r)
    else (line, d :: r)

/-- "If the last chunk on this line is all whitespace, drop it." -/
def dropTrailingBlank (line : List Str) : List Str :=
  match line.getLast? with
  | some l => if isBlankChunk l then line.dropLast else line
  | none => line

/-- the outer `while chunks:` loop of `_wrap_chunks`; `first` is "`lines` is still empty".
Fuel-indexed (DESIGN 3.6): `wrap` supplies more fuel than iterations are possible, and
`wrap_content` shows that nothing is lost, i.e. the fuel never runs out for `w ≥ 1`. -/
def wrapLoop (w : Nat) : Nat → Bool → List Str → List Str
  | 0, _, _ => []
  | _ + 1, _, [] => []
  | f + 1, first, c :: rest =>
    -- "First chunk on line is whitespace -- drop it, unless this is the very beginning"
    let chunks1 := if !first && isBlankChunk c then rest else c :: rest
    let p := fillLine w 0 chunks1
    let q := breakLong w p.1 p.2
    let line := dropTrailingBlank q.1
    if line.isEmpty then wrapLoop w f first q.2
    else line.flatten :: wrapLoop w f false q.2

/-- size of a chunk stack: every iteration of the outer loop strictly decreases it -/
def measure (cs : List Str) : Nat := (cs.map (fun c => c.length + 1)).sum

/-- `textwrap.wrap(text, w)` for `w ≥ 1` (for `w = 0` Python raises, see `wrapE`) -/
def wrap (w : Nat) (text : Str) : List Str :=
  let cs := splitChunks (munge text)
  wrapLoop w (measure cs + 1) true cs

/-- `textwrap.wrap(text, w)` including `ValueError("invalid width")` for `w ≤ 0`
(`_wrap_chunks` raises before looking at the chunks) -/
def wrapE (w : Nat) (text : Str) : Except Err (List Str) :=
  if w = 0 then .error .valueError else .ok (wrap w text)

/-- the characters that are not whitespace, in order -/
def nonblank (s : Str) : Str := s.filter (fun c => !isWs c)

end Clikit.Wrap
