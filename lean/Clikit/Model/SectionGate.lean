import Clikit.Model.SectionIndent
import Clikit.Gen.Logic
/-!
C15 - sections WITH THE GATE (quiet / verbosity / message-level flags), as a layer over
`Clikit.Section` + `SectionIndent`.  The gate itself is C10's: `Gen.mayWrite`, translated from
`Output._may_write` on every run - it is composed here, not modelled again.

A section inherits quiet and verbosity from the output that creates it (`Output.section()`) and has its
own `set_quiet` / `set_verbosity` afterwards.  `section.write_line(text, flags)`:

* on an ANSI output `SectionOutput.write` asks the gate FIRST and returns when it says no: nothing is
  recorded (`add_content` is not reached), no row is counted, nothing reaches the stream;
* on an output without ANSI support the call falls through to `Output.write(text, flags)`: the same gate.

Operations without flags (`overwrite`, `clear`, `clear(n)`, `write_line(text)`) ask the same gate with
`flags = None` before they touch anything: `SectionOutput.clear` returns `if not self._may_write(None)`
(D41 repaired), the `write_line` of `overwrite` is an ordinary suppressed write.  So on a QUIET section
they are no operation at all - what it shows stays where it is, and what it holds stays what it shows.
A gated history therefore IS the indented history without the suppressed calls (`gflat`;
`Props.C15.gate_simulates`, no hypothesis).

`quietSecs` is the rule BEFORE the repair of D41 (the bookkeeping of `clear` was done although every
stream write was gated); kept for the counterexamples in Props/C15.
-/
namespace Clikit.Section
open Clikit.Term Clikit.Gen

/-- The gate settings of one section. -/
structure GCfg where
  quiet : Bool
  verbosity : Nat
  deriving Repr, DecidableEq

/-- Operations of a history with indentation and the gate. -/
inductive GOp where
  | create (n : Nat) (q : Bool) (v : Nat)   -- `output.section()` while the output has indentation n, quiet q, verbosity v
  | indent (i n : Nat)                      -- from now on section `i` has indentation `n`
  | verbosity (i v : Nat)                   -- `section.set_verbosity(v)`
  | quiet (i : Nat) (q : Bool)              -- `section.set_quiet(q)`
  | write (i : Nat) (ls : List Str) (flags : Option Nat)   -- `section.write_line(text, flags)`
  | op (o : Op)                             -- `overwrite | clear | clear(n)` (and `write_line(text)`)
  deriving Repr, DecidableEq

structure GState where
  st : IState
  cfg : List GCfg          -- CREATION order
  deriving Repr, DecidableEq

/-- The settings of section `i`; a section nobody configured is neither quiet nor verbose. -/
def cfgOf (cfg : List GCfg) (i : Nat) : GCfg := cfg.getD i { quiet := false, verbosity := 0 }

/-- Does the gate of section `i` let a message with these flags through? (`Output._may_write`) -/
def passes (cfg : List GCfg) (i : Nat) (flags : Option Nat) : Bool :=
  mayWrite (cfgOf cfg i).quiet (cfgOf cfg i).verbosity flags

/-- The rule BEFORE the repair of D41: the sections after an operation without flags on a QUIET section of
an ANSI output - `clear` dropped what it was asked to drop and corrected its row counter, while the cursor
codes and the text of `overwrite` stayed in the gate. -/
def quietSecs (w : Nat) (secs : List Sec) : Op → List Sec
  | .clear i => (modify secs i (fun a s => clearSec w a s 0)).1
  | .clearN i n => (modify secs i (fun a s => clearSec w a s n)).1
  | .overwrite i _ => (modify secs i (fun a s => clearSec w a s 0)).1
  | _ => secs

def stepG (ansi : Bool) (w : Nat) (g : GState) : GOp → GState × List Cmd
  | .create n q v =>
    ({ st := (stepIO ansi w g.st (.create n)).1, cfg := g.cfg ++ [{ quiet := q, verbosity := v }] }, [])
  | .indent i n => ({ g with st := (stepIO ansi w g.st (.indent i n)).1 }, [])
  | .verbosity i v => ({ g with cfg := updAt (fun c => { c with verbosity := v }) i g.cfg }, [])
  | .quiet i q => ({ g with cfg := updAt (fun c => { c with quiet := q }) i g.cfg }, [])
  | .write i ls f =>
    if passes g.cfg i f then
      let r := stepIO ansi w g.st (.op (.write i ls))
      ({ g with st := r.1 }, r.2)
    else (g, [])
  | .op o =>
    if passes g.cfg (target o) none then
      let r := stepIO ansi w g.st (.op o)
      ({ g with st := r.1 }, r.2)
    else (g, [])

def runG (ansi : Bool) (w : Nat) : GState → List GOp → GState × List Cmd
  | g, [] => (g, [])
  | g, op :: r =>
    let r1 := stepG ansi w g op
    let r2 := runG ansi w r1.1 r
    (r2.1, r1.2 ++ r2.2)

/-- The same history op by op (what the driver answers). -/
def traceG (ansi : Bool) (w : Nat) : GState → List GOp → List (List Cmd × List Sec)
  | _, [] => []
  | g, op :: r =>
    let r1 := stepG ansi w g op
    (r1.2, r1.1.st.secs) :: traceG ansi w r1.1 r

/-- The indented history a gated history amounts to: the calls the gate suppresses are left out. -/
def gflat : List GCfg → List GOp → List IOp
  | _, [] => []
  | cfg, .create n q v :: r => .create n :: gflat (cfg ++ [{ quiet := q, verbosity := v }]) r
  | cfg, .indent i n :: r => .indent i n :: gflat cfg r
  | cfg, .verbosity i v :: r => gflat (updAt (fun c => { c with verbosity := v }) i cfg) r
  | cfg, .quiet i q :: r => gflat (updAt (fun c => { c with quiet := q }) i cfg) r
  | cfg, .write i ls f :: r =>
    if passes cfg i f then .op (.write i ls) :: gflat cfg r else gflat cfg r
  | cfg, .op o :: r =>
    if passes cfg (target o) none then .op o :: gflat cfg r else gflat cfg r

end Clikit.Section
