import Clikit.Model.Markup

/-!
# Formatters built from a given style set (C11, round 10)

`AnsiFormatter(style_set)` / `PlainFormatter(style_set)`: only `style_set is None` means "the default style set";
every StyleSet OBJECT - also one that holds no style at all - is registered as it stands, on top of the four
styles pastel registers itself.  A style set is the list of its styles (a dict keyed by tag: a later style with
the same tag replaces the earlier one, as `dictSet` in the registry does).
-/

namespace Clikit.Style
open Clikit Clikit.Gen.C11

/-- the styles of clikit's `DefaultStyleSet` (regenerated table) -/
def defaultStyleList : List Style := defaultStyles.map styleOfDefault

/-- `StyleSet.remove(tag)` for each tag, then `StyleSet.add(style)` for each style, on a set holding `base` -/
def styleSetOf (base : List Style) (removed : List Str) (added : List Style) : List Style :=
  base.filter (fun s => match s.tag with
    | some t => !removed.contains t
    | none => true) ++ added

/-- decider of the hypothesis of `Props.C11.style_set_emptied` (`empties_decides`): every style of `base` carries a tag
and that tag is among the removed ones.  Evaluated by the driver on the `remove` calls of every style-set case and
compared with whether the real `StyleSet` object holds no style after them. -/
def emptiesB (base : List Style) (removed : List Str) : Bool :=
  base.all (fun s => match s.tag with
    | some t => removed.contains t
    | none => false)

/-- the registry of a formatter built with `style_set`: `none` = the parameter omitted / `None` -/
def formatterRegistry : Option (List Style) → Except Err Registry
  | none => defaultRegistry
  | some l =>
    match pastelRegistry with
    | .ok reg => registerAll reg l
    | .error e => .error e

end Clikit.Style
