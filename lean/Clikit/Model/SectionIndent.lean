import Clikit.Model.Section
/-!
C15 - sections WITH INDENTATION, as a layer over `Clikit.Section`.

A section inherits the indentation its output has when `Output.section()` creates it
(`with output.indent(n): output.section()`), and `section.indent(n)` / `section.increment_indent(n)`
change it later.  With indentation `n`

* `SectionOutput.add_content` records every NON-EMPTY line of the text behind `n` blanks, an empty line
  as it is (D38 repaired: before, the empty line was recorded behind the blanks as well and counted as
  `⌈n/w⌉` rows although one empty row was shown - `writeSecPadAll`, counterexample in Props/C15),
* `Output.write(..., with_indent=True)` puts the text on the stream with the same rule,
* the erased contents of newer sections are written back as recorded (`with_indent=False`).

So an operation on a section of indentation `n` is the operation of the base model on the indented
lines (`padOp`).  `flat` turns an indented history into the base history it simulates
(`Props.C15.indent_simulates`).
-/
namespace Clikit.Section
open Clikit.Term

/-- `n` blanks in front of a line. -/
def pad (n : Nat) (l : Str) : Str := List.replicate n ' ' ++ l

/-- One line at indentation `n`, as `Output.write` sends it and `add_content` records it:
`(" " * n + s) if s else s`. -/
def emitLine (n : Nat) (l : Str) : Str := if l.isEmpty then l else pad n l

/-- Operations of a history with indentation. -/
inductive IOp where
  | create (n : Nat)        -- `with output.indent(n): output.section()`   (`n = 0`: plain `output.section()`)
  | indent (i n : Nat)      -- from now on section `i` has indentation `n`
  | op (o : Op)             -- `write | overwrite | clear | clearN` on a section
  deriving Repr, DecidableEq

/-- The base operation an operation on a section of indentation `n` amounts to: the recorded
lines carry the indentation. -/
def padOp (n : Nat) : Op → Op
  | .write i ls => .write i ((normLines ls).map (emitLine n))
  | .overwrite i ls => .overwrite i ((normLines ls).map (emitLine n))
  | o => o

/-- `write` at indentation `n`: `add_content` records the indented lines and counts their rows, the same
indented lines go on the stream. -/
def writeSecI (w : Nat) (newer : List Sec) (s : Sec) (n : Nat) (lines : List Str) : Sec × List Cmd :=
  let ls := (normLines lines).map (emitLine n)
  ({ content := s.content ++ ls, rows := s.rows + (ls.map (countRows w)).sum },
   popCmds newer 0 ++ ls.map .print ++ reprint newer)

/-- The rule BEFORE the repair of D38: every line, also an empty one, was recorded (and its rows counted)
behind the blanks, while the stream got the empty line without them. -/
def writeSecPadAll (w : Nat) (newer : List Sec) (s : Sec) (n : Nat) (lines : List Str) : Sec × List Cmd :=
  let ls := normLines lines
  ({ content := s.content ++ ls.map (pad n), rows := s.rows + ((ls.map (pad n)).map (countRows w)).sum },
   popCmds newer 0 ++ ls.map (fun l => .print (emitLine n l)) ++ reprint newer)

def overwriteSecI (w : Nat) (newer : List Sec) (s : Sec) (n : Nat) (lines : List Str) : Sec × List Cmd :=
  let r1 := clearSec w newer s 0
  let r2 := writeSecI w newer r1.1 n lines
  (r2.1, r1.2 ++ r2.2)

/-- One operation on a section whose indentation is `n`. -/
def stepI (ansi : Bool) (w : Nat) (secs : List Sec) (n : Nat) : Op → List Sec × List Cmd
  | .write i ls =>
    if ansi then modify secs i (fun a s => writeSecI w a s n ls)
    else if i < secs.length then (secs, (normLines ls).map (fun l => .print (emitLine n l))) else (secs, [])
  | .overwrite i ls =>
    if ansi then modify secs i (fun a s => overwriteSecI w a s n ls)
    else if i < secs.length then (secs, (normLines ls).map (fun l => .print (emitLine n l))) else (secs, [])
  | o => step ansi w secs o

/-- The section an operation addresses. -/
def target : Op → Nat
  | .create => 0
  | .write i _ => i
  | .overwrite i _ => i
  | .clear i => i
  | .clearN i _ => i

/-- `l[i] := v`, nothing when there is no `l[i]`. -/
def setAt (v : Nat) : Nat → List Nat → List Nat
  | _, [] => []
  | 0, _ :: r => v :: r
  | i + 1, x :: r => x :: setAt v i r

/-- The indentation of section `i` (creation order); `0` for a section nobody gave one. -/
def indOf (ind : List Nat) (i : Nat) : Nat := ind.getD i 0

/-- State: the sections (newest first, as in the base model) and the indentation of every section
in CREATION order. -/
structure IState where
  secs : List Sec
  ind : List Nat
  deriving Repr, DecidableEq

def stepIO (ansi : Bool) (w : Nat) (st : IState) : IOp → IState × List Cmd
  | .create n => ({ secs := { content := [], rows := 0 } :: st.secs, ind := st.ind ++ [n] }, [])
  | .indent i n => ({ st with ind := setAt n i st.ind }, [])
  | .op o =>
    let r := stepI ansi w st.secs (indOf st.ind (target o)) o
    ({ st with secs := r.1 }, r.2)

def runI (ansi : Bool) (w : Nat) : IState → List IOp → IState × List Cmd
  | st, [] => (st, [])
  | st, op :: r =>
    let r1 := stepIO ansi w st op
    let r2 := runI ansi w r1.1 r
    (r2.1, r1.2 ++ r2.2)

/-- The same history op by op (what the driver answers). -/
def traceI (ansi : Bool) (w : Nat) : IState → List IOp → List (List Cmd × List Sec)
  | _, [] => []
  | st, op :: r =>
    let r1 := stepIO ansi w st op
    (r1.2, r1.1.secs) :: traceI ansi w r1.1 r

/-- The base history an indented history simulates. -/
def flat : List Nat → List IOp → List Op
  | _, [] => []
  | ind, .create n :: r => .create :: flat (ind ++ [n]) r
  | ind, .indent i n :: r => flat (setAt n i ind) r
  | ind, .op o :: r => padOp (indOf ind (target o)) o :: flat ind r

end Clikit.Section
