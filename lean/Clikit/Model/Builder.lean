import Clikit.Base
/-!
C06 - executable model of `ArgsFormatBuilder` and `ArgsFormat`
(`src/clikit/api/args/format/args_format_builder.py`, `args_format.py`), core Lean only.

* An element carries exactly what the two classes look at (names, aliases, the
  required / optional / multi-valued bits) plus a `tag` standing for everything else
  (flags, description, default - and the identity of the Python object).
* Both classes keep the same eight fields (`Level`); a format additionally has an optional
  base format, so a format is a chain of levels (`FormatRec`, nested through `Option`).
* Python dictionaries are association lists with `dictSet` / `dictGet?` (insertion order is
  observable through the listings).
* Every public `has_*` / `get_*` is written **twice**, once on `FormatRec` (mirror of
  `ArgsFormat`) and once on `Builder` (mirror of `ArgsFormatBuilder`), exactly as the Python
  does; that they agree is a theorem (`Props/C06.lean`), not a definition.
-/
namespace Clikit.ArgsFmt

abbrev Dict (ν : Type) := List (Str × ν)

def dictKeys {ν : Type} (d : Dict ν) : List Str := d.map Prod.fst
def dictVals {ν : Type} (d : Dict ν) : List ν := d.map Prod.snd

/-- `d.update(e)` -/
def dictUpdate {ν : Type} : Dict ν → Dict ν → Dict ν
  | d, [] => d
  | d, (k, v) :: e => dictUpdate (dictSet k v d) e

/-- `for k in ks: d[k] = v` -/
def dictSetAll {ν : Type} (v : ν) : List Str → Dict ν → Dict ν
  | [], d => d
  | k :: ks, d => dictSetAll v ks (dictSet k v d)

/-- Python truthiness of an optional string (`if short_name:`) -/
def truthy : Option Str → Bool
  | some (_ :: _) => true
  | _ => false

/-- `if s: d[s] = v` -/
def setIfTruthy {ν : Type} (s : Option Str) (v : ν) (d : Dict ν) : Dict ν :=
  match s with
  | some (c :: r) => dictSet (c :: r) v d
  | _ => d

/-- Python `l[i]` on a list (negative indices count from the end). -/
def pyIndex {α : Type} (l : List α) (i : Int) : Except Err α :=
  let j : Int := if i < 0 then i + (l.length : Int) else i
  if j < 0 then .error (.other "IndexError")
  else match l[j.toNat]? with
    | some a => .ok a
    | none => .error (.other "IndexError")

/-! ### Elements -/

structure Opt where
  long : Str
  short : Option Str
  tag : Nat
  deriving DecidableEq, Repr

structure CmdOpt where
  long : Str
  short : Option Str
  longAliases : List Str
  shortAliases : List Str
  tag : Nat
  deriving DecidableEq, Repr

structure Arg where
  name : Str
  required : Bool     -- `is_required()`
  optional : Bool     -- `is_optional()`
  multi : Bool        -- `is_multi_valued()`
  tag : Nat
  deriving DecidableEq, Repr

structure CmdName where
  name : Str
  aliases : List Str
  tag : Nat
  deriving DecidableEq, Repr

/-- The fields both `ArgsFormatBuilder` and `ArgsFormat` keep. -/
structure Level where
  names : List CmdName := []          -- `_command_names`
  copts : Dict CmdOpt := []           -- `_command_options`
  coptsS : Dict CmdOpt := []          -- `_command_options_by_short_name`
  args : Dict Arg := []               -- `_arguments`
  opts : Dict Opt := []               -- `_options`
  optsS : Dict Opt := []              -- `_options_by_short_name`
  hasMulti : Bool := false            -- `_has_multi_valued_arg`
  hasOpt : Bool := false              -- `_hash_optional_arg`
  deriving Repr

/-- An `ArgsFormat` object: its own fields and `_base_format`. -/
inductive FormatRec where
  | mk (base : Option FormatRec) (own : Level)

namespace FormatRec

def base : FormatRec → Option FormatRec | .mk b _ => b
def own : FormatRec → Level | .mk _ l => l

/-! #### `ArgsFormat` queries (recursion into the base always uses the default
`include_base=True`) -/

def hasCommandNames : FormatRec → Bool → Bool
  | .mk b l, ib =>
    if !l.names.isEmpty then true
    else match ib, b with
      | true, some g => g.hasCommandNames true
      | _, _ => false

def getCommandNames : FormatRec → Bool → List CmdName
  | .mk b l, ib =>
    match ib, b with
    | true, some g => g.getCommandNames true ++ l.names
    | _, _ => l.names

def hasCommandOption : FormatRec → Str → Bool → Bool
  | .mk b l, n, ib =>
    if dictHas n l.copts || dictHas n l.coptsS then true
    else match ib, b with
      | true, some g => g.hasCommandOption n true
      | _, _ => false

def hasCommandOptions : FormatRec → Bool → Bool
  | .mk b l, ib =>
    if !l.copts.isEmpty then true
    else match ib, b with
      | true, some g => g.hasCommandOptions true
      | _, _ => false

def getCommandOption : FormatRec → Str → Bool → Except Err CmdOpt
  | .mk b l, n, ib =>
    match dictGet? n l.copts with
    | some c => .ok c
    | none =>
      match dictGet? n l.coptsS with
      | some c => .ok c
      | none =>
        match ib, b with
        | true, some g => g.getCommandOption n true
        | _, _ => .error .noSuchOption

def getCommandOptions : FormatRec → Bool → List CmdOpt
  | .mk b l, ib =>
    match ib, b with
    | true, some g => dictVals l.copts ++ g.getCommandOptions true
    | _, _ => dictVals l.copts

def getArguments : FormatRec → Bool → Dict Arg
  | .mk b l, ib =>
    match ib, b with
    | true, some g => dictUpdate (g.getArguments true) l.args
    | _, _ => l.args

def hasArgument (f : FormatRec) (n : Str) (ib : Bool) : Bool :=
  dictHas n (f.getArguments ib)

def hasArgumentAt (f : FormatRec) (i : Int) (ib : Bool) : Bool :=
  decide (i < ((f.getArguments ib).length : Int))

def hasMultiValuedArgument : FormatRec → Bool → Bool
  | .mk b l, ib =>
    if l.hasMulti then true
    else match ib, b with
      | true, some g => g.hasMultiValuedArgument true
      | _, _ => false

def hasOptionalArgument : FormatRec → Bool → Bool
  | .mk b l, ib =>
    if l.hasOpt then true
    else match ib, b with
      | true, some g => g.hasOptionalArgument true
      | _, _ => false

def hasRequiredArgument : FormatRec → Bool → Bool
  | .mk b l, ib =>
    if (dictVals l.args).any (·.required) then true
    else match ib, b with
      | true, some g => g.hasRequiredArgument true
      | _, _ => false

def hasArguments : FormatRec → Bool → Bool
  | .mk b l, ib =>
    if !l.args.isEmpty then true
    else match ib, b with
      | true, some g => g.hasArguments true
      | _, _ => false

def getArgument (f : FormatRec) (n : Str) (ib : Bool) : Except Err Arg :=
  let d := f.getArguments ib
  if !dictHas n d then .error .noSuchArgument
  else match dictGet? n d with
    | some a => .ok a
    | none => .error (.other "KeyError")

def getArgumentAt (f : FormatRec) (i : Int) (ib : Bool) : Except Err Arg :=
  let l := dictVals (f.getArguments ib)
  if i ≥ (l.length : Int) then .error .noSuchArgument else pyIndex l i

def hasOption : FormatRec → Str → Bool → Bool
  | .mk b l, n, ib =>
    if dictHas n l.opts || dictHas n l.optsS then true
    else match ib, b with
      | true, some g => g.hasOption n true
      | _, _ => false

def hasOptions : FormatRec → Bool → Bool
  | .mk b l, ib =>
    if !l.opts.isEmpty then true
    else match ib, b with
      | true, some g => g.hasOptions true
      | _, _ => false

def getOption : FormatRec → Str → Bool → Except Err Opt
  | .mk b l, n, ib =>
    match dictGet? n l.opts with
    | some o => .ok o
    | none =>
      match dictGet? n l.optsS with
      | some o => .ok o
      | none =>
        match ib, b with
        | true, some g => g.getOption n true
        | _, _ => .error .noSuchOption

def getOptions : FormatRec → Bool → Dict Opt
  | .mk b l, ib =>
    match ib, b with
    | true, some g => dictUpdate l.opts (g.getOptions true)
    | _, _ => l.opts

end FormatRec

/-- An `ArgsFormatBuilder` object. -/
structure Builder where
  base : Option FormatRec
  own : Level := {}

namespace Builder

/-- `ArgsFormatBuilder(base_format)` -/
def empty (base : Option FormatRec) : Builder := { base := base }

/-! #### `ArgsFormatBuilder` queries -/

def hasCommandNames (b : Builder) (ib : Bool) : Bool :=
  if !b.own.names.isEmpty then true
  else match ib, b.base with
    | true, some g => g.hasCommandNames true
    | _, _ => false

def getCommandNames (b : Builder) (ib : Bool) : List CmdName :=
  match ib, b.base with
  | true, some g => g.getCommandNames true ++ b.own.names
  | _, _ => b.own.names

def hasCommandOption (b : Builder) (n : Str) (ib : Bool) : Bool :=
  if dictHas n b.own.copts || dictHas n b.own.coptsS then true
  else match ib, b.base with
    | true, some g => g.hasCommandOption n true
    | _, _ => false

def hasCommandOptions (b : Builder) (ib : Bool) : Bool :=
  if !b.own.copts.isEmpty then true
  else match ib, b.base with
    | true, some g => g.hasCommandOptions true
    | _, _ => false

def getCommandOption (b : Builder) (n : Str) (ib : Bool) : Except Err CmdOpt :=
  match dictGet? n b.own.copts with
  | some c => .ok c
  | none =>
    match dictGet? n b.own.coptsS with
    | some c => .ok c
    | none =>
      match ib, b.base with
      | true, some g => g.getCommandOption n true
      | _, _ => .error .noSuchOption

def getCommandOptions (b : Builder) (ib : Bool) : List CmdOpt :=
  match ib, b.base with
  | true, some g => dictVals b.own.copts ++ g.getCommandOptions true
  | _, _ => dictVals b.own.copts

def getArguments (b : Builder) (ib : Bool) : Dict Arg :=
  match ib, b.base with
  | true, some g => dictUpdate (g.getArguments true) b.own.args
  | _, _ => b.own.args

def hasArgument (b : Builder) (n : Str) (ib : Bool) : Bool :=
  dictHas n (b.getArguments ib)

def hasArgumentAt (b : Builder) (i : Int) (ib : Bool) : Bool :=
  decide (i < ((b.getArguments ib).length : Int))

def hasMultiValuedArgument (b : Builder) (ib : Bool) : Bool :=
  if b.own.hasMulti then true
  else match ib, b.base with
    | true, some g => g.hasMultiValuedArgument true
    | _, _ => false

def hasOptionalArgument (b : Builder) (ib : Bool) : Bool :=
  if b.own.hasOpt then true
  else match ib, b.base with
    | true, some g => g.hasOptionalArgument true
    | _, _ => false

def hasRequiredArgument (b : Builder) (ib : Bool) : Bool :=
  if (dictVals b.own.args).any (·.required) then true
  else match ib, b.base with
    | true, some g => g.hasRequiredArgument true
    | _, _ => false

def hasArguments (b : Builder) (ib : Bool) : Bool :=
  if !b.own.args.isEmpty then true
  else match ib, b.base with
    | true, some g => g.hasArguments true
    | _, _ => false

def getArgument (b : Builder) (n : Str) (ib : Bool) : Except Err Arg :=
  let d := b.getArguments ib
  if !dictHas n d then .error .noSuchArgument
  else match dictGet? n d with
    | some a => .ok a
    | none => .error (.other "KeyError")

def getArgumentAt (b : Builder) (i : Int) (ib : Bool) : Except Err Arg :=
  let l := dictVals (b.getArguments ib)
  if i ≥ (l.length : Int) then .error .noSuchArgument else pyIndex l i

def hasOption (b : Builder) (n : Str) (ib : Bool) : Bool :=
  if dictHas n b.own.opts || dictHas n b.own.optsS then true
  else match ib, b.base with
    | true, some g => g.hasOption n true
    | _, _ => false

def hasOptions (b : Builder) (ib : Bool) : Bool :=
  if !b.own.opts.isEmpty then true
  else match ib, b.base with
    | true, some g => g.hasOptions true
    | _, _ => false

def getOption (b : Builder) (n : Str) (ib : Bool) : Except Err Opt :=
  match dictGet? n b.own.opts with
  | some o => .ok o
  | none =>
    match dictGet? n b.own.optsS with
    | some o => .ok o
    | none =>
      match ib, b.base with
      | true, some g => g.getOption n true
      | _, _ => .error .noSuchOption

def getOptions (b : Builder) (ib : Bool) : Dict Opt :=
  match ib, b.base with
  | true, some g => dictUpdate b.own.opts (g.getOptions true)
  | _, _ => b.own.opts

/-! #### Mutators.  `.error` means the exception was raised *and nothing was assigned*
(every check precedes every assignment in the Python). -/

/-- `has_option(name) or has_command_option(name)`; `name` may be `None` (a missing short
name), which is in no dictionary. -/
def nameTaken (b : Builder) : Option Str → Bool
  | some n => b.hasOption n true || b.hasCommandOption n true
  | none => false

def addOption (b : Builder) (o : Opt) : Except Err Builder :=
  if b.nameTaken (some o.long) then .error .cannotAddOption
  else if b.nameTaken o.short then .error .cannotAddOption
  else .ok { b with own := { b.own with
      opts := dictSet o.long o b.own.opts
      optsS := setIfTruthy o.short o b.own.optsS } }

def addCommandOption (b : Builder) (c : CmdOpt) : Except Err Builder :=
  if b.nameTaken (some c.long) then .error .cannotAddOption
  else if c.longAliases.any (fun a => b.nameTaken (some a)) then .error .cannotAddOption
  else if b.nameTaken c.short then .error .cannotAddOption
  else if c.shortAliases.any (fun a => b.nameTaken (some a)) then .error .cannotAddOption
  else .ok { b with own := { b.own with
      copts := dictSetAll c c.longAliases (dictSet c.long c b.own.copts)
      coptsS := dictSetAll c c.shortAliases (setIfTruthy c.short c b.own.coptsS) } }

def addArgument (b : Builder) (a : Arg) : Except Err Builder :=
  if b.hasArgument a.name true then .error .cannotAddArgument
  else if b.hasMultiValuedArgument true then .error .cannotAddArgument
  else if a.required && b.hasOptionalArgument true then .error .cannotAddArgument
  else .ok { b with own := { b.own with
      hasMulti := if a.multi then true else b.own.hasMulti
      hasOpt := if a.optional then true else b.own.hasOpt
      args := dictSet a.name a b.own.args } }

def addCommandName (b : Builder) (n : CmdName) : Except Err Builder :=
  .ok { b with own := { b.own with names := b.own.names ++ [n] } }

end Builder

/-- The public mutating API of the builder. -/
inductive Op where
  | addOption (o : Opt)
  | addOptions (os : List Opt)
  | setOptions (os : List Opt)
  | addCommandOption (c : CmdOpt)
  | addCommandOptions (cs : List CmdOpt)
  | setCommandOptions (cs : List CmdOpt)
  | addArgument (a : Arg)
  | addArguments (as : List Arg)
  | setArguments (as : List Arg)
  | addCommandName (n : CmdName)
  | addCommandNames (ns : List CmdName)
  | setCommandNames (ns : List CmdName)
  deriving Repr

/-- `for e in es: add(e)` - stops at the first exception, keeping what was added before. -/
def addAll {ε : Type} (add : Builder → ε → Except Err Builder) : Builder → List ε → Builder × Option Err
  | b, [] => (b, none)
  | b, e :: es =>
    match add b e with
    | .ok b' => addAll add b' es
    | .error err => (b, some err)

def one {ε : Type} (add : Builder → ε → Except Err Builder) (b : Builder) (e : ε) : Builder × Option Err :=
  match add b e with
  | .ok b' => (b', none)
  | .error err => (b, some err)

/-- One call of the public API: the builder afterwards and the exception raised, if any. -/
def step (b : Builder) : Op → Builder × Option Err
  | .addOption o => one Builder.addOption b o
  | .addOptions os => addAll Builder.addOption b os
  | .setOptions os => addAll Builder.addOption { b with own := { b.own with opts := [], optsS := [] } } os
  | .addCommandOption c => one Builder.addCommandOption b c
  | .addCommandOptions cs => addAll Builder.addCommandOption b cs
  | .setCommandOptions cs =>
      addAll Builder.addCommandOption { b with own := { b.own with copts := [], coptsS := [] } } cs
  | .addArgument a => one Builder.addArgument b a
  | .addArguments as => addAll Builder.addArgument b as
  | .setArguments as =>
      addAll Builder.addArgument
        { b with own := { b.own with args := [], hasMulti := false, hasOpt := false } } as
  | .addCommandName n => one Builder.addCommandName b n
  | .addCommandNames ns => addAll Builder.addCommandName b ns
  | .setCommandNames ns => addAll Builder.addCommandName { b with own := { b.own with names := [] } } ns

/-- A history of calls (exceptions are caught by the caller and the builder is used further). -/
def run (b : Builder) : List Op → Builder
  | [] => b
  | op :: ops => run (step b op).1 ops

/-! ### `ArgsFormat.__init__` -/

/-- the loop over `self._options.values()` filling `_options_by_short_name` -/
def indexOptsByShort : List Opt → Dict Opt → Dict Opt
  | [], d => d
  | o :: os, d => indexOptsByShort os (setIfTruthy o.short o d)

/-- the loop over `builder.get_command_options(False)` filling both command-option tables -/
def indexCmdOpts : List CmdOpt → Dict CmdOpt × Dict CmdOpt → Dict CmdOpt × Dict CmdOpt
  | [], d => d
  | c :: cs, (dl, ds) =>
    indexCmdOpts cs (dictSetAll c c.longAliases (dictSet c.long c dl),
                     dictSetAll c c.shortAliases (setIfTruthy c.short c ds))

/-- `ArgsFormat(builder, base)` with `base = builder.base_format` - what the `format`
property of the builder returns. -/
def format (b : Builder) : FormatRec :=
  let opts := b.getOptions false
  let ci := indexCmdOpts (b.getCommandOptions false) ([], [])
  .mk b.base {
    names := b.getCommandNames false
    copts := ci.1
    coptsS := ci.2
    args := b.getArguments false
    opts := opts
    optsS := indexOptsByShort (dictVals opts) []
    hasMulti := b.hasMultiValuedArgument false
    hasOpt := b.hasOptionalArgument false }

/-- What `_create_builder_for_elements` dispatches on (`isinstance`); anything else is
silently skipped by the Python. -/
inductive Elem where
  | name (n : CmdName)
  | copt (c : CmdOpt)
  | opt (o : Opt)
  | arg (a : Arg)
  | foreign
  deriving Repr

/-- `ArgsFormat._create_builder_for_elements(elements, base_format)` -/
def createBuilder : Builder → List Elem → Except Err Builder
  | b, [] => .ok b
  | b, .name n :: es => do createBuilder (← b.addCommandName n) es
  | b, .copt c :: es => do createBuilder (← b.addCommandOption c) es
  | b, .opt o :: es => do createBuilder (← b.addOption o) es
  | b, .arg a :: es => do createBuilder (← b.addArgument a) es
  | b, .foreign :: es => createBuilder b es

/-- `ArgsFormat(elements, base_format)` -/
def ctor (es : List Elem) (base : Option FormatRec) : Except Err FormatRec := do
  let b ← createBuilder (Builder.empty base) es
  return .mk (match base with | some g => some g | none => b.base) (format b).own

/-! ### Which element an OBJECT is

The elements handed to `ArgsFormat(elements, base)` are objects; an object may be an instance of a
user-defined subclass of a public element class (directly or several levels down, with mixins).
`_create_builder_for_elements` asks `isinstance(element, C)` for the four public classes `C` in a
fixed order, i.e. whether `C` occurs among the bases (the MRO) of the object's class; the first test
that succeeds decides through which `add_*` the object goes, an object that passes none is skipped. -/

inductive PubClass where
  | commandName | commandOption | option | argument
  deriving DecidableEq, Repr

/-- the order of the `isinstance` tests -/
def dispatchOrder : List PubClass := [.commandName, .commandOption, .option, .argument]

/-- `mro` = the public element classes among the bases of `type(element)` (the class itself
included, any order, repetitions allowed).  The class the object is added as, `none` = skipped. -/
def dispatch (mro : List PubClass) : Option PubClass :=
  dispatchOrder.find? (fun c => mro.contains c)

/-- the object's class derives from the public element class `c` and from no other public one: the
hypothesis of `Props.C06.dispatch_subclass` / `ctor_objects_same_rules`, decided on the bases read
from the real object's class (`Props.C06.only_decides`) -/
def onlyB (mro : List PubClass) (c : PubClass) : Bool := !mro.isEmpty && mro.all (fun x => x == c)

/-- The element list `createBuilder` works on, for a list of objects of arbitrary classes: each
object read through the public class its dispatch selects (`read o c`), others are `foreign`. -/
def elemsOf {Obj : Type} (mro : Obj → List PubClass) (read : Obj → PubClass → Elem) (os : List Obj) : List Elem :=
  os.map (fun o => match dispatch (mro o) with | some c => read o c | none => .foreign)

/-! ### Queries -/

inductive Query where
  | hasCommandNames (ib : Bool)
  | getCommandNames (ib : Bool)
  | hasCommandOption (n : Str) (ib : Bool)
  | hasCommandOptions (ib : Bool)
  | getCommandOption (n : Str) (ib : Bool)
  | getCommandOptions (ib : Bool)
  | hasArgument (n : Str) (ib : Bool)
  | hasArgumentAt (i : Int) (ib : Bool)
  | hasMultiValuedArgument (ib : Bool)
  | hasOptionalArgument (ib : Bool)
  | hasRequiredArgument (ib : Bool)
  | hasArguments (ib : Bool)
  | getArgument (n : Str) (ib : Bool)
  | getArgumentAt (i : Int) (ib : Bool)
  | getArguments (ib : Bool)
  | hasOption (n : Str) (ib : Bool)
  | hasOptions (ib : Bool)
  | getOption (n : Str) (ib : Bool)
  | getOptions (ib : Bool)
  deriving Repr

inductive Answer where
  | bool (v : Bool)
  | names (l : List CmdName)
  | copt (r : Except Err CmdOpt)
  | copts (l : List CmdOpt)
  | arg (r : Except Err Arg)
  | args (d : Dict Arg)
  | opt (r : Except Err Opt)
  | opts (d : Dict Opt)

/-- every public query of `ArgsFormat` -/
def queryF (f : FormatRec) : Query → Answer
  | .hasCommandNames ib => .bool (f.hasCommandNames ib)
  | .getCommandNames ib => .names (f.getCommandNames ib)
  | .hasCommandOption n ib => .bool (f.hasCommandOption n ib)
  | .hasCommandOptions ib => .bool (f.hasCommandOptions ib)
  | .getCommandOption n ib => .copt (f.getCommandOption n ib)
  | .getCommandOptions ib => .copts (f.getCommandOptions ib)
  | .hasArgument n ib => .bool (f.hasArgument n ib)
  | .hasArgumentAt i ib => .bool (f.hasArgumentAt i ib)
  | .hasMultiValuedArgument ib => .bool (f.hasMultiValuedArgument ib)
  | .hasOptionalArgument ib => .bool (f.hasOptionalArgument ib)
  | .hasRequiredArgument ib => .bool (f.hasRequiredArgument ib)
  | .hasArguments ib => .bool (f.hasArguments ib)
  | .getArgument n ib => .arg (f.getArgument n ib)
  | .getArgumentAt i ib => .arg (f.getArgumentAt i ib)
  | .getArguments ib => .args (f.getArguments ib)
  | .hasOption n ib => .bool (f.hasOption n ib)
  | .hasOptions ib => .bool (f.hasOptions ib)
  | .getOption n ib => .opt (f.getOption n ib)
  | .getOptions ib => .opts (f.getOptions ib)

/-- every public query of `ArgsFormatBuilder` -/
def queryB (b : Builder) : Query → Answer
  | .hasCommandNames ib => .bool (b.hasCommandNames ib)
  | .getCommandNames ib => .names (b.getCommandNames ib)
  | .hasCommandOption n ib => .bool (b.hasCommandOption n ib)
  | .hasCommandOptions ib => .bool (b.hasCommandOptions ib)
  | .getCommandOption n ib => .copt (b.getCommandOption n ib)
  | .getCommandOptions ib => .copts (b.getCommandOptions ib)
  | .hasArgument n ib => .bool (b.hasArgument n ib)
  | .hasArgumentAt i ib => .bool (b.hasArgumentAt i ib)
  | .hasMultiValuedArgument ib => .bool (b.hasMultiValuedArgument ib)
  | .hasOptionalArgument ib => .bool (b.hasOptionalArgument ib)
  | .hasRequiredArgument ib => .bool (b.hasRequiredArgument ib)
  | .hasArguments ib => .bool (b.hasArguments ib)
  | .getArgument n ib => .arg (b.getArgument n ib)
  | .getArgumentAt i ib => .arg (b.getArgumentAt i ib)
  | .getArguments ib => .args (b.getArguments ib)
  | .hasOption n ib => .bool (b.hasOption n ib)
  | .hasOptions ib => .bool (b.hasOptions ib)
  | .getOption n ib => .opt (b.getOption n ib)
  | .getOptions ib => .opts (b.getOptions ib)

/-! ### Deciders of the hypotheses of the C06 theorems

The theorems of `Props/C06.lean` assume that the elements handed to the builder are what the
element constructors produce (`Opt.wf`, `CmdOpt.wf`, `Op.wf` in `Lemmas/Builder.lean`) and that
the base format is itself a built format.  These are the executable forms: the driver answers
them on the names read from the REAL element objects of every case (`c06.wf`). -/

/-- `len(s) == 1` for an optional short name (`None` passes) -/
def shortOkB : Option Str → Bool
  | some s => s.length == 1
  | none => true

/-- decides `Opt.wf`: long name of at least two characters, short name of exactly one -/
def Opt.wfB (o : Opt) : Bool := decide (2 ≤ o.long.length) && shortOkB o.short

/-- decides `CmdOpt.wf` -/
def CmdOpt.wfB (c : CmdOpt) : Bool :=
  decide (2 ≤ c.long.length) && shortOkB c.short &&
  c.longAliases.all (fun a => decide (2 ≤ a.length)) && c.shortAliases.all (fun a => a.length == 1)

/-- decides `Op.wf` -/
def Op.wfB : Op → Bool
  | .addOption o => o.wfB
  | .addOptions os => os.all Opt.wfB
  | .setOptions os => os.all Opt.wfB
  | .addCommandOption c => c.wfB
  | .addCommandOptions cs => cs.all CmdOpt.wfB
  | .setCommandOptions cs => cs.all CmdOpt.wfB
  | _ => true

/-- decides that the single addition an element stands for is well formed -/
def Elem.wfB : Elem → Bool
  | .opt o => o.wfB
  | .copt c => c.wfB
  | _ => true

/-- a chain of base formats, innermost first: each level is `ArgsFormat(elements, previous)`;
the first rejected level raises -/
def ctorChain : List (List Elem) → Option FormatRec → Except Err (Option FormatRec)
  | [], base => .ok base
  | es :: rest, base =>
    match ctor es base with
    | .ok f => ctorChain rest (some f)
    | .error e => .error e

end Clikit.ArgsFmt
