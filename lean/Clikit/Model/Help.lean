import Clikit.Model.Resolver
import Clikit.Gen.C08
/-!
# Model of the help pages (C13)

Follows `src/clikit/ui/help/abstract_help.py`, `application_help.py`, `command_help.py`
(which elements a page consists of), `ui/layout/block_layout.py`,
`ui/alignment/label_alignment.py` (text offset), `ui/components/labeled_paragraph.py`,
`paragraph.py`, `empty_line.py`, `name_version.py` (how an element becomes text),
`handler/help/help_text_handler.py`, `resolver/help_resolver.py` and the `-h|--help`
listener of `config/default_application_config.py` (which page a command line shows).

Conventions

* The command tree is the tree of *configurations* (`CommandConfig`), including the
  `enabled` flag: `ConsoleApplication.add_command` / `Command.add_sub_command` drop disabled
  configurations, here `live`.
* **Labels are modelled by their visible text**: in the code a label carries style tags
  (`<c1>--foo</c1> (-f)`, `<u>app</u> <u>server</u>`); `LabeledParagraph.render` measures
  `io.remove_format(label)` and pads by the visible length, so only the visible text matters.
* **Texts keep their style tags** (`<b>(default: 3)</b>`, `<b>USAGE</b>`, `<u>add</u>`),
  because `textwrap.wrap` is applied to the tagged text; the formatter removes the tags
  afterwards (`stripTags`, per `io.write` call).  Only the tags the help pages themselves
  produce are known to `stripTags`; descriptions containing `<`, `>` or `\` are outside the
  model (pastel, C11).
* `json.dumps(default)` and `str.format` are external: a default arrives as its JSON text,
  a help text is required to be free of braces (`formatOK`, over-approximating the inputs on
  which `help.format(...)` raises).
* `textwrap.wrap` is a parameter `wrap : Nat → Str → List Str` (DESIGN 3.5); `wrap` is only
  called with a width ≥ 1, a width ≤ 0 is the `ValueError` branch.
-/
namespace Clikit.Help
open Clikit Clikit.Parser Clikit.Resolver

/-! ## Data -/

/-- the `default` of an argument / option as far as the help page looks at it -/
inductive Dflt where
  | absent                                   -- `None`
  | scalar (json : Str)                      -- not a list; `json = json.dumps(default)`
  | list (len : Nat) (json : Str)            -- a list of `len` elements
  deriving Repr, DecidableEq, Inhabited

/-- `default is not None and (not isinstance(default, list) or len(default) > 0)` -/
def Dflt.shown : Dflt → Option Str
  | .absent => none
  | .scalar j => some j
  | .list n j => if n > 0 then some j else none

structure HArg where
  name : Str
  required : Bool
  multi : Bool
  descr : Option Str                         -- `Argument.description`, `None` when not given
  dflt : Dflt
  deriving Repr, DecidableEq, Inhabited

structure HOpt where
  long : Str
  short : Option Str
  preferLong : Bool                          -- `is_long_name_preferred()`
  acceptsValue : Bool
  valueRequired : Bool
  valueOptional : Bool
  multi : Bool
  valueName : Str
  descr : Option Str
  dflt : Dflt
  deriving Repr, DecidableEq, Inhabited

/-- a command configuration; `fmt`/`lenient` are what the resolver's trial parses need (C03) -/
inductive HCmd where
  | mk (name : Str) (aliases : List Str) (isDefault anonymous hidden enabled : Bool)
       (descr : Str) (help : Option Str) (args : List HArg) (opts : List HOpt)
       (fmt : Fmt) (lenient : Bool) (subs : List HCmd)
  deriving Inhabited

namespace HCmd
def name : HCmd → Str | mk n _ _ _ _ _ _ _ _ _ _ _ _ => n
def aliases : HCmd → List Str | mk _ a _ _ _ _ _ _ _ _ _ _ _ => a
def isDefault : HCmd → Bool | mk _ _ d _ _ _ _ _ _ _ _ _ _ => d
def anonymous : HCmd → Bool | mk _ _ _ a _ _ _ _ _ _ _ _ _ => a
def hidden : HCmd → Bool | mk _ _ _ _ h _ _ _ _ _ _ _ _ => h
def enabled : HCmd → Bool | mk _ _ _ _ _ e _ _ _ _ _ _ _ => e
def descr : HCmd → Str | mk _ _ _ _ _ _ d _ _ _ _ _ _ => d
def help : HCmd → Option Str | mk _ _ _ _ _ _ _ h _ _ _ _ _ => h
def args : HCmd → List HArg | mk _ _ _ _ _ _ _ _ a _ _ _ _ => a
def opts : HCmd → List HOpt | mk _ _ _ _ _ _ _ _ _ o _ _ _ => o
def fmt : HCmd → Fmt | mk _ _ _ _ _ _ _ _ _ _ f _ _ => f
def lenient : HCmd → Bool | mk _ _ _ _ _ _ _ _ _ _ _ l _ => l
def subs : HCmd → List HCmd | mk _ _ _ _ _ _ _ _ _ _ _ _ s => s
end HCmd

/-- the application configuration as far as help pages look at it (no global *arguments*) -/
structure HApp where
  name : Option Str                          -- `config.name`
  displayName : Option Str                   -- `config.display_name`
  version : Option Str
  help : Option Str
  opts : List HOpt                           -- global options
  cmds : List HCmd                           -- command configurations in registration order
  deriving Inhabited

/-- the configurations that become commands: `add_command` / `add_sub_command` return early
for a disabled configuration -/
def live (l : List HCmd) : List HCmd := l.filter (·.enabled)

/-- iteration order of a `CommandCollection` built by adding `l` in order (`dict` keyed by name:
a later command of the same name replaces the earlier one in place) -/
def collValues (l : List HCmd) : List HCmd :=
  (l.foldl (fun d c => dictSet c.name c d) ([] : List (Str × HCmd))).map (·.2)

/-- what a command inherits from the formats below its own (`base_format` chain) -/
structure Ctx where
  names : List Str                           -- `get_command_names()`
  args : List HArg                           -- `get_arguments()`, outermost first
  opts : List HOpt                           -- `get_options()`, innermost first
  deriving Inhabited

/-- the global format -/
def HApp.ctx (app : HApp) : Ctx := { names := [], args := [], opts := app.opts }

/-- `config.build_args_format(base)` seen through `get_command_names/arguments/options` -/
def Ctx.enter (x : Ctx) (c : HCmd) : Ctx :=
  { names := if c.anonymous then x.names else x.names ++ [c.name],
    args := x.args ++ c.args,
    opts := c.opts ++ x.opts }

/-! ## Elements of a page -/

inductive Element where
  | paragraph (text : Str)
  | labeled (label : Str) (text : Option Str) (padding : Nat) (aligned : Bool)
  | emptyLine
  deriving Repr, DecidableEq, Inhabited

/-- the content of a `BlockLayout`: (indentation, element) in the order of `add` -/
abbrev Page := List (Nat × Element)

def S (x : String) : Str := x.toList

def tagB (t : Str) : Str := S "<b>" ++ t ++ S "</b>"
def tagU (t : Str) : Str := S "<u>" ++ t ++ S "</u>"
def tagC1 (t : Str) : Str := S "<c1>" ++ t ++ S "</c1>"

/-- `sep.join(parts)` -/
def joinWith (sep : Str) : List Str → Str
  | [] => []
  | [a] => a
  | a :: b :: r => a ++ sep ++ joinWith sep (b :: r)

def heading (t : String) : Nat × Element := (0, .paragraph (tagB (S t)))

/-- `description or ""` (the D14 repair: `None` is never concatenated or wrapped) -/
def orEmpty : Option Str → Str
  | none => []
  | some d => d

/-! ### Arguments and options (`AbstractHelp`) -/

def argLabel (a : HArg) : Str := S "<" ++ a.name ++ S ">"

def argText (a : HArg) : Str :=
  orEmpty a.descr ++
    (match a.dflt.shown with
     | some j => S " " ++ tagB j
     | none => [])

/-- `_render_argument` -/
def argElem (a : HArg) : Element := .labeled (argLabel a) (some (argText a)) 2 true

/-- `"-{}".format(option.short_name)` - a missing short name would print as `None` -/
def shortText (o : HOpt) : Str := S "-" ++ (match o.short with | some x => x | none => S "None")
def longText (o : HOpt) : Str := S "--" ++ o.long

/-- visible text of the option label: preferred name, then the alternative in parentheses -/
def optLabel (o : HOpt) : Str :=
  if o.preferLong then
    longText o ++ (match o.short with
      | some x => if x.isEmpty then [] else S " (" ++ shortText o ++ S ")"
      | none => [])
  else shortText o ++ S " (" ++ longText o ++ S ")"

def optText (o : HOpt) : Str :=
  orEmpty o.descr ++
    (match (if o.acceptsValue then o.dflt.shown else none) with
     | some j => S " " ++ tagB (S "(default: " ++ j ++ S ")")
     | none => []) ++
    (if o.multi then S " " ++ tagB (S "(multiple values allowed)") else [])

/-- `_render_option` -/
def optElem (o : HOpt) : Element := .labeled (optLabel o) (some (optText o)) 2 true

/-- `_render_arguments` -/
def argumentsSection (args : List HArg) : Page :=
  heading "ARGUMENTS" :: (args.map fun a => (2, argElem a)) ++ [(0, .emptyLine)]

/-- `_render_options` / `_render_global_options` -/
def optionsSection (title : String) (opts : List HOpt) : Page :=
  heading title :: (opts.map fun o => (2, optElem o)) ++ [(0, .emptyLine)]

/-! ### Synopsis -/

def nbsp : Char := Char.ofNat 0xA0

/-- the name an option is shown under in a synopsis -/
def optName (o : HOpt) : Str := if o.preferLong then longText o else shortText o

def synOpt (o : HOpt) : Str :=
  let body :=
    if o.valueRequired then optName o ++ [nbsp] ++ S "<" ++ o.valueName ++ S ">"
    else if o.valueOptional then optName o ++ [nbsp] ++ S "[<" ++ o.valueName ++ S ">]"
    else optName o
  S "[" ++ body ++ S "]"

def synArg (a : HArg) : List Str :=
  let nm := a.name ++ (if a.multi then S "1" else [])
  let p := if a.required then S "<" ++ nm ++ S ">" else S "[<" ++ nm ++ S ">]"
  if a.multi then [p, S "... [<" ++ a.name ++ S "N>]"] else [p]

/-- `name_parts[-1] = "[{}]".format(name_parts[-1])` -/
def bracketLast : List Str → List Str
  | [] => []
  | [a] => [S "[" ++ a ++ S "]"]
  | a :: b :: r => a :: bracketLast (b :: r)

/-- `app_name or "console"` -/
def scriptName (n : Option Str) : Str :=
  match n with
  | some x => if x.isEmpty then S "console" else x
  | none => S "console"

/-- `_render_synopsis` for a format with command names `names`, own options `opts` and
arguments `args` (no command options) -/
def synopsis (appName : Option Str) (names : List Str) (opts : List HOpt) (args : List HArg)
    (pfx : Str) (lastOptional : Bool) : Element :=
  let parts := scriptName appName :: names
  let parts := if lastOptional then bracketLast parts else parts
  .labeled (pfx ++ joinWith [' '] parts)
    (some (joinWith [' '] (opts.map synOpt ++ (args.map synArg).flatten))) 1 false

/-! ### Sorting by name (`sorted(commands, key=lambda c: c.name)`) -/

/-- `a <= b` for Python strings: lexicographic by code point -/
def strLe : Str → Str → Bool
  | [], _ => true
  | _ :: _, [] => false
  | a :: r, b :: t => if a.toNat < b.toNat then true else if b.toNat < a.toNat then false else strLe r t

/-- `a < b` -/
def strLt (a b : Str) : Bool := !strLe b a

/-- insertion keeping the order of equal names (`sorted` is stable) -/
def insertByName (c : HCmd) : List HCmd → List HCmd
  | [] => [c]
  | d :: r => if strLt d.name c.name then d :: insertByName c r else c :: d :: r

def sortByName (l : List HCmd) : List HCmd := l.foldr insertByName []

/-! ### `str.split("\n")`, the DESCRIPTION block -/

def splitNl : Str → List Str
  | [] => [[]]
  | c :: r =>
    if c == '\n' then [] :: splitNl r
    else match splitNl r with
      | [] => [[c]]
      | l :: ls => (c :: l) :: ls

/-- `if help:` -/
def nonEmpty (h : Option Str) : Option Str :=
  match h with
  | some t => if t.isEmpty then none else some t
  | none => none

/-- `_render_description` (the text after `help.format(...)`, see `formatOK`) -/
def descriptionSection (h : Option Str) : Page :=
  match nonEmpty h with
  | none => []
  | some t => heading "DESCRIPTION" :: ((splitNl t).map fun p => (2, Element.paragraph p)) ++ [(0, .emptyLine)]

/-- over-approximation of "`help.format(script_name=…, command_name=…)` does not raise and
changes nothing": the text contains no brace -/
def formatOK (h : Option Str) : Bool :=
  match nonEmpty h with
  | none => true
  | some t => t.all fun c => c != '{' && c != '}'

/-! ## `ApplicationHelp._render_help` -/

/-- `NameVersion.render` -/
def nameVersion (app : HApp) : Element :=
  match nonEmpty app.displayName, nonEmpty app.version with
  | some d, some v => .paragraph (d ++ S " version " ++ tagC1 v)
  | some d, none => .paragraph d
  | none, _ => .paragraph (S "Console Tool")

def appArgCommand : HArg :=
  { name := S "command", required := true, multi := false,
    descr := some (S "The command to execute"), dflt := .absent }
def appArgArg : HArg :=
  { name := S "arg", required := false, multi := true,
    descr := some (S "The arguments of the command"), dflt := .absent }

/-- the commands the application lists: `named_commands` sorted, hidden ones skipped -/
def visibleNamed (l : List HCmd) : List HCmd :=
  (sortByName (collValues ((live l).filter fun c => !c.anonymous))).filter fun c => !c.hidden

/-- `_render_commands` -/
def appCommandsSection (cmds : List HCmd) : Page :=
  heading "AVAILABLE COMMANDS" ::
    ((visibleNamed cmds).map fun c => (2, Element.labeled c.name (some c.descr) 2 true)) ++ [(0, .emptyLine)]

def applicationHelp (app : HApp) : Page :=
  [(0, nameVersion app), (0, .emptyLine)] ++
  -- _render_usage
  [heading "USAGE", (2, synopsis app.name [] app.opts [appArgCommand, appArgArg] [] false), (0, .emptyLine)] ++
  argumentsSection [appArgCommand, appArgArg] ++
  (if app.opts.isEmpty then [] else optionsSection "GLOBAL OPTIONS" app.opts) ++
  (if (collValues ((live app.cmds).filter fun c => !c.anonymous)).isEmpty then [] else appCommandsSection app.cmds) ++
  descriptionSection app.help

/-! ## `CommandHelp._render_help` -/

/-- `_render_usage`; `x` is the context of the command's parent -/
def usageSection (app : HApp) (x : Ctx) (c : HCmd) : Page :=
  let own := x.enter c
  let subs := collValues (live c.subs)
  let defaults := collValues ((live c.subs).filter (·.isDefault))
  let first : List (Ctx × List HOpt × Bool) :=
    if defaults.isEmpty then [(own, c.opts, false)]
    else defaults.map fun d => (own.enter d, d.opts, !d.anonymous)
  let rest : List (Ctx × List HOpt × Bool) :=
    (subs.filter fun d => !d.hidden && !d.isDefault).map fun d => (own.enter d, d.opts, false)
  let fmts := first ++ rest
  let pfx0 : Str := if fmts.length > 1 then S "    " else []
  let syn (pfx : Str) (f : Ctx × List HOpt × Bool) : Nat × Element :=
    (2, synopsis app.name f.1.names f.2.1 f.1.args pfx f.2.2)
  let lines : Page :=
    match fmts with
    | [] => []
    | f :: r => syn pfx0 f :: r.map (syn (S "or: "))
  [heading "USAGE"] ++ lines ++
    (if c.aliases.isEmpty then []
     else [(2, .emptyLine), (2, .paragraph (S "aliases: " ++ joinWith (S ", ") c.aliases))]) ++
    [(0, .emptyLine)]

/-- `_render_sub_command` for a command that is not hidden -/
def subCommandEntry (d : HCmd) : Page :=
  let descr := if d.descr.isEmpty then [] else [(4, Element.paragraph d.descr), (4, .emptyLine)]
  let help := match nonEmpty d.help with
    | some h => [(4, Element.paragraph h), (4, .emptyLine)]
    | none => []
  let args := if d.args.isEmpty then [] else (d.args.map fun a => (4, argElem a)) ++ [(4, .emptyLine)]
  let opts := if d.opts.isEmpty then [] else (d.opts.map fun o => (4, optElem o)) ++ [(4, .emptyLine)]
  let none := if d.descr.isEmpty && (nonEmpty d.help).isNone && d.args.isEmpty && d.opts.isEmpty
    then [(4, Element.emptyLine)] else []
  (2, .paragraph (tagU d.name)) :: (descr ++ help ++ args ++ opts ++ none)

/-- the sub-commands a command page lists: `named_sub_commands` sorted, hidden ones skipped -/
def visibleSubs (c : HCmd) : List HCmd := visibleNamed c.subs

/-- `_render_sub_commands` (no empty line after the block) -/
def subCommandsSection (c : HCmd) : Page :=
  heading "COMMANDS" :: ((visibleSubs c).map subCommandEntry).flatten

def commandHelp (app : HApp) (x : Ctx) (c : HCmd) : Page :=
  let own := x.enter c
  usageSection app x c ++
  (if own.args.isEmpty then [] else argumentsSection own.args) ++
  (if (collValues ((live c.subs).filter fun d => !d.anonymous)).isEmpty then [] else subCommandsSection c) ++
  (if c.opts.isEmpty then [] else optionsSection "OPTIONS" c.opts) ++
  (if x.opts.isEmpty then [] else optionsSection "GLOBAL OPTIONS" x.opts) ++
  descriptionSection c.help

/-! ## Layout: `LabelAlignment`, `LabeledParagraph.render`, `Paragraph.render` -/

/-- `LabelAlignment.align`: the text offset, the largest `indentation + len(label) + padding`
over the aligned labeled paragraphs -/
def align : Page → Nat
  | [] => 0
  | (i, .labeled l _ p true) :: r => max (i + l.length + p) (align r)
  | _ :: r => align r

def spaces (n : Nat) : Str := List.replicate n ' '

/-- `"{:<{}}".format(label, n)` -/
def padRight (l : Str) (n : Nat) : Str := l ++ spaces (n - l.length)

/-- `str.rstrip()` -/
def rstrip (t : Str) : Str := (t.reverse.dropWhile Clikit.Gen.C08.isSpace).reverse

/-- `"\n".join(lines)` -/
def joinNl (l : List Str) : Str := joinWith ['\n'] l

/-- `re.sub(r"\n(?!\n)", "\n" + " " * k, text)`: `k` blanks after every newline that is not
followed by another newline -/
def indentNl (k : Nat) : Str → Str
  | [] => []
  | c :: r =>
    if c == '\n' then
      match r with
      | '\n' :: _ => c :: indentNl k r
      | _ => c :: (spaces k ++ indentNl k r)
    else c :: indentNl k r

/-- the text offset of one labeled paragraph rendered at indentation `ind` -/
def textOffset (off ind : Nat) (label : Str) (padding : Nat) (aligned : Bool) : Nat :=
  max (if aligned then off - ind else 0) (label.length + padding)

/-- the columns an element needs besides its text: `render` calls `wrap` with the terminal
width minus `need + 1` -/
def need (off ind : Nat) : Element → Nat
  | .paragraph _ => ind
  | .labeled l _ p a => ind + textOffset off ind l p a
  | .emptyLine => 0

/-- the text an element hands to `textwrap.wrap` (`none`: a `None` text) -/
def wrapText : Element → Option (Option Str)
  | .paragraph t => some (some t)
  | .labeled _ t _ _ => some t
  | .emptyLine => none

/-- what one element writes (one `io.write` call), style tags still in place.
`w` is the terminal width, `off` the layout's text offset.  The text width is
`w - 1 - need`; `textwrap` raises `ValueError` for a width ≤ 0 and `AttributeError` for a
`None` text (before it looks at the width). -/
def renderElement (wrap : Nat → Str → List Str) (w off ind : Nat) : Element → Except Err Str
  | .emptyLine => .ok ['\n']
  | .paragraph t =>
    if w < need off ind (.paragraph t) + 2 then .error .valueError
    else .ok (spaces ind ++ rstrip (indentNl ind (joinNl (wrap (w - 1 - need off ind (.paragraph t)) t))) ++ ['\n'])
  | .labeled label text padding aligned =>
    let to := textOffset off ind label padding aligned
    match text with
    | none => .error (.other "AttributeError")
    | some t =>
      if w < need off ind (.labeled label text padding aligned) + 2 then .error .valueError
      else .ok (rstrip (spaces ind ++ padRight label to ++
                  rstrip (indentNl (ind + to)
                    (joinNl (wrap (w - 1 - need off ind (.labeled label text padding aligned)) t)))) ++ ['\n'])

/-- the `textwrap.wrap(text, width)` calls a page makes on a terminal `w` columns wide
(width as a Python integer, possibly ≤ 0) -/
def wrapCalls (w : Nat) (p : Page) : List (Int × Str) :=
  p.filterMap fun ie =>
    match wrapText ie.2 with
    | some (some t) => some ((w : Int) - 1 - (need (align p) ie.1 ie.2 : Nat), t)
    | _ => none

/-! ### The formatter: removing the style tags the help pages use -/

def helpTags : List Str := [S "<b>", S "</b>", S "<c1>", S "</c1>", S "<u>", S "</u>"]

/-- length of the help tag `t` starts with, if any -/
def tagAt (t : Str) : Option Nat := (helpTags.find? fun g => g.isPrefixOf t).map List.length

/-- `skip` characters are still part of a tag that is being removed (a tag contains no
newline; the guard makes that explicit, so removing tags never joins two lines) -/
def stripFrom : Nat → Str → Str
  | _, [] => []
  | skip + 1, c :: r => if c == '\n' then c :: stripFrom 0 r else stripFrom skip r
  | 0, c :: r =>
    match tagAt (c :: r) with
    | some n => stripFrom (n - 1) r
    | none => c :: stripFrom 0 r

/-- visible text of one write -/
def stripTags (t : Str) : Str := stripFrom 0 t

/-- `BlockLayout.render`: every element in order, each through the formatter -/
def renderAll (wrap : Nat → Str → List Str) (w off : Nat) : Page → Except Err Str
  | [] => .ok []
  | (i, e) :: r =>
    match renderElement wrap w off i e with
    | .error x => .error x
    | .ok t =>
      match renderAll wrap w off r with
      | .error x => .error x
      | .ok rest => .ok (stripTags t ++ rest)

/-- the visible text a page puts on a terminal `w` columns wide -/
def renderPage (wrap : Nat → Str → List Str) (w : Nat) (p : Page) : Except Err Str :=
  renderAll wrap w (align p) p

/-- `ApplicationHelp(app).render(io)` -/
def renderApplicationHelp (wrap : Nat → Str → List Str) (w : Nat) (app : HApp) : Except Err Str :=
  if !formatOK app.help then .error (.other "KeyError")
  else renderPage wrap w (applicationHelp app)

/-- `CommandHelp(cmd).render(io)` -/
def renderCommandHelp (wrap : Nat → Str → List Str) (w : Nat) (app : HApp) (x : Ctx) (c : HCmd) :
    Except Err Str :=
  if !formatOK c.help then .error (.other "KeyError")
  else renderPage wrap w (commandHelp app x c)

/-- every line of the page: `page.split("\n")` -/
def pageLines (page : Str) : List Str := splitNl page

/-! ### Width a page needs -/

/-- **`widthOK`**: the terminal is at least as wide as the longest label plus its offset
(indentation, padding) plus a margin of 2 (the column `render` keeps free and one column of
text) - exactly what keeps every `textwrap.wrap` width ≥ 1 -/
def widthOK (w : Nat) (p : Page) : Bool :=
  p.all fun ie => match ie.2 with
    | .emptyLine => true
    | e => need (align p) ie.1 e + 2 ≤ w

/-- the smallest terminal width `widthOK` accepts -/
def minWidth (p : Page) : Nat :=
  p.foldl (fun m ie => match ie.2 with
    | .emptyLine => m
    | e => max m (need (align p) ie.1 e + 2)) 0

/-! ### A page rendered at an outer indentation: `Component.render(io, indentation)`

`AbstractHelp.render(io, indentation)` hands the indentation to `BlockLayout.render`, which
adds it to the alignment's text offset (`LabelAlignment.align(io, indentation)`) and to the
indentation of every element (`element.render(io, self._indentations[i] + indentation)`): the
paragraphs SEE the outer indentation and wrap to `width - 1 - indentation - ...`. -/

/-- every element `k` columns further right -/
def shift (k : Nat) (p : Page) : Page := p.map fun ie => (ie.1 + k, ie.2)

/-- the visible text a page puts on a terminal `w` columns wide when rendered at indentation `k` -/
def renderPageAt (wrap : Nat → Str → List Str) (w k : Nat) (p : Page) : Except Err Str :=
  renderAll wrap w (align p + k) (shift k p)

/-- `ApplicationHelp(app).render(io, k)` -/
def renderApplicationHelpAt (wrap : Nat → Str → List Str) (w k : Nat) (app : HApp) : Except Err Str :=
  if !formatOK app.help then .error (.other "KeyError")
  else renderPageAt wrap w k (applicationHelp app)

/-- `CommandHelp(cmd).render(io, k)` -/
def renderCommandHelpAt (wrap : Nat → Str → List Str) (w k : Nat) (app : HApp) (x : Ctx) (c : HCmd) :
    Except Err Str :=
  if !formatOK c.help then .error (.other "KeyError")
  else renderPageAt wrap w k (commandHelp app x c)

/-- the `textwrap.wrap(text, width)` calls of a page rendered at indentation `k` -/
def wrapCallsAt (w k : Nat) (p : Page) : List (Int × Str) :=
  p.filterMap fun ie =>
    match wrapText ie.2 with
    | some (some t) => some ((w : Int) - 1 - (need (align p) ie.1 ie.2 + k : Nat), t)
    | _ => none

/-- **`widthOKAt`**: `widthOK` for a page rendered at indentation `k` - the terminal is at least as
wide as the outer indentation plus the longest label plus its offset plus the margin of 2 -/
def widthOKAt (w k : Nat) (p : Page) : Bool :=
  p.all fun ie => match ie.2 with
    | .emptyLine => true
    | e => need (align p) ie.1 e + k + 2 ≤ w

/-- the smallest terminal width `widthOKAt` accepts -/
def minWidthAt (k : Nat) (p : Page) : Nat :=
  p.foldl (fun m ie => match ie.2 with
    | .emptyLine => m
    | e => max m (need (align p) ie.1 e + k + 2)) 0

/-! ## Which page a command line shows -/

/-- the tree the resolver works on: enabled configurations only -/
def toCmd : HCmd → Cmd
  | .mk n al d an _ _ _ _ _ _ f len subs => Cmd.mk n al d an f len (toCmds subs)
where
  toCmds : List HCmd → List Cmd
    | [] => []
    | c :: r => if c.enabled then toCmd c :: toCmds r else toCmds r

def helpName : Str := S "help"

/-- `HelpResolver.resolve`: a leading `help` token is deleted -/
def stripHelp : List Str → List Str
  | [] => []
  | t :: r => if t == helpName then r else t :: r

/-- `args.has_option_token("-h") or args.has_option_token("--help")`: among the tokens before `--` -/
def hasSwitch (toks : List Str) : Bool :=
  let ot := toks.takeWhile (· != ['-', '-'])
  ot.contains (S "-h") || ot.contains (S "--help")

/-- `process_default_commands` as far as the help resolver needs it: the first default command
whose (strict, or as configured) trial parse succeeds, else the first default command; another
exception than the cannot-parse error propagates -/
def chooseDefault (cv : Conv) (toks : List Str) : List Cmd → Option Cmd → Except Err (Option Cmd)
  | [], first => .ok first
  | d :: r, first =>
    match tryParse cv d toks with
    | .error e => .error e
    | .ok (some _) => .ok (some d)
    | .ok none => chooseDefault cv toks r (match first with | none => some d | some f => some f)

/-- `HelpResolver.create_resolved_command`: the chosen command parses the line again,
leniently, with a fresh `ResolveResult` (so a failed strict trial parse is forgotten) -/
def created (cv : Conv) (c : Cmd) (path : List Str) (toks : List Str) : Except Err (List Str) :=
  match parse cv c.fmt true toks with
  | .ok _ => .ok path
  | .error e => .error e

/-- `HelpResolver.resolve` on the handler's tokens: the walk of C03, one level of default
sub-commands, then `created`. Returns the name path of the command whose page is shown. -/
def helpResolve (cv : Conv) (app : List Cmd) (toks : List Str) : Except Err (List Str) :=
  let ls := lead toks
  match walk (namedColl app) none ls with
  | some (c, path) =>
    match chooseDefault cv toks (defaultColl c.subs).values none with
    | .error e => .error e
    | .ok (some d) => created cv d (path ++ [d.name]) toks
    | .ok none => created cv c path toks
  | none =>
    if !ls.isEmpty then .error .cannotResolve
    else
      match chooseDefault cv toks (defaultColl app).values none with
      | .error e => .error e
      | .ok (some d) => created cv d [d.name] toks
      | .ok none => .error .cannotResolve

inductive Target where
  | app                                      -- `ApplicationHelp`
  | cmd (path : List Str)                    -- `CommandHelp` of the command with this name path
  deriving Repr, DecidableEq, Inhabited

/-- `HelpTextHandler.handle`: `args` are the arguments the `help` command parsed -/
def handlerTarget (cv : Conv) (app : List Cmd) (toks : List Str) (a : Args) : Except Err Target :=
  if dictHas (S "command") a.args then
    match helpResolve cv app (stripHelp toks) with
    | .ok p => .ok (.cmd p)
    | .error e => .error e
  else .ok .app

/-- **`helpTarget`**: the page a command line shows with the default configuration;
`.ok none` = the line is not a help request (another command runs).
With `-h`/`--help` the PRE_RESOLVE listener selects the `help` command and parses leniently;
otherwise the line must resolve to the top-level command `help`. -/
def helpTarget (cv : Conv) (app : List Cmd) (toks : List Str) : Except Err (Option Target) :=
  if hasSwitch toks then
    match (Coll.ofList app).get? helpName with
    | none => .error (.other "NoSuchCommandException")
    | some h =>
      match parse cv h.fmt true toks with
      | .error e => .error e
      | .ok a => (handlerTarget cv app toks a).map some
  else
    match resolve cv app toks with
    | .error e => .error e
    | .ok (path, a) =>
      if path == [helpName] then (handlerTarget cv app toks a).map some else .ok none

/-- the command configuration with a given name path, with the context of its parent
(`_commands` / `sub_commands` are keyed by name: the last registration wins) -/
def findPath (x : Ctx) (cmds : List HCmd) : List Str → Option (Ctx × HCmd)
  | [] => none
  | n :: r =>
    match (live cmds).reverse.find? (fun c => c.name == n) with
    | none => none
    | some c => if r.isEmpty then some (x, c) else findPath (x.enter c) c.subs r

/-- the text a help request prints -/
def renderTarget (wrap : Nat → Str → List Str) (w : Nat) (app : HApp) : Target → Except Err Str
  | .app => renderApplicationHelp wrap w app
  | .cmd path =>
    match findPath app.ctx app.cmds path with
    | none => .error (.other "NoSuchCommandException")
    | some (x, c) => renderCommandHelp wrap w app x c

end Clikit.Help
