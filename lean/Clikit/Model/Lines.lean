import Clikit.Model.Tokenizer
import Clikit.Model.Parser
/-!
# Command lines in either form, parsed by ONE parser object (C08)

A command line reaches the parser as a `StringArgs` (a command string, split by the tokenizer) or as an `ArgvArgs`
(an argv list, script name first).  `lineHistory` issues a sequence of such lines to one `DefaultArgsParser`
object - the composition of the tokenizer model (`Tokenizer.stringArgs` / `argvArgs`) and the parser model
(`Parser.parseFrom`, threading the object's scratch state).  The parser reads `raw_args.tokens` only; where the
options end is decided per parse by the token loop (`--` switches option parsing off for the REST OF THAT LINE).
-/
namespace Clikit.Lines
open Clikit Clikit.Tokenizer Clikit.Parser

/-- a command line as handed to the parser -/
inductive Line where
  | str (s : Str)
  | argv (argv : List Str)
  deriving Repr, DecidableEq

/-- `StringArgs(s)` / `ArgvArgs(argv)` -/
def Line.raw : Line → Except Err Raw
  | .str s => stringArgs s
  | .argv a => argvArgs a

/-- a parse request: conversion tables, format, mode and the line -/
structure LReq where
  cv : Conv
  fmt : Fmt
  lenient : Bool
  line : Line

/-- what one request shows: the raw args (or the error of building them) and, if they exist, the parse -/
abbrev LOut := Except Err Raw × Option (Except Err Args)

/-- the requests issued to ONE parser object holding `σ`; a line whose raw args cannot be built (`ArgvArgs([])`)
never reaches the parser -/
def lineHistory : St → List LReq → List LOut
  | _, [] => []
  | σ, r :: rs =>
    match r.line.raw with
    | .error e => (.error e, none) :: lineHistory σ rs
    | .ok a =>
      let (res, σ') := parseFrom σ r.cv r.fmt r.lenient a.tokens
      (.ok a, some res) :: lineHistory σ' rs

/-- the same request answered by a fresh parser object -/
def freshOut (r : LReq) : LOut :=
  match r.line.raw with
  | .error e => (.error e, none)
  | .ok a => (.ok a, some (parse r.cv r.fmt r.lenient a.tokens))

end Clikit.Lines
