import Clikit.Model.Run
import Clikit.Model.Dispatcher
/-!
# The PRE_HANDLE listeners of a run, as the event dispatcher orders them (bridge C04 <-> C12)

`Run.run` (C04) takes the PRE_HANDLE listeners as a list that is already in calling order.  In the
code nobody hands `Command._do_handle` such a list: listeners are REGISTERED with a priority on the
dispatcher of the configuration (`ApplicationConfig.add_event_listener` ->
`EventDispatcher.add_listener(event_name, listener, priority)`), for PRE_HANDLE and for other events
(PRE_RESOLVE, CONFIG, anything), and `_do_handle` calls `dispatcher.dispatch(PRE_HANDLE, event)`.

This file builds the list `Run.run` consumes from a registration HISTORY by running the dispatcher
model of C12 (`Dispatcher.run`, `Dispatcher.getListeners`: the code's per-priority dicts, the
`sorted(..., key=-priority)` and the cache) - the sort is not repeated here.

A callable is, for the dispatcher, an identity plus whether the walk of `_do_dispatch` ends at it.
The identity is the position of the registration in the history; the walk ends at a listener that
calls `event.stop_propagation()` - or that raises: the exception leaves `_do_dispatch`, so no later
listener is called either (`halts`).  What the listener does to the `PreHandleEvent` (`handled`,
`set_status_code`) is invisible to the dispatcher and stays with `Run.dispatchPre`.
-/
namespace Clikit.RunListeners
open Clikit

/-- the name of the PRE_HANDLE event in the dispatcher model (event names are only compared) -/
def preHandle : Nat := 1

/-- one `add_event_listener(event_name, listener, priority)` -/
structure Registration where
  ev : Nat
  prio : Int
  l : Run.Listener
  deriving Repr, Inhabited

/-- the dispatcher's walk over the listeners ends at this one: it stops propagation, or it raises -/
def halts : Run.Listener → Bool
  | .pass => false
  | .handled _ stop => stop
  | .fail _ => true
  | .stopOnly => true

/-- the `i`-th registration as the dispatcher model sees it -/
def regOfIdx (x : Registration × Nat) : Dispatcher.Reg := ⟨x.1.ev, x.1.prio, ⟨x.2, halts x.1.l⟩⟩

/-- the registration log of the history, in the vocabulary of C12 -/
def regLog (regs : List Registration) : List Dispatcher.Reg := regs.zipIdx.map regOfIdx

/-- the history as operations on the dispatcher: one `add_listener` per registration -/
def opsOf (regs : List Registration) : List Dispatcher.Op :=
  (regLog regs).map (fun r => .add r.ev r.l r.prio)

/-- `dispatcher.get_listeners(PRE_HANDLE)` after the registrations, on the dispatcher model AS THE CODE
IS.  (The two `.error` branches are the `KeyError`s of the dispatcher model; `dispatcher_total`
proves them unreachable.) -/
def sortedOf (regs : List Registration) : List Dispatcher.Listener :=
  match Dispatcher.run Dispatcher.init (opsOf regs) with
  | .ok (s, _) =>
    match Dispatcher.getListeners s preHandle with
    | .ok (_, ls) => ls
    | .error _ => []
  | .error _ => []

/-- what `dispatcher.dispatch(PRE_HANDLE, event)` calls after the registrations (fresh event), on the
dispatcher model: the callables in call order -/
def calledOf (regs : List Registration) : List Dispatcher.Listener :=
  match Dispatcher.run Dispatcher.init (opsOf regs) with
  | .ok (s, _) =>
    match Dispatcher.dispatch s preHandle false with
    | .ok (_, ls, _) => ls
    | .error _ => []
  | .error _ => []

/-- the registration a callable of the dispatcher stands for -/
def back (regs : List Registration) (d : Dispatcher.Listener) : Option Registration := regs[d.id]?

/-- the PRE_HANDLE registrations in the order the dispatcher walks through them -/
def orderedRegs (regs : List Registration) : List Registration := (sortedOf regs).filterMap (back regs)

/-- the calling-order list `Run.run` consumes -/
def orderOf (regs : List Registration) : List Run.Listener := (orderedRegs regs).map (fun r => r.l)

/-- `ConsoleApplication.run` with the PRE_HANDLE listeners taken from the dispatcher -/
def runWithDispatcher (debug : Bool) (resolved : Except Run.Exc Unit) (regs : List Registration)
    (outcome : Run.Outcome) (render : Run.Exc → Bool) : Run.Result :=
  Run.run debug resolved (orderOf regs) outcome render

/-! ### Which listeners `dispatchPre` consults -/

/-- `Run.dispatchPre` instrumented with the log of the listeners it calls (same equations, second
component added; `dispatchPreLog_fst` proves the first component IS `dispatchPre`) -/
def dispatchPreLog : List Run.Listener → Option Run.RetVal →
    Except Run.Exc (Option Run.RetVal) × List Run.Listener
  | [], h => (.ok h, [])
  | .pass :: r, h => ((dispatchPreLog r h).1, .pass :: (dispatchPreLog r h).2)
  | .handled c stop :: r, _ =>
    if stop then (.ok (some c), [.handled c stop])
    else ((dispatchPreLog r (some c)).1, .handled c stop :: (dispatchPreLog r (some c)).2)
  | .fail e :: _, _ => (.error e, [.fail e])
  | .stopOnly :: _, h => (.ok h, [.stopOnly])

/-- the listeners `dispatchPre` calls, in call order -/
def consulted (ls : List Run.Listener) : List Run.Listener := (dispatchPreLog ls none).2

/-- the status code on the event after these listeners ran: the one set by the LAST listener that
marked the command handled (`set_status_code` overwrites), `h` when none did -/
def lastHandled : List Run.Listener → Option Run.RetVal → Option Run.RetVal
  | [], h => h
  | .handled c _ :: r, _ => lastHandled r (some c)
  | _ :: r, h => lastHandled r h

/-- this listener marks the command handled (`event.handled(True)`) -/
def isHandled : Run.Listener → Bool
  | .handled _ _ => true
  | _ => false

/-- the positions (in the registration history) of the listeners a run calls, in call order: none
when resolving the command line failed (`Command.handle` is not reached), otherwise what the
dispatcher model's `dispatch` calls (`listeners_called_in_priority_order`: these are the listeners
`dispatchPre` consults) -/
def listenerCalls (resolved : Except Run.Exc Unit) (regs : List Registration) : List Nat :=
  match resolved with
  | .error _ => []
  | .ok () => (calledOf regs).map (fun d => d.id)

end Clikit.RunListeners
