import Clikit.Base
import Clikit.Gen.Consts
import Clikit.Gen.C16
/-!
# Model of `clikit.ui.components.progress_bar.ProgressBar` (C16)

The model follows `src/clikit/ui/components/progress_bar.py` (with the repairs D17, D18, D19)
statement by statement.  Conventions:

* every operation receives the CLOCK READING `t` (a `Nat` number of 1/64 s ticks); the code
  reads `time.time()` several times inside one call, the virtual clock of the harness only moves
  between calls, so one reading per call is exact;
* thresholds (`_min_seconds_between_redraws`, `_max_seconds_between_redraws`) are in ticks;
* an output is the exact list of `stream.write` calls (empty writes included);
* the formatter is the identity: formats, messages and bar characters without style tags
  (no `<`, no backslash) - formats with tags are the known finding D29 and outside the model;
* the four places where the code computes with binary64 floats (`_percent`, bar offset, the
  redraw period `step / ((max or 10) / 10)`, `%estimated%`) are computed with `roundQ`, a
  correctly rounded (round-half-even, 53 bit) quotient of two naturals written over `Nat`
  - no `Float`, so every definition here reduces in the kernel;
* `int()` of a `%name:spec%` width is modelled for ASCII digit strings (anything else:
  `ValueError`), `str.isalpha`-style classes are ASCII (the regex of the code is
  `(?i)[a-z\-_]+`; U+017F and U+212A, which `(?i)` also admits, are outside the model);
* a single section per stream (`SectionOutput` with no sibling sections), terminal width fixed.
-/
namespace Clikit.Progress
open Clikit

/-! ## Small string helpers (`Str = List Char`) -/

def digitsAux : Nat → Nat → Str → Str
  | 0, _, acc => acc
  | f + 1, n, acc =>
    let acc' := Char.ofNat (48 + n % 10) :: acc
    if n / 10 = 0 then acc' else digitsAux f (n / 10) acc'

/-- `str(n)` for a natural number -/
def natStr (n : Nat) : Str := digitsAux (n + 1) n []

def spaces (n : Nat) : Str := List.replicate n ' '

/-- `s.ljust(n)` -/
def ljust (n : Nat) (s : Str) : Str := s ++ spaces (n - s.length)

/-- `s.rjust(n)` -/
def rjust (n : Nat) (s : Str) : Str := spaces (n - s.length) ++ s

/-- `s.split("\n")` -/
def splitNL : Str → List Str
  | [] => [[]]
  | c :: r =>
    if c == '\n' then [] :: splitNL r
    else match splitNL r with
      | [] => [[c]]
      | l :: ls => (c :: l) :: ls

/-- `"\n".join(lines)` -/
def joinNL : List Str → Str
  | [] => []
  | [l] => l
  | l :: ls => l ++ '\n' :: joinNL ls

/-- `s.rstrip(ch)` -/
def rstripChar (ch : Char) (s : Str) : Str := (s.reverse.dropWhile (· == ch)).reverse

def repeatStr (s : Str) : Nat → Str
  | 0 => []
  | n + 1 => s ++ repeatStr s n

def isDigit (c : Char) : Bool := '0' ≤ c && c ≤ '9'

def digitsVal : Str → Nat → Nat
  | [], acc => acc
  | c :: r, acc => digitsVal r (acc * 10 + (c.toNat - 48))

/-- `int(text)` for ASCII digit strings; everything else is reported as `ValueError`
(CPython also accepts signs, blanks, `_` and non-ASCII digits: outside the modelled alphabet). -/
def pyInt (s : Str) : Except Err Nat :=
  if s.isEmpty || !(s.all isDigit) then .error .valueError else .ok (digitsVal s 0)

/-! ## Correctly rounded binary64 arithmetic on non-negative values -/

/-- a non-negative dyadic rational `num / den` (`den` a power of two) -/
structure Dy where
  num : Nat
  den : Nat
  deriving DecidableEq, Repr, Inhabited

def bitLenAux : Nat → Nat → Nat
  | 0, _ => 0
  | f + 1, n => if n = 0 then 0 else 1 + bitLenAux f (n / 2)

/-- number of binary digits -/
def bitLen (n : Nat) : Nat := bitLenAux (n + 1) n

/-- the power of two by which `a / b` is scaled so that its integer part has 53 bits:
`2^52 ≤ a·2^k / b < 2^53` -/
def roundShift (a b : Nat) : Int :=
  let k0 : Int := 53 - (bitLen a : Int) + (bitLen b : Int)
  let q0 := if k0 ≥ 0 then a * 2 ^ k0.toNat / b else a / (b * 2 ^ (-k0).toNat)
  if q0 ≥ 2 ^ 53 then k0 - 1 else k0

/-- `a / b` rounded to a multiple of `2^(-k)`, ties to even -/
def roundAt (a b : Nat) (k : Int) : Dy :=
  let num := if k ≥ 0 then a * 2 ^ k.toNat else a
  let den := if k ≥ 0 then b else b * 2 ^ (-k).toNat
  let q := num / den
  let r := num % den
  let q' := if 2 * r > den ∨ (2 * r = den ∧ q % 2 = 1) then q + 1 else q
  if k ≥ 0 then ⟨q', 2 ^ k.toNat⟩ else ⟨q' * 2 ^ (-k).toNat, 1⟩

/-- The binary64 value nearest to `a / b` (ties to even); 53 significant bits, exponent range
unbounded (the values that occur are far from the subnormal and overflow ranges). -/
def roundQ (a b : Nat) : Dy :=
  if a = 0 ∨ b = 0 then ⟨0, 1⟩ else roundAt a b (roundShift a b)

def Dy.floor (x : Dy) : Nat := x.num / x.den

/-- Python's `round(x)` (ties to even) -/
def Dy.roundHalfEven (x : Dy) : Nat :=
  let q := x.num / x.den
  let r := x.num % x.den
  if 2 * r > x.den ∨ (2 * r = x.den ∧ q % 2 = 1) then q + 1 else q

/-- float * int -/
def Dy.mulNat (x : Dy) (n : Nat) : Dy := roundQ (x.num * n) x.den
/-- float / int -/
def Dy.divNat (x : Dy) (n : Nat) : Dy := roundQ x.num (x.den * n)
/-- int / float -/
def natDivDy (a : Nat) (x : Dy) : Dy := roundQ (a * x.den) x.num

/-! ## Configuration and state -/

inductive Kind where
  | ansi          -- Output with a decorating formatter: `\r` + frame
  | plain         -- Output without ANSI support: one frame per line
  | section       -- SectionOutput with ANSI support
  | plainSection  -- SectionOutput without ANSI support (behaves like `plain`)
  deriving DecidableEq, Repr, Inhabited

/-- everything that is fixed before the first operation -/
structure Config where
  kind : Kind
  quiet : Bool
  verbosity : Nat
  termWidth : Nat
  barWidth : Nat
  barChar : Option Str
  emptyChar : Str
  progressChar : Str
  /-- `self.redraw_freq` (`none` = derive from the maximum) -/
  redrawFreq : Option Nat
  /-- `_min_seconds_between_redraws` in ticks -/
  minInterval : Nat
  /-- `_max_seconds_between_redraws` in ticks -/
  maxInterval : Nat
  /-- `set_format(…)` -/
  internalFormat : Option Str
  deriving Repr, Inhabited

/-- `self._should_overwrite` (= `io.supports_ansi()`) -/
def Config.overwrite (c : Config) : Bool :=
  match c.kind with
  | .ansi | .section => true
  | .plain | .plainSection => false

/-- what the constructor and the setters called before the first operation leave behind:
`ProgressBar(io, max, min_seconds)`, `set_redraw_frequency(f)?`, `max_seconds_between_redraws(x)?`,
`set_bar_width`, the three characters, `set_format` -/
def mkConfig (kind : Kind) (quiet : Bool) (verbosity termWidth : Nat) (minTicks : Nat)
    (maxTicks : Option Nat) (redraw : Option Nat) (barWidth : Option Nat) (barChar : Option Str)
    (emptyChar progressChar : Option Str) (format : Option Str) : Config :=
  let ow := match kind with | .ansi | .section => true | _ => false
  let rf0 := Gen.C16.defaultRedrawFreq
  let rf1 := if minTicks > 0 then none else rf0
  let rf2 := if ow then rf1 else none
  let rf3 := match redraw, rf2 with
    | some f, some _ => some (max f 1)
    | _, r => r
  { kind := kind, quiet := quiet, verbosity := verbosity, termWidth := termWidth,
    barWidth := barWidth.getD Gen.C16.defaultBarWidth,
    barChar := match barChar with | some b => some b | none => Gen.C16.defaultBarChar,
    emptyChar := emptyChar.getD Gen.C16.defaultEmptyBarChar,
    progressChar := progressChar.getD Gen.C16.defaultProgressChar,
    redrawFreq := rf3,
    minInterval := if minTicks > 0 then minTicks else Gen.C16.initMinIntervalTicks,
    maxInterval := maxTicks.getD Gen.C16.initMaxIntervalTicks,
    internalFormat := format }

structure State where
  step : Nat
  max : Nat
  stepWidth : Nat
  /-- `self._percent` (a float; only refreshed by `start` and `set_progress`) -/
  percent : Dy
  /-- `self._format` (resolved on first use) -/
  format : Option Str
  formatLineCount : Nat
  messages : List (Str × Str)
  /-- `_last_messages_length` -/
  lastLen : Nat
  lastWriteTime : Nat
  writeCount : Nat
  displayedStep : Option Nat
  /-- `_displayed_max`: the maximum shown by the frame on the line (repair of D18b) -/
  displayedMax : Option Nat
  /-- `_displayed_line_count`: `_format_line_count` at the latest `_overwrite` - the number of line
  breaks of the frame (or of the blank lines of `clear()`) standing on the output; `none` before the
  first write (repair of D39) -/
  displayedLineCount : Option Nat
  startTime : Nat
  /-- the section's `_content` (lines; the `"\n"` entries are implicit) and `_lines` -/
  secContent : List Str
  secLines : Nat
  deriving Repr, Inhabited

def stepWidthOf (max : Nat) : Nat := if max ≠ 0 then (natStr max).length else 4

/-- `ProgressBar(io, max=m)` constructed at clock reading `t` -/
def init (m : Int) (t : Nat) : State :=
  let mx := (Max.max 0 m).toNat
  { step := 0, max := mx, stepWidth := stepWidthOf mx, percent := ⟨0, 1⟩, format := none,
    formatLineCount := 0, messages := [], lastLen := 0, lastWriteTime := 0, writeCount := 0,
    displayedStep := none, displayedMax := none, displayedLineCount := none, startTime := t, secContent := [], secLines := 0 }

/-! ## Format selection -/

def nomaxSuffix : Str := ['_', 'n', 'o', 'm', 'a', 'x']

def fmtName (s : String) : Str := s.toList

/-- `_determine_best_format` -/
def bestFormat (verbosity max : Nat) : Str :=
  if verbosity = Gen.IOFlags.VERBOSE then
    (if max ≠ 0 then ['v','e','r','b','o','s','e'] else ['v','e','r','b','o','s','e'] ++ nomaxSuffix)
  else if verbosity = Gen.IOFlags.VERY_VERBOSE then
    (if max ≠ 0 then ['v','e','r','y','_','v','e','r','b','o','s','e']
     else ['v','e','r','y','_','v','e','r','b','o','s','e'] ++ nomaxSuffix)
  else if verbosity = Gen.IOFlags.DEBUG then
    (if max ≠ 0 then ['d','e','b','u','g'] else ['d','e','b','u','g'] ++ nomaxSuffix)
  else if max ≠ 0 then ['n','o','r','m','a','l'] else ['n','o','r','m','a','l'] ++ nomaxSuffix

/-- `_set_real_format`: the text of the format to use -/
def realFormat (max : Nat) (fmt : Str) : Str :=
  match (if max = 0 then dictGet? (fmt ++ nomaxSuffix) Gen.C16.formats else none) with
  | some f => f
  | none => match dictGet? fmt Gen.C16.formats with
    | some f => f
    | none => fmt

def countNL (s : Str) : Nat := (s.filter (· == '\n')).length

/-- `if self._format is None: self._set_real_format(self._internal_format or self._determine_best_format())` -/
def ensureFormat (c : Config) (s : State) : State :=
  match s.format with
  | some _ => s
  | none =>
    let chosen := match c.internalFormat with
      | some f => if f.isEmpty then bestFormat c.verbosity s.max else f
      | none => bestFormat c.verbosity s.max
    let f := realFormat s.max chosen
    { s with format := some f, formatLineCount := countNL f }

/-! ## Placeholders -/

/-- `get_bar_character()` -/
def barCharOf (c : Config) (s : State) : Str :=
  match c.barChar with
  | some b => b
  | none => if s.max ≠ 0 then ['='] else c.emptyChar

/-- `bar_offset`.  With a maximum: `floor(self._percent * bar_width)` in binary64. -/
def barOffset (c : Config) (s : State) : Except Err Nat :=
  if s.max ≠ 0 then .ok (s.percent.mulNat c.barWidth).floor
  else if c.barWidth = 0 then .error (.other "ZeroDivisionError")
  else match c.redrawFreq with
    | none =>
      let x := roundQ c.barWidth 15
      let m : Dy := if x.num < 5 * x.den then x else ⟨5, 1⟩
      .ok ((m.mulNat s.writeCount).floor % c.barWidth)
    | some _ => .ok (s.step % c.barWidth)

/-- `_formatter_bar` given the offset -/
def barOf (c : Config) (s : State) (complete : Nat) : Str :=
  let display := repeatStr (barCharOf c s) complete
  if complete < c.barWidth then
    display ++ c.progressChar ++ repeatStr c.emptyChar (c.barWidth - complete - c.progressChar.length)
  else display

/-- `format_time(secs)` for `secs = ticks / 64` -/
def formatTimeAux (ticks : Nat) : List (Nat × Str × Option Nat) → Str
  | [] => ['N', 'o', 'n', 'e']
  | (lim, txt, div) :: rest =>
    if ticks > Gen.C16.ticksPerSecond * lim then formatTimeAux ticks rest
    else match div with
      | none => txt
      | some d => natStr ((ticks + Gen.C16.ticksPerSecond * d - 1) / (Gen.C16.ticksPerSecond * d)) ++ ' ' :: txt

def formatTime (ticks : Nat) : Str := formatTimeAux ticks Gen.C16.timeFormats

/-- `_formatter_percent` (integer arithmetic, D19) -/
def percentOf (s : State) : Nat := if s.max = 0 then 0 else s.step * 100 / s.max

/-- `_formatter_estimated`: `round((now - start) / step * max)`, printed as a number -/
def estimatedOf (s : State) (t : Nat) : Nat :=
  if s.step = 0 then 0
  else (((⟨t - s.startTime, Gen.C16.ticksPerSecond⟩ : Dy).divNat s.step).mulNat s.max).roundHalfEven

/-- the text of a placeholder: `none` when neither a formatter nor a message has the name -/
def placeholder (c : Config) (s : State) (t : Nat) (name : Str) : Except Err (Option Str) :=
  if name = ['b', 'a', 'r'] then do
    let off ← barOffset c s
    return some (barOf c s off)
  else if name = ['e', 'l', 'a', 'p', 's', 'e', 'd'] then .ok (some (formatTime (t - s.startTime)))
  else if name = ['r', 'e', 'm', 'a', 'i', 'n', 'i', 'n', 'g'] then
    -- `round(elapsed / step * (max - max))` is 0 whatever the progress: always "< 1 sec"
    if s.max = 0 then .error .runtimeError else .ok (some (formatTime 0))
  else if name = ['e', 's', 't', 'i', 'm', 'a', 't', 'e', 'd'] then
    if s.max = 0 then .error .runtimeError else .ok (some (natStr (estimatedOf s t)))
  else if name = ['c', 'u', 'r', 'r', 'e', 'n', 't'] then .ok (some (rjust s.stepWidth (natStr s.step)))
  else if name = ['m', 'a', 'x'] then .ok (some (natStr s.max))
  else if name = ['p', 'e', 'r', 'c', 'e', 'n', 't'] then .ok (some (natStr (percentOf s)))
  else .ok (dictGet? name s.messages)

/-- the `:spec` part: `-NNs` left-justifies, `NNs` right-justifies -/
def applySpec (text spec : Str) : Except Err Str :=
  match spec with
  | '-' :: _ => do
    let w ← pyInt (rstripChar 's' (spec.dropWhile (· == '-')))
    return ljust w text
  | _ => do
    let w ← pyInt (rstripChar 's' spec)
    return rjust w text

/-! ## The template scanner: `re.sub(r"(?i)%([a-z\-_]+)(?::([^%]+))?%", callback, format)` -/

def isNameChar (c : Char) : Bool :=
  ('a' ≤ c && c ≤ 'z') || ('A' ≤ c && c ≤ 'Z') || c == '-' || c == '_'

inductive Piece where
  | lit (c : Char)
  | ph (name : Str) (spec : Option Str)
  deriving DecidableEq, Repr, Inhabited

/-- leftmost, non-overlapping matches; the regex has no backtracking alternative that succeeds
where this scanner fails (name and spec runs are maximal and must be followed by `%`) -/
def parseTpl : Nat → Str → List Piece
  | 0, _ => []
  | _, [] => []
  | f + 1, c :: r =>
    if c == '%' then
      let name := r.takeWhile isNameChar
      let r1 := r.dropWhile isNameChar
      if name.isEmpty then .lit c :: parseTpl f r
      else match r1 with
        | '%' :: r2 => .ph name none :: parseTpl f r2
        | ':' :: r2 =>
          let spec := r2.takeWhile (· != '%')
          let r3 := r2.dropWhile (· != '%')
          if spec.isEmpty then .lit c :: parseTpl f r
          else match r3 with
            | '%' :: r4 => .ph name (some spec) :: parseTpl f r4
            | _ => .lit c :: parseTpl f r
        | _ => .lit c :: parseTpl f r
    else .lit c :: parseTpl f r

def pieces (fmt : Str) : List Piece := parseTpl (fmt.length + 1) fmt

/-- `matches.group(0)` -/
def rawPiece (name : Str) (spec : Option Str) : Str :=
  match spec with
  | none => '%' :: name ++ ['%']
  | some sp => '%' :: name ++ ':' :: sp ++ ['%']

/-- `_overwrite_callback` -/
def renderPiece (c : Config) (s : State) (t : Nat) : Piece → Except Err Str
  | .lit ch => .ok [ch]
  | .ph name spec => do
    match (← placeholder c s t name) with
    | none => return rawPiece name spec
    | some text =>
      match spec with
      | none => return text
      | some sp => applySpec text sp

def renderPieces (c : Config) (s : State) (t : Nat) : List Piece → Except Err Str
  | [] => .ok []
  | p :: ps => do
    let a ← renderPiece c s t p
    let b ← renderPieces c s t ps
    return a ++ b

/-- the frame text `display()` hands to `_overwrite` -/
def buildLine (c : Config) (s : State) (t : Nat) : Except Err Str :=
  renderPieces c s t (pieces (s.format.getD []))

/-! ## Writing -/

def ESC : Char := Char.ofNat 27

/-- `"\x1b[{n}A"` -/
def cursorUp (n : Nat) : Str := ESC :: '[' :: natStr n ++ ['A']
/-- `"\x1b[0J"` -/
def eraseDown : Str := [ESC, '[', '0', 'J']

/-- what reaches the stream: `Output.write` drops everything on a quiet output -/
def emit (c : Config) (w : Str) : List Str := if c.quiet then [] else [w]

/-- `SectionOutput._count_rows` -/
def countRows (width : Nat) (l : Str) : Nat :=
  let n := (l.map (fun ch => if ch == '\t' then 8 else 1)).sum
  let r := (n + width - 1) / width
  if r = 0 then 1 else r

/-- `SectionOutput.clear(n)` for `n ≥ 1` (single section) -/
def secClear (c : Config) (s : State) (n : Nat) : State × List Str :=
  if s.secContent.isEmpty then (s, [])
  else
    let keep := s.secContent.length - n
    let removed := s.secContent.drop keep
    let rows := (removed.map (countRows c.termWidth)).sum
    let s' := { s with secContent := s.secContent.take keep, secLines := s.secLines - rows }
    (s', (if rows > 0 then emit c (cursorUp rows) ++ emit c eraseDown else []) ++ emit c [])

/-- `SectionOutput.write(text)` on an ANSI section (single section) -/
def secWrite (c : Config) (s : State) (text : Str) : State × List Str :=
  if c.quiet then (s, [])
  else
    let ls := splitNL text
    let s' := { s with secContent := s.secContent ++ ls,
                       secLines := s.secLines + (ls.map (countRows c.termWidth)).sum }
    (s', [text ++ ['\n'], []])

def maxLen (ls : List Str) : Nat := ls.foldl (fun m l => Max.max m l.length) 0

/-- the number of lines `_overwrite` moves back by.  With the repair D39 (`byDisplayed`): the line
count of the frame STANDING on the output (`_displayed_line_count`; the current format's before the
first write); before the repair: the line count of the format in use now, whatever stands there. -/
def moveCount (byDisplayed : Bool) (s : State) : Nat :=
  if byDisplayed then s.displayedLineCount.getD s.formatLineCount else s.formatLineCount

/-- `_overwrite(message)` at clock reading `t`; `byDisplayed` says whether the cursor movement / the
section clearing goes by the line count of the frame standing there and erases below the cursor
when the new format has another line count (the D39 repair; read from the source on every run) -/
def overwriteWith (byDisplayed : Bool) (c : Config) (s : State) (t : Nat) (message : Str) : State × List Str :=
  let lines := (splitNL message).map (ljust s.lastLen)
  let text := joinNL lines
  let n := moveCount byDisplayed s
  let (s1, w1) : State × List Str :=
    match c.kind with
    | .section => secClear c s (lines.length / c.termWidth + n + 1)
    | .ansi => (s, emit c ['\r'] ++ (if n ≠ 0 then emit c (cursorUp n) else []) ++
                   (if byDisplayed = true ∧ n ≠ s.formatLineCount then emit c eraseDown else []))
    | .plain | .plainSection => (s, if s.writeCount > 0 then emit c ['\n'] else [])
  let (s2, w2) : State × List Str :=
    match c.kind with
    | .section => secWrite c s1 text
    | _ => (s1, emit c text)
  ({ s2 with lastLen := maxLen lines, lastWriteTime := t, writeCount := s2.writeCount + 1,
             displayedStep := some s2.step, displayedMax := some s2.max,
             displayedLineCount := some s2.formatLineCount }, w1 ++ w2)

/-- `_overwrite(message)` as the current source has it -/
def overwrite (c : Config) (s : State) (t : Nat) (message : Str) : State × List Str :=
  overwriteWith Gen.C16.overwriteMovesByDisplayedLineCount c s t message

/-! ## Frames, results, operations -/

/-- what a frame claims -/
structure Frame where
  current : Nat
  max : Nat
  percent : Nat
  bar : Option Str
  text : Str
  deriving DecidableEq, Repr, Inhabited

def frameOf (c : Config) (s : State) (text : Str) : Frame :=
  { current := s.step, max := s.max, percent := percentOf s,
    bar := match barOffset c s with | .ok off => some (barOf c s off) | .error _ => none,
    text := text }

structure Res where
  st : State
  writes : List Str
  frame : Option Frame
  err : Option Err
  deriving Repr, Inhabited

/-- `display()` -/
def display (c : Config) (s : State) (t : Nat) : Res :=
  if c.quiet then ⟨s, [], none, none⟩
  else
    let s := ensureFormat c s
    match buildLine c s t with
    | .error e => ⟨s, [], none, some e⟩
    | .ok text =>
      let r := overwrite c s t text
      ⟨r.1, r.2, some (frameOf c s text), none⟩

/-- `int(step / redraw_freq)` with `redraw_freq = (max or 10) / 10` when none is configured -/
def period (c : Config) (max step : Nat) : Nat :=
  match c.redrawFreq with
  | some f => (roundQ step f).floor
  | none => (natDivDy step (roundQ (if max ≠ 0 then max else 10) 10)).floor

/-- the redraw decision of `set_progress` once step and max are settled -/
inductive Decision where
  | atMax | throttled | draw | skip
  deriving DecidableEq, Repr

def decide' (c : Config) (s : State) (t : Nat) (max1 step1 : Nat) : Decision :=
  let interval : Int := (t : Int) - (s.lastWriteTime : Int)
  if step1 = max1 then .atMax
  else if interval < (c.minInterval : Int) then .throttled
  else if period c max1 s.step ≠ period c max1 step1 ∨ interval ≥ (c.maxInterval : Int) then .draw
  else .skip

/-- `set_progress(k)` -/
def setProgress (c : Config) (s : State) (t : Nat) (k : Int) : Res :=
  let raise := s.max ≠ 0 ∧ k > (s.max : Int)
  let max1 := if raise then k.toNat else s.max
  let step1 := k.toNat
  let s1 := { s with step := step1, max := max1,
                     percent := if max1 ≠ 0 then roundQ step1 max1 else ⟨0, 1⟩ }
  match decide' c s t max1 step1 with
  | .atMax | .draw => display c s1 t
  | .throttled | .skip => ⟨s1, [], none, none⟩

/-- `finish()` with the D18 repair; `cmpMax` says whether the skip-the-redraw guard also demands
`self._displayed_max == self._max` (the D18b repair) -/
def finishWith (cmpMax : Bool) (c : Config) (s : State) (t : Nat) : Res :=
  let s1 := if s.max = 0 then { s with max := s.step } else s
  if s1.step = s1.max ∧ c.overwrite = false ∧ s1.displayedStep = some s1.step ∧
      (cmpMax = true → s1.displayedMax = some s1.max) then ⟨s1, [], none, none⟩
  else setProgress c s1 t (s1.max : Int)

/-- `finish()` as the current source has it (the guard is read from the source on every run) -/
def finish (c : Config) (s : State) (t : Nat) : Res := finishWith Gen.C16.finishComparesDisplayedMax c s t

/-- `finish()` before the D18b repair -/
def finishOld (c : Config) (s : State) (t : Nat) : Res := finishWith false c s t

/-- `start(max)` -/
def start (c : Config) (s : State) (t : Nat) (m : Option Int) : Res :=
  let s1 := { s with startTime := t, step := 0, percent := ⟨0, 1⟩ }
  let s2 := match m with
    | none => s1
    | some m => let mx := (Max.max 0 m).toNat; { s1 with max := mx, stepWidth := stepWidthOf mx }
  display c s2 t

/-- `clear()` -/
def clear (c : Config) (s : State) (t : Nat) : Res :=
  if c.overwrite = false then ⟨s, [], none, none⟩
  else
    let s := ensureFormat c s
    let r := overwrite c s t (List.replicate s.formatLineCount '\n')
    ⟨r.1, r.2, none, none⟩

inductive Op where
  | start (m : Option Int)
  | advance (k : Int)
  | setProgress (k : Int)
  | display
  | clear
  | finish
  | setMessage (text : Str)
  deriving DecidableEq, Repr, Inhabited

def messageKey : Str := ['m', 'e', 's', 's', 'a', 'g', 'e']

/-- one public call at clock reading `t` -/
def step (c : Config) (s : State) (op : Op) (t : Nat) : Res :=
  match op with
  | .start m => start c s t m
  | .advance k => setProgress c s t ((s.step : Int) + k)
  | .setProgress k => setProgress c s t k
  | .display => display c s t
  | .clear => clear c s t
  | .finish => finish c s t
  | .setMessage text => ⟨{ s with messages := dictSet messageKey text s.messages }, [], none, none⟩

/-- what happened at one call -/
structure Event where
  op : Op
  t : Nat
  pre : State
  res : Res
  deriving Repr, Inhabited

/-- a history: every call with its clock reading, in order -/
def run (c : Config) : State → List (Op × Nat) → List Event
  | _, [] => []
  | s, (op, t) :: rest =>
    let r := step c s op t
    ⟨op, t, s, r⟩ :: run c r.st rest

/-- the state after a history -/
def runState (c : Config) : State → List (Op × Nat) → State
  | s, [] => s
  | s, (op, t) :: rest => runState c (step c s op t).st rest


/-! ## Configuration setters called in the MIDDLE of a run

The public setters of the bar may be called at any time, also between two `advance` calls of a
running bar.  A setter writes nothing; from the next call on the new value is in force - the
redraw decision of every `set_progress` reads the interval and the redraw frequency configured AT
THAT MOMENT, every frame is built from the width, the characters and the format configured at
that moment. -/

inductive Setter where
  /-- `min_seconds_between_redraws(x)`, `x` in ticks: ignored unless positive; switches the
  step-period rule to "a tenth of the maximum" -/
  | minInterval (ticks : Nat)
  /-- `max_seconds_between_redraws(x)` -/
  | maxInterval (ticks : Nat)
  /-- `set_redraw_frequency(f)`: ignored once the frequency is derived from the maximum -/
  | redrawFreq (f : Nat)
  | barWidth (w : Nat)
  | barChar (s : Str)
  | emptyChar (s : Str)
  | progressChar (s : Str)
  /-- `set_format(f)`: also forgets the resolved format (`self._format = None`) -/
  | format (f : Str)
  deriving DecidableEq, Repr, Inhabited

def Config.set (c : Config) : Setter → Config
  | .minInterval ticks => if ticks > 0 then { c with redrawFreq := none, minInterval := ticks } else c
  | .maxInterval ticks => { c with maxInterval := ticks }
  | .redrawFreq f => match c.redrawFreq with
    | some _ => { c with redrawFreq := some (max f 1) }
    | none => c
  | .barWidth w => { c with barWidth := w }
  | .barChar b => { c with barChar := some b }
  | .emptyChar b => { c with emptyChar := b }
  | .progressChar b => { c with progressChar := b }
  | .format f => { c with internalFormat := some f }

/-- what a setter does to the state of the bar: only `set_format` touches it -/
def State.afterSetter (s : State) : Setter → State
  | .format _ => { s with format := none }
  | _ => s

inductive Call where
  | op (o : Op)
  | set (x : Setter)
  deriving DecidableEq, Repr, Inhabited

/-- one public call (operation or setter) at clock reading `t`, under the configuration in force -/
def stepC (c : Config) (s : State) (call : Call) (t : Nat) : Config × Res :=
  match call with
  | .op o => (c, step c s o t)
  | .set x => (c.set x, ⟨s.afterSetter x, [], none, none⟩)

/-- what happened at one call of a run with setters; `cfg` = the configuration in force when the
call was made -/
structure CEvent where
  cfg : Config
  call : Call
  t : Nat
  pre : State
  res : Res
  deriving Repr, Inhabited

/-- a history of operations AND setters, every call with its clock reading -/
def runC : Config → State → List (Call × Nat) → List CEvent
  | _, _, [] => []
  | c, s, (call, t) :: rest =>
    let r := stepC c s call t
    ⟨c, call, t, s, r.2⟩ :: runC r.1 r.2.st rest

/-- the event of a run without setters, seen as an event of a run with setters -/
def Event.lift (c : Config) (e : Event) : CEvent := ⟨c, .op e.op, e.t, e.pre, e.res⟩


/-! ## Reading the writes: a one-line terminal and a plain stream -/

/-- one terminal line with a cursor: the cells left of the cursor and the cells from the cursor on -/
structure Line where
  before : Str
  after : Str
  deriving DecidableEq, Repr, Inhabited

def Line.text (l : Line) : Str := l.before ++ l.after

/-- carriage return moves the cursor to column 0, every other character replaces the cell
under the cursor (or extends the line) and moves right -/
def Line.putc (l : Line) (ch : Char) : Line :=
  if ch == '\r' then ⟨[], l.before ++ l.after⟩ else ⟨l.before ++ [ch], l.after.drop 1⟩

def Line.puts (l : Line) (s : Str) : Line := s.foldl Line.putc l

def Line.feed (l : Line) (ws : List Str) : Line := ws.foldl Line.puts l

/-- the line after a history -/
def screen (l : Line) (evs : List Event) : Line := evs.foldl (fun l e => l.feed e.res.writes) l

/-- everything a history sent to the stream -/
def outOf (evs : List Event) : Str := (evs.flatMap (fun e => e.res.writes)).flatten

/-- the padded text `_overwrite` writes for a frame: every line left-justified to the length of
the longest line written before -/
def paddedText (lastLen : Nat) (text : Str) : Str := joinNL ((splitNL text).map (ljust lastLen))

/-- the line(s) a drawing call puts on a plain output -/
def plainLine (e : Event) : Option Str := e.res.frame.map (fun f => paddedText e.pre.lastLen f.text)

/-! ## Reading the writes of a MULTI-LINE bar: a terminal with rows

What `_overwrite` sends to an ANSI output is a carriage return, `ESC[nA` (cursor up `n` rows), since
the repair D39 possibly `ESC[0J` (erase from the cursor to the end of the screen), and the lines of
the frame joined by line breaks.  `ansiWrites` is that list of writes; `Scr` is a terminal with
rows that interprets the same four commands (`Scr.redraw`). -/

/-- the writes of `_overwrite` on an ANSI output: CR, cursor up `n` (if not 0), erase below (if
asked), the lines -/
def ansiWrites (n : Nat) (erase : Bool) (lines : List Str) : List Str :=
  [['\r']] ++ (if n ≠ 0 then [cursorUp n] else []) ++ (if erase then [eraseDown] else []) ++ [joinNL lines]

/-- a terminal: the rows above the cursor row (nearest first), the cursor row, the column, the rows
below the cursor row -/
structure Scr where
  aboveRev : List Str
  cur : Str
  col : Nat
  below : List Str
  deriving DecidableEq, Repr, Inhabited

/-- printable text put at the cursor overwrites what stands there -/
def overlayAt (row : Str) (col : Nat) (txt : Str) : Str :=
  ljust col (row.take col) ++ txt ++ row.drop (col + txt.length)

def Scr.cr (x : Scr) : Scr := { x with col := 0 }

/-- `ESC[nA`; the cursor stops at the top row -/
def Scr.up : Nat → Scr → Scr
  | 0, x => x
  | n + 1, x =>
    match x.aboveRev with
    | [] => x
    | a :: ab => Scr.up n { aboveRev := ab, cur := a, col := x.col, below := x.cur :: x.below }

/-- `ESC[0J` -/
def Scr.eraseDown (x : Scr) : Scr := { x with cur := x.cur.take x.col, below := [] }

/-- a line break (cooked terminal: to the start of the next row) -/
def Scr.nl (x : Scr) : Scr :=
  match x.below with
  | [] => { aboveRev := x.cur :: x.aboveRev, cur := [], col := 0, below := [] }
  | b :: bs => { aboveRev := x.cur :: x.aboveRev, cur := b, col := 0, below := bs }

def Scr.puts (x : Scr) (txt : Str) : Scr :=
  { x with cur := overlayAt x.cur x.col txt, col := x.col + txt.length }

/-- a line break followed by the next line of the frame -/
def Scr.lineStep (x : Scr) (l : Str) : Scr := (x.nl).puts l

/-- the lines of a frame, joined by line breaks -/
def Scr.putLines (x : Scr) : List Str → Scr
  | [] => x
  | l :: ls => ls.foldl Scr.lineStep (x.puts l)

/-- the terminal after the writes `ansiWrites n erase lines` -/
def Scr.redraw (x : Scr) (n : Nat) (erase : Bool) (lines : List Str) : Scr :=
  let x1 := (x.cr).up n
  let x2 := if erase then x1.eraseDown else x1
  x2.putLines lines

/-- the rows of the terminal from the top -/
def Scr.rows (x : Scr) : List Str := x.aboveRev.reverse ++ x.cur :: x.below

/-! ## A whole ANSI history on the terminal with rows

The model's output is the exact list of `stream.write` calls.  `_overwrite` sends every command in a
write of its own (`"\r"`, `"\x1b[{n}A"`, `"\x1b[0J"`, then the text), so the terminal reads a history
write by write: a write is a carriage return, the erase command, a cursor-up command in the form the
code produces it (`ESC [ <decimal n> A`), or text (printable characters and line breaks).  Texts are
only read correctly when they contain neither a carriage return nor ESC (`printableB`). -/

/-- the `n` of a write that is exactly `"\x1b[{n}A"` (canonical decimal, as `str.format` prints it) -/
def parseCursorUp (w : Str) : Option Nat :=
  match w with
  | _ :: '[' :: r =>
    let k := digitsVal r.dropLast 0
    if w = cursorUp k then some k else none
  | _ => none

/-- one `stream.write(w)` on the terminal -/
def Scr.write (x : Scr) (w : Str) : Scr :=
  if w = ['\r'] then x.cr
  else if w = Clikit.Progress.eraseDown then x.eraseDown
  else match parseCursorUp w with
    | some n => x.up n
    | none => x.putLines (splitNL w)

/-- the writes of one call -/
def Scr.feed (x : Scr) (ws : List Str) : Scr := ws.foldl Scr.write x

/-- the terminal after a history (with setters), started from `x` -/
def screenC (x : Scr) (evs : List CEvent) : Scr := evs.foldl (fun x e => x.feed e.res.writes) x

/-- the terminal before the bar wrote anything: the cursor at column 0 of an empty row, nothing below,
`k` blank rows directly above it, and above those whatever was printed earlier (`restRev`, nearest row
first) -/
def Scr.fresh (k : Nat) (restRev : List Str) : Scr := ⟨List.replicate k [] ++ restRev, [], 0, []⟩

/-- the terminal that shows exactly the lines `L` below the rows `aboveRev` (nearest first): the cursor
stands at the end of the last line, nothing below -/
def Scr.showing : List Str → List Str → Scr
  | ab, [] => ⟨ab, [], 0, []⟩
  | ab, [l] => ⟨ab, l, l.length, []⟩
  | ab, l :: l2 :: ls => Scr.showing (l :: ab) (l2 :: ls)

/-- the lines a writing call puts on an ANSI output: the lines of the frame, each padded to the longest
line of the previous message; for `clear()` as many blank lines as the format in use has lines -/
def shownLines (e : CEvent) : List Str :=
  match e.res.frame with
  | some f => (splitNL f.text).map (ljust e.pre.lastLen)
  | none => List.replicate (e.res.st.formatLineCount + 1) (spaces e.pre.lastLen)

/-- the lines of the latest call that wrote anything (`acc` if none did) -/
def lastLinesFrom (acc : Option (List Str)) : List CEvent → Option (List Str)
  | [] => acc
  | e :: es => lastLinesFrom (if e.res.writes.isEmpty then acc else some (shownLines e)) es

/-- no carriage return, no ESC: text the terminal reads as text -/
def printableB (s : Str) : Bool := s.all (fun ch => ch != '\r' && ch != ESC)

/-- the hypotheses of `Props.C16.ansi_screen_shows_latest_frame` on the events of a history: every frame
drawn has as many line breaks as the format in use and is printable -/
def framesFitB (evs : List CEvent) : Bool :=
  evs.all (fun e => match e.res.frame with
    | some f => countNL f.text == e.res.st.formatLineCount && printableB f.text
    | none => true)

/-- ... and the first write moves up over at most `k` rows -/
def firstMoveB (k : Nat) (evs : List CEvent) : Bool :=
  evs.all (fun e => !(e.pre.displayedLineCount.isNone && !e.res.writes.isEmpty) ||
    decide (e.res.st.formatLineCount ≤ k))

/-! ## Deciders for the hypotheses of the theorems (Props/C16 `hyps_decide`)

The hypotheses `SingleChars`, `barWidth < 2^52`, `CleanCfg`, `CleanOp` (Lemmas/Progress*.lean) speak
about the configuration of the bar and the texts passed to it.  These are their executable versions;
the driver evaluates them on the configuration it builds for every generated case (`hyp` of entry
`c16.run`), the harness evaluates the same conditions on the REAL `ProgressBar` object after its
setters ran, and the two are compared. -/

/-- no line break, no carriage return -/
def cleanB (s : Str) : Bool := s.all (fun ch => ch != '\n' && ch != '\r')

/-- the three bar characters are single characters -/
def singleCharsB (c : Config) : Bool :=
  c.emptyChar.length == 1 && c.progressChar.length == 1 &&
  (match c.barChar with | some b => b.length == 1 | none => true)

/-- the bar width is a binary64 integer -/
def barWidthOkB (c : Config) : Bool := decide (c.barWidth < 2 ^ 52)

/-- the text given to `set_format` and the three bar characters are single-line -/
def cleanCfgB (c : Config) : Bool :=
  (match c.internalFormat with | some f => cleanB f | none => true) &&
  cleanB c.emptyChar && cleanB c.progressChar &&
  (match c.barChar with | some b => cleanB b | none => true)

def cleanOpB : Op → Bool
  | .setMessage text => cleanB text
  | _ => true

def cleanOpsB (ops : List (Op × Nat)) : Bool := ops.all (fun x => cleanOpB x.1)

/-- no call of the history raised -/
def noErrB (evs : List Event) : Bool := evs.all (fun e => e.res.err.isNone)

def noErrCB (evs : List CEvent) : Bool := evs.all (fun e => e.res.err.isNone)

/-- the texts passed by the calls of a run with setters are single-line -/
def cleanCallB : Call → Bool
  | .op o => cleanOpB o
  | .set (.format f) => cleanB f
  | .set (.barChar b) => cleanB b
  | .set (.emptyChar b) => cleanB b
  | .set (.progressChar b) => cleanB b
  | .set _ => true

def cleanCallsB (calls : List (Call × Nat)) : Bool := calls.all (fun x => cleanCallB x.1)

/-- the hypotheses of `Props.C16.bar_width_current_config` on the configuration IN FORCE at a call of a
run with setters (after `set_bar_width` / the character setters called before it): single bar
characters, a bar width that is a binary64 integer -/
def barHypB (e : CEvent) : Bool := singleCharsB e.cfg && barWidthOkB e.cfg

/-! ## Cleanliness of the inputs of a MULTI-LINE bar (Lemmas/ProgressMulti.lean, `Props.C16.frames_fit_clean`)

The text given to `set_format` may contain line breaks but neither CR nor ESC (`printableB`); everything that is
SUBSTITUTED into the format - the three bar characters and the messages - contains none of line break, CR, ESC
(`valueCleanB`).  With setters in the middle of a run the same is demanded of every setter argument. -/

/-- no line break, no carriage return, no ESC: a text that may be substituted for a placeholder -/
def valueCleanB (s : Str) : Bool := s.all (fun ch => ch != '\n' && ch != '\r' && ch != ESC)

/-- the configuration before the first call: format without CR / ESC, bar characters without line break / CR / ESC -/
def mlCleanCfgB (c : Config) : Bool :=
  (match c.internalFormat with | some f => printableB f | none => true) &&
  valueCleanB c.emptyChar && valueCleanB c.progressChar &&
  (match c.barChar with | some b => valueCleanB b | none => true)

/-- the argument of one call: messages and bar characters without line break / CR / ESC, a format without CR / ESC -/
def mlCleanCallB : Call → Bool
  | .op (.setMessage text) => valueCleanB text
  | .op _ => true
  | .set (.format f) => printableB f
  | .set (.barChar b) => valueCleanB b
  | .set (.emptyChar b) => valueCleanB b
  | .set (.progressChar b) => valueCleanB b
  | .set _ => true

def mlCleanCallsB (calls : List (Call × Nat)) : Bool := calls.all (fun x => mlCleanCallB x.1)

end Clikit.Progress
