import Clikit.Model.App
import Clikit.Model.Help
/-!
# The text of a help run: the run model (`Model/App.lean`) composed with the help pages (`Model/Help.lean`)

`App.runApp` says WHAT a run does (`What.helpPage t`: `HelpTextHandler` rendered the page `t`) on the
tree of commands the resolver works on (`List Cmd`); `Help.renderTarget` says which TEXT a page puts on a
terminal of a given width, from the tree of configurations (`HApp`: names, descriptions, arguments,
options, hidden / enabled flags).  Both trees come from the same `ApplicationConfig`: the resolver's tree
is `toCmd.toCmds` of the configurations (the enabled ones, `add_command` / `add_sub_command`), exactly as
the driver entries `c13.target` / `c13.all` build it (`Drv/C13.targetOf`).

`HelpTextHandler.handle` (`handler/help/help_text_handler.py`) renders `ApplicationHelp(application)` or
`CommandHelp(command)` with `help.render(io)` - no outer indentation - on `io`, whose terminal width is
`io.terminal_dimensions.width`: the parameter `w`.  Nothing new is computed here: `helpRun` calls
`runApp` and `renderTarget`.
-/
namespace Clikit.App
open Clikit Clikit.Parser Clikit.Resolver Clikit.Help

/-- the tree of commands the application is built from: the enabled configurations -/
def treeOf (happ : HApp) : List Cmd := toCmd.toCmds happ.cmds

/-- the page a help target denotes, as the list of elements the layout renders (`none`: no
configuration under that name path) -/
def targetPage (happ : HApp) : Target → Option Page
  | .app => some (applicationHelp happ)
  | .cmd path =>
    match findPath happ.ctx happ.cmds path with
    | none => none
    | some (x, c) => some (commandHelp happ x c)

/-- the help text the page passes through `str.format` (`formatOK`: it contains no brace) -/
def targetFormatOK (happ : HApp) : Target → Bool
  | .app => formatOK happ.help
  | .cmd path =>
    match findPath happ.ctx happ.cmds path with
    | none => true
    | some (_, c) => formatOK c.help

/-- **the text a run prints when its outcome is a help page**: the rendering of that page at the
terminal width of the run (`none`: the outcome is not a help page - the text of the other outcomes is
the subject of C10/C11/C20) -/
def printed (wrap : Nat → Str → List Str) (w : Nat) (happ : HApp) : What → Option (Except Err Str)
  | .helpPage t => some (renderTarget wrap w happ t)
  | _ => none

/-- a run of the application configured by `happ` on a terminal `w` columns wide: what `runApp`
says about it, and the help text it prints -/
def helpRun (wrap : Nat → Str → List Str) (w : Nat) (env : Env) (cv : Conv) (happ : HApp) (hs : Handlers)
    (toks : List Str) : Result × Option (Except Err Str) :=
  let r := runApp env cv (treeOf happ) hs toks
  (r, printed wrap w happ r.what)

end Clikit.App
