import Clikit.Model.Parser
/-!
# Well-formedness of a format, executable (C02)

Bool deciders of the facts about a format that the exclusion of foreign exceptions
(`Props/C02.no_foreign_exception`) and the single-fault theorems depend on.  The driver evaluates
them on every flattened format read from the REAL builder (entry `c02.wf`);
`Lemmas/ParserWF.lean` proves them equivalent to the hypotheses `FmtWF` / `LongOK`.
-/
namespace Clikit.Parser

/-- the strings are pairwise distinct -/
def nodupStrB : List Str → Bool
  | [] => true
  | a :: r => !(r.contains a) && nodupStrB r

/-- the result is not one of the model's foreign errors -/
def noOtherB {α : Type} (r : Except Err α) : Bool :=
  match r with
  | .error (.other _) => false
  | _ => true

/-- C07 normal form: an option that accepts a value requires one, takes it optionally or is multi-valued -/
def optModeB (o : Opt) : Bool := !o.accepts || o.valReq || o.valOpt || o.multi

/-- the default of a single-valued optional-value option is a scalar whose conversion is inside the model -/
def optDefaultB (cv : Conv) (o : Opt) : Bool :=
  !(o.valOpt && !o.multi) ||
    match o.default with
    | .scalar s => noOtherB (conv cv o.ty o.nullable s)
    | .list _ => false

/-- decides `FmtWF cv f` -/
def fmtWFB (cv : Conv) (f : Fmt) : Bool :=
  nodupStrB (f.args.map (·.name)) && f.opts.all optModeB && f.opts.all (optDefaultB cv)

/-- decides `LongOK f o`: the option is found under its long name, which is non-empty and has no `=` -/
def longOKB (f : Fmt) (o : Opt) : Bool :=
  f.getOpt? o.long == some o && !(o.long.contains '=') && !o.long.isEmpty

/-- every option of the format can be spelled `--long`, `--long=value` -/
def allLongOKB (f : Fmt) : Bool := f.opts.all (longOKB f)

/-- an option with a short name is found under it (a one-character name) -/
def shortOKB (f : Fmt) (o : Opt) : Bool :=
  match o.short with
  | none => true
  | some [c] => f.getOpt? [c] == some o
  | some _ => false

/-- every option of the format can be spelled `-c`, `-cVALUE`, in a group -/
def allShortOKB (f : Fmt) : Bool := f.opts.all (shortOKB f)

end Clikit.Parser
