import Clikit.Model.Markup
import Clikit.Gen.Logic
/-!
# `Output`, `IO`, `SectionOutput` writes and indentation scopes (C11)

Follows `src/clikit/api/io/output.py`, `io.py`, `section_output.py`, `indent.py`.
The gate is `Gen.mayWrite`, translated from `Output._may_write` on every run.
-/
namespace Clikit.Output
open Clikit Clikit.Style Clikit.Markup

/-! ## Lines -/

/-- `s.split("\n")` -/
def splitNl : Str → List Str
  | [] => [[]]
  | c :: r =>
    if c = '\n' then [] :: splitNl r
    else
      match splitNl r with
      | [] => [[c]]
      | l :: ls => (c :: l) :: ls

/-- `"\n".join(ls)` -/
def joinNl : List Str → Str
  | [] => []
  | [l] => l
  | l :: ls => l ++ '\n' :: joinNl ls

def spaces (n : Nat) : Str := List.replicate n ' '

/-- `(" " * indent + s) if s else s` -/
def indentLine (n : Nat) (l : Str) : Str := if l.isEmpty then l else spaces n ++ l

/-- the indentation `Output.write` inserts -/
def indentText (n : Nat) (s : Str) : Str := joinNl ((splitNl s).map (indentLine n))

/-- `s.rstrip("\n")` -/
def rstripNl (s : Str) : Str := (s.reverse.dropWhile (· = '\n')).reverse

/-! ## One output object -/

inductive Fmt where
  | ansi (forced : Bool)     -- AnsiFormatter(forced=…)
  | plain                    -- PlainFormatter
  | null                     -- NullFormatter
  deriving DecidableEq, Repr

/-- `formatter.force_ansi()` -/
def Fmt.forceAnsi : Fmt → Bool
  | .ansi f => f
  | _ => false

/-- `formatter.disable_ansi()`; `NullFormatter` does not implement it -/
def Fmt.disableAnsi : Fmt → Except Err Bool
  | .ansi _ => .ok false
  | .plain => .ok true
  | .null => .error (.other "NotImplementedError")

/-- `Output.__init__`: `stream.supports_ansi() and not formatter.disable_ansi() or formatter.force_ansi()` -/
def formatOutput (streamAnsi : Bool) (f : Fmt) : Except Err Bool :=
  if streamAnsi then
    match f.disableAnsi with
    | .ok d => .ok (!d || f.forceAnsi)
    | .error e => .error e
  else .ok f.forceAnsi

structure Out where
  fmt : Fmt
  formatOutput : Bool          -- `_format_output`
  quiet : Bool := false
  verbosity : Nat := 0
  indent : Nat := 0
  stack : Stack := []          -- the style stack of the formatter's pastel instance
  deriving Repr

/-- `self.format(string)` -/
def Out.format (rv : Resolver) (o : Out) (s : Str) (style : Option Style) : Except Err (Str × Stack) :=
  match o.fmt with
  | .ansi _ => ansiFormat rv o.stack s style
  | .plain => plainFormat rv o.stack s
  | .null => .ok (s, o.stack)

/-- `self.remove_format(string)` -/
def Out.removeFormat (rv : Resolver) (o : Out) (s : Str) : Except Err (Str × Stack) :=
  match o.fmt with
  | .ansi _ => plainFormat rv o.stack s
  | .plain => plainFormat rv o.stack s
  | .null => .ok (s, o.stack)

/-- what `Output.write` hands to the formatter -/
def Out.indented (o : Out) (s : Str) (withIndent : Bool) : Str :=
  if o.indent > 0 && withIndent then indentText o.indent s else s

/-- `Output.write`: the bytes that reach the stream and the output afterwards -/
def Out.write (rv : Resolver) (o : Out) (s : Str) (flags : Option Nat) (newLine withIndent : Bool) :
    Except Err (Str × Out) :=
  if Gen.mayWrite o.quiet o.verbosity flags then
    match (if o.formatOutput then o.format rv (o.indented s withIndent) none
           else o.removeFormat rv (o.indented s withIndent)) with
    | .error e => .error e
    | .ok (formatted, st) => .ok (formatted ++ (if newLine then ['\n'] else []), { o with stack := st })
  else .ok ([], o)

/-- `Output.write_line` -/
def Out.writeLine (rv : Resolver) (o : Out) (s : Str) (flags : Option Nat) : Except Err (Str × Out) :=
  o.write rv s flags true true

/-- `Output.write_raw` -/
def Out.writeRaw (o : Out) (s : Str) (flags : Option Nat) : Str × Out :=
  if Gen.mayWrite o.quiet o.verbosity flags then (s, o) else ([], o)

/-- `Output.write_line_raw` -/
def Out.writeLineRaw (o : Out) (s : Str) (flags : Option Nat) : Str × Out :=
  if Gen.mayWrite o.quiet o.verbosity flags then (rstripNl s ++ ['\n'], o) else ([], o)

/-! ## A lone, fresh `SectionOutput` (stacking of several sections is C15's subject) -/

/-- `SectionOutput.write` on a section that is the only one of its stream and has no content:
without ANSI support it is `Output.write`; with it the text is written with a newline whatever
`new_line` says and without passing the flags on (the gate was applied before). -/
def Out.sectionWrite (rv : Resolver) (o : Out) (s : Str) (flags : Option Nat) (newLine : Bool) :
    Except Err (Str × Out) :=
  if !o.formatOutput && !o.fmt.forceAnsi then o.write rv s flags newLine true
  else if !Gen.mayWrite o.quiet o.verbosity flags then .ok ([], o)
  else
    match o.write rv s none true true with
    | .error e => .error e
    | .ok (b1, o1) =>
      match o1.write rv [] none false false with
      | .error e => .error e
      | .ok (b2, o2) => .ok (b1 ++ b2, o2)

/-! ## The writing entry points -/

inductive Method where
  | write | writeLine | writeRaw | writeLineRaw          -- IO / Output / SectionOutput
  | error | errorLine | errorRaw | errorLineRaw          -- IO only
  | overwrite                                            -- SectionOutput only
  deriving DecidableEq, Repr

inductive Kind where
  | io | output | section
  deriving DecidableEq, Repr

/-- the methods that promise a line -/
def Method.isLine : Method → Bool
  | .writeLine | .writeLineRaw | .errorLine | .errorLineRaw | .overwrite => true
  | _ => false

def Method.isRaw : Method → Bool
  | .writeRaw | .writeLineRaw | .errorRaw | .errorLineRaw => true
  | _ => false

def Method.toError : Method → Bool
  | .error | .errorLine | .errorRaw | .errorLineRaw => true
  | _ => false

/-- one method of a single `Output` -/
def Out.call (rv : Resolver) (o : Out) (m : Method) (s : Str) (flags : Option Nat) : Except Err (Str × Out) :=
  match m with
  | .write => o.write rv s flags false true
  | .writeLine => o.writeLine rv s flags
  | .writeRaw => .ok (o.writeRaw s flags)
  | .writeLineRaw => .ok (o.writeLineRaw s flags)
  | _ => .error (.other "AttributeError")

/-- one method of a lone section -/
def Out.sectionCall (rv : Resolver) (o : Out) (m : Method) (s : Str) (flags : Option Nat) : Except Err (Str × Out) :=
  match m with
  | .write => o.sectionWrite rv s flags false
  | .writeLine => o.sectionWrite rv s flags true
  | .overwrite => o.sectionWrite rv s none true     -- `clear()` returns at once on an empty section
  | .writeRaw => .ok (o.writeRaw s flags)
  | .writeLineRaw => .ok (o.writeLineRaw s flags)
  | _ => .error (.other "AttributeError")

/-- an `IO`: standard and error output -/
structure IOm where
  out : Out
  err : Out
  deriving Repr

/-- the `IO` wrappers: bytes on the standard output, bytes on the error output -/
def IOm.call (rv : Resolver) (io : IOm) (m : Method) (s : Str) (flags : Option Nat) :
    Except Err (Str × Str × IOm) :=
  let onOut (r : Except Err (Str × Out)) : Except Err (Str × Str × IOm) :=
    match r with
    | .ok (b, o) => .ok (b, [], { io with out := o })
    | .error e => .error e
  let onErr (r : Except Err (Str × Out)) : Except Err (Str × Str × IOm) :=
    match r with
    | .ok (b, o) => .ok ([], b, { io with err := o })
    | .error e => .error e
  match m with
  | .write => onOut (io.out.call rv .write s flags)
  | .writeLine => onOut (io.out.call rv .writeLine s flags)
  | .writeRaw => onOut (io.out.call rv .writeRaw s flags)
  | .writeLineRaw => onOut (io.out.call rv .writeLineRaw s flags)
  | .error => onErr (io.err.call rv .write s flags)
  | .errorLine => onErr (io.err.call rv .writeLine s flags)
  | .errorRaw => onErr (io.err.call rv .writeRaw s flags)
  | .errorLineRaw => onErr (io.err.call rv .writeLineRaw s flags)
  | .overwrite => .error (.other "AttributeError")

/-! ## Indentation scopes (`api/io/indent.py`)

A program is a tree; `scope` is `with target.indent(n):` / `with target.increment_indent(n):`.
The texts written inside are tag-free, so what reaches the stream is the indented text and a
newline (`write_line` / `error_line`).  `attempt` is `try: … except: pass`. -/

inductive Target where
  | io        -- `io.indent`: both outputs
  | out       -- `io.output.indent`
  | err       -- `io.error_output.indent`
  deriving DecidableEq, Repr

inductive Prog where
  | skip
  | seq (a b : Prog)
  | line (toErr : Bool) (s : Str)
  | scope (t : Target) (increment : Bool) (n : Nat) (body : Prog)
  | raise
  | attempt (body : Prog)
  deriving Repr

/-- `_indent` of the standard and of the error output -/
structure Ind where
  out : Nat
  err : Nat
  deriving DecidableEq, Repr

/-- `Indent.__init__` -/
def Ind.enter (i : Ind) (t : Target) (increment : Bool) (n : Nat) : Ind :=
  let f (x : Nat) : Nat := if increment then x + n else n
  match t with
  | .io => { out := f i.out, err := f i.err }
  | .out => { i with out := f i.out }
  | .err => { i with err := f i.err }

/-- `Indent.__exit__`: the outputs of the scope get the value saved by `__init__` -/
def Ind.leave (now saved : Ind) (t : Target) : Ind :=
  match t with
  | .io => saved
  | .out => { now with out := saved.out }
  | .err => { now with err := saved.err }

/-- a line that reached a stream: which one, and the bytes -/
abbrev Written := Bool × Str

def emitLine (i : Ind) (toErr : Bool) (s : Str) : Written :=
  (toErr, (if (if toErr then i.err else i.out) > 0 then indentText (if toErr then i.err else i.out) s else s) ++ ['\n'])

/-- run a program: what was written, the indentation afterwards, whether an exception is
propagating -/
def exec : Prog → Ind → List Written × Ind × Bool
  | .skip, i => ([], i, false)
  | .seq a b, i =>
    match exec a i with
    | (w1, i1, true) => (w1, i1, true)
    | (w1, i1, false) =>
      match exec b i1 with
      | (w2, i2, r) => (w1 ++ w2, i2, r)
  | .line e s, i => ([emitLine i e s], i, false)
  | .scope t inc n body, i =>
    match exec body (i.enter t inc n) with
    | (w, i', r) => (w, i'.leave i t, r)
  | .raise, i => ([], i, true)
  | .attempt body, i =>
    match exec body i with
    | (w, i', _) => (w, i', false)

/-- the *statement* of scoping: the indentation of a line is fixed by the scopes that enclose it
(passed down, never handed back) -/
def lexical : Prog → Ind → List Written × Bool
  | .skip, _ => ([], false)
  | .seq a b, i =>
    match lexical a i with
    | (w1, true) => (w1, true)
    | (w1, false) =>
      match lexical b i with
      | (w2, r) => (w1 ++ w2, r)
  | .line e s, i => ([emitLine i e s], false)
  | .scope t inc n body, i => lexical body (i.enter t inc n)
  | .raise, _ => ([], true)
  | .attempt body, i => ((lexical body i).1, false)

end Clikit.Output
