import Clikit.Model.Wrap
/-!
# `textwrap.wrap` with hyphen breaks (the instance the help-page model is run with)

`Clikit.Wrap.wrap` models `textwrap.wrap` for texts without hyphens.  The pages of the
default application configuration contain `[--no-ansi]` in the usage line, and
`TextWrapper.wordsep_re` may break such a word after `no-`.  `wrapH` is the same greedy
loop (`Clikit.Wrap.wrapLoop`, unchanged) run on a finer chunk list: every non-blank chunk
is split further the way `wordsep_re` does

* `(?<=[\w!"'&.,?]) -{2,} (?=\w)` - an em-dash between words is a chunk of its own,
* `\S+? -` after two letters (or letter-hyphen-letter) and before `letter -? letter` -
  a hyphenated word may break after the hyphen,
* `\S+? (?<=[\w!"'&.,?]) (?=-{2,}\w)` - a word ends before an em-dash.

`\w`, letters and digits are the ASCII ones (other alphabets: outside the model; the
harness compares `wrapH` with `textwrap.wrap` on every text x width a page uses).
Core Lean only.
-/
namespace Clikit.Help
open Clikit Clikit.Wrap

/-- `\w` (ASCII) -/
def isW (c : Char) : Bool := c.isAlphanum || c == '_'
/-- `[^\d\W]` (ASCII) -/
def isLt (c : Char) : Bool := c.isAlpha || c == '_'
/-- `[\w!"'&.,?]` -/
def isWp (c : Char) : Bool :=
  isW c || c == '!' || c == '"' || c == '\'' || c == '&' || c == '.' || c == ',' || c == '?'

/-- `-{2,}(?=\w)` at the start of `t`: the number of hyphens -/
def dashRun (t : Str) : Option Nat :=
  let m := (t.takeWhile (· == '-')).length
  if 2 ≤ m && (match t.drop m with | c :: _ => isW c | [] => false) then some m else none

/-- lookbehind of the hyphenated-word rule, on the characters before the hyphen (last first) -/
def hyphenBehind : Str → Bool
  | a :: b :: r => isLt a && (isLt b || (b == '-' && (match r with | c :: _ => isLt c | [] => false)))
  | _ => false

/-- lookahead `letter -? letter` on the characters after the hyphen -/
def hyphenAhead : Str → Bool
  | a :: b :: r => isLt a && ((b == '-' && (match r with | c :: _ => isLt c | [] => false)) || isLt b)
  | _ => false

/-- `wordsep_re` on one word (a maximal run of non-blank characters).
`take` > 0: that many more characters belong to the chunk being built, which then ends;
`prev`: the characters of the word before the current position, last first;
`cur`: the chunk being built, last first. -/
def splitWord : Nat → Str → Str → Str → List Str
  | _, _, cur, [] => if cur.isEmpty then [] else [cur.reverse]
  | take + 1, prev, cur, c :: r =>
    if take == 0 then (c :: cur).reverse :: splitWord 0 (c :: prev) [] r
    else splitWord take (c :: prev) (c :: cur) r
  | 0, prev, cur, c :: r =>
    let emDash : Option Nat :=
      if cur.isEmpty && (match prev with | p :: _ => isWp p | [] => false) then dashRun (c :: r) else none
    match emDash with
    | some m => splitWord (m - 1) (c :: prev) (c :: cur) r
    | none =>
      -- `\S+?` takes `c`; may the word chunk end here?
      match r with
      | '-' :: r2 =>
        if hyphenBehind (c :: prev) && hyphenAhead r2 then splitWord 1 (c :: prev) (c :: cur) r
        else if isWp c && (dashRun r).isSome then (c :: cur).reverse :: splitWord 0 (c :: prev) [] r
        else splitWord 0 (c :: prev) (c :: cur) r
      | _ => splitWord 0 (c :: prev) (c :: cur) r

/-- `TextWrapper._split` (with `break_on_hyphens`) after `_munge_whitespace` -/
def chunksH (text : Str) : List Str :=
  (splitChunks (munge text)).flatMap fun c => if isBlankChunk c then [c] else splitWord 0 [] [] c

/-- `textwrap.wrap(text, w)` for `w ≥ 1`, hyphen breaks included -/
def wrapH (w : Nat) (text : Str) : List Str :=
  let cs := chunksH text
  wrapLoop w (measure cs + 1) true cs

def wrapHE (w : Nat) (text : Str) : Except Err (List Str) :=
  if w = 0 then .error .valueError else .ok (wrapH w text)

end Clikit.Help
