import Clikit.Model.Parser
/-!
# Model of `DefaultResolver.resolve` (C03)

Follows `src/clikit/resolver/default_resolver.py`, `resolve_result.py` and
`api/command/command_collection.py`.  A command carries the flattened args format it parses
with (read from the real `Command.args_format` by the harness) and its leniency setting; the
parser is the model of C01/C02.  A resolved command is identified by its path of names.
-/
namespace Clikit.Resolver
open Clikit Clikit.Parser

/-- a command of the tree; `subs` holds the *enabled* sub-commands in registration order
(`Command.add_sub_command` drops disabled ones) -/
inductive Cmd where
  | mk (name : Str) (aliases : List Str) (isDefault anonymous : Bool) (fmt : Fmt) (lenient : Bool)
       (subs : List Cmd)
  deriving Inhabited

namespace Cmd
def name : Cmd → Str | mk n _ _ _ _ _ _ => n
def aliases : Cmd → List Str | mk _ a _ _ _ _ _ => a
def isDefault : Cmd → Bool | mk _ _ d _ _ _ _ => d
def anonymous : Cmd → Bool | mk _ _ _ a _ _ _ => a
def fmt : Cmd → Fmt | mk _ _ _ _ f _ _ => f
def lenient : Cmd → Bool | mk _ _ _ _ _ l _ => l
def subs : Cmd → List Cmd | mk _ _ _ _ _ _ s => s
end Cmd

/-- `CommandCollection`: `_commands` (name ↦ command) and `_alias_index` (alias ↦ name), both
with Python dict semantics (a later registration under the same key replaces the value and keeps
the position).  `_short_name_index` is always empty: `Command.short_name` is `None`. -/
structure Coll where
  cmds : List (Str × Cmd)
  aliasIdx : List (Str × Str)
  deriving Inhabited

def Coll.empty : Coll := { cmds := [], aliasIdx := [] }

/-- `CommandCollection.add` -/
def Coll.add (c : Coll) (cmd : Cmd) : Coll :=
  { cmds := dictSet cmd.name cmd c.cmds,
    aliasIdx := cmd.aliases.foldl (fun idx a => dictSet a cmd.name idx) c.aliasIdx }

def Coll.ofList (l : List Cmd) : Coll := l.foldl Coll.add Coll.empty

/-- `CommandCollection.get`, `none` = `NoSuchCommandException` (= `name not in collection`) -/
def Coll.get? (c : Coll) (name : Str) : Option Cmd :=
  match dictGet? name c.cmds with
  | some cmd => some cmd
  | none =>
    match dictGet? name c.aliasIdx with
    | some n => dictGet? n c.cmds
    | none => none

/-- iteration order of a collection: `iter(self._commands.values())` -/
def Coll.values (c : Coll) : List Cmd := c.cmds.map (·.2)

/-- `named_sub_commands` / `named_commands`: the non-anonymous ones -/
def namedColl (l : List Cmd) : Coll := Coll.ofList (l.filter fun c => !c.anonymous)

/-- `default_sub_commands` / `default_commands` -/
def defaultColl (l : List Cmd) : Coll := Coll.ofList (l.filter fun c => c.isDefault)

/-- `get_arguments_to_test`: the leading tokens up to the first `""`, `--` or `-…` token -/
def lead : List Str → List Str
  | [] => []
  | t :: r =>
    if t == [] then []                       -- `while token:` stops at an empty token
    else if t == ['-', '-'] then []
    else if t.head? == some '-' then []
    else t :: lead r

/-- the loop of `process_arguments`: follow the names as long as they name a (sub-)command;
returns the last command reached and the path of its names -/
def walk : Coll → Option (Cmd × List Str) → List Str → Option (Cmd × List Str)
  | _, cur, [] => cur
  | coll, cur, n :: r =>
    match coll.get? n with
    | none => cur
    | some c =>
      let path := match cur with
        | none => [c.name]
        | some (_, p) => p ++ [c.name]
      walk (namedColl c.subs) (some (c, path)) r

/-- `ResolveResult._parse`: `CannotParseArgsException` is remembered (`none`), every other
exception propagates out of the resolver -/
def tryParse (cv : Conv) (c : Cmd) (tokens : List Str) : Except Err (Option Args) :=
  match parse cv c.fmt c.lenient tokens with
  | .ok a => .ok (some a)
  | .error .cannotParse => .ok none
  | .error e => .error e

/-- `process_default_commands`: the first default command whose arguments parse, else the
first default command (with its parse failure); `none` when there is no default command -/
def pickDefault (cv : Conv) (tokens : List Str) (path : List Str) :
    List Cmd → Option (List Str × Option Args) → Except Err (Option (List Str × Option Args))
  | [], first => .ok first
  | d :: r, first =>
    match tryParse cv d tokens with
    | .error e => .error e
    | .ok (some a) => .ok (some (path ++ [d.name], some a))
    | .ok none =>
      pickDefault cv tokens path r (match first with
        | none => some (path ++ [d.name], none)
        | some f => some f)

/-- `create_resolved_command`: an unparsable result raises its parse error -/
def created (r : List Str × Option Args) : Except Err (List Str × Args) :=
  match r.2 with
  | some a => .ok (r.1, a)
  | none => .error .cannotParse

/-- `DefaultResolver.resolve` on the application's enabled commands `app` -/
def resolve (cv : Conv) (app : List Cmd) (tokens : List Str) : Except Err (List Str × Args) :=
  let ls := lead tokens
  match walk (namedColl app) none ls with
  | some (c, path) =>
    -- process_options is a no-op; then the default sub-commands of the command reached
    match pickDefault cv tokens path (defaultColl c.subs).values none with
    | .error e => .error e
    | .ok (some r) => created r
    | .ok none =>
      match tryParse cv c tokens with
      | .error e => .error e
      | .ok a => created (path, a)
  | none =>
    if !ls.isEmpty then .error .cannotResolve
    else
      match pickDefault cv tokens [] (defaultColl app).values none with
      | .error e => .error e
      | .ok (some r) => created r
      | .ok none => .error .cannotResolve

/-! ## Several `resolve()` calls on ONE resolver object

The application config caches its resolver, so one `DefaultResolver` object serves every `resolve_command` of an
application.  The only thing a call computes that a later call could see is the command its walk reached;
`process_arguments` starts every call from `current_command = None` (the `none` handed to `walk` in `resolve`).
`resolveHistory` threads what the previous call reached through the calls - and never reads it. -/

/-- the command (and its name path) the walk of one call reaches -/
def reached (app : List Cmd) (tokens : List Str) : Option (Cmd × List Str) :=
  walk (namedColl app) none (lead tokens)

/-- the answers of the calls `lines` made one after the other on one resolver object; `prev` = what the call before
the first of them reached -/
def resolveHistory (cv : Conv) (app : List Cmd) :
    Option (Cmd × List Str) → List (List Str) → List (Except Err (List Str × Args))
  | _, [] => []
  | _, l :: r => resolve cv app l :: resolveHistory cv app (reached app l) r

/-! ## Do two spellings of a path look up the same commands?  (executable; `Props/C03.alias_invariant`)

The driver evaluates `sameLookupsB` on the tree read from the REAL application for the leading tokens
of every generated line against their respelling (entry `c03.same`). -/

/-- the key of `_commands` under which `CommandCollection.get` finds `name`: the name itself, or
the target of the alias -/
def Coll.key? (c : Coll) (name : Str) : Option Str :=
  match dictGet? name c.cmds with
  | some _ => some name
  | none =>
    match dictGet? name c.aliasIdx with
    | some n => if dictHas n c.cmds then some n else none
    | none => none

/-- level by level, the two name lists find their command under the same key of `_commands`
(hence the same command), down to the first name that finds nothing in both -/
def sameLookupsB : Coll → List Str → List Str → Bool
  | _, [], [] => true
  | coll, n :: r, n' :: r' =>
    match coll.key? n, coll.key? n' with
    | none, none => true
    | some k, some k' =>
      k == k' && (match dictGet? k coll.cmds with
        | some c => sameLookupsB (namedColl c.subs) r r'
        | none => true)
    | _, _ => false
  | _, _, _ => false

end Clikit.Resolver
