import Clikit.Gen.Logic
/-!
C10 - the quiet/verbosity gate.  `Gen.mayWrite` is *translated* from `Output._may_write`
on every run; this file only adds the declarative reading of "the lowest level requested
by the flags" that the property statement uses.
-/
namespace Clikit.Gate
open Clikit.Gen

/-- The three message levels a flag word can request. -/
def levels : List Nat := [IOFlags.VERBOSE, IOFlags.VERY_VERBOSE, IOFlags.DEBUG]

/-- The levels requested by a flag word (`None` is the empty word). -/
def requested (flags : Option Nat) : List Nat :=
  levels.filter (fun l => (flags.getD 0) &&& l != 0)

/-- The lowest requested level, `NORMAL` when none is requested. -/
def lowest (flags : Option Nat) : Nat :=
  (requested flags).foldl min (match requested flags with | [] => IOFlags.NORMAL | l :: _ => l)

/-- What the property demands of every writing entry point. -/
def shouldWrite (quiet : Bool) (verbosity : Nat) (flags : Option Nat) : Bool :=
  !quiet && decide (verbosity ≥ lowest flags)

end Clikit.Gate
