import Clikit.Gen.Logic
/-!
C10 - the quiet/verbosity gate.  `Gen.mayWrite` is *translated* from `Output._may_write`
on every run; this file only adds the declarative reading of "the lowest level requested
by the flags" that the property statement uses.
-/
namespace Clikit.Gate
open Clikit.Gen

/-- The three message levels a flag word can request. -/
def levels : List Nat := [IOFlags.VERBOSE, IOFlags.VERY_VERBOSE, IOFlags.DEBUG]

/-- The levels requested by a flag word (`None` is the empty word). -/
def requested (flags : Option Nat) : List Nat :=
  levels.filter (fun l => (flags.getD 0) &&& l != 0)

/-- The lowest requested level, `NORMAL` when none is requested. -/
def lowest (flags : Option Nat) : Nat :=
  (requested flags).foldl min (match requested flags with | [] => IOFlags.NORMAL | l :: _ => l)

/-- What the property demands of every writing entry point. -/
def shouldWrite (quiet : Bool) (verbosity : Nat) (flags : Option Nat) : Bool :=
  !quiet && decide (verbosity ≥ lowest flags)

/-! ## The I/O facade: two outputs, each with its own settings

`IO.write*` pass the call on to the standard output, `IO.error*` to the error output; each output
gates with ITS OWN quiet flag and verbosity (the two can be configured individually through
`io.output` / `io.error_output` or by handing pre-configured outputs to the constructor). -/

/-- The settings of one output. -/
structure OutCfg where
  quiet : Bool
  verbosity : Nat
  deriving Repr, DecidableEq

/-- The output an entry point of the facade writes to. -/
inductive Chan | std | err
  deriving Repr, DecidableEq

/-- The eight writing entry points of `IO` and the output each writes to. -/
def facadeChan : String → Option Chan
  | "write" | "write_line" | "write_raw" | "write_line_raw" => some .std
  | "error" | "error_line" | "error_raw" | "error_line_raw" => some .err
  | _ => none

/-- Which stream receives the text of a write through the facade:
(standard stream, error stream). -/
def facadeWrite (std err : OutCfg) (c : Chan) (flags : Option Nat) : Bool × Bool :=
  match c with
  | .std => (mayWrite std.quiet std.verbosity flags, false)
  | .err => (false, mayWrite err.quiet err.verbosity flags)

end Clikit.Gate
