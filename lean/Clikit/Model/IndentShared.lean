import Clikit.Base
/-!
# Indentation scopes over `Output` OBJECTS that an I/O may share (C17)

Follows `src/clikit/api/io/indent.py`, `IO.indent` / `IO.increment_indent`, `Output.indent` /
`Output.increment_indent`.  `Model/Output.lean` (C11) describes an I/O whose two outputs are two objects;
here the outputs are OBJECTS, numbered, and the standard output and the error output of an I/O may be the
SAME object (`IO(input, out, out)`: both channels merged).  `IO.indent(n)` hands the list
`[output, error_output]` to `Indent`, so one object can occur twice in the list of a scope:

* `Indent.__init__` first saves `_indent` of EVERY listed output, then walks the list and sets (or
  increments) each - an object listed twice is incremented twice,
* `Indent.__exit__` walks the list again and gives every listed output the value saved at its position.

A component that is rendered sees the indentation of the two outputs of its I/O and is taken to leave it
as it found it (the scopes a component opens while it renders - `ExceptionTrace.render` - are its own
business; that they are closed again is compared on the real objects after every render).
-/
namespace Clikit.IndentShared

/-- `_indent` of every `Output` object, by object number -/
abbrev Heap := Nat → Nat

def Heap.set (h : Heap) (r v : Nat) : Heap := fun x => if x = r then v else h x

/-- the `Output` objects behind the standard output and the error output of an `IO`; `out = err`: one
object serves both channels -/
structure IORefs where
  out : Nat
  err : Nat
  deriving DecidableEq, Repr

inductive Target where
  | io        -- `io.indent` / `io.increment_indent`: `[output, error_output]`
  | out       -- `io.output.indent`
  | err       -- `io.error_output.indent`
  deriving DecidableEq, Repr

/-- the list of outputs `Indent` is given -/
def IORefs.refs (io : IORefs) : Target → List Nat
  | .io => [io.out, io.err]
  | .out => [io.out]
  | .err => [io.err]

/-- the loop of `Indent.__init__`: `output._indent = output._indent + n` / `= n`, output by output -/
def apply (inc : Bool) (n : Nat) : List Nat → Heap → Heap
  | [], h => h
  | r :: rs, h => apply inc n rs (h.set r (if inc then h r + n else n))

/-- `Indent.__init__`: the values to restore are those ALL listed outputs have before the first one is
changed (`[output._indent for output in outputs]`) -/
def enter (h : Heap) (refs : List Nat) (inc : Bool) (n : Nat) : Heap × List Nat :=
  (apply inc n refs h, refs.map h)

/-- `Indent.__exit__`: `for i, output in enumerate(outputs): output._indent = originals[i]` -/
def leave : List Nat → List Nat → Heap → Heap
  | r :: rs, v :: vs, h => leave rs vs (h.set r v)
  | _, _, h => h

/-- ANOTHER protocol, kept as a counterexample: the value to restore is recorded inside the loop, right
before the output is changed.  The same thing for lists without repetition, not for an object listed twice. -/
def enterLate (inc : Bool) (n : Nat) : List Nat → Heap → List Nat → Heap × List Nat
  | [], h, acc => (h, acc)
  | r :: rs, h, acc => enterLate inc n rs (h.set r (if inc then h r + n else n)) (acc ++ [h r])

/-- a history of renderings and scopes on ONE I/O; `attempt` is `try: … except: pass` -/
inductive Prog where
  | skip
  | seq (a b : Prog)
  | render (c : Nat)                                           -- the component number `c` is rendered
  | scope (t : Target) (increment : Bool) (n : Nat) (body : Prog)
  | raise
  | attempt (body : Prog)
  deriving Repr

/-- what a rendering finds: the component, `_indent` of the standard and of the error output -/
abbrev Seen := Nat × Nat × Nat

/-- run a history: what every rendering found, the indentations afterwards, whether an exception is
propagating.  `late`: with the counterexample protocol. -/
def execP (late : Bool) (io : IORefs) : Prog → Heap → List Seen × Heap × Bool
  | .skip, h => ([], h, false)
  | .seq a b, h =>
    match execP late io a h with
    | (w1, h1, true) => (w1, h1, true)
    | (w1, h1, false) =>
      match execP late io b h1 with
      | (w2, h2, r) => (w1 ++ w2, h2, r)
  | .render c, h => ([(c, h io.out, h io.err)], h, false)
  | .scope t inc n body, h =>
    let e := if late then enterLate inc n (io.refs t) h [] else enter h (io.refs t) inc n
    match execP late io body e.1 with
    | (w, h', r) => (w, leave (io.refs t) e.2 h', r)
  | .raise, h => ([], h, true)
  | .attempt body, h =>
    match execP late io body h with
    | (w, h', _) => (w, h', false)

/-- the code as it is -/
abbrev exec := execP false

/-- the *statement*: what a rendering finds is fixed by the scopes that enclose it (handed down, never
handed back) -/
def lexical (io : IORefs) : Prog → Heap → List Seen × Bool
  | .skip, _ => ([], false)
  | .seq a b, h =>
    match lexical io a h with
    | (w1, true) => (w1, true)
    | (w1, false) =>
      match lexical io b h with
      | (w2, r) => (w1 ++ w2, r)
  | .render c, h => ([(c, h io.out, h io.err)], false)
  | .scope t inc n body, h => lexical io body (enter h (io.refs t) inc n).1
  | .raise, _ => ([], true)
  | .attempt body, h => ((lexical io body h).1, false)

/-- the heap in which the outputs `0` and `1` have the given indentation and every other object 0 -/
def heapOf (a b : Nat) : Heap := fun x => if x = 0 then a else if x = 1 then b else 0

end Clikit.IndentShared
