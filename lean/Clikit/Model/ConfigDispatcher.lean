import Clikit.Model.Dispatcher
/-!
C12 - the dispatcher of an `ApplicationConfig` (src/clikit/api/config/application_config.py):

* `set_event_dispatcher(d)` stores the OBJECT `d` the caller created (and keeps using);
* `add_event_listener(name, listener, priority)` creates a dispatcher only `if self._dispatcher is None`, then
  registers on `self._dispatcher`;
* `config.dispatcher` hands the stored object out.

Objects are modelled by what can be told apart: the dispatcher the caller created (`own`), the one the
configuration creates lazily when it has none (`made`), and which of the two - or nothing - the configuration
refers to (`cfg`).  An operation through the configuration acts on the object it refers to.
-/
namespace Clikit.Dispatcher

inductive Ref where
  | unset | caller | made
  deriving DecidableEq, Repr

structure CSt where
  own : State
  made : State
  cfg : Ref

def CSt.init : CSt := { own := Dispatcher.init, made := Dispatcher.init, cfg := .unset }

inductive COp where
  /-- `config.set_event_dispatcher(d)` with the caller's dispatcher -/
  | set
  /-- `config.add_event_listener(e, l, p)` -/
  | cfgAdd (e : Nat) (l : Listener) (p : Int)
  /-- an operation on the dispatcher object the caller holds -/
  | onOwn (op : Op)
  /-- an operation on `config.dispatcher` -/
  | onCfg (op : Op)
  deriving Repr

/-- zero outputs for `set` (it returns the configuration), one for every other operation -/
def cstep (c : CSt) : COp → Except Err (CSt × List Out)
  | .set => .ok ({ c with cfg := .caller }, [])
  | .cfgAdd e l p =>
    match c.cfg with
    | .unset =>       -- `if self._dispatcher is None: self._dispatcher = EventDispatcher()`
      match addListener Dispatcher.init e l p with
      | .ok s => .ok ({ c with made := s, cfg := .made }, [.unit])
      | .error x => .error x
    | .caller =>
      match addListener c.own e l p with
      | .ok s => .ok ({ c with own := s }, [.unit])
      | .error x => .error x
    | .made =>
      match addListener c.made e l p with
      | .ok s => .ok ({ c with made := s }, [.unit])
      | .error x => .error x
  | .onOwn op =>
    match step c.own op with
    | .ok (s, o) => .ok ({ c with own := s }, [o])
    | .error x => .error x
  | .onCfg op =>
    match c.cfg with
    | .unset => .error (.other "AttributeError")      -- `config.dispatcher` is None
    | .caller =>
      match step c.own op with
      | .ok (s, o) => .ok ({ c with own := s }, [o])
      | .error x => .error x
    | .made =>
      match step c.made op with
      | .ok (s, o) => .ok ({ c with made := s }, [o])
      | .error x => .error x

def crun (c : CSt) : List COp → Except Err (CSt × List Out)
  | [] => .ok (c, [])
  | op :: ops =>
    match cstep c op with
    | .error x => .error x
    | .ok (c1, o) =>
      match crun c1 ops with
      | .error x => .error x
      | .ok (c2, os) => .ok (c2, o ++ os)

/-- the same history as operations on ONE dispatcher -/
def flat : COp → List Op
  | .set => []
  | .cfgAdd e l p => [.add e l p]
  | .onOwn op => [op]
  | .onCfg op => [op]

end Clikit.Dispatcher
