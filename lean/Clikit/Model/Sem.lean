import Clikit.Model.Parser
/-!
The token-free meaning of a command line (C01): a list of items - positional values and options
given with or without a value - applied to the parser state one by one, then the second half of
`parse()`.  `Props/C01.parse_spells` proves that parsing any spelling of the items gives this.
-/
namespace Clikit.Parser

/-- what one spelled item means: a positional value, or an option given with / without a value -/
inductive Sem where
  | pos (v : Str)
  | opt (o : Opt) (v : Option Str)

/-- the effect of one item on the parser state: no tokens, no look-ahead, no push-back -/
def runSem (f : Fmt) (len : Bool) : Sem → St → PR St
  | .pos v, σ => parseArgument f.fargs len v σ
  | .opt o v, σ => storeOpt o o.long v σ

def runSems (f : Fmt) (len : Bool) : List Sem → St → PR St
  | [], σ => .ok σ
  | s :: r, σ =>
    match runSem f len s σ with
    | .error e => .error e
    | .ok σ' => runSems f len r σ'

/-- `parse()` on the meaning of a line: the items applied in order, then re-alignment,
validation, conversion and storing as in `parse()` -/
def parseSem (cv : Conv) (f : Fmt) (len : Bool) (sems : List Sem) : Except Err Args :=
  match afterLoop len (runSems f len sems St.empty) with
  | .error e => .error e
  | .ok σ1 => (finish cv f len σ1).1

end Clikit.Parser
