import Clikit.Model.Switches
import Clikit.Model.Resolver
import Clikit.Model.Run
import Clikit.Model.Help
import Clikit.Model.HelpWired
/-!
# One composed model of `ConsoleApplication.run` for the DEFAULT application configuration

`runApp` composes the small models of the project in the order of the code
(`console_application.py: run / resolve_command`, `config/default_application_config.py:
create_io / resolve_help_command / print_version`, `api/command/command.py: handle / _do_handle`,
`handler/help/help_text_handler.py`):

1. `create_io` reads the RAW option tokens (`Switches.createIO`, C09);
2. the PRE_RESOLVE listener: with a help switch among the option tokens the command
   `application.get_command("help")` is selected and parses the line LENIENTLY
   (`NoSuchCommandException` when there is none); otherwise `DefaultResolver.resolve`
   (`Resolver.resolve`, C03, with the parser of C01/C02);
3. `Command.handle`: the PRE_HANDLE listener (`Switches.versionListener`: the parsed args have the
   option `version` set -> name and version are printed, status 0, the handler is not invoked);
   otherwise the handler of the selected command.  The handler of the top-level command named
   `help` is `HelpTextHandler` (`Help.handlerTarget`, C13: which page), every other command has an
   abstract handler that returns a value or raises (`Run.Outcome`);
4. the result value -> status, `KeyboardInterrupt`, the `except` clauses of `run()`: `Run.run` (C04).

Nothing here changes what the existing models compute: `runApp` only calls them.

Not modelled (parameters or assumptions, as in the small models): the text that is printed (C10/C11
for the gates and the decoration; for help pages see `Model/AppHelp.lean`: `helpRun` is this model
composed with the page model of C13, and `Props/C13.app_help_run_prints_page` proves status 0, no
handler AND the text of the page under `widthOK`); here rendering a help page or the version
line is taken to succeed (C13 `help_total` under `widthOK`); the error report is the parameter
`render` of C04; `create_io` itself does not raise; other listeners than the two default ones.
-/
namespace Clikit.App
open Clikit Clikit.Parser Clikit.Resolver Clikit.Switches Clikit.Help

/-- the environment of a run that is not the command line -/
structure Env where
  debug : Bool                    -- `config.is_debug()`
  render : Run.Exc → Bool         -- does rendering the error report of this exception succeed (C04/C20)

/-- what the handler configured for the command with a given name path does when it is called
with the parsed args: returns a value or raises (C04's abstraction of a handler) -/
abbrev Handlers := List Str → Args → Run.Outcome

/-- is the exception one of the library's own (`CliKitException`: rendered in simple mode)?
(`api/args/exceptions.py`, `api/command/exceptions.py`, `api/resolver/exceptions.py`) -/
def errIsClikit : Err → Bool
  | .cannotParse => true
  | .noSuchOption => true
  | .cannotResolve => true
  | .other t => t == "NoSuchCommandException"
  | _ => false

def errTag : Err → Nat
  | .cannotParse => 1
  | .noSuchOption => 2
  | .noSuchArgument => 3
  | .cannotAddOption => 4
  | .cannotAddArgument => 5
  | .cannotResolve => 6
  | .valueError => 7
  | .runtimeError => 8
  | .outOfFuel => 9
  | .other _ => 10

/-- an exception raised by the modelled library code, as `Run` sees exceptions (none of them is a
`KeyboardInterrupt`) -/
def excOf (e : Err) : Run.Exc := { keyboardInterrupt := false, clikit := errIsClikit e, tag := errTag e }

/-- `ConsoleApplication.resolve_command` with the listeners of the default configuration: the
name path of the selected command and the parsed args.  `get_command("help")` looks the name up
in ALL commands of the application (`_commands`, names then aliases); the command it returns is a
top-level command, so its path is its name. -/
def resolveCommand (cv : Conv) (app : List Cmd) (toks : List Str) : Except Err (List Str × Args) :=
  if helpSwitch toks then
    match (Coll.ofList app).get? helpName with
    | none => .error (.other "NoSuchCommandException")
    | some h =>
      match parse cv h.fmt true toks with
      | .error e => .error e
      | .ok a => .ok ([h.name], a)
  else resolve cv app toks

/-- `event.args.is_option_set("version")`: `"version" in args._options` -/
def versionSet (a : Args) : Bool := dictHas Gen.C09.versionOption a.opts

/-- the command whose handler is `HelpTextHandler`: the top-level command named `help` -/
def isHelpPath (path : List Str) : Bool := path == [helpName]

/-- `HelpTextHandler.handle` returns 0 (`int`) -/
def ret0 : Run.RetVal := { falsy := true, toInt := .ok 0 }

/-- what calling the handler of the selected command does -/
def handlerOutcome (cv : Conv) (app : List Cmd) (hs : Handlers) (toks : List Str) (path : List Str) (a : Args) :
    Run.Outcome :=
  if isHelpPath path then
    match handlerTarget cv app toks a with
    | .ok _ => .ret ret0
    | .error e => .raise (excOf e)
  else hs path a

/-! decidable equality of results (for evaluating the model on concrete applications) -/
deriving instance DecidableEq for Except
deriving instance DecidableEq for Run.RetVal
deriving instance DecidableEq for Run.Outcome

/-- what happened in a run -/
inductive What where
  | helpPage (t : Target)                                      -- `HelpTextHandler` rendered this page
  | version                                                    -- the PRE_HANDLE listener printed name and version
  | ran (path : List Str) (args : Args) (o : Run.Outcome)      -- the handler of `path` was called with `args`
  | error (e : Err)                                            -- resolving / parsing / the help handler raised `e`
  deriving Repr, Inhabited, DecidableEq

structure Result where
  io : IOCfg                           -- the I/O configuration `create_io` selected
  what : What
  status : Option Nat                  -- `none`: an exception escaped `run()` (failing renderer, C04)
  escaped : Option Run.Exc
  reported : Bool                      -- an error report was rendered
  invoked : List (List Str × Args)     -- the abstract handlers that were called, with the args they got
  deriving Repr, Inhabited, DecidableEq

/-- what happened, for a line that selected `(path, a)` -/
def whatOf (cv : Conv) (app : List Cmd) (hs : Handlers) (toks : List Str) (path : List Str) (a : Args) : What :=
  if versionSet a then .version
  else if isHelpPath path then
    match handlerTarget cv app toks a with
    | .ok t => .helpPage t
    | .error e => .error e
  else .ran path a (hs path a)

/-- `io.is_debug()`: the verbosity is DEBUG -/
def ioDebug (io : IOCfg) : Bool := io.verbosity == Gen.IOFlags.DEBUG

/-- **`ConsoleApplication.run`** (exception catching on, default configuration) on the command
tree `app`, the tokens `toks`, handlers `hs`.  The number of calls of the selected command's
handler is the one `Run.run` counts; a call of `HelpTextHandler` is not an entry of `invoked`. -/
def runApp (env : Env) (cv : Conv) (app : List Cmd) (hs : Handlers) (toks : List Str) : Result :=
  let io := createIO toks env.debug
  match resolveCommand cv app toks with
  | .error e =>
    -- the exception leaves `resolve_command`; no command is handled
    let r := Run.run (ioDebug io) (.error (excOf e)) [] (.ret ret0) env.render
    { io := io, what := .error e, status := r.status, escaped := r.escaped, reported := r.reported, invoked := [] }
  | .ok (path, a) =>
    let r := Run.run (ioDebug io) (.ok ()) [versionListener (versionSet a)]
      (handlerOutcome cv app hs toks path a) env.render
    { io := io, what := whatOf cv app hs toks path a, status := r.status, escaped := r.escaped,
      reported := r.reported,
      invoked := if isHelpPath path then [] else List.replicate r.handlerCalls (path, a) }

/-- **the command `get_command("help")` returns is NAMED `help`** (not merely aliased so): then its
handler is `HelpTextHandler`.  True for every application built on `DefaultApplicationConfig`
(top-level names are unique and `help` is registered first); implied by `Help.wiredB`.  The driver
evaluates it on every real tree. -/
def helpNamedB (app : List Cmd) : Bool :=
  match (Coll.ofList app).get? helpName with
  | some h => h.name == helpName
  | none => true

end Clikit.App
