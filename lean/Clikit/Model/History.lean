import Clikit.Base
import Clikit.Gen.C17
/-!
# Hidden state that could make a result depend on what was processed before (C17)

* the leniency setting of a command's config, switched on temporarily by the help resolver
  (`HelpResolver.create_resolved_command`; how it is restored is read from the source);
* the border-style objects behind the predefined table styles (which factory copies the cached
  instance and which fields it assigns is read from the source): a tiny heap with references.
-/
namespace Clikit.History
open Clikit.Gen.C17

/-! ## Leniency protocol of the help resolver -/

/-- `config._lenient_args_parsing` after `HelpResolver.create_resolved_command` ran on a config
whose setting was `cur`; `innerOk = false`: creating the resolved command raised -/
def helpCreate (cur : Option Bool) (innerOk : Bool) : Option Bool :=
  let during : Option Bool := some true                    -- enable_lenient_args_parsing()
  let restored : Option Bool := if helpRestoresPrevious then cur else some false
  if innerOk then (if helpRestoresInFinally || helpRestoresAfterReturn then restored else during)
  else (if helpRestoresInFinally then restored else during)

/-- the hidden state of an application object, as far as runs can influence one another:
the leniency setting per command path -/
abbrev AppState := List (List Str × Option Bool)

def lenientOf (s : AppState) (path : List Str) : Option Bool := (dictGet? path s).getD none

/-- one run.  `helpTarget line` = the command whose config the help resolver touches (when the
line is a help request that reaches it) together with whether creating the resolved command
succeeds; `outcome line leniency` = everything observable of the run (status, output, handler
arguments), which may depend on the leniency settings in force. -/
def runStep {Line Obs : Type} (helpTarget : Line → Option (List Str × Bool))
    (outcome : Line → (List Str → Option Bool) → Obs) (s : AppState) (line : Line) : AppState × Obs :=
  let obs := outcome line (lenientOf s)
  match helpTarget line with
  | none => (s, obs)
  | some (path, innerOk) => (dictSet path (helpCreate (lenientOf s path) innerOk) s, obs)

/-- a sequence of runs on ONE application object -/
def runHistory {Line Obs : Type} (helpTarget : Line → Option (List Str × Bool))
    (outcome : Line → (List Str → Option Bool) → Obs) : AppState → List Line → List Obs
  | _, [] => []
  | s, l :: r =>
    let (s', o) := runStep helpTarget outcome s l
    o :: runHistory helpTarget outcome s' r

/-! ## Border styles behind the predefined table styles -/

/-- a border style object: its character fields -/
abbrev Border := List String

/-- the heap of border-style objects; references are positions.  Positions 0, 1, 2 hold the
cached instances `BorderStyle.none()`, `.ascii()`, `.solid()`. -/
abbrev Heap := List Border

def initialHeap : Heap := [border_none.2, border_ascii.2, border_solid.2]

def setField (b : Border) (i : Nat) (v : String) : Border := b.set i v

/-- assign field `i` of the object at reference `r` -/
def heapSet (h : Heap) (r i : Nat) (v : String) : Heap :=
  match h[r]? with
  | none => h
  | some b => h.set r (setField b i v)

inductive StyleOp where
  | make (k : Nat)                          -- call the k-th predefined factory (`TableStyle.borderless()` …)
  | custom (r i : Nat) (v : String)         -- `style.border_style.<field i> = v` on the style with border ref `r`
  deriving Repr, DecidableEq

/-- a factory call: the reference of the border style of the new table style, and the new heap -/
def makeStyle (spec : String × Nat × Bool × List (Nat × String)) (h : Heap) : Nat × Heap :=
  let base := spec.2.1
  let (r, h1) : Nat × Heap :=
    if spec.2.2.1 then
      match h[base]? with
      | some b => (h.length, h ++ [b])            -- copy.copy(BorderStyle.X())
      | none => (h.length, h ++ [[]])
    else (base, h)                                 -- the cached instance itself
  (r, spec.2.2.2.foldl (fun hh (iv : Nat × String) => heapSet hh r iv.1 iv.2) h1)

def applyOp (specs : List (String × Nat × Bool × List (Nat × String))) (h : Heap) : StyleOp → Heap
  | .make k => match specs[k]? with
    | some s => (makeStyle s h).2
    | none => h
  | .custom r i v => heapSet h r i v

def runOps (specs : List (String × Nat × Bool × List (Nat × String))) (h : Heap) (ops : List StyleOp) : Heap :=
  ops.foldl (applyOp specs) h

/-! ## Deciders / observables for the hypotheses of the style theorems (Props/C17 `styles_wf_decides`)

`style_noninterference` speaks about "the border style at reference `q`".  That the j-th style a
history creates owns a reference of its own (a fresh heap object, not a cached instance and not
the object of an earlier style) is a fact about the real factories; `refsOf` computes these
references in the model, the harness computes them on the real objects by identity (`is`), and the
two lists are compared on every generated case. -/

/-- every predefined factory copies the cached instance it starts from -/
def copiesB (specs : List (String × Nat × Bool × List (Nat × String))) : Bool :=
  specs.all (fun s => s.2.2.1)

/-- the border-style references of the styles a history creates, in creation order -/
def refsOf (specs : List (String × Nat × Bool × List (Nat × String))) : Heap → List StyleOp → List Nat
  | _, [] => []
  | h, op :: rest =>
    match op with
    | .make k =>
      match specs[k]? with
      | some s => (makeStyle s h).1 :: refsOf specs (makeStyle s h).2 rest
      | none => refsOf specs h rest
    | .custom r i v => refsOf specs (heapSet h r i v) rest

/-- number of factory calls of a history that name an existing factory -/
def makesOf (specs : List (String × Nat × Bool × List (Nat × String))) (ops : List StyleOp) : Nat :=
  (ops.filter (fun op => match op with | .make k => decide (k < specs.length) | _ => false)).length

/-- no operation of the history customises the style at reference `q` -/
def untouchedB (q : Nat) (ops : List StyleOp) : Bool :=
  ops.all (fun op => match op with | .custom r _ _ => r != q | _ => true)

end Clikit.History
