import Clikit.Model.Style
/-!
# pastel's tag machine (C11)

Model of `pastel.Pastel.colorize` (`/venv/lib/python3.12/site-packages/pastel/pastel.py`),
the engine behind `AnsiFormatter` / `PlainFormatter`:

* `lex` - `FULL_TAG_REGEX.finditer`: `<tag>`, `</tag>`, `</>` with
  `tag = [a-z][a-z0-9,_=;-]*`, case-insensitive (which in Python's Unicode mode also admits
  U+0130, U+0131, U+017F, U+212A);
* `seg` - how `colorize` cuts the message into the pieces it styles one by one: a tag whose
  preceding character is a backslash is text (for a tag at offset 0 the "preceding" character is
  `message[-1]`, the last one), and the text after the last tag is emitted as all-but-last
  character, then the last character;
* `render` - the style stack run over the pieces, colorized or not;
* `colorize` - the whole function including the final `replace("\\<", "<")`.

*Which style a tag string denotes* (`_create_style_from_string`: a registered name, an inline
`fg=..;bg=..;options=..` specification, not a style, or a `ValueError` for an unknown colour) is
the parameter `Resolver`; the harness fills it by asking pastel itself (DESIGN 3.5).
-/
namespace Clikit.Markup
open Clikit Clikit.Style

inductive Tok where
  | text (s : Str)
  | open (t : Str)
  | close (t : Str)
  | closeAny
  deriving DecidableEq, Repr

/-- result of `_create_style_from_string(tag.lower())` -/
inductive Res where
  | style (p : PastelStyle)
  | unknown            -- `False`: the tag is printed as it stands
  | invalid            -- `set_foreground` / `set_background` raised ValueError
  deriving DecidableEq, Repr

abbrev Resolver := Str → Res

/-- the matched text of a token -/
def Tok.lit : Tok → Str
  | .text s => s
  | .open t => '<' :: (t ++ ['>'])
  | .close t => '<' :: '/' :: (t ++ ['>'])
  | .closeAny => ['<', '/', '>']

def Tok.isTag : Tok → Bool
  | .text _ => false
  | _ => true

/-! ## The regex -/

def extraLetters : List Char :=
  [Char.ofNat 0x130, Char.ofNat 0x131, Char.ofNat 0x17F, Char.ofNat 0x212A]

/-- `[a-z]` under `re.IGNORECASE` -/
def isTagStart (c : Char) : Bool := c.isAlpha || extraLetters.contains c

/-- `[a-z0-9,_=;-]` under `re.IGNORECASE` -/
def isTagChar (c : Char) : Bool :=
  isTagStart c || c.isDigit || c == ',' || c == '_' || c == '=' || c == ';' || c == '-'

/-- `[a-z0-9,_=;-]*>`: the name characters read and how many characters were consumed -/
def tagRest : Str → Option (Str × Nat)
  | [] => none
  | c :: r =>
    if c = '>' then some ([], 1)
    else if isTagChar c then (tagRest r).map (fun p => (c :: p.1, p.2 + 1))
    else none

/-- a tag right after a `<`: the token and the number of characters it takes after the `<` -/
def matchTag : Str → Option (Tok × Nat)
  | [] => none
  | '/' :: '>' :: _ => some (.closeAny, 2)
  | '/' :: c :: r =>
    if isTagStart c then (tagRest r).map (fun p => (.close (c :: p.1), p.2 + 2)) else none
  | c :: r =>
    if isTagStart c then (tagRest r).map (fun p => (.open (c :: p.1), p.2 + 1)) else none

def consText (c : Char) : List Tok → List Tok
  | .text s :: r => .text (c :: s) :: r
  | r => .text [c] :: r

/-- `finditer`: skip `k` characters (the body of the tag just matched), then scan -/
def lexAux : Nat → Str → List Tok
  | _, [] => []
  | k + 1, _ :: r => lexAux k r
  | 0, c :: r =>
    if c = '<' then
      match matchTag r with
      | some (tok, n) => tok :: lexAux n r
      | none => consText c (lexAux 0 r)
    else consText c (lexAux 0 r)

/-- the message as maximal text chunks and tags -/
def lex (s : Str) : List Tok := lexAux 0 s

def hasTag (l : List Tok) : Bool := l.any Tok.isTag

/-! ## The pieces `colorize` styles one by one -/

def lastOr (d : Char) : Str → Char
  | [] => d
  | [c] => c
  | _ :: r => lastOr d r

/-- `prev` is the character before the next token -/
def seg (prev : Char) : List Tok → List Tok
  | [] => []
  | .text s :: r => .text s :: seg (lastOr prev s) r
  | tag :: r =>
    if prev = '\\' then .text tag.lit :: seg '>' r
    else
      match r with
      | [.text s] => [tag, .text s.dropLast, .text (s.drop (s.length - 1))]
      | _ => tag :: seg '>' r

/-! ## The style stack (head = top) -/

abbrev Stack := List PastelStyle

/-- `get_current()` -/
def cur (st : Stack) : PastelStyle := st.head?.getD emptyStyle

/-- `_apply_current_style` -/
def applyCur (col : Bool) (st : Stack) (s : Str) : Str :=
  if col && !s.isEmpty then Style.apply (cur st) s else s

/-- the stack below the topmost style equal to `p` -/
def dropThrough (p : PastelStyle) : Stack → Option Stack
  | [] => none
  | x :: r => if p.eqv x then some r else dropThrough p r

/-- `StyleStack.pop(style)`: nothing happens on an empty stack; a style that is nowhere on a
non-empty stack is "Incorrectly nested" -/
def popStyle (p : PastelStyle) : Stack → Except Err Stack
  | [] => .ok []
  | st =>
    match dropThrough p st with
    | some r => .ok r
    | none => .error .valueError

/-- the loop of `colorize` over the pieces: output and final stack -/
def render (rv : Resolver) (col : Bool) : Stack → List Tok → Except Err (Str × Stack)
  | st, [] => .ok ([], st)
  | st, .text s :: r =>
    match render rv col st r with
    | .ok (o, st') => .ok (applyCur col st s ++ o, st')
    | .error e => .error e
  | st, .open t :: r =>
    match rv t with
    | .invalid => .error .valueError
    | .unknown =>
      match render rv col st r with
      | .ok (o, st') => .ok (applyCur col st (Tok.open t).lit ++ o, st')
      | .error e => .error e
    | .style p => render rv col (p :: st) r
  | st, .close t :: r =>
    match rv t with
    | .invalid => .error .valueError
    | .unknown =>
      match render rv col st r with
      | .ok (o, st') => .ok (applyCur col st (Tok.close t).lit ++ o, st')
      | .error e => .error e
    | .style p =>
      match popStyle p st with
      | .ok st1 => render rv col st1 r
      | .error e => .error e
  | st, .closeAny :: r => render rv col st.tail r

/-- `str.replace("\\<", "<")` -/
def unescape : Str → Str
  | [] => []
  | '\\' :: '<' :: r => '<' :: unescape r
  | c :: r => c :: unescape r

/-- `Pastel.colorize` with `is_colorized() = col`, started on stack `st` -/
def colorize (rv : Resolver) (col : Bool) (st : Stack) (msg : Str) : Except Err (Str × Stack) :=
  let l := lex msg
  if hasTag l then
    match render rv col st (seg (lastOr ' ' msg) l) with
    | .ok (o, st') => .ok (unescape o, st')
    | .error e => .error e
  else .ok (unescape msg, st)

/-- `AnsiFormatter.format(string, style)` (with the repair of D26: a per-call style is applied
to text without any tag, which pastel returns untouched). -/
def ansiFormat (rv : Resolver) (st : Stack) (msg : Str) (style : Option Style) : Except Err (Str × Stack) :=
  match style with
  | none => colorize rv true st msg
  | some s =>
    match convert s with
    | .error e => .error e
    | .ok ps =>
      match colorize rv true (ps :: st) msg with
      | .error e => .error e
      | .ok (o, st') =>
        let top := cur st'
        if hasTag (lex msg) then .ok (o, st'.tail)
        else .ok (if o.isEmpty then o else Style.apply top o, st'.tail)

/-- `AnsiFormatter.remove_format`, `PlainFormatter.format` and `PlainFormatter.remove_format` -/
def plainFormat (rv : Resolver) (st : Stack) (msg : Str) : Except Err (Str × Stack) :=
  colorize rv false st msg

/-! ## Resolving registered names (first branch of `_create_style_from_string`) -/

def asciiLower (s : Str) : Str := s.map Char.toLower

/-- exact for tags without `=` (no inline specification) made of ASCII characters -/
def registryResolver (reg : Registry) : Resolver := fun t =>
  match dictGet? (some (asciiLower t)) reg with
  | some p => .style p
  | none => .unknown

/-- concatenation of what a non-colorized run prints: the texts and the tags that are not styles -/
def texts (rv : Resolver) : List Tok → Str
  | [] => []
  | .text s :: r => s ++ texts rv r
  | .open t :: r => (match rv t with | .unknown => (Tok.open t).lit | _ => []) ++ texts rv r
  | .close t :: r => (match rv t with | .unknown => (Tok.close t).lit | _ => []) ++ texts rv r
  | .closeAny :: r => texts rv r

/-! ## Deciders for the hypotheses of the message theorems (Props/C11)

Evaluated by the driver on every generated message with the resolver pastel itself supplied
(`c11.render` / `c11.write`, answer field `wf`) and compared with `true`. -/

/-- stack parser for "balanced style tags": `stk` holds the styles opened and not yet closed
(head = innermost).  Text and tags that are no styles are skipped; a closing style tag must equal
the innermost open style; `</>` closes the innermost open style; nothing may stay open. -/
def balancedAux (rv : Resolver) : Stack → List Tok → Bool
  | stk, [] => stk.isEmpty
  | stk, .text _ :: r => balancedAux rv stk r
  | stk, .open t :: r =>
    match rv t with
    | .unknown => balancedAux rv stk r
    | .style p => balancedAux rv (p :: stk) r
    | .invalid => false
  | stk, .close t :: r =>
    match rv t with
    | .unknown => balancedAux rv stk r
    | .style p' =>
      match stk with
      | p :: stk' => p'.eqv p && balancedAux rv stk' r
      | [] => false
    | .invalid => false
  | stk, .closeAny :: r =>
    match stk with
    | _ :: stk' => balancedAux rv stk' r
    | [] => false

/-- decides `Balanced rv toks` (Lemmas/C11Balanced: `balancedB_iff`) -/
def balancedB (rv : Resolver) (toks : List Tok) : Bool := balancedAux rv [] toks

/-- the message contains neither an escape byte nor a backslash -/
def cleanB (msg : Str) : Bool := !msg.contains ESC && !msg.contains '\\'

/-- the pieces `colorize` styles one by one -/
def pieces (msg : Str) : List Tok := seg (lastOr ' ' msg) (lex msg)

/-- all three hypotheses of `Props.C11.message_balanced` -/
def messageOkB (rv : Resolver) (msg : Str) : Bool := cleanB msg && balancedB rv (pieces msg)

end Clikit.Markup
