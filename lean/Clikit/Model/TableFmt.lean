import Clikit.Model.Table
import Clikit.Model.Markup
/-!
# C14 - tables whose cells contain style tags, on an I/O whose formatter may change

`Table.render(io, indentation)` measures every cell with the formatter of the I/O it is given
(`get_string_length(cell, formatter)`, `formatter.remove_format`), at the time of THIS rendering:
a tag the formatter knows as a style takes no room, any other tag-shaped word is ordinary text.
Which tags are styles is a property of the formatter's style set, which the owner of the I/O may
change between two renderings (`io.formatter.add_style(...)`, `io.set_formatter(...)`).

The model: the table that is laid out and drawn is the table of the VISIBLE cells under the
resolver of the formatter as it is now (`Markup.plainFormat`, the model of
`AnsiFormatter.remove_format` / `PlainFormatter.format` of C11); nothing of an earlier rendering
enters.  As in `Model/Table.lean` a cell that contains a style is assumed not to need wrapping
(known finding D28 otherwise: `textwrap` is not format-aware).
-/
namespace Clikit.Table
open Clikit.Markup Clikit.Style

/-- index of `x` in `l` -/
def indexOf? (x : Str) : List Str → Option Nat
  | [] => none
  | y :: r => if x == y then some 0 else (indexOf? x r).map (· + 1)

/-- the tags the formatter knows (lowered names of its style set, and the inline specifications that
are styles), as a resolver; different names are different styles -/
def knownResolver (known : List Str) : Resolver := fun t =>
  match indexOf? (asciiLower t) known with
  | some i => .style { fg := some i }
  | none => .unknown

/-- `formatter.remove_format(cell)`: what of the cell takes room on the screen -/
def visibleCell (rv : Resolver) (cell : Str) : Except Err Str :=
  match plainFormat rv [] cell with
  | .ok (o, _) => .ok o
  | .error e => .error e

def visibleRow (rv : Resolver) : List Str → Except Err (List Str)
  | [] => .ok []
  | c :: r =>
    match visibleCell rv c with
    | .error e => .error e
    | .ok v =>
      match visibleRow rv r with
      | .error e => .error e
      | .ok vs => .ok (v :: vs)

def visibleRows (rv : Resolver) : List (List Str) → Except Err (List (List Str))
  | [] => .ok []
  | r :: rs =>
    match visibleRow rv r with
    | .error e => .error e
    | .ok v =>
      match visibleRows rv rs with
      | .error e => .error e
      | .ok vs => .ok (v :: vs)

/-- the table of the visible cells under the formatter's resolver -/
def visibleTable (rv : Resolver) (t : Table) : Except Err Table :=
  match t.header with
  | none =>
    match visibleRows rv t.rows with
    | .error e => .error e
    | .ok rs => .ok { header := none, rows := rs, n := t.n }
  | some h =>
    match visibleRow rv h with
    | .error e => .error e
    | .ok vh =>
      match visibleRows rv t.rows with
      | .error e => .error e
      | .ok rs => .ok { header := some vh, rows := rs, n := t.n }

/-- **`Table.render(io, indent)` on an I/O whose formatter resolves tags by `rv`** (visible text of
the lines).  A function of the table and of the formatter as it is NOW. -/
def renderFmt (share : Nat → Nat → Nat → Nat) (st : Clikit.Gen.C14.TableStyle) (given : List Nat)
    (rv : Resolver) (t : Table) (width indent : Nat) : Except Err (List Str) :=
  match visibleTable rv t with
  | .error e => .error e
  | .ok v => render share st given v width indent

/-- a history of renderings of ONE table on ONE I/O: before each, the owner of the I/O may have changed
the formatter's style set (`rvs` = the resolver at the time of each rendering) -/
def renderHistory (share : Nat → Nat → Nat → Nat) (st : Clikit.Gen.C14.TableStyle) (given : List Nat)
    (t : Table) (width indent : Nat) (rvs : List Resolver) : List (Except Err (List Str)) :=
  rvs.map fun rv => renderFmt share st given rv t width indent

end Clikit.Table
