import Clikit.Model.Parser
/-!
# `Command.parse(args, lenient=None)` (C05)

A command hands the parse to the parser object of its config (`Config.set_args_parser` installs one object that
every parse of the command - and of every other command given the same object - goes through).  The mode is the
explicit one when the caller gives it, and what the config answers (`is_lenient_args_parsing_enabled()`) only when
the parameter is omitted: `Gen.C05.commandMode`, read from the current source of `Command.parse`.
-/
namespace Clikit.Parser

/-- A parse request to a command: the optional explicit mode and what the command's config answers right now. -/
structure CReq where
  cv : Conv
  fmt : Fmt
  explicit : Option Bool
  configured : Bool
  tokens : List Str

/-- `Command.parse(args, explicit)` on a command whose parser object holds `σ` -/
def commandParse (σ : St) (r : CReq) : Except Err Args × St :=
  parseFrom σ r.cv r.fmt (Gen.C05.commandMode r.explicit r.configured) r.tokens

/-- requests through commands sharing ONE parser object, threading its scratch state -/
def commandHistory : St → List CReq → List (Except Err Args)
  | _, [] => []
  | σ, r :: rs =>
    let (res, σ') := commandParse σ r
    res :: commandHistory σ' rs

end Clikit.Parser
