import Clikit.Model.Help
/-!
# Is the command tree wired as `DefaultApplicationConfig` wires it?  (C13, executable)

`Props/C13.help_same_page_default` (`help <path>` and `<path> --help|-h` show the same page) has
hypotheses about the *shape* of the command tree: the command `application.get_command("help")`
returns looks like the `help` command of `config/default_application_config.py`, and every
command of the tree declares the switch as a flag (the global option `--help` / `-h`, inherited
by every args format).  This file decides these hypotheses: the driver (`c13.wired`) evaluates
`wiredB` on every tree read from a real `DefaultApplicationConfig` application,
`Lemmas/HelpSame.lean` proves that `wiredB app sw = true` implies the hypotheses.
-/
namespace Clikit.Help
open Clikit Clikit.Parser Clikit.Resolver

/-- `NO_VALUE`: the option accepts no value, requires none and is not multi-valued -/
def noValueB (o : Opt) : Bool := !o.accepts && !o.valReq && !o.multi

/-- **the format `f` declares the token `sw` as a flag**: `-c` - `get_option("c")` is a no-value
option that `get_option` also returns under its long name; `--long` - `get_option("long")` is a
no-value option whose long name is `long` (not an option found under a short name `long`), and
`long` is not empty and contains no `=`.  The option is the one `ArgsFormat.get_option` returns. -/
def flagOfB (f : Fmt) (sw : Str) : Bool :=
  match sw with
  | ['-', c] =>
    c != '-' &&
      (match f.getOpt? [c] with
       | some o => noValueB o && f.getOpt? o.long == some o
       | none => false)
  | '-' :: '-' :: long =>
    match f.getOpt? long with
    | some o => noValueB o && o.long == long && !long.contains '=' && !long.isEmpty
    | none => false
  | _ => false

/-- the args format of the `help` command: the one command name `help`, the one argument
`command` (optional, multi-valued, string) -/
def helpFmtB (f : Fmt) : Bool :=
  match f.cmds, f.args with
  | [cn], [arg] =>
    cn.name == helpName && arg.name == S "command" && !arg.required && arg.multi && arg.ty == .string
  | _, _ => false

/-- **`h` is the `help` command as `DefaultApplicationConfig.configure` wires it**: named `help`,
not anonymous, no sub-commands, the `help` args format, the switch `sw` declared as a flag -/
def helpCmdB (h : Cmd) (sw : Str) : Bool :=
  h.name == helpName && !h.anonymous && h.subs.isEmpty && helpFmtB h.fmt && flagOfB h.fmt sw

mutual
/-- the command and (recursively) its sub-commands declare `sw` as a flag -/
def cmdFlagsB : Cmd → Str → Bool
  | .mk _ _ _ _ f _ subs, sw => flagOfB f sw && treeFlagsB subs sw
/-- **every command of the tree declares `sw` as a flag** (the commands of the list and,
recursively, their sub-commands) -/
def treeFlagsB : List Cmd → Str → Bool
  | [], _ => true
  | c :: r, sw => cmdFlagsB c sw && treeFlagsB r sw
end

/-- **the hypotheses of `help_same_page_default`, decided**: `get_command("help")` finds a
command, it is wired as the `help` command, and every command of the tree declares the switch
as a flag -/
def wiredB (app : List Cmd) (sw : Str) : Bool :=
  match (Coll.ofList app).get? helpName with
  | some h => helpCmdB h sw && treeFlagsB app sw
  | none => false

/-- the head of the path is not a name the `help` command goes by (no `help help ...`) -/
def headFreeB (app : List Cmd) (path : List Str) : Bool :=
  match (Coll.ofList app).get? helpName, path.head? with
  | some h, some p => h.fmt.cmds.all fun cn => !cn.matches p
  | _, _ => true

end Clikit.Help
