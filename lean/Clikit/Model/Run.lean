import Clikit.Base
import Clikit.Gen.C04
/-!
# Model of one run: `ConsoleApplication.run` / `Command.handle` / `_do_handle` (C04)

What a handler returns or raises is abstracted to what the code looks at: the truthiness of the
result and `int(result)` (or the exception that `int()` raises); for an exception its kind
(`Exception` subclass or `KeyboardInterrupt`) and whether it is one of the library's own
(`CliKitException`: rendered in simple mode).  Rendering the error report is a parameter that
can itself fail (C20 characterises when).
-/
namespace Clikit.Run

/-- an exception object, as far as `run()` distinguishes them -/
structure Exc where
  keyboardInterrupt : Bool     -- `KeyboardInterrupt` (a BaseException, not an Exception)
  clikit : Bool                -- instance of CliKitException: rendered in simple mode
  tag : Nat                    -- identity
  deriving DecidableEq, Repr, Inhabited

/-- a Python value returned by a handler, as far as `Command.handle` looks at it -/
structure RetVal where
  falsy : Bool                     -- `not status_code`
  toInt : Except Exc Int           -- `int(status_code)`
  deriving Repr, Inhabited

inductive Outcome where
  | ret (v : RetVal)
  | raise (e : Exc)
  deriving Repr, Inhabited

/-- what a PRE_HANDLE listener does (in dispatch order) -/
inductive Listener where
  | pass                                   -- returns without touching the event
  | handled (code : RetVal) (stop : Bool)  -- `event.handled(True); event.set_status_code(code)`
  | fail (e : Exc)                         -- raises
  | stopOnly                               -- `event.stop_propagation()` only
  deriving Repr, Inhabited

/-- `Command.handle`, the part after `_do_handle` returned `v` -/
def normalize (v : RetVal) : Except Exc Nat :=
  if v.falsy then .ok 0
  else match v.toInt with
    | .error e => .error e
    | .ok n => .ok (Gen.C04.clampStatus n).toNat

/-- the PRE_HANDLE dispatch: `some code` when a listener handled the event.
Listeners run until one stops propagation; the `handled` flag is read after the dispatch. -/
def dispatchPre : List Listener → Option RetVal → Except Exc (Option RetVal)
  | [], h => .ok h
  | .pass :: r, h => dispatchPre r h
  | .handled c stop :: r, _ => if stop then .ok (some c) else dispatchPre r (some c)
  | .fail e :: _, _ => .error e
  | .stopOnly :: _, h => .ok h

structure Result where
  status : Option Nat        -- `none`: an exception escaped `run()`
  escaped : Option Exc
  reported : Bool            -- an error report was rendered
  handlerCalls : Nat
  deriving Repr, Inhabited

/-- `_do_handle`: result and number of handler invocations -/
def doHandle (listeners : List Listener) (handler : Outcome) : Except Exc RetVal × Nat :=
  match dispatchPre listeners none with
  | .error e => (.error e, 0)
  | .ok (some code) => (.ok code, 0)
  | .ok none =>
    match handler with
    | .ret v => (.ok v, 1)
    | .raise e => (.error e, 1)

/-- `Command.handle`: KeyboardInterrupt becomes status 1 unless the verbosity is debug -/
def handle (debug : Bool) (listeners : List Listener) (handler : Outcome) : Except Exc Nat × Nat :=
  match doHandle listeners handler with
  | (.error e, n) =>
    if e.keyboardInterrupt && !debug then (.ok 1, n) else (.error e, n)
  | (.ok v, n) => (normalize v, n)

/-- the `try` block of `ConsoleApplication.run`: resolve, then `command.handle`.
`resolved = .error e`: resolving the command line raised `e` (C03). -/
def attempt (debug : Bool) (resolved : Except Exc Unit) (listeners : List Listener) (handler : Outcome) :
    Except Exc Nat × Nat :=
  match resolved with
  | .error e => (.error e, 0)
  | .ok () => handle debug listeners handler

/-- the `except` clauses of `ConsoleApplication.run` (exception catching enabled).
`render e` = does rendering the report for `e` succeed. -/
def conclude (render : Exc → Bool) (r : Except Exc Nat) (calls : Nat) : Result :=
  match r with
  | .ok s => { status := some s, escaped := none, reported := false, handlerCalls := calls }
  | .error e =>
    if e.keyboardInterrupt then
      { status := some 1, escaped := none, reported := false, handlerCalls := calls }
    else if render e then
      { status := some 1, escaped := none, reported := true, handlerCalls := calls }   -- exception_to_exit_code
    else
      -- the renderer raised inside the `except` block: that exception escapes `run()`
      { status := none, escaped := some e, reported := false, handlerCalls := calls }

/-- `ConsoleApplication.run` with exception catching enabled -/
def run (debug : Bool) (resolved : Except Exc Unit) (listeners : List Listener) (handler : Outcome)
    (render : Exc → Bool) : Result :=
  conclude render (attempt debug resolved listeners handler).1 (attempt debug resolved listeners handler).2

end Clikit.Run
