import Clikit.Lemmas.ParserInv
import Clikit.Lemmas.Spelling
import Clikit.Lemmas.Realign
/-!
# C01 - parsing a well-formed command line recovers exactly the intended values

This file holds the theorems about *reading* a parse result (defaults for everything not given,
access by long name / short name / position agree) and the per-item step theorems of the token
loop.  The model is `Clikit.Parser` (hand-written, tied to the code by the correspondence runs).
-/
namespace Clikit.Props.C01
open Clikit Clikit.Parser

/-! ## Access by long name, short name and position agree -/

/-- Looking an option up by its short name or by its long name gives the same value, for every
`Args` object - provided the short name identifies that option (C06: names are unique). -/
theorem option_short_eq_long (f : Fmt) (a : Args) (o : Opt) (s : Str)
    (hl : f.getOpt? o.long = some o) (hs : f.getOpt? s = some o) :
    a.option f s = a.option f o.long := by
  simp [Args.option, hl, hs]

/-- Access by position and by name agree (requires unique argument names, as C06 guarantees). -/
theorem argument_index_eq_name (f : Fmt) (a : Args) (i : Nat) (arg : Arg)
    (hnd : (f.args.map (·.name)).Nodup) (hi : f.args[i]? = some arg) :
    a.argumentAt f i = a.argument f arg.name := by
  have hmem : arg ∈ f.args := List.mem_of_getElem? hi
  simp [Args.argumentAt, Args.argument, hi, getArg?_of_mem hnd hmem]

/-! ## Everything not given reports its default -/

/-- An option that was not set reports its default (`False` for a flag). -/
theorem option_default_when_absent (f : Fmt) (a : Args) (name : Str) (o : Opt)
    (ho : f.getOpt? name = some o) (habs : dictGet? o.long a.opts = none) :
    a.option f name = .ok (if o.accepts then o.default else .scalar (.bool false)) := by
  simp [Args.option, ho, habs]

/-- An argument that was not set reports its default. -/
theorem argument_default_when_absent (f : Fmt) (a : Args) (name : Str) (arg : Arg)
    (ha : f.getArg? name = some arg) (habs : dictGet? arg.name a.args = none) :
    a.argument f name = .ok arg.default := by
  simp [Args.argument, ha, habs]

/-- `arguments(include_defaults=False)` lists exactly the arguments that were set, in format order;
with defaults every argument of the format is listed. -/
theorem arguments_listing (f : Fmt) (a : Args) :
    (a.arguments f true).map (·.1) = f.args.map (·.name) ∧
    ∀ p ∈ a.arguments f false, dictGet? p.1 a.args = some p.2 := by
  constructor
  · simp only [Args.arguments, if_true]
    induction f.args with
    | nil => rfl
    | cons x r ih =>
      simp only [List.filterMap_cons, List.map_cons]
      cases hx : dictGet? x.name a.args <;> simp [ih]
  · intro p hp
    simp only [Args.arguments, List.mem_filterMap] at hp
    obtain ⟨x, _, hx⟩ := hp
    cases hd : dictGet? x.name a.args with
    | none => simp [hd] at hx
    | some v => simp [hd] at hx; subst hx; exact hd

/-! ## Every spelling of a line parses to the meaning of its items

`SpellsLine f line sems` (Lemmas/Spelling.lean) relates a token list to the items it spells:
positionals, `--name=value`, `--name value`, `--name`, `--name=`, `-n`, `-nVALUE`, `-n VALUE`,
groups `-abc`, `-abnVALUE`, `-abn VALUE`, in any interleaving, optionally followed by `--` and
arbitrary tokens.  Its side conditions are exactly the library's conventions (a separate value
is non-empty and does not start with `-`; an option written without a value that could take one
is followed by nothing or by a token starting with `-`; a positional before `--` is `""`, `"-"`
or does not start with `-`).  `runSems` is the token-free meaning: each item updates the state
by itself - no look-ahead, no push-back, no splitting. -/

/-- **Parsing a spelled line gives exactly the meaning of its items - in strict and in lenient
mode alike, for every format, every item list and every spelling.** -/
theorem parse_spells (cv : Conv) (f : Fmt) (len : Bool) (line : List Str) (sems : List Sem)
    (h : SpellsLine f line sems) : parse cv f len line = parseSem cv f len sems := by
  have hl := loop_spells f len h St.empty
  unfold loopF at hl
  show (parseFromR true true St.empty cv f len line).1 = _
  unfold parseFromR parseSem
  simp only [if_true]
  have h0 : ({ args := [], opts := [] } : St) = St.empty := rfl
  rw [h0, hl]
  cases afterLoop len (runSems f len sems St.empty) <;> rfl

/-- two spellings of the same items parse to the same result -/
theorem spellings_agree (cv : Conv) (f : Fmt) (len : Bool) (line line' : List Str) (sems : List Sem)
    (h : SpellsLine f line sems) (h' : SpellsLine f line' sems) : parse cv f len line = parse cv f len line' := by
  rw [parse_spells cv f len line sems h, parse_spells cv f len line' sems h']

/-- the meaning of an option item for a single-valued option: the LAST occurrence wins -/
theorem opt_single_last_wins (o : Opt) (v : Str) (σ : St) (hm : o.multi = false) :
    storeOpt o o.long (some v) σ = .ok { σ with opts := dictSet o.long (.one (.str v)) σ.opts } := by
  simp [storeOpt, hm]

/-- the meaning of an option item for a multi-valued option: values accumulate in command-line order -/
theorem opt_multi_in_order (o : Opt) (v : Str) (σ : St) (hm : o.multi = true) :
    (dictGet? o.long σ.opts = none →
      storeOpt o o.long (some v) σ = .ok { σ with opts := dictSet o.long (.many [.str v]) σ.opts }) ∧
    (∀ l, dictGet? o.long σ.opts = some (.many l) →
      storeOpt o o.long (some v) σ = .ok { σ with opts := dictSet o.long (.many (l ++ [.str v])) σ.opts }) := by
  constructor
  · intro h; simp [storeOpt, hm, h]
  · intro l h; simp [storeOpt, hm, h]

/-- a flag, or an optional-value option given without a value: `True`, resp. the option's default -/
theorem opt_without_value (o : Opt) (σ : St) (hr : o.valReq = false) (hm : o.multi = false) :
    storeOpt o o.long none σ =
      .ok { σ with opts := dictSet o.long (if o.valOpt then .dflt o.default else .one (.bool true)) σ.opts } := by
  simp [storeOpt, hr, hm]

/-- the k-th positional goes to the k-th argument; surplus ones to a trailing multi-valued
argument; anything else is "too many arguments" (strict) or ignored (lenient) -/
theorem positional_kth (f : Fmt) (hnd : (f.fargs.map (·.key)).Nodup) (len : Bool) (v : Str) (σ : St)
    (hi : ArgsInv f.fargs σ.args) :
    (∃ σ', parseArgument f.fargs len v σ = .ok σ' ∧ ArgsInv f.fargs σ'.args ∧ σ'.opts = σ.opts) ∨
    (parseArgument f.fargs len v σ = .error (.cannotParse, σ) ∧ len = false) :=
  parseArgument_inv hnd hi

/-- items never touch an option they do not name -/
theorem runSem_other_option (f : Fmt) (len : Bool) (s : Sem) (σ σ' : St) (n : Str)
    (h : runSem f len s σ = .ok σ') (hn : ∀ o v, s = .opt o v → o.long ≠ n) :
    dictGet? n σ'.opts = dictGet? n σ.opts := by
  cases s with
  | pos v =>
    simp only [runSem] at h
    unfold parseArgument at h
    split_all h
    all_goals (first | cases h | skip)
    all_goals (try (unfold appendArg at h; split_all h))
    all_goals (first | cases h | skip)
    all_goals rfl
  | opt o v =>
    have hne : (o.long == n) = false := by
      have := hn o v rfl
      simp [this]
    simp only [runSem] at h
    unfold storeOpt at h
    split_all h
    all_goals (first | cases h | skip)
    all_goals simp [dictGet?_dictSet, hne]

/-! ## Only declared names are ever set, and every stored value went through the conversion -/

/-- Non-vacuity for the accessor theorems: a concrete parse on a format with a short name. -/
def fmtA : Fmt :=
  { cmds := [], args := [{ name := "a".toList, required := false, multi := false, ty := .integer,
                            nullable := false, default := .scalar (.int 7) }],
    opts := [{ long := "num".toList, short := some "n".toList, accepts := true, valReq := true, valOpt := false,
               multi := false, ty := .integer, nullable := false, default := .scalar .none }] }
def cvA : Conv := { intOf := fun s => if s = "12".toList then some 12 else if s = "5".toList then some 5 else none,
                    floatOf := fun _ => none }

example : parse cvA fmtA false ["-n12".toList, "5".toList]
    = .ok { args := [("a".toList, .scalar (.int 5))], opts := [("num".toList, .scalar (.int 12))] } := by rfl
example : ∀ a, parse cvA fmtA false ["-n12".toList, "5".toList] = .ok a →
    a.option fmtA "n".toList = a.option fmtA "num".toList ∧ a.argumentAt fmtA 0 = a.argument fmtA "a".toList := by
  intro a _
  exact ⟨option_short_eq_long fmtA a fmtA.opts.head! "n".toList rfl rfl, argument_index_eq_name fmtA a 0 _ (by decide) rfl⟩


/-! Non-vacuity of `parse_spells`: a grouped flag + value option taking the next token, a
positional in between, `--name=value` and a `--` tail, on a format with a multi-valued argument. -/
def oV : Opt := { long := "verbose".toList, short := some "v".toList, accepts := false, valReq := false, valOpt := false,
                  multi := false, ty := .string, nullable := false, default := .scalar .none }
def oN : Opt := { long := "name".toList, short := some "n".toList, accepts := true, valReq := true, valOpt := false,
                  multi := false, ty := .string, nullable := false, default := .scalar .none }
def fmtS : Fmt :=
  { cmds := [], opts := [oV, oN],
    args := [{ name := "rest".toList, required := false, multi := true, ty := .string, nullable := false,
               default := .list [] }] }

/-- `-vn bob x --name=al -- --y` spells: verbose, name=bob, positional x, name=al, positional --y -/
example : SpellsLine fmtS ["-vn".toList, "bob".toList, "x".toList, "--name=al".toList, "--".toList, "--y".toList]
    [.opt oV none, .opt oN (some "bob".toList), .pos "x".toList, .opt oN (some "al".toList), .pos "--y".toList] := by
  have hV : ShortOK fmtS oV 'v' := ⟨rfl, rfl⟩
  have hN : ShortOK fmtS oN 'n' := ⟨rfl, rfl⟩
  have hNl : LongOK fmtS oN := ⟨rfl, by decide, by decide⟩
  have g : GroupSpells fmtS (some "bob".toList) ["x".toList, "--name=al".toList, "--".toList, "--y".toList]
      ['v', 'n'] [.opt oV none, .opt oN (some "bob".toList)] :=
    .flag hV rfl (.sp hN rfl rfl)
  exact .cons (.short (c := 'v') (by decide) g)
    (.cons (.pos rfl) (.cons (.longEq hNl rfl (by decide)) (.tail (tail := ["--y".toList]))))

example : parse cvA fmtS false ["-vn".toList, "bob".toList, "x".toList, "--name=al".toList, "--".toList, "--y".toList]
    = .ok { args := [("rest".toList, .list [.str "x".toList, .str "--y".toList])],
            opts := [("verbose".toList, .scalar (.bool true)), ("name".toList, .scalar (.str "al".toList))] } := by rfl

/-! ## Positionals fill the arguments in order; omitted command names are re-inserted

`fill vals fa` (Lemmas/Realign.lean) is the specification "the k-th value goes to the k-th
argument, a trailing multi-valued argument takes all that is left"; `insertNames cmds vals` puts
the command names that were not typed back behind the typed ones.  `MultiLast f.fargs` (a
multi-valued argument is the last one) and distinct argument names are what C06 guarantees for
every format that can be built. -/

/-- **The positionals of a line fill the arguments in order.**  Whatever the items are and however
they are interleaved with options: when the token loop succeeds, the argument dictionary is exactly
`fill` of the positional values in command-line order (option items never touch it). -/
theorem positionals_in_order (f : Fmt) (hml : MultiLast f.fargs) (hnd : (f.fargs.map (·.key)).Nodup)
    (len : Bool) (sems : List Sem) (σ : St) (h : runSems f len sems St.empty = .ok σ) :
    σ.args = fill (posVals sems) f.fargs := by
  have := runSems_fill f hml hnd len sems [] [] σ (by simpa [St.empty, fill_nil_left] using h)
  simpa using this

/-- **Omitted command names are re-inserted.**  For a spelled line whose positionals fit the
format: `parse` is the second half of `parse()` run on `fill` of the positionals, and its first
step `_insert_missing_command_names` yields `fill` of the positionals WITH the omitted command
names put back (`insertNames`) - whenever those fit, and always in lenient mode; otherwise
(strict mode) it is the cannot-parse error "too many arguments". -/
theorem command_names_realigned (cv : Conv) (f : Fmt) (hml : MultiLast f.fargs)
    (hnd : (f.fargs.map (·.key)).Nodup) (len : Bool) (line : List Str) (sems : List Sem) (σ : St)
    (hsp : SpellsLine f line sems) (hrun : runSems f len sems St.empty = .ok σ)
    (hfit : fits (posVals sems).length f.fargs = true) :
    parse cv f len line = (finish cv f len { args := fill (posVals sems) f.fargs, opts := σ.opts }).1 ∧
    insertMissing f len { args := fill (posVals sems) f.fargs, opts := σ.opts } =
      (if fits (insertNames f.cmds (posVals sems)).length f.fargs || len then
        .ok { args := fill (insertNames f.cmds (posVals sems)) f.fargs, opts := σ.opts }
      else .error .cannotParse) := by
  have hargs := positionals_in_order f hml hnd len sems σ hrun
  have hσ : σ = { args := fill (posVals sems) f.fargs, opts := σ.opts } := by
    cases σ
    simp only at hargs
    subst hargs
    rfl
  refine ⟨?_, insertMissing_fill f hml hnd len _ _ hfit⟩
  rw [parse_spells cv f len line sems hsp]
  unfold parseSem
  rw [hrun]
  simp only [afterLoop]
  rw [← hσ]

/-- **The real arguments follow the typed command names.**  After the re-alignment every
command-name slot is taken (by the typed name or by the inserted one) and the real arguments of the
format are filled, in order, with the values behind the command names that were typed. -/
theorem real_arguments_follow_typed_names (f : Fmt) (vals : List V) :
    fill (insertNames f.cmds vals) f.fargs =
      fill ((insertNames f.cmds vals).take f.cmds.length) (pseudoArgs f.cmds.length) ++
      fill (vals.drop (matched f.cmds vals))
        (f.args.map fun a => { key := .real a.name, required := a.required, multi := a.multi }) :=
  (fill_insertNames f.cmds _ vals).1

/-- **The hypotheses are checked on the real formats.**  The driver evaluates `multiLastB` and
`nodupKeysB` on every flattened format read from the real builder (entry `c01.wf`, compared with
`true` by the correspondence); they decide exactly the two hypotheses of the theorems above. -/
theorem wf_decides (f : Fmt) :
    (multiLastB f.fargs = true ∧ nodupKeysB f.fargs = true) ↔
      (MultiLast f.fargs ∧ (f.fargs.map (·.key)).Nodup) := by
  rw [multiLastB_iff, nodupKeysB_iff]

/-- all command names typed (by name or alias): the re-alignment moves nothing -/
theorem all_names_typed_nothing_moves (cmds : List CmdName) (typed : List Str) (rest : List V)
    (hl : typed.length = cmds.length)
    (hm : ∀ i (h : i < typed.length) (h' : i < cmds.length), typed[i] ≠ [] ∧ cmds[i].matches typed[i] = true) :
    insertNames cmds (typed.map V.tok ++ rest) = typed.map V.tok ++ rest :=
  insertNames_all_given cmds typed rest hl hm

/-- only the first `typed.length` command names typed, and the next value is not the next name:
the omitted names are inserted right behind the typed ones, everything else follows -/
theorem omitted_names_inserted_behind_typed (cmds : List CmdName) (typed : List Str) (rest : List V)
    (hl : typed.length ≤ cmds.length)
    (hm : ∀ i (h : i < typed.length) (h' : i < cmds.length), typed[i] ≠ [] ∧ cmds[i].matches typed[i] = true)
    (hr : ∀ s r c, rest = .tok s :: r → cmds[typed.length]? = some c → (s != [] && c.matches s) = false) :
    insertNames cmds (typed.map V.tok ++ rest) =
      typed.map V.tok ++ (cmds.drop typed.length).map V.cmd ++ rest :=
  insertNames_prefix_given cmds typed rest hl hm hr

/-! Non-vacuity of the re-alignment: a format with the two command names `server` (alias `srv`)
and `add`, a single-valued and a multi-valued argument; the line types only the first name. -/
def cSrv : CmdName := { name := "server".toList, aliases := ["srv".toList] }
def cAdd : CmdName := { name := "add".toList, aliases := [] }
def fmtR : Fmt :=
  { cmds := [cSrv, cAdd], opts := [],
    args := [{ name := "host".toList, required := true, multi := false, ty := .string, nullable := false,
               default := .scalar .none },
             { name := "files".toList, required := false, multi := true, ty := .string, nullable := false,
               default := .list [] }] }

example : MultiLast fmtR.fargs ∧ (fmtR.fargs.map (·.key)).Nodup := by
  refine ⟨⟨rfl, rfl, rfl, trivial⟩, by decide⟩

/-- `srv h x y` : `add` is put back behind `srv`, `h` moves from the `add` slot to `host` -/
example : insertNames fmtR.cmds [.tok "srv".toList, .tok "h".toList, .tok "x".toList, .tok "y".toList] =
    [.tok "srv".toList, .cmd cAdd, .tok "h".toList, .tok "x".toList, .tok "y".toList] := by decide

example : insertMissing fmtR false
      { args := fill [.tok "srv".toList, .tok "h".toList, .tok "x".toList, .tok "y".toList] fmtR.fargs, opts := [] } =
    .ok { args := [(.pseudo 0, .one (.tok "srv".toList)), (.pseudo 1, .one (.cmd cAdd)),
                   (.real "host".toList, .one (.tok "h".toList)),
                   (.real "files".toList, .many [.tok "x".toList, .tok "y".toList])], opts := [] } := by rfl

def lineR : List Str := ["srv".toList, "h".toList, "x".toList, "y".toList]
def semsR : List Sem := [.pos "srv".toList, .pos "h".toList, .pos "x".toList, .pos "y".toList]

theorem lineR_spells : SpellsLine fmtR lineR semsR :=
  .cons (.pos rfl) (.cons (.pos rfl) (.cons (.pos rfl) (.cons (.pos rfl) .nil)))

/-- the hypotheses of `command_names_realigned` hold for this line, and its conclusion is the
concrete re-aligned state -/
example : insertMissing fmtR false { args := fill (posVals semsR) fmtR.fargs, opts := [] } =
    .ok { args := fill [.tok "srv".toList, .cmd cAdd, .tok "h".toList, .tok "x".toList, .tok "y".toList] fmtR.fargs,
          opts := [] } :=
  (command_names_realigned cvA fmtR ⟨rfl, rfl, rfl, trivial⟩ (by decide) false lineR semsR
    { args := fill (posVals semsR) fmtR.fargs, opts := [] } lineR_spells rfl (by decide)).2

example : parse cvA fmtR false lineR =
    .ok { args := [("host".toList, .scalar (.str "h".toList)),
                   ("files".toList, .list [.str "x".toList, .str "y".toList])], opts := [] } := by rfl

end Clikit.Props.C01
