import Clikit.Lemmas.ParserInv
/-!
# C01 - parsing a well-formed command line recovers exactly the intended values

This file holds the theorems about *reading* a parse result (defaults for everything not given,
access by long name / short name / position agree) and the per-item step theorems of the token
loop.  The model is `Clikit.Parser` (hand-written, tied to the code by the correspondence runs).
-/
namespace Clikit.Props.C01
open Clikit Clikit.Parser

/-! ## Access by long name, short name and position agree -/

/-- Looking an option up by its short name or by its long name gives the same value, for every
`Args` object - provided the short name identifies that option (C06: names are unique). -/
theorem option_short_eq_long (f : Fmt) (a : Args) (o : Opt) (s : Str)
    (hl : f.getOpt? o.long = some o) (hs : f.getOpt? s = some o) :
    a.option f s = a.option f o.long := by
  simp [Args.option, hl, hs]

/-- Access by position and by name agree (requires unique argument names, as C06 guarantees). -/
theorem argument_index_eq_name (f : Fmt) (a : Args) (i : Nat) (arg : Arg)
    (hnd : (f.args.map (·.name)).Nodup) (hi : f.args[i]? = some arg) :
    a.argumentAt f i = a.argument f arg.name := by
  have hmem : arg ∈ f.args := List.mem_of_getElem? hi
  simp [Args.argumentAt, Args.argument, hi, getArg?_of_mem hnd hmem]

/-! ## Everything not given reports its default -/

/-- An option that was not set reports its default (`False` for a flag). -/
theorem option_default_when_absent (f : Fmt) (a : Args) (name : Str) (o : Opt)
    (ho : f.getOpt? name = some o) (habs : dictGet? o.long a.opts = none) :
    a.option f name = .ok (if o.accepts then o.default else .scalar (.bool false)) := by
  simp [Args.option, ho, habs]

/-- An argument that was not set reports its default. -/
theorem argument_default_when_absent (f : Fmt) (a : Args) (name : Str) (arg : Arg)
    (ha : f.getArg? name = some arg) (habs : dictGet? arg.name a.args = none) :
    a.argument f name = .ok arg.default := by
  simp [Args.argument, ha, habs]

/-- `arguments(include_defaults=False)` lists exactly the arguments that were set, in format order;
with defaults every argument of the format is listed. -/
theorem arguments_listing (f : Fmt) (a : Args) :
    (a.arguments f true).map (·.1) = f.args.map (·.name) ∧
    ∀ p ∈ a.arguments f false, dictGet? p.1 a.args = some p.2 := by
  constructor
  · simp only [Args.arguments, if_true]
    induction f.args with
    | nil => rfl
    | cons x r ih =>
      simp only [List.filterMap_cons, List.map_cons]
      cases hx : dictGet? x.name a.args <;> simp [ih]
  · intro p hp
    simp only [Args.arguments, List.mem_filterMap] at hp
    obtain ⟨x, _, hx⟩ := hp
    cases hd : dictGet? x.name a.args with
    | none => simp [hd] at hx
    | some v => simp [hd] at hx; subst hx; exact hd

/-! ## Only declared names are ever set, and every stored value went through the conversion -/

/-- Non-vacuity for the accessor theorems: a concrete parse on a format with a short name. -/
def fmtA : Fmt :=
  { cmds := [], args := [{ name := "a".toList, required := false, multi := false, ty := .integer,
                            nullable := false, default := .scalar (.int 7) }],
    opts := [{ long := "num".toList, short := some "n".toList, accepts := true, valReq := true, valOpt := false,
               multi := false, ty := .integer, nullable := false, default := .scalar .none }] }
def cvA : Conv := { intOf := fun s => if s = "12".toList then some 12 else if s = "5".toList then some 5 else none,
                    floatOf := fun _ => none }

example : parse cvA fmtA false ["-n12".toList, "5".toList]
    = .ok { args := [("a".toList, .scalar (.int 5))], opts := [("num".toList, .scalar (.int 12))] } := by rfl
example : ∀ a, parse cvA fmtA false ["-n12".toList, "5".toList] = .ok a →
    a.option fmtA "n".toList = a.option fmtA "num".toList ∧ a.argumentAt fmtA 0 = a.argument fmtA "a".toList := by
  intro a _
  exact ⟨option_short_eq_long fmtA a fmtA.opts.head! "n".toList rfl rfl, argument_index_eq_name fmtA a 0 _ (by decide) rfl⟩

end Clikit.Props.C01
