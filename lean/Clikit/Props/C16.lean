import Clikit.Lemmas.Progress
import Clikit.Lemmas.ProgressClean
import Clikit.Lemmas.ProgressSetters
import Clikit.Lemmas.ProgressScreen
import Clikit.Lemmas.ProgressMulti
/-!
# C16 - a progress bar always shows a truthful, well-formed frame and ends at 100 %

All theorems are about `Clikit.Progress.run`: the list of events (call, clock reading, state
before, stream writes, frame drawn, exception, state after) of an ARBITRARY history of public
calls with ARBITRARY clock readings, on an arbitrary configuration (`Config`: kind of output,
quiet, verbosity, widths, characters, redraw frequency, intervals in 1/64 s ticks, format).
`init m t0` is the state the constructor leaves behind.
-/
namespace Clikit.Props.C16
open Clikit Clikit.Progress

/-- **Step bounds.**  In every reachable state and in every frame drawn: when there is a
maximum the current step does not exceed it (steps are naturals: a negative argument of
`set_progress` / `advance` is clamped to 0, an argument beyond the maximum raises the maximum). -/
theorem step_bounds (c : Config) (m : Int) (t0 : Nat) (ops : List (Op × Nat)) :
    ∀ e ∈ run c (init m t0) ops,
      (e.res.st.max ≠ 0 → e.res.st.step ≤ e.res.st.max) ∧
      (∀ f, e.res.frame = some f → f.max ≠ 0 → f.current ≤ f.max) := by
  intro e he
  have hb := (run_invariant c Bounded (fun s op t h => step_bounded c s op t h) _ ops
    (init_bounded m t0) e he).2
  refine ⟨hb, ?_⟩
  intro f hf
  have hev := run_event c _ ops e he
  rw [hev] at hf hb
  have hok := step_frameOK c e.pre e.op e.t f hf
  rw [hok.1, hok.2.1]
  exact hb

/-- what `set_progress k` makes of its argument -/
theorem set_progress_clamps (c : Config) (s : State) (t : Nat) (k : Int) :
    (step c s (.setProgress k) t).st.step = k.toNat ∧
    (step c s (.setProgress k) t).st.max = (if s.max ≠ 0 ∧ k > (s.max : Int) then k.toNat else s.max) :=
  setProgress_step_max c s t k

/-- **Bar width.**  Whenever the three bar characters are single characters (and the configured
width is below `2^52`, so that it is a binary64 number), the bar segment of every frame drawn in
any history is exactly as wide as configured (`placeholder_bar`: this is the text the `%bar%`
placeholder is replaced by).  The offset `floor(self._percent * bar_width)` is computed in
correctly rounded binary64 arithmetic (`roundQ`); that it cannot exceed the width is proved
(`offset_le_width`), not assumed. -/
theorem bar_width (c : Config) (hc : SingleChars c) (hw : c.barWidth < 2 ^ 52) (m : Int) (t0 : Nat)
    (ops : List (Op × Nat)) :
    ∀ e ∈ run c (init m t0) ops, ∀ f b, e.res.frame = some f → f.bar = some b →
      b.length = c.barWidth := by
  intro e he f b hf hb
  have hp := (run_invariant c PctInv (fun s op t h => step_pct c s op t h) _ ops (init_pct m t0) e he).1
  rw [run_event c _ ops e he] at hf
  obtain ⟨s', hp', hs'⟩ := step_frameOf c e.pre e.op e.t f hp hf
  rw [hs'] at hb
  exact frameOf_bar_length c s' f.text b hc hp' hw hb

/-- **Exact percentage.**  Every frame shows the step and the maximum of the state the call
leaves behind, its percentage is `⌊100·step/max⌋`, and it is 100 exactly when step = max. -/
theorem percent_exact (c : Config) (m : Int) (t0 : Nat) (ops : List (Op × Nat)) :
    ∀ e ∈ run c (init m t0) ops, ∀ f, e.res.frame = some f →
      f.current = e.res.st.step ∧ f.max = e.res.st.max ∧
      f.percent = (if f.max = 0 then 0 else f.current * 100 / f.max) ∧
      (f.max ≠ 0 → (f.percent = 100 ↔ f.current = f.max)) := by
  intro e he f hf
  have hle := (step_bounds c m t0 ops e he).2 f hf
  rw [run_event c _ ops e he] at hf ⊢
  have hok := step_frameOK c e.pre e.op e.t f hf
  refine ⟨hok.1, hok.2.1, hok.2.2, ?_⟩
  intro hm
  rw [hok.2.2, if_neg hm]
  exact percent_full_iff f.current f.max hm (hle hm)

/-- **Throttling, as the code decides.**  A frame drawn by `advance` / `set_progress` at a step
other than the maximum is drawn only if at least the minimum interval has passed since the last
write AND (the redraw period changed OR the maximum interval has passed). -/
theorem throttle (c : Config) (s0 : State) (ops : List (Op × Nat)) :
    ∀ e ∈ run c s0 ops, isAdvance e.op = true → ∀ f, e.res.frame = some f →
      e.res.st.step ≠ e.res.st.max →
      (e.t : Int) - (e.pre.lastWriteTime : Int) ≥ (c.minInterval : Int) ∧
      (period c e.res.st.max e.pre.step ≠ period c e.res.st.max e.res.st.step ∨
        (e.t : Int) - (e.pre.lastWriteTime : Int) ≥ (c.maxInterval : Int)) := by
  intro e he ha f hf hne
  rw [run_event c s0 ops e he] at hf hne ⊢
  exact step_throttle c e.pre e.op e.t f ha hf hne

/-- **Throttling, the reading of "no closer together than the minimum interval" that the code
satisfies.**  In any history on an output that is not quiet: if call `e1` wrote something, the
calls between wrote nothing, and `e2` is an `advance` / `set_progress` that redraws at a step
other than the maximum, then `e2` comes at least the minimum interval after `e1`.  (Redraws AT the
maximum and the explicit `start`, `display`, `clear`, `finish` are exempt: they always write.) -/
theorem throttle_spacing (c : Config) (hq : c.quiet = false) (s0 : State) (ops : List (Op × Nat))
    (evs1 : List Event) (e1 : Event) (evs2 : List Event) (e2 : Event) (evs3 : List Event)
    (h : run c s0 ops = evs1 ++ e1 :: (evs2 ++ e2 :: evs3))
    (hw : e1.res.writes ≠ []) (hsilent : ∀ e ∈ evs2, e.res.writes = [])
    (ha : isAdvance e2.op = true) (f : Frame) (hf : e2.res.frame = some f)
    (hne : e2.res.st.step ≠ e2.res.st.max) :
    (e2.t : Int) - (e1.t : Int) ≥ (c.minInterval : Int) := by
  have hlw := run_last_write c hq evs1 s0 ops e1 evs2 e2 evs3 h hw hsilent
  have hmem : e2 ∈ run c s0 ops := by rw [h]; simp
  have := (throttle c s0 ops e2 hmem ha f hf hne).1
  rw [hlw] at this
  exact this

/-- **Reaching the maximum always draws**, whatever the clock says: an `advance` /
`set_progress` on an output that is not quiet that leaves step = max draws a frame (or the
format raises - `%estimated%` / `%remaining%` without a maximum, a malformed width). -/
theorem max_always_draws (c : Config) (hq : c.quiet = false) (s0 : State) (ops : List (Op × Nat)) :
    ∀ e ∈ run c s0 ops, isAdvance e.op = true → e.res.st.step = e.res.st.max →
      e.res.frame.isSome ∨ e.res.err.isSome := by
  intro e he ha hmax
  rw [run_event c s0 ops e he] at hmax ⊢
  exact step_at_max c e.pre e.op e.t hq ha hmax

/-- **After finish: the full statement, for all outputs** (needs the repairs D18 and D18b; the
guard of `finish()` is read from the source on every run, `cmp_true`).  For every history
without exception on an output that is not quiet that ends with `finish()`: step = max, a last
frame exists, it shows current = max and the maximum itself, at 100 % when the maximum is not 0;
on an overwriting output (ANSI, section) it is `finish()` itself that draws it. -/
theorem finish_final (c : Config) (m : Int) (t0 : Nat) (ops : List (Op × Nat)) (t : Nat)
    (hq : c.quiet = false)
    (herr : ∀ e ∈ run c (init m t0) (ops ++ [(Op.finish, t)]), e.res.err = none) :
    (runState c (init m t0) (ops ++ [(Op.finish, t)])).step =
      (runState c (init m t0) (ops ++ [(Op.finish, t)])).max ∧
    ∃ f, lastFrame none (run c (init m t0) (ops ++ [(Op.finish, t)])) = some f ∧
      f.current = (runState c (init m t0) (ops ++ [(Op.finish, t)])).max ∧
      f.max = (runState c (init m t0) (ops ++ [(Op.finish, t)])).max ∧
      (f.max ≠ 0 → f.percent = 100) ∧
      (c.overwrite = true →
        ∃ e, (run c (init m t0) (ops ++ [(Op.finish, t)])).getLast? = some e ∧ e.res.frame = some f) := by
  rw [run_append] at herr ⊢
  have herr1 : ∀ e ∈ run c (init m t0) ops, e.res.err = none := fun e he => herr e (by simp [he])
  have herr2 : (finish c (runState c (init m t0) ops) t).err = none := by
    have := herr ⟨.finish, t, runState c (init m t0) ops, step c (runState c (init m t0) ops) .finish t⟩
      (by simp [run])
    simpa [step] using this
  have hJ : c.overwrite = false → Shown (runState c (init m t0) ops) (lastFrame none (run c (init m t0) ops)) :=
    fun how => run_shown c hq how ops (init m t0) none herr1 (by intro d dm hd _; simp [init] at hd)
  obtain ⟨h1, f, hf1, hf2, hf3, hf4, hf5⟩ := finish_last c _ t _ hq herr2 hJ
  have hrs : runState c (init m t0) (ops ++ [(Op.finish, t)]) =
      (finish c (runState c (init m t0) ops) t).st := by
    rw [runState_append]; rfl
  rw [hrs, lastFrame_append]
  refine ⟨h1, f, by simpa [run, lastFrame, step] using hf1, hf2, hf3, ?_, ?_⟩
  · intro hm
    rw [hf4, if_neg hm, hf2, ← hf3]
    exact percent_at_max f.max hm
  · intro how
    exact ⟨⟨.finish, t, runState c (init m t0) ops, step c (runState c (init m t0) ops) .finish t⟩,
      by simp [run], hf5 how⟩

/-- **Quiet.**  A quiet output receives nothing, whatever is called. -/
theorem quiet_nothing (c : Config) (hq : c.quiet = true) (s0 : State) (ops : List (Op × Nat)) :
    ∀ e ∈ run c s0 ops, e.res.writes = [] := by
  intro e he
  rw [run_event c s0 ops e he]
  exact step_quiet c e.pre e.op e.t hq

/-- **ANSI line (hypotheses on the events).**  On an ANSI output with single-line frames (the
format in use has no line break and the frame texts contain neither line breaks nor carriage
returns), interpreting all writes of a history on a one-line terminal (`screen`): after every call
that draws a frame the line is EXACTLY that frame followed by blanks only (padding up to the
longest text written before) - no residue of longer earlier frames; after `clear()` it is blank;
and the line is always as long as `_last_messages_length` says. -/
theorem ansi_line_latest_events (c : Config) (hk : c.kind = .ansi) (hq : c.quiet = false) (m : Int) (t0 : Nat)
    (ops : List (Op × Nat))
    (hsingle : ∀ e ∈ run c (init m t0) ops,
      e.res.st.formatLineCount = 0 ∧ ∀ f, e.res.frame = some f → Clean f.text)
    (evs1 : List Event) (e : Event) (evs2 : List Event)
    (h : run c (init m t0) ops = evs1 ++ e :: evs2) :
    (screen ⟨[], []⟩ (evs1 ++ [e])).text.length = e.res.st.lastLen ∧
    (∀ f, e.res.frame = some f →
      ∃ k, (screen ⟨[], []⟩ (evs1 ++ [e])).text = f.text ++ spaces k) ∧
    (e.res.frame = none → e.res.writes ≠ [] →
      ∃ k, (screen ⟨[], []⟩ (evs1 ++ [e])).text = spaces k) := by
  have := run_ansi_line c hk hq evs1 (init m t0) ops ⟨[], []⟩ e evs2 (by simp [Line.text, init]) (by simp [init]) hsingle h
  refine ⟨this.1, ?_, ?_⟩
  · intro f hf; exact ⟨_, by rw [this.2.1 f hf]; rfl⟩
  · intro hn hw; exact ⟨_, this.2.2 hn hw⟩

/-- **ANSI line.**  The same from hypotheses on the INPUTS only: if the text given to `set_format`
(any text or format name, or none: the default formats of every verbosity qualify), the three bar
characters and every message contain neither a line break nor a carriage return, then after every
call that draws a frame the terminal line is exactly that frame followed by blanks only, after
`clear()` it is blank, and its length is `_last_messages_length`. -/
theorem ansi_line_latest (c : Config) (hk : c.kind = .ansi) (hq : c.quiet = false) (hc : CleanCfg c)
    (m : Int) (t0 : Nat) (ops : List (Op × Nat)) (hops : ∀ x ∈ ops, CleanOp x.1)
    (evs1 : List Event) (e : Event) (evs2 : List Event)
    (h : run c (init m t0) ops = evs1 ++ e :: evs2) :
    (screen ⟨[], []⟩ (evs1 ++ [e])).text.length = e.res.st.lastLen ∧
    (∀ f, e.res.frame = some f →
      ∃ k, (screen ⟨[], []⟩ (evs1 ++ [e])).text = f.text ++ spaces k) ∧
    (e.res.frame = none → e.res.writes ≠ [] →
      ∃ k, (screen ⟨[], []⟩ (evs1 ++ [e])).text = spaces k) :=
  ansi_line_latest_events c hk hq m t0 ops
    (run_clean c hc ops (init m t0) (init_formatInv m t0) hops) evs1 e evs2 h

/-- **Plain output.**  On an output without overwriting, everything a history writes is the
frames it draws (each padded with blanks), separated by exactly one line break - every frame
stands on its own line - and the only characters written besides those of the frames are these
line breaks (no carriage return, no escape sequence is added). -/
theorem plain_own_line (c : Config) (how : c.overwrite = false) (hq : c.quiet = false) (m : Int) (t0 : Nat)
    (ops : List (Op × Nat)) :
    outOf (run c (init m t0) ops) = joinNL ((run c (init m t0) ops).filterMap plainLine) ∧
    ∀ ch ∈ outOf (run c (init m t0) ops),
      ch = '\n' ∨ ∃ l ∈ (run c (init m t0) ops).filterMap plainLine, ch ∈ l := by
  have h := run_plain c how hq ops (init m t0)
  simp only [init, if_true] at h
  refine ⟨h, ?_⟩
  intro ch hch
  rw [show outOf (run c (init m t0) ops) = _ from h] at hch
  exact mem_joinNL _ ch hch


/-- **Plain output, single-line inputs.**  With inputs free of line breaks and carriage returns
(as in `ansi_line_latest`) every frame occupies exactly one line of the stream - it is the frame
text followed by blanks - and no carriage return is ever written. -/
theorem plain_single_lines (c : Config) (how : c.overwrite = false) (hq : c.quiet = false)
    (hc : CleanCfg c) (m : Int) (t0 : Nat) (ops : List (Op × Nat)) (hops : ∀ x ∈ ops, CleanOp x.1) :
    (∀ e ∈ run c (init m t0) ops, ∀ f, e.res.frame = some f →
      plainLine e = some (ljust e.pre.lastLen f.text) ∧ Clean (ljust e.pre.lastLen f.text)) ∧
    ∀ ch ∈ outOf (run c (init m t0) ops), ch ≠ '\r' := by
  have hclean := run_clean c hc ops (init m t0) (init_formatInv m t0) hops
  have h1 : ∀ e ∈ run c (init m t0) ops, ∀ f, e.res.frame = some f →
      plainLine e = some (ljust e.pre.lastLen f.text) ∧ Clean (ljust e.pre.lastLen f.text) := by
    intro e he f hf
    have hcl := (hclean e he).2 f hf
    refine ⟨?_, clean_ljust _ _ hcl⟩
    simp [plainLine, hf, paddedText, splitNL_clean f.text (fun ch hch => (hcl ch hch).1), joinNL]
  refine ⟨h1, ?_⟩
  intro ch hch
  rcases (plain_own_line c how hq m t0 ops).2 ch hch with h | ⟨l, hl, hcl⟩
  · rw [h]; decide
  · simp only [List.mem_filterMap] at hl
    obtain ⟨e, he, hpl⟩ := hl
    cases hfr : e.res.frame with
    | none => simp [plainLine, hfr] at hpl
    | some f =>
      have := h1 e he f hfr
      rw [this.1] at hpl
      cases hpl
      exact (this.2 ch hcl).2

/-! ## the hypotheses are decided by the model on every real case

`SingleChars c`, `c.barWidth < 2^52`, `CleanCfg c`, `CleanOp` and "no call raised" are conditions on
the configuration of the REAL bar (after its setters ran) and on the texts passed to it.  They are
executable (`singleCharsB`, `barWidthOkB`, `cleanCfgB`, `cleanOpsB`, `noErrB` in Model/Progress.lean);
the driver answers them for the configuration it builds for every generated case (`hyp` of entry
`c16.run`), the harness evaluates the same conditions on the real `ProgressBar` object and the two
are compared: the theorems below apply to a real case exactly when the real object says so. -/

/-- what the driver's `hyp` answers mean -/
theorem hyps_decide (c : Config) (ops : List (Op × Nat)) (evs : List Event) :
    (singleCharsB c = true ↔ SingleChars c) ∧ (barWidthOkB c = true ↔ c.barWidth < 2 ^ 52) ∧
    (cleanCfgB c = true ↔ CleanCfg c) ∧ (cleanOpsB ops = true ↔ ∀ x ∈ ops, CleanOp x.1) ∧
    (noErrB evs = true ↔ ∀ e ∈ evs, e.res.err = none) :=
  ⟨singleCharsB_iff c, barWidthOkB_iff c, cleanCfgB_iff c, cleanOpsB_iff ops, noErrB_iff evs⟩

/-- `bar_width` from the deciders -/
theorem bar_width_dec (c : Config) (hc : singleCharsB c = true) (hw : barWidthOkB c = true) (m : Int)
    (t0 : Nat) (ops : List (Op × Nat)) :
    ∀ e ∈ run c (init m t0) ops, ∀ f b, e.res.frame = some f → f.bar = some b →
      b.length = c.barWidth :=
  bar_width c ((singleCharsB_iff c).mp hc) ((barWidthOkB_iff c).mp hw) m t0 ops

/-- `finish_final` from the decider (evaluated on the events of the history itself) -/
theorem finish_final_dec (c : Config) (m : Int) (t0 : Nat) (ops : List (Op × Nat)) (t : Nat)
    (hq : c.quiet = false)
    (herr : noErrB (run c (init m t0) (ops ++ [(Op.finish, t)])) = true) :
    (runState c (init m t0) (ops ++ [(Op.finish, t)])).step =
      (runState c (init m t0) (ops ++ [(Op.finish, t)])).max ∧
    ∃ f, lastFrame none (run c (init m t0) (ops ++ [(Op.finish, t)])) = some f ∧
      f.current = (runState c (init m t0) (ops ++ [(Op.finish, t)])).max ∧
      f.max = (runState c (init m t0) (ops ++ [(Op.finish, t)])).max ∧
      (f.max ≠ 0 → f.percent = 100) ∧
      (c.overwrite = true →
        ∃ e, (run c (init m t0) (ops ++ [(Op.finish, t)])).getLast? = some e ∧ e.res.frame = some f) :=
  finish_final c m t0 ops t hq ((noErrB_iff _).mp herr)

/-- `ansi_line_latest` from the deciders -/
theorem ansi_line_latest_dec (c : Config) (hk : c.kind = .ansi) (hq : c.quiet = false)
    (hc : cleanCfgB c = true) (m : Int) (t0 : Nat) (ops : List (Op × Nat)) (hops : cleanOpsB ops = true)
    (evs1 : List Event) (e : Event) (evs2 : List Event)
    (h : run c (init m t0) ops = evs1 ++ e :: evs2) :
    (screen ⟨[], []⟩ (evs1 ++ [e])).text.length = e.res.st.lastLen ∧
    (∀ f, e.res.frame = some f →
      ∃ k, (screen ⟨[], []⟩ (evs1 ++ [e])).text = f.text ++ spaces k) ∧
    (e.res.frame = none → e.res.writes ≠ [] →
      ∃ k, (screen ⟨[], []⟩ (evs1 ++ [e])).text = spaces k) :=
  ansi_line_latest c hk hq ((cleanCfgB_iff c).mp hc) m t0 ops ((cleanOpsB_iff ops).mp hops) evs1 e evs2 h

/-- `plain_single_lines` from the deciders -/
theorem plain_single_lines_dec (c : Config) (how : c.overwrite = false) (hq : c.quiet = false)
    (hc : cleanCfgB c = true) (m : Int) (t0 : Nat) (ops : List (Op × Nat)) (hops : cleanOpsB ops = true) :
    (∀ e ∈ run c (init m t0) ops, ∀ f, e.res.frame = some f →
      plainLine e = some (ljust e.pre.lastLen f.text) ∧ Clean (ljust e.pre.lastLen f.text)) ∧
    ∀ ch ∈ outOf (run c (init m t0) ops), ch ≠ '\r' :=
  plain_single_lines c how hq ((cleanCfgB_iff c).mp hc) m t0 ops ((cleanOpsB_iff ops).mp hops)

/-- **The defaults of the source qualify.**  A bar whose three characters were never set (the class
attributes `bar_char`, `empty_bar_char`, `progress_char` of the current source, regenerated into
`Gen.C16` on every run) has single characters, and it is single-line as soon as the text given to
`set_format` (if any) is - whatever the other settings are. -/
theorem default_chars_ok (kind : Kind) (quiet : Bool) (verbosity termWidth minTicks : Nat)
    (maxTicks redraw barWidth : Option Nat) (format : Option Str) :
    singleCharsB (mkConfig kind quiet verbosity termWidth minTicks maxTicks redraw barWidth
      none none none format) = true ∧
    cleanCfgB (mkConfig kind quiet verbosity termWidth minTicks maxTicks redraw barWidth
      none none none format) = (match format with | some f => cleanB f | none => true) := by
  constructor
  · simp [singleCharsB, mkConfig, Gen.C16.defaultBarChar, Gen.C16.defaultEmptyBarChar,
      Gen.C16.defaultProgressChar]
  · cases format <;>
      simp [cleanCfgB, cleanB, mkConfig, Gen.C16.defaultBarChar, Gen.C16.defaultEmptyBarChar,
        Gen.C16.defaultProgressChar]

/-- **The state the harness starts from.**  The correspondence calls `set_message(msg)` before the
first operation and the driver starts the model from `init` with that message stored; this is the
history with the call `set_message(msg)` put in front (an event without writes), so every theorem
about `run c (init m t0) ops` covers those runs, with `CleanOp` demanded of that message too. -/
theorem run_with_message (c : Config) (m : Int) (t0 : Nat) (msg : Str) (ops : List (Op × Nat)) :
    ∃ e0, e0.res.writes = [] ∧ e0.res.frame = none ∧ e0.res.err = none ∧
      run c (init m t0) ((.setMessage msg, t0) :: ops) =
        e0 :: run c { init m t0 with messages := dictSet messageKey msg (init m t0).messages } ops :=
  ⟨_, rfl, rfl, rfl, rfl⟩

/-! ## The defect D18b (repaired) as a proved counterexample against the old `finish`, and non-vacuity -/

/-- plain output, no maximum, format `%current%/%max% %percent%%` -/
private def cPlainW : Config :=
  mkConfig .plain false 0 120 0 none none none none none none
    (some ['%','c','u','r','r','e','n','t','%','/','%','m','a','x','%',' ','%','p','e','r','c','e','n','t','%','%'])

private def opsW : List (Op × Nat) := [(.start none, 64000), (.advance 3, 64128)]

/-- D18b, before its repair (`finishOld`: the guard of `finish()` without
`self._displayed_max == self._max`): after `start(); advance(3)` on a plain output without a
maximum, `finish()` set the maximum to 3 but drew nothing, so the last frame `   3/0 0%` showed
maximum 0 at 0 %.  With the guard of the current source (`finish`) the frame `   3/3 100%` is drawn. -/
theorem Counter.c16_d18b_old :
    (finishOld cPlainW (runState cPlainW (init 0 64000) opsW) 64128).frame = none ∧
    (finishOld cPlainW (runState cPlainW (init 0 64000) opsW) 64128).st.max = 3 ∧
    (lastFrame none (run cPlainW (init 0 64000) opsW)).map (fun f => (f.current, f.max, f.percent))
      = some (3, 0, 0) ∧
    (finish cPlainW (runState cPlainW (init 0 64000) opsW) 64128).frame.map
      (fun f => (f.current, f.max, f.percent)) = some (3, 3, 100) := by
  decide

/-- the repaired history as the stream shows it: three lines, the last one `   3/3 100%` -/
example : outOf (run cPlainW (init 0 64000) (opsW ++ [(Op.finish, 64128)])) =
    [' ',' ',' ','0','/','0',' ','0','%','\n',' ',' ',' ','3','/','0',' ','0','%','\n',
     ' ',' ',' ','3','/','3',' ','1','0','0','%'] := by decide

/-- ANSI output, maximum 3, bar width 10, minimum interval 1/8 s -/
private def cAnsi : Config := mkConfig .ansi false 0 120 8 none none (some 10) none none none none

private def ops1 : List (Op × Nat) :=
  [(.start none, 64000), (.advance 1, 64001), (.advance 1, 64020), (.finish, 64021)]

/-- Non-vacuity: `start` draws 0 %, an `advance` 1/64 s later is throttled (no frame), the next one
19 ticks later is drawn (66 %), `finish` draws 3/3 at 100 % although only 1/64 s has passed. -/
example : (run cAnsi (init 3 64000) ops1).map
      (fun e => e.res.frame.map (fun f => (f.current, f.max, f.percent, f.bar.map List.length))) =
    [some (0, 3, 0, some 10), none, some (2, 3, 66, some 10), some (3, 3, 100, some 10)] := by decide

/-- ... and the exact writes: CR + frame each time -/
example : (run cAnsi (init 3 64000) ops1).map (fun e => e.res.writes) =
    [[['\r'], [' ','0','/','3',' ','[','>','-','-','-','-','-','-','-','-','-',']',' ',' ',' ','0','%']],
     [],
     [['\r'], [' ','2','/','3',' ','[','=','=','=','=','=','=','>','-','-','-',']',' ',' ','6','6','%']],
     [['\r'], [' ','3','/','3',' ','[','=','=','=','=','=','=','=','=','=','=',']',' ','1','0','0','%']]] := by
  decide

/-- the hypotheses of `ansi_line_latest` are satisfiable: this history is single-line and clean -/
example : ∀ e ∈ run cAnsi (init 3 64000) ops1,
    e.res.st.formatLineCount = 0 ∧ ∀ f, e.res.frame = some f → ∀ ch ∈ f.text, ch ≠ '\n' ∧ ch ≠ '\r' := by
  decide

/-- ... and so are the input-level hypotheses: the default configuration is clean -/
example : CleanCfg cAnsi ∧ ∀ x ∈ ops1, CleanOp x.1 := by
  have hcfg : CleanCfg cAnsi := by
    unfold CleanCfg
    refine ⟨?_, ?_, ?_, ?_⟩
    · intro f h
      have : cAnsi.internalFormat = none := by decide
      rw [this] at h; cases h
    · unfold Clean; decide
    · unfold Clean; decide
    · intro b h
      have : cAnsi.barChar = none := by decide
      rw [this] at h; cases h
  refine ⟨hcfg, ?_⟩
  intro x hx
  simp [ops1] at hx
  rcases hx with h | h | h | h <;> rw [h] <;> trivial

/-- the same history on a quiet output: nothing is written, the state still advances -/
example : (run { cAnsi with quiet := true } (init 3 64000) ops1).map (fun e => (e.res.writes, e.res.st.step)) =
    [([], 0), ([], 1), ([], 2), ([], 3)] := by decide

/-- a shrinking frame on the ANSI line leaves no residue: message "a long one", then "x" -/
example :
    let c := mkConfig .ansi false 0 120 0 none none none none none none
      (some ['%','m','e','s','s','a','g','e','%',' ','%','c','u','r','r','e','n','t','%'])
    let evs := run c (init 0 64000)
      [(.setMessage ['a',' ','l','o','n','g',' ','o','n','e'], 64000), (.start none, 64000),
       (.setMessage ['x'], 64000), (.advance 1, 64000)]
    (screen ⟨[], []⟩ evs).text = ['x',' ',' ',' ',' ','1',' ',' ',' ',' ',' ',' ',' ',' ',' '] := by
  decide

/-! ### every theorem with hypotheses, applied to the demo history (all hypotheses discharged) -/

/-- the deciders on the demo configuration and history -/
example : singleCharsB cAnsi = true ∧ barWidthOkB cAnsi = true ∧ cleanCfgB cAnsi = true ∧
    cleanOpsB ops1 = true ∧ noErrB (run cAnsi (init 3 64000) ops1) = true := by decide

/-- ... and they are not constantly true -/
example : singleCharsB { cAnsi with progressChar := ['=', '>'] } = false ∧
    cleanCfgB { cAnsi with internalFormat := some ['%','m','a','x','%','\n','%','b','a','r','%'] } = false ∧
    cleanOpsB [(.setMessage ['a', '\r'], 0)] = false ∧
    noErrB (run cPlainW (init 0 64000) [(.start none, 64000)]) = true ∧
    noErrB (run (mkConfig .plain false 0 120 0 none none none none none none
      (some ['%','r','e','m','a','i','n','i','n','g','%'])) (init 0 64000) [(.start none, 64000)]) = false := by
  decide

example := bar_width_dec cAnsi (by decide) (by decide) 3 64000 ops1
example := bar_width cAnsi ((singleCharsB_iff _).mp (by decide)) (by decide) 3 64000 ops1

/-- `finish_final`: `ops1` ends with `finish()` and nothing raises -/
example := finish_final_dec cAnsi 3 64000
  [(.start none, 64000), (.advance 1, 64001), (.advance 1, 64020)] 64021 (by decide) (by decide)

/-- `throttle_spacing` / `throttle` / `max_always_draws`: in `ops1` the call `start` writes, the first
`advance` is silent, the second one redraws at step 2 of 3, 20 ticks after the write (minimum 8) -/
example : ∃ e1 e2 e3 e4, run cAnsi (init 3 64000) ops1 = [] ++ e1 :: ([e2] ++ e3 :: [e4]) ∧
    e1.res.writes ≠ [] ∧ (∀ e ∈ [e2], e.res.writes = []) ∧ isAdvance e3.op = true ∧
    e3.res.frame.isSome = true ∧ e3.res.st.step ≠ e3.res.st.max ∧ isAdvance e4.op = false := by
  refine ⟨_, _, _, _, rfl, ?_, ?_, ?_, ?_, ?_, ?_⟩ <;> decide

example := quiet_nothing { cAnsi with quiet := true } rfl (init 3 64000) ops1

/-- `ansi_line_latest(_events)`, `plain_single_lines`, `plain_own_line` -/
example := ansi_line_latest_dec cAnsi (by decide) (by decide) (by decide) 3 64000 ops1 (by decide)
  [] _ _ rfl
example := plain_single_lines_dec cPlainW (by decide) (by decide) (by decide) 0 64000 opsW (by decide)
example := plain_own_line cPlainW (by decide) (by decide) 0 64000 opsW

/-! ## Setters called in the middle of a run

`runC` (Model/Progress.lean): histories in which the public configuration setters
(`min_seconds_between_redraws`, `max_seconds_between_redraws`, `set_redraw_frequency`,
`set_bar_width`, the three character setters, `set_format`) are called between the operations
of a RUNNING bar.  Every event carries the configuration in force when the call was made
(`e.cfg`); the statements above hold with that configuration - in particular the throttle is
judged against the interval configured at the time of each advance, not at the time of the
previous frame. -/

/-- **Throttling under the interval in force.**  A frame drawn by `advance` / `set_progress` at
a step other than the maximum is drawn only if at least the minimum interval CONFIGURED AT THAT
CALL has passed since the last write AND (the redraw period changed OR the maximum interval
configured at that call has passed). -/
theorem throttle_current_config (c : Config) (s0 : State) (calls : List (Call × Nat)) :
    ∀ e ∈ runC c s0 calls, ∀ o, e.call = .op o → isAdvance o = true → ∀ f, e.res.frame = some f →
      e.res.st.step ≠ e.res.st.max →
      (e.t : Int) - (e.pre.lastWriteTime : Int) ≥ (e.cfg.minInterval : Int) ∧
      (period e.cfg e.res.st.max e.pre.step ≠ period e.cfg e.res.st.max e.res.st.step ∨
        (e.t : Int) - (e.pre.lastWriteTime : Int) ≥ (e.cfg.maxInterval : Int)) := by
  intro e he o ho ha f hf hne
  rw [runC_event c s0 calls e he, ho] at hf hne ⊢
  exact step_throttle e.cfg e.pre o e.t f ha hf hne

/-- **Spacing under the interval in force.**  In any history with setters on an output that is not
quiet: if call `e1` wrote something, the calls between (operations or setters) wrote nothing, and
`e2` is an `advance` / `set_progress` that redraws at a step other than the maximum, then `e2`
comes at least the minimum interval configured at the time of `e2` after `e1` - whatever the
interval was when `e1` drew its frame. -/
theorem throttle_spacing_current_config (c : Config) (hq : c.quiet = false) (s0 : State)
    (calls : List (Call × Nat)) (evs1 : List CEvent) (e1 : CEvent) (evs2 : List CEvent) (e2 : CEvent)
    (evs3 : List CEvent) (h : runC c s0 calls = evs1 ++ e1 :: (evs2 ++ e2 :: evs3))
    (hw : e1.res.writes ≠ []) (hsilent : ∀ e ∈ evs2, e.res.writes = [])
    (o : Op) (ho : e2.call = .op o) (ha : isAdvance o = true) (f : Frame) (hf : e2.res.frame = some f)
    (hne : e2.res.st.step ≠ e2.res.st.max) :
    (e2.t : Int) - (e1.t : Int) ≥ (e2.cfg.minInterval : Int) := by
  have hlw := runC_last_write evs1 c s0 calls e1 evs2 e2 evs3 hq h hw hsilent
  have hmem : e2 ∈ runC c s0 calls := by rw [h]; simp
  have := (throttle_current_config c s0 calls e2 hmem o ho ha f hf hne).1
  rw [hlw] at this
  exact this

/-- the interval in force after `min_seconds_between_redraws(x)` with `x > 0` is `x` -/
theorem min_interval_setter (c : Config) (ticks : Nat) (h : ticks > 0) :
    (c.set (.minInterval ticks)).minInterval = ticks := by
  simp [Config.set, h]

/-- **Reaching the maximum always draws**, also between setters. -/
theorem max_always_draws_current_config (c : Config) (hq : c.quiet = false) (s0 : State)
    (calls : List (Call × Nat)) :
    ∀ e ∈ runC c s0 calls, ∀ o, e.call = .op o → isAdvance o = true → e.res.st.step = e.res.st.max →
      e.res.frame.isSome ∨ e.res.err.isSome := by
  intro e he o ho ha hmax
  have hq' : e.cfg.quiet = false := by rw [runC_quiet c s0 calls e he, hq]
  rw [runC_event c s0 calls e he, ho] at hmax ⊢
  exact step_at_max e.cfg e.pre o e.t hq' ha hmax

/-- **Quiet.**  A quiet output receives nothing; no setter can change that. -/
theorem quiet_nothing_current_config (c : Config) (hq : c.quiet = true) (s0 : State)
    (calls : List (Call × Nat)) : ∀ e ∈ runC c s0 calls, e.res.writes = [] := by
  intro e he
  have hq' : e.cfg.quiet = true := by rw [runC_quiet c s0 calls e he, hq]
  rw [runC_event c s0 calls e he]
  cases hc : e.call with
  | op o => exact step_quiet e.cfg e.pre o e.t hq'
  | set x => rfl

/-- **Step bounds and exact percentage** in histories with setters. -/
theorem frames_truthful_current_config (c : Config) (m : Int) (t0 : Nat) (calls : List (Call × Nat)) :
    ∀ e ∈ runC c (init m t0) calls,
      (e.res.st.max ≠ 0 → e.res.st.step ≤ e.res.st.max) ∧
      ∀ f, e.res.frame = some f →
        f.current = e.res.st.step ∧ f.max = e.res.st.max ∧
        f.percent = (if f.max = 0 then 0 else f.current * 100 / f.max) ∧
        (f.max ≠ 0 → f.current ≤ f.max ∧ (f.percent = 100 ↔ f.current = f.max)) := by
  intro e he
  have hb := (runC_invariant Bounded (fun c s op t h => step_bounded c s op t h)
    (fun s x h => by unfold Bounded at *; rw [(afterSetter_fields s x).1, (afterSetter_fields s x).2.1]; exact h)
    c _ calls (init_bounded m t0) e he).2
  refine ⟨hb, ?_⟩
  intro f hf
  rw [runC_event c _ calls e he] at hf hb ⊢
  cases hc : e.call with
  | set x => rw [hc] at hf; simp [stepC] at hf
  | op o =>
    rw [hc] at hf hb
    have hok := step_frameOK e.cfg e.pre o e.t f hf
    refine ⟨hok.1, hok.2.1, hok.2.2, ?_⟩
    intro hm
    have hle : f.current ≤ f.max := by
      rw [hok.1, hok.2.1]
      exact hb (by show (step e.cfg e.pre o e.t).st.max ≠ 0; rw [← hok.2.1]; exact hm)
    refine ⟨hle, ?_⟩
    rw [hok.2.2, if_neg hm]
    exact percent_full_iff f.current f.max hm hle

/-- **Bar width as configured at the time of the frame**: whenever the three bar characters in
force at a call are single characters, the bar segment of the frame drawn by that call is exactly as
wide as the width in force at that call. -/
theorem bar_width_current_config (c : Config) (m : Int) (t0 : Nat) (calls : List (Call × Nat)) :
    ∀ e ∈ runC c (init m t0) calls, SingleChars e.cfg → e.cfg.barWidth < 2 ^ 52 →
      ∀ f b, e.res.frame = some f → f.bar = some b → b.length = e.cfg.barWidth := by
  intro e he hc hw f b hf hb
  have hp := (runC_invariant PctInv (fun c s op t h => step_pct c s op t h)
    (fun s x h => by unfold PctInv at *; rw [(afterSetter_fields s x).2.2.1]; exact h)
    c _ calls (init_pct m t0) e he).1
  rw [runC_event c _ calls e he] at hf
  cases hcall : e.call with
  | set x => rw [hcall] at hf; simp [stepC] at hf
  | op o =>
    rw [hcall] at hf
    obtain ⟨s', hp', hs'⟩ := step_frameOf e.cfg e.pre o e.t f hp hf
    rw [hs'] at hb
    exact frameOf_bar_length e.cfg s' f.text b hc hp' hw hb

/-- **Setters are silent** and leave step, maximum and the time of the last write alone. -/
theorem setter_silent (c : Config) (s : State) (x : Setter) (t : Nat) :
    (stepC c s (.set x) t).2.writes = [] ∧ (stepC c s (.set x) t).2.st.step = s.step ∧
    (stepC c s (.set x) t).2.st.max = s.max ∧
    (stepC c s (.set x) t).2.st.lastWriteTime = s.lastWriteTime :=
  ⟨rfl, (afterSetter_fields s x).1, (afterSetter_fields s x).2.1, (afterSetter_fields s x).2.2.2⟩

/-- A history without setters is a history of the fixed-configuration model: all theorems about
`run` are theorems about such `runC` histories. -/
theorem run_is_runC (c : Config) (s : State) (ops : List (Op × Nat)) :
    runC c s (ops.map (fun x => (Call.op x.1, x.2))) = (run c s ops).map (Event.lift c) :=
  runC_ops c s ops

/-- ... and the deciders the driver evaluates on a history with setters (`cleanCallsB`, `noErrCB`)
are, on a history without setters, the deciders of `hyps_decide`. -/
theorem deciders_without_setters (c : Config) (s : State) (ops : List (Op × Nat)) :
    cleanCallsB (ops.map (fun x => (Call.op x.1, x.2))) = cleanOpsB ops ∧
    noErrCB (runC c s (ops.map (fun x => (Call.op x.1, x.2)))) = noErrB (run c s ops) := by
  refine ⟨?_, ?_⟩
  · simp [cleanCallsB, cleanOpsB, List.all_map, Function.comp_def, cleanCallB]
  · rw [runC_ops]
    simp [noErrCB, noErrB, List.all_map, Function.comp_def, Event.lift]

/-! ### The bar hypotheses on the configuration in force at every call

`hyps_decide` speaks about the configuration a run STARTS with.  In a history with `set_bar_width` and the
character setters in the middle, `bar_width_current_config` needs `SingleChars` and the width bound for the
configuration in force at the call that draws; `barHypB` (Model/Progress.lean) decides them per event, the driver
answers it for every call (`bar_hyp` of each event of `c16.run`) and the harness compares it with the same
conditions read off the REAL bar just before that call. -/

/-- what the per-event answer `bar_hyp` of the driver means -/
theorem bar_hyp_decides (e : CEvent) :
    barHypB e = true ↔ (SingleChars e.cfg ∧ e.cfg.barWidth < 2 ^ 52) := by
  simp only [barHypB, Bool.and_eq_true, singleCharsB_iff, barWidthOkB_iff]

/-- `bar_width_current_config` from the decider -/
theorem bar_width_current_config_dec (c : Config) (m : Int) (t0 : Nat) (calls : List (Call × Nat)) :
    ∀ e ∈ runC c (init m t0) calls, barHypB e = true →
      ∀ f b, e.res.frame = some f → f.bar = some b → b.length = e.cfg.barWidth := by
  intro e he h
  obtain ⟨hc, hw⟩ := (bar_hyp_decides e).mp h
  exact bar_width_current_config c m t0 calls e he hc hw

/-- Non-vacuity (the shape of the round-8 seeded change): maximum 50, interval 1/8 s; a frame at
t = 64000, then `min_seconds_between_redraws(2 s)`; the advance to step 5 half a second later
crosses a step period but is throttled by the NEW interval; the one 2 s later draws. -/
example :
    ((runC (mkConfig .ansi false 0 120 8 none none (some 10) none none none none) (init 50 64000)
      [(.op (.start none), 64000), (.set (.minInterval 128), 64001), (.op (.advance 5), 64032),
       (.op (.advance 5), 64128)]).map (fun e => e.res.frame.isSome)) = [true, false, false, true] := by
  decide +kernel

/-! ## `set_format` with another number of lines while a frame stands (D39, repaired)

The bar remembers the line count of what it wrote last (`displayedLineCount`); `_overwrite` moves
back over THAT many lines and erases below the cursor when the format in use now has another line
count.  `Scr` (Model/Progress.lean) is a terminal with rows that interprets what an ANSI output
receives from `_overwrite` (`ansiWrites`: CR, cursor up, erase below, the lines). -/

theorem overwrite_is_repaired : Gen.C16.overwriteMovesByDisplayedLineCount = true := rfl

theorem splitNL_ne_nil : ∀ s : Str, splitNL s ≠ []
  | [] => by simp [splitNL]
  | c :: r => by
    unfold splitNL
    split
    · simp
    · split <;> simp

/-- every `_overwrite` (a frame, or the blank lines of `clear()`) records the line count it was
written with -/
theorem displayed_line_count_recorded (c : Config) (s : State) (t : Nat) (msg : Str) :
    (overwrite c s t msg).1.displayedLineCount = some s.formatLineCount :=
  overwrite_displayedLineCount _ c s t msg

/-- **ANSI output: no residue when the format changes its number of lines.**  Let the bar have
written something with `n` line breaks (`displayedLineCount = some n`), so that `n` rows of it
stand above the cursor row, below whatever the application printed before (`rest`); let the format
in use now have another line count.  Then the next `_overwrite` sends CR, cursor up `n`, erase below
and the new lines, and on the terminal exactly the lines of the new frame stand under `rest` -
nothing of the old frame, nothing above the bar touched. -/
theorem set_format_no_residue (c : Config) (hk : c.kind = .ansi) (hq : c.quiet = false) (s : State)
    (t : Nat) (msg : Str) (n : Nat) (hd : s.displayedLineCount = some n) (hne : n ≠ s.formatLineCount)
    (frameAbove rest : List Str) (cur : Str) (col : Nat) (below : List Str) (hn : frameAbove.length = n) :
    (overwrite c s t msg).2 = ansiWrites n true ((splitNL msg).map (ljust s.lastLen)) ∧
    (Scr.redraw ⟨frameAbove ++ rest, cur, col, below⟩ n true ((splitNL msg).map (ljust s.lastLen))).rows =
      rest.reverse ++ (splitNL msg).map (ljust s.lastLen) ∧
    (Scr.redraw ⟨frameAbove ++ rest, cur, col, below⟩ n true ((splitNL msg).map (ljust s.lastLen))).below = [] := by
  refine ⟨?_, ?_⟩
  · unfold overwrite
    rw [overwrite_is_repaired, overwrite_ansi_writes c s t msg hk hq, hd]
    simp [hne]
  · cases hs : splitNL msg with
    | nil => exact absurd hs (splitNL_ne_nil msg)
    | cons l ls => exact Scr.redraw_erased n frameAbove rest cur col below hn _ _

/-- **Section output**: the number of content lines the redraw clears goes by the line count of the
frame standing in the section, not by the format in use now. -/
theorem set_format_section_clears_standing_frame (c : Config) (hk : c.kind = .section) (s : State)
    (t : Nat) (msg : Str) (n : Nat) (hd : s.displayedLineCount = some n) :
    (overwrite c s t msg).2 =
      (secClear c s (((splitNL msg).map (ljust s.lastLen)).length / c.termWidth + n + 1)).2 ++
      (secWrite c (secClear c s (((splitNL msg).map (ljust s.lastLen)).length / c.termWidth + n + 1)).1
        (joinNL ((splitNL msg).map (ljust s.lastLen)))).2 := by
  unfold overwrite
  rw [overwrite_is_repaired, overwrite_section_clears c s t msg hk, hd]
  rfl

/-- the rule before the repair, on the reproduction of D39: a two-line frame (`0/3`, `[>----]`) stands,
the format in use now has one line; moving by the NEW line count (0) without erasing leaves the
first line of the old frame on the terminal ... -/
example : (Scr.redraw ⟨["0/3".toList], "[>----]".toList, 7, []⟩ 0 false ["1/3 done".toList]).rows
    = ["0/3".toList, "1/3 done".toList] := by decide

/-- ... moving by the line count of the frame standing there and erasing does not -/
example : (Scr.redraw ⟨["0/3".toList], "[>----]".toList, 7, []⟩ 1 true ["1/3 done".toList]).rows
    = ["1/3 done".toList] := by decide

/-- the other direction before the repair: a one-line frame stands under a line of the application;
moving up by the new format's line count (1) overwrites that line (`app output` is gone) -/
example : (Scr.redraw ⟨["app output".toList], "0/3 one line".toList, 12, []⟩ 1 false
      ["1/3         ".toList, "second line ".toList]).rows = ["1/3         ".toList, "second line ".toList] := by
  decide

example : (Scr.redraw ⟨["app output".toList], "0/3 one line".toList, 12, []⟩ 0 true
      ["1/3         ".toList, "second line ".toList]).rows =
      ["app output".toList, "1/3         ".toList, "second line ".toList] := by
  decide

/-- the whole model on the reproduction (maximum 3, bar width 5, a two-line format, `start`, then
`set_format` to a one-line format, `advance`): the redraw moves up one line and erases -/
example :
    ((runC (mkConfig .ansi false 0 120 0 none none (some 5) none none none (some "%current%/%max%\n[%bar%]".toList))
      (init 3 64000)
      [(.op (.start none), 64000), (.set (.format "%current%/%max% done".toList), 64000),
       (.op (.advance 1), 64016)]).map (fun e => e.res.writes)) =
      [[['\r'], cursorUp 1, "0/3\n[>----]".toList], [],
       [['\r'], cursorUp 1, eraseDown, "1/3 done".toList]] := by
  decide +kernel

/-- ... and with the rule before the repair (`overwriteWith false`) the same redraw neither moves up nor erases -/
example : (overwriteWith false (mkConfig .ansi false 0 120 0 none none (some 5) none none none none)
      { (init 3 0) with formatLineCount := 0, displayedLineCount := some 1 } 0 "1/3 done".toList).2 =
      [['\r'], "1/3 done".toList] := by decide +kernel

/-! ## A whole ANSI history on the terminal with rows: the screen shows exactly the latest frame

`set_format_no_residue` above speaks about ONE redraw on a screen that is assumed to hold the standing
frame.  Here the screen is threaded through the history: `screenC x evs` (Model/Progress.lean) feeds the
writes of every call of `runC` - write by write, as the code sends them: CR, `ESC[nA`, `ESC[0J`, the text
(`Scr.write`) - to the terminal with rows, starting from `Scr.fresh k restRev`: the cursor at column 0 of
an empty row, nothing below, `k` blank rows directly above and above those arbitrary earlier rows
`restRev`.  `lastLinesFrom none evs` is the list of lines of the latest call that wrote anything
(`shownLines`: the lines of its frame, each padded with blanks to the longest line of the previous
message - `ljust lastLen`, as `_overwrite` pads them -, or the blank lines of `clear()`).

**The first `_overwrite`** of a format with `n` line breaks sends `ESC[nA` although nothing of the bar
stands on the terminal yet (`moveCount`: `displayedLineCount.getD formatLineCount`).  The rows it moves over
are then overwritten by the frame (not erased: longer rows would leave residue).  The theorem therefore
demands (`hfirst`) that the first write finds at least `n` BLANK rows above the cursor (`n ≤ k`; the frame then
occupies `n` of them: `j = k - n` blank rows remain), or that nothing at all stands above the blank rows
(`restRev = []`: the cursor stops at the top row, as on the harness's terminal, `Scr.up`).  Without it
the row above the bar is lost - see the example after the theorems.

Not proved here: (1) `hframes` is a hypothesis on the EVENTS of the history (decided by `framesFitB`, answered by
the driver as `screen.fits`); that it follows from inputs without line breaks / CR / ESC in messages and bar
characters (the multi-line analogue of `run_clean`) is not derived.  It cannot be dropped: a message with a line
break breaks the statement (last example).  (2) The terminal reads the output write by write (`Scr.write`: each
`stream.write` is one command or one text, which is how `_overwrite` sends them), not byte by byte; the rows it
ends with are compared with the harness's byte-level emulator on every generated ANSI case. -/

/-- **ANSI output, any format, any history with setters: the terminal shows exactly the latest frame.**
For every prefix `evs1` of a history on an ANSI output that is not quiet - multi-line formats, `set_format`
to another number of lines in the middle, `clear()`, throttled calls -, provided every frame drawn has as
many line breaks as the format in use and contains neither CR nor ESC (`hframes`; decided by `framesFitB`)
and the first write moves up over blank rows only (`hfirst`; decided by `firstMoveB`, see above):
before anything was written the terminal is untouched; afterwards its rows are the earlier rows (`restRev`,
written top to bottom), `j ≤ k` remaining blank rows, and then EXACTLY the lines of the latest writing call -
no residue of longer or taller earlier frames -, nothing below, the cursor on the last of these lines (at
its end). -/
theorem ansi_screen_shows_latest_frame (c : Config) (hk : c.kind = .ansi) (hq : c.quiet = false) (m : Int)
    (t0 : Nat) (calls : List (Call × Nat)) (k : Nat) (restRev : List Str)
    (hframes : ∀ e ∈ runC c (init m t0) calls, ∀ f, e.res.frame = some f →
      countNL f.text = e.res.st.formatLineCount ∧ Printable f.text)
    (hfirst : restRev = [] ∨ ∀ e ∈ runC c (init m t0) calls, e.pre.displayedLineCount = none →
      e.res.writes ≠ [] → e.res.st.formatLineCount ≤ k)
    (evs1 evs2 : List CEvent) (h : runC c (init m t0) calls = evs1 ++ evs2) :
    match lastLinesFrom none evs1 with
    | none => screenC (Scr.fresh k restRev) evs1 = Scr.fresh k restRev
    | some L => ∃ j, j ≤ k ∧ L ≠ [] ∧
        screenC (Scr.fresh k restRev) evs1 = Scr.showing (List.replicate j [] ++ restRev) L ∧
        (screenC (Scr.fresh k restRev) evs1).rows = restRev.reverse ++ List.replicate j [] ++ L ∧
        (screenC (Scr.fresh k restRev) evs1).below = [] ∧
        (screenC (Scr.fresh k restRev) evs1).aboveRev.length = restRev.length + j + (L.length - 1) := by
  obtain ⟨s', hInv⟩ := runC_screen k restRev calls c (init m t0) (Scr.fresh k restRev) none hk hq
    (by simp [ScrInv, init]) hframes hfirst evs1 evs2 h
  unfold ScrInv at hInv
  cases hd : s'.displayedLineCount with
  | none =>
    rw [hd] at hInv
    rw [hInv.1]
    exact hInv.2
  | some n =>
    rw [hd] at hInv
    obtain ⟨L, j, hacc, hj, hlen, _, hx⟩ := hInv
    rw [hacc]
    have hne : L ≠ [] := by intro h0; rw [h0] at hlen; simp at hlen
    have hr := showing_rows (List.replicate j [] ++ restRev) L hne
    refine ⟨j, hj, hne, hx, ?_, ?_, ?_⟩
    · rw [hx, hr.1]; simp
    · rw [hx, hr.2.1]
    · rw [hx, hr.2.2.1]; simp; omega

/-- **... after a call that draws a frame**: the rows below the earlier ones are exactly the lines of THAT frame,
each followed by blanks only (up to the longest line of the previous message). -/
theorem ansi_screen_after_frame (c : Config) (hk : c.kind = .ansi) (hq : c.quiet = false) (m : Int)
    (t0 : Nat) (calls : List (Call × Nat)) (k : Nat) (restRev : List Str)
    (hframes : ∀ e ∈ runC c (init m t0) calls, ∀ f, e.res.frame = some f →
      countNL f.text = e.res.st.formatLineCount ∧ Printable f.text)
    (hfirst : restRev = [] ∨ ∀ e ∈ runC c (init m t0) calls, e.pre.displayedLineCount = none →
      e.res.writes ≠ [] → e.res.st.formatLineCount ≤ k)
    (evs1 : List CEvent) (e : CEvent) (evs2 : List CEvent)
    (h : runC c (init m t0) calls = evs1 ++ e :: evs2) (f : Frame) (hf : e.res.frame = some f) :
    ∃ j, j ≤ k ∧
      (screenC (Scr.fresh k restRev) (evs1 ++ [e])).rows =
        restRev.reverse ++ List.replicate j [] ++ (splitNL f.text).map (fun l => l ++ spaces (e.pre.lastLen - l.length)) ∧
      (screenC (Scr.fresh k restRev) (evs1 ++ [e])).below = [] ∧
      (screenC (Scr.fresh k restRev) (evs1 ++ [e])).aboveRev.length = restRev.length + j + countNL f.text := by
  have hmem : e ∈ runC c (init m t0) calls := by rw [h]; simp
  have hw : e.res.writes ≠ [] := by
    have hev := runC_event c _ calls e hmem
    rw [hev] at hf ⊢
    exact frame_writes e.cfg e.pre e.call e.t (by rw [runC_quiet c _ calls e hmem, hq]) f hf
  have hemp : e.res.writes.isEmpty = false := by
    cases hwl : e.res.writes with
    | nil => exact absurd hwl hw
    | cons _ _ => rfl
  have := ansi_screen_shows_latest_frame c hk hq m t0 calls k restRev hframes hfirst (evs1 ++ [e]) evs2
    (by rw [h]; simp)
  rw [lastLinesFrom_snoc, hemp] at this
  simp only [Bool.false_eq_true, if_false] at this
  obtain ⟨j, hj, _, _, hrows, hbelow, habove⟩ := this
  have hsl : shownLines e = (splitNL f.text).map (fun l => l ++ spaces (e.pre.lastLen - l.length)) := by
    simp only [shownLines, hf]; rfl
  refine ⟨j, hj, by rw [hrows, hsl], hbelow, ?_⟩
  rw [habove, hsl, List.length_map, splitNL_length]; omega

/-- what the deciders `framesFitB`, `firstMoveB`, `printableB` (Model/Progress.lean) mean -/
theorem screen_hyps_decide (k : Nat) (evs : List CEvent) :
    (framesFitB evs = true ↔ ∀ e ∈ evs, ∀ f, e.res.frame = some f →
      countNL f.text = e.res.st.formatLineCount ∧ Printable f.text) ∧
    (firstMoveB k evs = true ↔ ∀ e ∈ evs, e.pre.displayedLineCount = none → e.res.writes ≠ [] →
      e.res.st.formatLineCount ≤ k) :=
  ⟨framesFitB_iff evs, firstMoveB_iff k evs⟩

/-- `ansi_screen_shows_latest_frame` for the WHOLE history on the harness's terminal (nothing above the bar:
`Scr.fresh 0 []`), from the decider: the rows of the terminal are exactly the lines of the latest writing call. -/
theorem ansi_screen_final_dec (c : Config) (hk : c.kind = .ansi) (hq : c.quiet = false) (m : Int)
    (t0 : Nat) (calls : List (Call × Nat)) (hframes : framesFitB (runC c (init m t0) calls) = true) :
    match lastLinesFrom none (runC c (init m t0) calls) with
    | none => screenC (Scr.fresh 0 []) (runC c (init m t0) calls) = Scr.fresh 0 []
    | some L => (screenC (Scr.fresh 0 []) (runC c (init m t0) calls)).rows = L ∧
        (screenC (Scr.fresh 0 []) (runC c (init m t0) calls)).below = [] := by
  have := ansi_screen_shows_latest_frame c hk hq m t0 calls 0 [] ((framesFitB_iff _).mp hframes) (Or.inl rfl)
    (runC c (init m t0) calls) [] (by simp)
  cases hl : lastLinesFrom none (runC c (init m t0) calls) with
  | none => rw [hl] at this; exact this
  | some L =>
    rw [hl] at this
    obtain ⟨j, hj, _, _, hrows, hbelow, _⟩ := this
    have : j = 0 := by omega
    subst this
    exact ⟨by simpa using hrows, hbelow⟩

/-- the read-back of the cursor-up command the code sends -/
theorem cursor_up_read_back (n : Nat) : parseCursorUp (cursorUp n) = some n := parseCursorUp_cursorUp n

/-! ### non-vacuity: a two-line format, `set_format` to one line, `clear()`, and the first move -/

/-- maximum 3, bar width 5, the two-line format `%current%/%max%` / `[%bar%]` -/
private def cTwo : Config :=
  mkConfig .ansi false 0 120 0 none none (some 5) none none none (some "%current%/%max%\n[%bar%]".toList)

/-- `start`, `advance` (two-line frames, overwritten in place), `set_format` to ONE line, `advance` (moves
up one row and erases), `set_format` back to two lines with a longer first line, `advance`, `clear()` -/
private def callsTwo : List (Call × Nat) :=
  [(.op (.start none), 64000), (.op (.advance 1), 64016),
   (.set (.format "%current%/%max% done".toList), 64017), (.op (.advance 1), 64032),
   (.set (.format "step %current%\n%bar%".toList), 64033), (.op (.advance 1), 64048)]

/-- the hypotheses of `ansi_screen_shows_latest_frame` hold on this history: with one blank row above the bar
(`k = 1`), and on the harness's terminal (`restRev = []`) whatever `k` is -/
example : framesFitB (runC cTwo (init 3 64000) callsTwo) = true ∧
    firstMoveB 1 (runC cTwo (init 3 64000) callsTwo) = true ∧
    firstMoveB 0 (runC cTwo (init 3 64000) callsTwo) = false := by decide +kernel

/-- the screens after every call, below a line of the application and one blank row: the two-line frames
stand on the blank row and the cursor row; after `set_format` the single line stands directly below
`app output` (nothing of the second row is left); the two-line frame after it is padded to the longest line
written before -/
example : (List.range 7).map (fun i =>
      (screenC (Scr.fresh 1 ["app output".toList]) ((runC cTwo (init 3 64000) callsTwo).take i)).rows) =
    [["app output".toList, [], []],
     ["app output".toList, "0/3".toList, "[>----]".toList],
     ["app output".toList, "1/3    ".toList, "[=>---]".toList],
     ["app output".toList, "1/3    ".toList, "[=>---]".toList],
     ["app output".toList, "2/3 done".toList],
     ["app output".toList, "2/3 done".toList],
     ["app output".toList, "step 3  ".toList, "=====   ".toList]] := by decide +kernel

/-- the theorem applied to the whole history (every hypothesis discharged) -/
example := ansi_screen_shows_latest_frame cTwo rfl rfl 3 64000 callsTwo 1 ["app output".toList]
  ((framesFitB_iff _).mp (by decide +kernel)) (Or.inr ((firstMoveB_iff 1 _).mp (by decide +kernel)))
  (runC cTwo (init 3 64000) callsTwo) [] (by simp)

/-- ... and on the harness's terminal (nothing above: the first `ESC[1A` stops at the top row) -/
example : (screenC (Scr.fresh 0 []) (runC cTwo (init 3 64000) callsTwo)).rows =
    ["step 3  ".toList, "=====   ".toList] ∧
    lastLinesFrom none (runC cTwo (init 3 64000) callsTwo) = some ["step 3  ".toList, "=====   ".toList] := by
  decide +kernel

example := ansi_screen_final_dec cTwo rfl rfl 3 64000 callsTwo (by decide +kernel)

/-- `hfirst` is needed: WITHOUT a blank row above the bar the first `_overwrite` of the two-line format moves up
onto the application's line and overwrites it (`app output` becomes `0/3output`) -/
example : (screenC (Scr.fresh 0 ["app output".toList]) ((runC cTwo (init 3 64000) callsTwo).take 1)).rows =
    ["0/3 output".toList, "[>----]".toList] := by decide +kernel

/-- `hframes` is needed: a message with a line break put into a one-line format makes `_overwrite` write two
lines while it remembers a line count of 0 - the next frame leaves the first of them on the terminal -/
example :
    let c := mkConfig .ansi false 0 120 0 none none none none none none (some "%message% %current%".toList)
    let evs := runC c (init 0 64000)
      [(.op (.setMessage "a\nb".toList), 64000), (.op (.start none), 64000), (.op (.setMessage "c".toList), 64001),
       (.op (.advance 1), 64064)]
    framesFitB evs = false ∧
    (screenC (Scr.fresh 0 []) evs).rows = ["a".toList, "c    1".toList] := by decide +kernel

/-! ### `hframes` from the INPUTS: multi-line formats, clean substitutions (round 10)

`hframes` above speaks about the events of the history.  It follows from the inputs alone: the text of the format
(the one given before the run and every argument of `set_format` in the middle of it) may contain line breaks but
no CR / ESC; the three bar characters and the messages (before the run and every setter / `set_message` argument)
contain no line break, no CR, no ESC.  Everything else that is substituted for a placeholder - numbers, percent,
elapsed / remaining / estimated times, the padding of a `:spec` - is free of them whatever the inputs are; the
built-in formats have no CR / ESC. -/

/-- **Frames fit, from clean inputs.**  Along every history with setters, under a configuration whose format has
no CR / ESC and whose bar characters have no line break / CR / ESC, with call arguments of the same kind
(`mlCleanCfgB`, `mlCleanCallsB`): every frame drawn has exactly as many line breaks as the format it was rendered
from, that format is the one in use after the call and `formatLineCount` is its number of line breaks; the frame
contains no CR / ESC.  Formats with any placeholders (known, unknown, with or without `:spec`), `set_format` /
character setters / `set_message` in the middle of the run included. -/
theorem frames_fit_clean (c : Config) (m : Int) (t0 : Nat) (calls : List (Call × Nat))
    (hc : mlCleanCfgB c = true) (hcalls : mlCleanCallsB calls = true) :
    ∀ e ∈ runC c (init m t0) calls, ∀ f, e.res.frame = some f →
      ∃ fmt, e.res.st.format = some fmt ∧ countNL f.text = countNL fmt ∧
        e.res.st.formatLineCount = countNL fmt ∧ Printable f.text :=
  fun e he => (runC_ml calls c (init m t0) ((mlCleanCfgB_iff c).mp hc) (init_ml m t0)
    ((mlCleanCallsB_iff calls).mp hcalls) e he).2

/-- ... in the form of the hypothesis `hframes` / of the decider `framesFitB` -/
theorem frames_fit_clean_dec (c : Config) (m : Int) (t0 : Nat) (calls : List (Call × Nat))
    (hc : mlCleanCfgB c = true) (hcalls : mlCleanCallsB calls = true) :
    framesFitB (runC c (init m t0) calls) = true := by
  rw [framesFitB_iff]
  intro e he f hf
  obtain ⟨fmt, _, h1, h2, h3⟩ := frames_fit_clean c m t0 calls hc hcalls e he f hf
  exact ⟨by rw [h1, h2], h3⟩

/-- what the deciders `valueCleanB`, `mlCleanCfgB`, `mlCleanCallsB` (Model/Progress.lean) mean -/
theorem clean_inputs_decide (c : Config) (calls : List (Call × Nat)) :
    (mlCleanCfgB c = true ↔
      (∀ f, c.internalFormat = some f → ∀ ch ∈ f, ch ≠ '\r' ∧ ch ≠ ESC) ∧
      (∀ ch ∈ c.emptyChar, ch ≠ '\n' ∧ ch ≠ '\r' ∧ ch ≠ ESC) ∧
      (∀ ch ∈ c.progressChar, ch ≠ '\n' ∧ ch ≠ '\r' ∧ ch ≠ ESC) ∧
      (∀ b, c.barChar = some b → ∀ ch ∈ b, ch ≠ '\n' ∧ ch ≠ '\r' ∧ ch ≠ ESC)) ∧
    (mlCleanCallsB calls = true ↔ ∀ x ∈ calls, MLCleanCall x.1) :=
  ⟨mlCleanCfgB_iff c, mlCleanCallsB_iff calls⟩

/-- **`ansi_screen_shows_latest_frame` over clean INPUTS**: the same conclusion, `hframes` replaced by the
conditions on the configuration and on the call arguments (`hfirst` stays: it is about the rows above the bar). -/
theorem ansi_screen_shows_latest_frame_clean (c : Config) (hk : c.kind = .ansi) (hq : c.quiet = false) (m : Int)
    (t0 : Nat) (calls : List (Call × Nat)) (k : Nat) (restRev : List Str)
    (hc : mlCleanCfgB c = true) (hcalls : mlCleanCallsB calls = true)
    (hfirst : restRev = [] ∨ ∀ e ∈ runC c (init m t0) calls, e.pre.displayedLineCount = none →
      e.res.writes ≠ [] → e.res.st.formatLineCount ≤ k)
    (evs1 evs2 : List CEvent) (h : runC c (init m t0) calls = evs1 ++ evs2) :
    match lastLinesFrom none evs1 with
    | none => screenC (Scr.fresh k restRev) evs1 = Scr.fresh k restRev
    | some L => ∃ j, j ≤ k ∧ L ≠ [] ∧
        screenC (Scr.fresh k restRev) evs1 = Scr.showing (List.replicate j [] ++ restRev) L ∧
        (screenC (Scr.fresh k restRev) evs1).rows = restRev.reverse ++ List.replicate j [] ++ L ∧
        (screenC (Scr.fresh k restRev) evs1).below = [] ∧
        (screenC (Scr.fresh k restRev) evs1).aboveRev.length = restRev.length + j + (L.length - 1) :=
  ansi_screen_shows_latest_frame c hk hq m t0 calls k restRev
    ((framesFitB_iff _).mp (frames_fit_clean_dec c m t0 calls hc hcalls)) hfirst evs1 evs2 h

/-- **`ansi_screen_after_frame` over clean inputs** -/
theorem ansi_screen_after_frame_clean (c : Config) (hk : c.kind = .ansi) (hq : c.quiet = false) (m : Int)
    (t0 : Nat) (calls : List (Call × Nat)) (k : Nat) (restRev : List Str)
    (hc : mlCleanCfgB c = true) (hcalls : mlCleanCallsB calls = true)
    (hfirst : restRev = [] ∨ ∀ e ∈ runC c (init m t0) calls, e.pre.displayedLineCount = none →
      e.res.writes ≠ [] → e.res.st.formatLineCount ≤ k)
    (evs1 : List CEvent) (e : CEvent) (evs2 : List CEvent)
    (h : runC c (init m t0) calls = evs1 ++ e :: evs2) (f : Frame) (hf : e.res.frame = some f) :
    ∃ j, j ≤ k ∧
      (screenC (Scr.fresh k restRev) (evs1 ++ [e])).rows =
        restRev.reverse ++ List.replicate j [] ++ (splitNL f.text).map (fun l => l ++ spaces (e.pre.lastLen - l.length)) ∧
      (screenC (Scr.fresh k restRev) (evs1 ++ [e])).below = [] ∧
      (screenC (Scr.fresh k restRev) (evs1 ++ [e])).aboveRev.length = restRev.length + j + countNL f.text :=
  ansi_screen_after_frame c hk hq m t0 calls k restRev
    ((framesFitB_iff _).mp (frames_fit_clean_dec c m t0 calls hc hcalls)) hfirst evs1 e evs2 h f hf

/-- the two-line format with `set_format` to one line and back (`cTwo`, `callsTwo`): the inputs are clean -/
example : mlCleanCfgB cTwo = true ∧ mlCleanCallsB callsTwo = true := by decide +kernel

/-- the theorem over inputs applied to it: no hypothesis about the events except the first move -/
example := ansi_screen_shows_latest_frame_clean cTwo rfl rfl 3 64000 callsTwo 1 ["app output".toList]
  (by decide +kernel) (by decide +kernel) (Or.inr ((firstMoveB_iff 1 _).mp (by decide +kernel)))
  (runC cTwo (init 3 64000) callsTwo) [] (by simp)

/-- a two-line format with a message, an unknown placeholder containing a line break in its `:spec` (copied
as it stands) and a width spec; `set_format` to one line in the middle.  The inputs are clean, the frames are
the ones computed, their line breaks are those of the formats; the last frame stands alone on the terminal
(padded to the longest line written before) -/
example :
    let c := mkConfig .ansi false 0 120 0 none none (some 4) none none none
      (some "%message% %current:3s%\n%nope:a\nb% [%bar%]".toList)
    let calls : List (Call × Nat) :=
      [(.op (.setMessage "load".toList), 64000), (.op (.start none), 64000),
       (.set (.format "%current%/%max% %message%".toList), 64001), (.set (.progressChar "*".toList), 64001),
       (.op (.setMessage "done".toList), 64002), (.op (.advance 2), 64064)]
    mlCleanCfgB c = true ∧ mlCleanCallsB calls = true ∧
    (runC c (init 2 64000) calls).map (fun e => e.res.frame.map (·.text)) =
      [none, some "load   0\n%nope:a\nb% [>---]".toList, none, none, none, some "2/2 done".toList] ∧
    (screenC (Scr.fresh 0 []) (runC c (init 2 64000) calls)).rows = ["2/2 done ".toList] := by decide +kernel

/-- the condition on the substituted texts is needed (the counterexample to `hframes` above has a message with a
line break: `valueCleanB` rejects it); a format with ESC is rejected as well -/
example : mlCleanCallsB [(.op (.setMessage "a\nb".toList), 64000)] = false ∧
    mlCleanCallsB [(.set (.format ("%current%".toList ++ [ESC] ++ "[2J".toList)), 64000)] = false ∧
    mlCleanCallsB [(.set (.format "%current%\n%bar%".toList), 64000)] = true := by decide

/-! ## Non-vacuity of the theorems about setters and `set_format` (hypothesis audit, rounds 8-9) -/

private def cS : Config := mkConfig .ansi false 0 120 8 none none (some 10) none none none none
private def callsS : List (Call × Nat) :=
  [(.op (.start none), 64000), (.set (.minInterval 128), 64001), (.op (.advance 5), 64032),
   (.op (.advance 5), 64128)]

example : ∃ e1 e2 e3 e4, runC cS (init 50 64000) callsS = [] ++ e1 :: ([e2, e3] ++ e4 :: []) ∧
    (e4.t : Int) - (e1.t : Int) ≥ (e4.cfg.minInterval : Int) ∧ e4.cfg.minInterval = 128 ∧
    e1.cfg.minInterval = 8 := by
  refine ⟨_, _, _, _, rfl, ?_, by decide +kernel, by decide +kernel⟩
  have hsome : ((runC cS (init 50 64000) callsS)[3]!).res.frame.isSome = true := by decide +kernel
  obtain ⟨f, hf⟩ := Option.isSome_iff_exists.mp hsome
  exact throttle_spacing_current_config cS (by decide) (init 50 64000) callsS [] _ [_, _] _ [] rfl
    (by decide +kernel) (by decide +kernel) (.advance 5) rfl (by decide) f hf (by decide +kernel)

example : ((mkConfig .ansi false 0 120 8 none none (some 10) none none none none).set (.minInterval 128)).minInterval = 128 :=
  min_interval_setter _ 128 (by decide)

/-- a history with `set_bar_width(7)` and `set_bar_character("#")` in the middle, maximum 3 -/
private def callsW : List (Call × Nat) :=
  [(.op (.start none), 64000), (.set (.barWidth 7), 64001), (.set (.barChar ['#']), 64002),
   (.op (.advance 1), 64100), (.set (.progressChar ['>', '>']), 64101), (.op (.advance 2), 64200)]

/-- the decider is evaluated per call: true up to the call that makes the progress character two characters
wide, false for the calls after it -/
example : (runC cS (init 3 64000) callsW).map barHypB = [true, true, true, true, true, false] := by
  decide +kernel

/-- `bar_width_current_config_dec` applied: the frame of the `advance` after the two setters has a bar of the
NEW width 7 (the one of `start` had 10) -/
example : ∀ f b, ((runC cS (init 3 64000) callsW)[3]'(by decide +kernel)).res.frame = some f → f.bar = some b →
    b.length = 7 :=
  bar_width_current_config_dec cS 3 64000 callsW _ (List.getElem_mem _) (by decide +kernel)

example : (((runC cS (init 3 64000) callsW)[3]!).res.frame.bind (·.bar)) = some "##>----".toList ∧
    (((runC cS (init 3 64000) callsW)[0]!).res.frame.bind (·.bar)) = some ">---------".toList := by decide +kernel

/-- `max_always_draws_current_config`: the last call reaches the maximum 1/64 s after a setter - it draws -/
example : ((runC cS (init 3 64000) callsW)[5]'(by decide +kernel)).res.frame.isSome ∨
    ((runC cS (init 3 64000) callsW)[5]'(by decide +kernel)).res.err.isSome :=
  max_always_draws_current_config cS (by decide) (init 3 64000) callsW _ (List.getElem_mem _) (.advance 2) rfl
    (by decide) (by decide +kernel)

/-- `quiet_nothing_current_config`: the same history on a quiet output -/
example : ∀ e ∈ runC { cS with quiet := true } (init 3 64000) callsW, e.res.writes = [] :=
  quiet_nothing_current_config _ rfl _ _

/-- `throttle_current_config` applied to the drawn `advance` of the history with the new interval -/
example := throttle_current_config cS (init 50 64000) callsS
  ((runC cS (init 50 64000) callsS)[3]'(by decide +kernel)) (List.getElem_mem _) (.advance 5) rfl (by decide)

/-- `set_format_no_residue`, every hypothesis discharged: a two-line frame stands (`0/3` above the cursor row
`[>----]`) under a line of the application, the format in use now has one line -/
example :
    (Scr.redraw ⟨["0/3".toList] ++ ["app output".toList], "[>----]".toList, 7, []⟩ 1 true
      ((splitNL "1/3 done".toList).map (ljust 0))).rows = ["app output".toList, "1/3 done".toList] :=
  (set_format_no_residue (mkConfig .ansi false 0 120 0 none none (some 5) none none none none) rfl rfl
    { (init 3 0) with formatLineCount := 0, displayedLineCount := some 1 } 0 "1/3 done".toList 1 rfl (by decide)
    ["0/3".toList] ["app output".toList] "[>----]".toList 7 [] rfl).2.1

/-- `set_format_section_clears_standing_frame`, hypotheses discharged (a section output, a two-line frame stands) -/
example := set_format_section_clears_standing_frame
  (mkConfig .section false 0 120 0 none none (some 5) none none none none) rfl
  { (init 3 0) with formatLineCount := 0, displayedLineCount := some 1 } 0 "1/3 done".toList 1 rfl

/-! ## `start(max)` with an explicit maximum, also on a bar that already has one (round 10) -/

/-- the proof obligation tied to the source: `start(max)` takes the new maximum under `max is not None` - every explicit
maximum, 0 included (the translator accepts no other guard) -/
theorem start_guard_read : Gen.C16.startTakesEveryExplicitMax = true := rfl

/-- **An explicit `start(m)` decides the maximum**: whatever maximum the bar had (constructor, an earlier `start`, a
maximum moved along by a step beyond it), after `start(m)` the maximum is `max(0, m)` and the step is 0 - in particular
`start(0)` is "length unknown" again. -/
theorem start_explicit_max (c : Config) (s : State) (t : Nat) (m : Int) :
    (start c s t (some m)).st.max = (Max.max 0 m).toNat ∧ (start c s t (some m)).st.step = 0 := by
  simp only [start]
  exact ⟨(display_step_max c _ t).2, (display_step_max c _ t).1⟩

/-- `start()` without argument keeps the maximum -/
theorem start_none_keeps_max (c : Config) (s : State) (t : Nat) :
    (start c s t none).st.max = s.max ∧ (start c s t none).st.step = 0 := by
  simp only [start]
  exact ⟨(display_step_max c _ t).2, (display_step_max c _ t).1⟩

/-- the frame drawn by `start(m)` is truthful for the NEW maximum: step 0 of `max(0, m)` -/
theorem start_explicit_frame (c : Config) (s : State) (t : Nat) (m : Int) (f : Frame)
    (h : (start c s t (some m)).frame = some f) :
    f.current = 0 ∧ f.max = (Max.max 0 m).toNat := by
  simp only [start] at h
  have := display_frame c _ t f h
  exact ⟨this.1, this.2.1⟩

/-- `finish()` on a bar without maximum ends at the step reached -/
theorem finish_without_maximum (c : Config) (s : State) (t : Nat) (h : s.max = 0) :
    (finish c s t).st.max = s.step ∧ (finish c s t).st.step = s.step := by
  unfold finish finishWith
  simp only [h, if_true]
  split
  · exact ⟨rfl, rfl⟩
  · have := setProgress_step_max c { s with max := s.step } t (s.step : Int)
    refine ⟨?_, by simpa using this.1⟩
    rw [this.2]
    simp [newMax]

/-- **Re-start with "length unknown"**: `start(0)` on ANY bar, then `finish()` after any number of steps `k >= 0`
made by one `set_progress(k)`: the bar ends at `k`, not at the maximum it had before. -/
theorem restart_unknown_ends_at_step (c : Config) (s : State) (t1 t2 t3 : Nat) (k : Nat) :
    let s1 := (start c s t1 (some 0)).st
    let s2 := (setProgress c s1 t2 (k : Int)).st
    (finish c s2 t3).st.max = k ∧ (finish c s2 t3).st.step = k := by
  intro s1 s2
  have h1 : s1.max = 0 := by simpa using (start_explicit_max c s t1 0).1
  have h2 := setProgress_step_max c s1 t2 (k : Int)
  have hmax : s2.max = 0 := by
    show (setProgress c s1 t2 (k : Int)).st.max = 0
    rw [h2.2]; simp [newMax, h1]
  have hstep : s2.step = k := by
    show (setProgress c s1 t2 (k : Int)).st.step = k
    rw [h2.1]; simp
  have := finish_without_maximum c s2 t3 hmax
  rw [hstep] at this
  exact this

/-- non-vacuity: a bar constructed with maximum 10 and re-started with 0 has no maximum -/
example : (start (mkConfig .plain false 0 120 0 none none none none none none none) (init 10 0) 5 (some 0)).st.max = 0 :=
  (start_explicit_max _ _ _ 0).1

/-- `finish_without_maximum` applied (hypothesis audit, round 10): a bar constructed without maximum, three steps made -/
example := finish_without_maximum (mkConfig .plain false 0 120 0 none none none none none none none)
  { init 0 0 with step := 3 } 5 rfl

/-- the case condition is needed: with a maximum, `finish()` ends at the maximum, not at the step reached -/
example : (finish (mkConfig .plain false 0 120 0 none none none none none none none) { init 10 0 with step := 3 } 5).st.step = 10 := by
  decide +kernel

/-- `start_explicit_frame` applied: `start(3)` on a bar constructed with maximum 10 draws the frame `0/3` -/
example : ∃ f, (start (mkConfig .plain false 0 120 0 none none none none none none none) (init 10 0) 5 (some 3)).frame = some f ∧
    f.current = 0 ∧ f.max = 3 := by
  cases h : (start (mkConfig .plain false 0 120 0 none none none none none none none) (init 10 0) 5 (some 3)).frame with
  | none => exact absurd h (by decide +kernel)
  | some f => exact ⟨f, rfl, start_explicit_frame _ _ _ 3 f h⟩

end Clikit.Props.C16
