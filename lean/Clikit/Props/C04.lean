import Clikit.Model.Run
import Clikit.Model.Wiring
import Clikit.Lemmas.App
import Clikit.Lemmas.RunListeners
import Clikit.Props.C12
import Clikit.Lemmas.CommandTree
/-!
# C04 - a run always ends in a valid exit status and never leaks a handler failure

Theorems about the model `Clikit.Run` of `ConsoleApplication.run` / `Command.handle`.  The status
normalisation `Gen.C04.clampStatus` is regenerated from `Command.handle` on every run.
-/
namespace Clikit.Props.C04
open Clikit Clikit.Run

/-- the generated expression is the clamp into 1..255 -/
theorem clampStatus_range (n : Int) :
    1 ≤ Gen.C04.clampStatus n ∧ Gen.C04.clampStatus n ≤ 255 ∧
    (1 ≤ n → n ≤ 255 → Gen.C04.clampStatus n = n) ∧ (n < 1 → Gen.C04.clampStatus n = 1) ∧
    (255 < n → Gen.C04.clampStatus n = 255) := by
  unfold Gen.C04.clampStatus
  omega

/-- **Exit status of a returned value**: 0 exactly for a false-y result, otherwise the integer
result clamped into 1..255 (or the exception `int()` raises). -/
theorem status_range (v : RetVal) (s : Nat) (h : normalize v = .ok s) :
    s ≤ 255 ∧ (s = 0 ↔ v.falsy = true) ∧
    (v.falsy = false → ∃ n, v.toInt = .ok n ∧ (s : Int) = Gen.C04.clampStatus n) := by
  unfold normalize at h
  cases hf : v.falsy with
  | true => simp [hf] at h; subst h; simp
  | false =>
    simp only [hf, Bool.false_eq_true, if_false] at h
    cases ht : v.toInt with
    | error e => simp [ht] at h
    | ok n =>
      simp only [ht, Except.ok.injEq] at h
      have hr := clampStatus_range n
      subst h
      refine ⟨by omega, ⟨fun h0 => by omega, fun h0 => by cases h0⟩, fun _ => ⟨n, rfl, by omega⟩⟩

/-- number of handler invocations in the `try` block -/
theorem attempt_calls (debug : Bool) (resolved : Except Exc Unit) (ls : List Listener) (h : Outcome) :
    (attempt debug resolved ls h).2 ≤ 1 ∧
    ((attempt debug resolved ls h).2 = 1 ↔ (resolved = .ok () ∧ dispatchPre ls none = .ok none)) := by
  cases resolved with
  | error e => simp [attempt]
  | ok u =>
    cases hd : dispatchPre ls none with
    | error e =>
      simp only [attempt, handle, doHandle, hd]
      split <;> simp
    | ok o =>
      cases o with
      | some c => simp [attempt, handle, doHandle, hd]
      | none =>
        cases h with
        | ret v => simp [attempt, handle, doHandle, hd]
        | raise e =>
          simp only [attempt, handle, doHandle, hd]
          split <;> simp

theorem conclude_calls (render : Exc → Bool) (r : Except Exc Nat) (n : Nat) : (conclude render r n).handlerCalls = n := by
  unfold conclude
  split
  · rfl
  · split
    · rfl
    · split <;> rfl

/-- **The handler is invoked at most once; exactly once iff resolution succeeded and no pre-handle
listener handled the event or failed** (no other handler exists in a run: the model has one call
site, as the code does). -/
theorem handler_once (debug : Bool) (resolved : Except Exc Unit) (ls : List Listener) (h : Outcome)
    (render : Exc → Bool) :
    (run debug resolved ls h render).handlerCalls ≤ 1 ∧
    ((run debug resolved ls h render).handlerCalls = 1 ↔ (resolved = .ok () ∧ dispatchPre ls none = .ok none)) := by
  simp only [run, conclude_calls]
  exact attempt_calls debug resolved ls h

/-- a status produced inside the `try` block is in range -/
theorem attempt_status_le (debug : Bool) (resolved : Except Exc Unit) (ls : List Listener) (h : Outcome) (s : Nat)
    (hs : (attempt debug resolved ls h).1 = .ok s) : s ≤ 255 := by
  cases resolved with
  | error e => simp [attempt] at hs
  | ok u =>
    simp only [attempt, handle] at hs
    split at hs
    · split at hs
      · simp at hs; omega
      · simp at hs
    · rename_i v n _
      exact (status_range v s hs).1

/-- **Containment**: if rendering the report does not itself fail, nothing escapes `run()`, the
status is in 0..255, every `Exception` ends in status 1 (non-zero) with a printed report, and a
`KeyboardInterrupt` in status 1 without one. -/
theorem run_contained (debug : Bool) (resolved : Except Exc Unit) (ls : List Listener) (h : Outcome)
    (render : Exc → Bool) (hr : ∀ e, render e = true) :
    (run debug resolved ls h render).escaped = none ∧
    ∃ s, (run debug resolved ls h render).status = some s ∧ s ≤ 255 ∧
      ((run debug resolved ls h render).reported = true → s = 1) := by
  simp only [run]
  cases ha : (attempt debug resolved ls h).1 with
  | ok s => exact ⟨rfl, s, rfl, attempt_status_le _ _ _ _ _ ha, by simp [conclude]⟩
  | error e =>
    simp only [conclude]
    split
    · exact ⟨rfl, 1, rfl, by omega, by simp⟩
    · simp [hr e]

/-- every exception of class `Exception` that reaches `run()` ends in a non-zero status together
with a printed report; `KeyboardInterrupt` in status 1 without a report -/
theorem exception_reported (debug : Bool) (resolved : Except Exc Unit) (ls : List Listener) (h : Outcome)
    (render : Exc → Bool) (hr : ∀ e, render e = true) (e : Exc)
    (he : (attempt debug resolved ls h).1 = .error e) :
    (run debug resolved ls h render).status = some 1 ∧
    ((run debug resolved ls h render).reported = !e.keyboardInterrupt) := by
  simp only [run, he, conclude]
  cases hk : e.keyboardInterrupt <;> simp [hr e]

/-- the run reports status 0 exactly when the value that reached the normalisation is false-y
(the handler's result, or the status code set by a pre-handle listener that handled the event) -/
theorem status_zero_iff (debug : Bool) (ls : List Listener) (h : Outcome) (render : Exc → Bool) (v : RetVal)
    (hv : (doHandle ls h).1 = .ok v) :
    (run debug (.ok ()) ls h render).status = some 0 ↔ v.falsy = true := by
  have hh : (attempt debug (.ok ()) ls h).1 = normalize v := by
    simp only [attempt, handle]
    cases hd : doHandle ls h with
    | mk r n =>
      rw [hd] at hv
      simp only at hv
      subst hv
      rfl
  simp only [run, hh]
  cases hn : normalize v with
  | ok s =>
    have := (status_range v s hn).2.1
    simp [conclude, this]
  | error e =>
    have hf : v.falsy = false := by
      unfold normalize at hn
      cases hf : v.falsy with
      | true => simp [hf] at hn
      | false => rfl
    simp only [conclude, hf]
    split <;> (try split) <;> simp

/-- a failing renderer is the only way an exception can escape (C20 characterises when rendering
fails; after the D9/D10/D27 repairs the message and the source can no longer make it fail) -/
theorem escape_only_by_render (debug : Bool) (resolved : Except Exc Unit) (ls : List Listener) (h : Outcome)
    (render : Exc → Bool) (e : Exc) (he : (run debug resolved ls h render).escaped = some e) :
    render e = false ∧ e.keyboardInterrupt = false := by
  simp only [run, conclude] at he
  split at he
  · cases he
  · split at he
    · cases he
    · split at he
      · cases he
      · rename_i e' hk hrd
        simp at he; subst he
        simp at hk hrd
        exact ⟨hrd, hk⟩

/-! Non-vacuity -/
def v300 : RetVal := { falsy := false, toInt := .ok 300 }
def vNone : RetVal := { falsy := true, toInt := .error ⟨false, false, 0⟩ }
def boom : Exc := ⟨false, false, 7⟩
example : (run false (.ok ()) [] (.ret v300) (fun _ => true)).status = some 255 := by decide
example : (run false (.ok ()) [] (.ret vNone) (fun _ => true)).status = some 0 := by decide
example : let r := run false (.ok ()) [.pass] (.raise boom) (fun _ => true)
    r.status = some 1 ∧ r.reported = true ∧ r.handlerCalls = 1 := by decide
example : (run false (.ok ()) [.handled v300 false] (.raise boom) (fun _ => true)).handlerCalls = 0 := by decide

/-! ## The renderer hypothesis, in its exact form

`run_contained` / `exception_reported` assume that rendering NEVER fails (`∀ e, render e = true`).
Only the report of the one exception that reaches the `except` clause matters; the theorems below
take exactly that (and the first one is an equivalence, so nothing weaker would do).  In the
correspondence the model is run with `render = fun _ => true` against the REAL renderer on every
case: a rendering failure of the real code shows up as an escaped exception, i.e. as a
disagreement (and as an oracle violation). -/

/-- **Nothing escapes `run()` exactly when** the report of the exception that reaches the `except`
clause (if any, and if it is not a `KeyboardInterrupt`) can be rendered. -/
theorem run_escapes_iff (debug : Bool) (resolved : Except Exc Unit) (ls : List Listener) (h : Outcome)
    (render : Exc → Bool) :
    (run debug resolved ls h render).escaped = none ↔
      (∀ e, (attempt debug resolved ls h).1 = .error e → e.keyboardInterrupt = false → render e = true) := by
  simp only [run]
  cases ha : (attempt debug resolved ls h).1 with
  | ok s => simp [conclude]
  | error e =>
    simp only [conclude]
    cases hk : e.keyboardInterrupt with
    | true =>
      simp only [if_true, true_iff]
      intro e' he' hk'
      cases he'
      rw [hk] at hk'; cases hk'
    | false =>
      cases hr : render e with
      | true =>
        simp only [Bool.false_eq_true, if_false, if_true, true_iff]
        intro e' he' _
        cases he'
        exact hr
      | false =>
        simp only [Bool.false_eq_true, if_false]
        constructor
        · intro h0; cases h0
        · intro hall
          have := hall e rfl hk
          rw [hr] at this; cases this

/-- `run_contained` under the exact hypothesis -/
theorem run_contained_exact (debug : Bool) (resolved : Except Exc Unit) (ls : List Listener) (h : Outcome)
    (render : Exc → Bool)
    (hr : ∀ e, (attempt debug resolved ls h).1 = .error e → e.keyboardInterrupt = false → render e = true) :
    (run debug resolved ls h render).escaped = none ∧
    ∃ s, (run debug resolved ls h render).status = some s ∧ s ≤ 255 ∧
      ((run debug resolved ls h render).reported = true → s = 1) := by
  simp only [run]
  cases ha : (attempt debug resolved ls h).1 with
  | ok s => exact ⟨rfl, s, rfl, attempt_status_le _ _ _ _ _ ha, by simp [conclude]⟩
  | error e =>
    simp only [conclude]
    cases hk : e.keyboardInterrupt with
    | true => exact ⟨rfl, 1, rfl, by omega, by simp⟩
    | false => simp [hr e ha hk]

/-- `exception_reported` needs the renderer to succeed on that one exception only -/
theorem exception_reported_exact (debug : Bool) (resolved : Except Exc Unit) (ls : List Listener) (h : Outcome)
    (render : Exc → Bool) (e : Exc) (he : (attempt debug resolved ls h).1 = .error e)
    (hr : e.keyboardInterrupt = false → render e = true) :
    (run debug resolved ls h render).status = some 1 ∧
    ((run debug resolved ls h render).reported = !e.keyboardInterrupt) := by
  simp only [run, he, conclude]
  cases hk : e.keyboardInterrupt with
  | true => simp
  | false => simp [hr hk]

/-! ## Non-vacuity of every theorem above that has hypotheses -/

/-- `status_range`: a result of 300 is normalised to 255, `None` to 0 -/
example : (255 : Nat) ≤ 255 ∧ ((255 : Nat) = 0 ↔ v300.falsy = true) ∧
    (v300.falsy = false → ∃ n, v300.toInt = .ok n ∧ ((255 : Nat) : Int) = Gen.C04.clampStatus n) :=
  status_range v300 255 rfl
example : normalize vNone = .ok 0 := rfl

/-- `attempt_status_le` -/
example : (255 : Nat) ≤ 255 := attempt_status_le false (.ok ()) [] (.ret v300) 255 rfl

/-- `run_contained` / `run_contained_exact`: a handler raising `boom` behind a passing listener, with
a renderer that works -/
example : (run false (.ok ()) [.pass] (.raise boom) (fun _ => true)).escaped = none :=
  (run_contained false (.ok ()) [.pass] (.raise boom) (fun _ => true) (fun _ => rfl)).1

/-- a renderer that fails on every exception EXCEPT the one raised: the exact hypothesis holds, the
blanket one does not -/
def renderOnlyBoom (e : Exc) : Bool := e.tag == 7
example : (run false (.ok ()) [.pass] (.raise boom) renderOnlyBoom).escaped = none :=
  (run_contained_exact false (.ok ()) [.pass] (.raise boom) renderOnlyBoom
    (by intro e he _; have : e = boom := by simpa [attempt, handle, doHandle, dispatchPre, boom] using he.symm
        subst this; rfl)).1
example : ¬ ∀ e, renderOnlyBoom e = true := fun h => by have := h ⟨false, false, 0⟩; simp [renderOnlyBoom] at this

/-- `exception_reported` / `exception_reported_exact` -/
example : (run false (.ok ()) [.pass] (.raise boom) (fun _ => true)).status = some 1 :=
  (exception_reported false (.ok ()) [.pass] (.raise boom) (fun _ => true) (fun _ => rfl) boom rfl).1
example : (run false (.ok ()) [.pass] (.raise boom) renderOnlyBoom).reported = true :=
  (exception_reported_exact false (.ok ()) [.pass] (.raise boom) renderOnlyBoom boom rfl (fun _ => rfl)).2

/-- `status_zero_iff`: the value that reaches the normalisation is the listener's `None` -/
example : (run false (.ok ()) [.handled vNone false] (.raise boom) (fun _ => true)).status = some 0 ↔ vNone.falsy = true :=
  status_zero_iff false [.handled vNone false] (.raise boom) (fun _ => true) vNone rfl

/-- `escape_only_by_render`: with a renderer that fails the exception does escape (the hypothesis of
the theorem is satisfiable) -/
example : (run false (.ok ()) [] (.raise boom) (fun _ => false)).escaped = some boom := by decide
example : (fun _ => false : Exc → Bool) boom = false ∧ boom.keyboardInterrupt = false :=
  escape_only_by_render false (.ok ()) [] (.raise boom) (fun _ => false) boom (by decide)

/-- `handler_once`, right to left: resolution succeeded and the listener passed, so exactly one call -/
example : (run false (.ok ()) [.pass] (.raise boom) (fun _ => true)).handlerCalls = 1 :=
  (handler_once false (.ok ()) [.pass] (.raise boom) (fun _ => true)).2.mpr ⟨rfl, rfl⟩

/-! ## End to end: the composed model of `ConsoleApplication.run` (`Model/App.lean`)

`App.runApp` composes this run model with the switches (C09), the resolver (C03), the parser
(C01/C02) and the help target (C13) in the order of the code; it is compared with the real run of
the default application on every generated case of C09 (driver entry `c09.app_run`).  The theorems
hold for ALL command trees, token lists, conversion tables and handler behaviours. -/

/-- the status/escape shape of every `run`: a status is at most 255; there is none exactly when an
exception escaped; an escaped exception is one whose report failed to render -/
theorem run_shape (debug : Bool) (resolved : Except Exc Unit) (ls : List Listener) (o : Outcome)
    (render : Exc → Bool) :
    let r := run debug resolved ls o render
    (∀ s, r.status = some s → s ≤ 255) ∧ (r.status = none ↔ r.escaped ≠ none) ∧
    (∀ e, r.escaped = some e → render e = false ∧ e.keyboardInterrupt = false) := by
  refine ⟨?_, ?_, fun e he => escape_only_by_render debug resolved ls o render e he⟩
  · intro s hs
    simp only [run] at hs
    cases ha : (attempt debug resolved ls o).1 with
    | ok s' =>
      simp only [ha, conclude, Option.some.injEq] at hs
      subst hs
      exact attempt_status_le _ _ _ _ _ ha
    | error e =>
      simp only [ha, conclude] at hs
      split at hs
      · simp at hs; omega
      · split at hs
        · simp at hs; omega
        · simp at hs
  · simp only [run]
    cases ha : (attempt debug resolved ls o).1 with
    | ok s' => simp [conclude]
    | error e =>
      simp only [conclude]
      split
      · simp
      · split <;> simp


section AppRun
open Clikit.App Clikit.Parser Clikit.Resolver Clikit.Switches Clikit.Help

/-- **The selected handler runs, exactly once, with exactly the parsed args**: no help switch, the
resolver selects `(path, args)`, the args do not have the version option set and the command is not
the `help` command (whose handler is the library's `HelpTextHandler`): the handler of `path` is
called once with `args`, no other handler is called, and the status is the one the run model gives
for its outcome - in particular 0 for a false-y result, the clamped integer otherwise, 1 when it raises
and the report renders. -/
theorem app_runs_selected_handler (env : Env) (cv : Conv) (app : List Cmd) (hs : Handlers) (toks : List Str)
    (path : List Str) (a : Args) (hsw : helpSwitch toks = false) (hr : resolve cv app toks = .ok (path, a))
    (hv : versionSet a = false) (hp : isHelpPath path = false) :
    (runApp env cv app hs toks).invoked = [(path, a)] ∧
    (∀ p ∈ (runApp env cv app hs toks).invoked, p = (path, a)) ∧
    (runApp env cv app hs toks).what = .ran path a (hs path a) ∧
    (runApp env cv app hs toks).status =
      (run (ioDebug (createIO toks env.debug)) (.ok ()) [] (hs path a) env.render).status ∧
    (∀ v s, hs path a = .ret v → normalize v = .ok s → (runApp env cv app hs toks).status = some s) ∧
    (∀ e, hs path a = .raise e → env.render e = true → (runApp env cv app hs toks).status = some 1) := by
  have hrc : resolveCommand cv app toks = .ok (path, a) := by rw [resolveCommand_noswitch cv app toks hsw, hr]
  have hinv : (runApp env cv app hs toks).invoked = [(path, a)] := by
    rw [runApp_ok env cv app hs toks _ _ hrc]
    simp only [hp, hv, run_pass_calls, Bool.false_eq_true, if_false, List.replicate_one]
  have hst : (runApp env cv app hs toks).status =
      (run (ioDebug (createIO toks env.debug)) (.ok ()) [] (hs path a) env.render).status := by
    rw [runApp_ok env cv app hs toks _ _ hrc]
    simp only [hv, run_pass, handlerOutcome, hp, Bool.false_eq_true, if_false]
  refine ⟨hinv, ?_, ?_, hst, ?_, ?_⟩
  · rw [hinv]; intro p hm; exact List.mem_singleton.mp hm
  · rw [runApp_ok env cv app hs toks _ _ hrc]
    simp only [whatOf, hv, hp, Bool.false_eq_true, if_false]
  · intro v s hv' hn
    rw [hst, hv']
    simp [run, attempt, handle, doHandle, dispatchPre, hn, conclude]
  · intro e he hre
    rw [hst, he]
    simp only [run, attempt, handle, doHandle, dispatchPre]
    cases hk : e.keyboardInterrupt <;> cases hd : ioDebug (createIO toks env.debug) <;> simp [conclude, hk, hre]

/-- **At most one handler of the application is invoked in a run**, and it is the one of the command
`resolve_command` selected, called with the args it parsed -/
theorem app_at_most_one_handler (env : Env) (cv : Conv) (app : List Cmd) (hs : Handlers) (toks : List Str) :
    (runApp env cv app hs toks).invoked.length ≤ 1 ∧
    ∀ p ∈ (runApp env cv app hs toks).invoked, resolveCommand cv app toks = .ok p := by
  cases hrc : resolveCommand cv app toks with
  | error e =>
    rw [runApp_error env cv app hs toks _ hrc]
    exact ⟨Nat.zero_le _, fun p hm => by cases hm⟩
  | ok p =>
    obtain ⟨path, a⟩ := p
    rw [runApp_ok env cv app hs toks _ _ hrc]
    simp only
    split
    · exact ⟨Nat.zero_le _, fun p hm => by cases hm⟩
    · refine ⟨?_, fun p hm => by rw [(List.mem_replicate.mp hm).2]⟩
      rw [List.length_replicate]
      exact (handler_once _ (.ok ()) _ _ _).1

/-- **The exit status of every run is an integer in 0..255** (exception catching on): whenever
`run()` returns, it returns a status of at most 255; it does not return exactly when an exception
escaped, and the only exception that can escape is one whose error report failed to render (not a
`KeyboardInterrupt`); with a renderer that works there is always a status. -/
theorem app_status_range (env : Env) (cv : Conv) (app : List Cmd) (hs : Handlers) (toks : List Str) :
    (∀ s, (runApp env cv app hs toks).status = some s → s ≤ 255) ∧
    ((runApp env cv app hs toks).status = none ↔ (runApp env cv app hs toks).escaped ≠ none) ∧
    (∀ e, (runApp env cv app hs toks).escaped = some e → env.render e = false ∧ e.keyboardInterrupt = false) ∧
    ((∀ e, env.render e = true) → ∃ s, (runApp env cv app hs toks).status = some s ∧ s ≤ 255) := by
  have key : ∃ (d : Bool) (rs : Except Exc Unit) (ls : List Listener) (o : Outcome),
      (runApp env cv app hs toks).status = (run d rs ls o env.render).status ∧
      (runApp env cv app hs toks).escaped = (run d rs ls o env.render).escaped := by
    cases hrc : resolveCommand cv app toks with
    | error e => rw [runApp_error env cv app hs toks _ hrc]; exact ⟨_, _, _, _, rfl, rfl⟩
    | ok p => obtain ⟨path, a⟩ := p; rw [runApp_ok env cv app hs toks _ _ hrc]; exact ⟨_, _, _, _, rfl, rfl⟩
  obtain ⟨d, rs, ls, o, h1, h2⟩ := key
  have hsh := run_shape d rs ls o env.render
  rw [h1, h2]
  refine ⟨hsh.1, hsh.2.1, hsh.2.2, fun hr => ?_⟩
  obtain ⟨_, s, hs1, hs2, _⟩ := run_contained d rs ls o env.render hr
  exact ⟨s, hs1, hs2⟩

/-! Non-vacuity on the small application `App.Demo` -/
section Demo
open Clikit.App.Demo

/-- `server add x y`: the handler of `server add` is called once with the two names and returns 3 -/
example : (runApp env cv app hs [S "server", S "add", S "x", S "y"]).invoked =
      [([S "server", S "add"], addArgs ["x", "y"] [])] ∧
    (runApp env cv app hs [S "server", S "add", S "x", S "y"]).status = some 3 :=
  have h := app_runs_selected_handler env cv app hs [S "server", S "add", S "x", S "y"] [S "server", S "add"]
    (addArgs ["x", "y"] []) (by decide) (by decide +kernel) (by decide) (by decide)
  ⟨h.1, h.2.2.2.2.1 v3 3 (by decide) (by decide)⟩

/-- `server`: its handler raises, the report renders: status 1, called once -/
example : (runApp env cv app hs [S "server"]).status = some 1 ∧
    (runApp env cv app hs [S "server"]).invoked = [([S "server"], { args := [], opts := [] })] :=
  have h := app_runs_selected_handler env cv app hs [S "server"] [S "server"] { args := [], opts := [] }
    (by decide) (by decide +kernel) (by decide) (by decide)
  ⟨h.2.2.2.2.2 boom (by decide) rfl, h.1⟩

example : (runApp env cv app hs [S "nope", S "x"]).invoked.length ≤ 1 :=
  (app_at_most_one_handler env cv app hs _).1
example : ∃ s, (runApp env cv app hs [S "nope", S "x"]).status = some s ∧ s ≤ 255 :=
  (app_status_range env cv app hs _).2.2.2 (fun _ => rfl)
/-- an unknown command: reported, status 1, no handler; with a failing renderer the exception escapes -/
example : (runApp env cv app hs [S "nope", S "x"]).status = some 1 ∧
    (runApp env cv app hs [S "nope", S "x"]).what = .error .cannotResolve ∧
    (runApp env cv app hs [S "nope", S "x"]).invoked = [] := by decide +kernel
example : (runApp { debug := false, render := fun _ => false } cv app hs [S "nope", S "x"]).status = none ∧
    (runApp { debug := false, render := fun _ => false } cv app hs [S "nope", S "x"]).escaped =
      some (excOf .cannotResolve) := by decide +kernel

end Demo
end AppRun

/-! ## The PRE_HANDLE listeners come from the event dispatcher (bridge to C12)

`Run.run` takes the listeners as a list in calling order.  In the code they are registered with
priorities on the configuration's `EventDispatcher` (together with listeners for other events) and
`Command._do_handle` calls `dispatcher.dispatch(PRE_HANDLE, event)`.  `Model/RunListeners.lean` builds
the list from a registration history BY RUNNING THE DISPATCHER MODEL of C12
(`orderOf`, `runWithDispatcher`); the theorems below say that the two models call the same listeners
in the same order, and what that order depends on.  Tied to the real run by the driver entry
`c04.run_regs` (shuffled registrations with explicit, also equal, priorities and registrations for other
events: status, handler calls and the listener call log are compared). -/
section Listeners
open Clikit.RunListeners

/-- **The run model and the dispatcher model call the same listeners in the same order.**
For every registration history: the dispatcher model (the code's priority dicts, sort and cache) runs the
registrations followed by the `dispatch(PRE_HANDLE, event)` of `_do_handle` without a `KeyError`, and what it
calls is C12's `callSeq` of the registration log (`Props.C12.dispatch_spec`: the prefix of `specOrder` for
PRE_HANDLE through the first callable at which the walk ends).  The list handed to `Run.run` is `specOrder`
itself, read back as registrations; the listeners `dispatchPre` consults on it (`dispatchPreLog` is
`dispatchPre` plus a call log) are exactly the registrations the dispatcher calls, in that order - the prefix
of the list through the first listener that stops propagation or raises - and the positions reported to the
harness (`listenerCalls`) are theirs. -/
theorem listeners_called_in_priority_order (regs : List Registration) :
    ∃ s outs called stopped,
      Dispatcher.run Dispatcher.init (opsOf regs ++ [.dispatch preHandle false]) = .ok (s, outs) ∧
      outs[regs.length]? = some (.called called stopped) ∧
      called = (Dispatcher.callSeq (regLog regs) preHandle false).map (fun r => r.l) ∧
      called = calledOf regs ∧
      orderOf regs =
        ((Dispatcher.specOrder (regLog regs) preHandle).filterMap (fun r => back regs r.l)).map (fun r => r.l) ∧
      (∀ h, (dispatchPreLog (orderOf regs) h).1 = dispatchPre (orderOf regs) h) ∧
      (∀ h, (dispatchPreLog (orderOf regs) h).2 = consulted (orderOf regs)) ∧
      consulted (orderOf regs) = (called.filterMap (back regs)).map (fun r => r.l) ∧
      consulted (orderOf regs) = Dispatcher.takeThrough halts (orderOf regs) ∧
      listenerCalls (.ok ()) regs = called.map (fun d => d.id) ∧
      (∀ x ∈ Dispatcher.specOrder (regLog regs) preHandle,
        ∃ r, back regs x.l = some r ∧ r.ev = preHandle ∧ r.prio = x.prio ∧ halts r.l = x.l.stops) := by
  obtain ⟨s, outs, h1, h2⟩ := Props.C12.dispatch_spec (opsOf regs) preHandle false []
  rw [logOf_opsOf] at h2
  have hlen : (opsOf regs).length = regs.length := by simp [opsOf, regLog]
  rw [hlen] at h2
  refine ⟨s, outs, _, _, h1, h2, rfl, (calledOf_eq regs).symm, orderOf_spec regs,
    fun h => dispatchPreLog_fst _ h, fun h => ?_, ?_, consulted_eq _, ?_, ?_⟩
  · rw [dispatchPreLog_snd, consulted_eq]
  · rw [consulted_orderOf, List.filterMap_map]
    rfl
  · simp only [listenerCalls, calledOf_eq]
  · intro x hx
    obtain ⟨hm, he⟩ := mem_specOrder_log hx
    obtain ⟨r, hr, h3, h4, h5⟩ := back_of_mem hm
    exact ⟨r, hr, h3.trans he, h4, h5⟩

/-- **Priority decides, registration order only breaks ties.**  The registrations in calling order
(`orderedRegs`, `orderOf` = their listeners) are the PRE_HANDLE registrations of the history, sorted by
descending priority, and within every priority in registration order (a stable sort).  Hence two histories
that register, for every priority, the same PRE_HANDLE listeners in the same relative order - any
permutation that only moves registrations of DIFFERENT priorities past each other - give the same
calling order and the same run. -/
theorem registration_order_irrelevant_across_priorities (regs regs' : List Registration) :
    (orderedRegs regs).Perm (regs.filter (fun r => r.ev == preHandle)) ∧
    (orderedRegs regs).Pairwise (fun a b => a.prio ≥ b.prio) ∧
    (∀ p, (orderedRegs regs).filter (fun r => r.prio == p) =
          regs.filter (fun r => r.ev == preHandle && r.prio == p)) ∧
    ((∀ p, regs.filter (fun r => r.ev == preHandle && r.prio == p) =
           regs'.filter (fun r => r.ev == preHandle && r.prio == p)) →
      orderOf regs = orderOf regs' ∧
      ∀ debug resolved outcome render,
        runWithDispatcher debug resolved regs outcome render =
        runWithDispatcher debug resolved regs' outcome render) := by
  refine ⟨orderedRegs_perm regs, orderedRegs_desc regs, orderedRegs_byKey regs, fun h => ?_⟩
  have ho : orderOf regs = orderOf regs' := by rw [orderOf, orderOf, orderedRegs_congr regs regs' h]
  exact ⟨ho, fun _ _ _ _ => by rw [runWithDispatcher, runWithDispatcher, ho]⟩

/-- the elementary permutation: two neighbouring registrations of different priorities (or for different
events) may be swapped -/
theorem registration_swap_across_priorities (a b : List Registration) (x y : Registration)
    (hne : x.prio ≠ y.prio ∨ x.ev ≠ y.ev) (debug : Bool) (resolved : Except Exc Unit) (outcome : Outcome)
    (render : Exc → Bool) :
    runWithDispatcher debug resolved (a ++ x :: y :: b) outcome render =
    runWithDispatcher debug resolved (a ++ y :: x :: b) outcome render := by
  refine ((registration_order_irrelevant_across_priorities _ _).2.2.2 ?_).2 debug resolved outcome render
  intro p
  simp only [List.filter_append, List.filter_cons]
  by_cases hx : (x.ev == preHandle && x.prio == p) = true <;>
    by_cases hy : (y.ev == preHandle && y.prio == p) = true <;> simp only [hx, hy, if_true]
  · exfalso
    simp only [Bool.and_eq_true, beq_iff_eq] at hx hy
    rcases hne with h | h
    · exact h (hx.2.trans hy.2.symm)
    · exact h (hx.1.trans hy.1.symm)
  all_goals simp_all

/-- **Registrations for other events do not matter**: the run depends on the PRE_HANDLE registrations of the
history only (what is registered for PRE_RESOLVE, CONFIG or any other name, and where in the history, is
irrelevant to `Command.handle`). -/
theorem other_events_irrelevant (regs regs' : List Registration)
    (h : regs.filter (fun r => r.ev == preHandle) = regs'.filter (fun r => r.ev == preHandle)) :
    orderOf regs = orderOf regs' ∧
    orderOf regs = orderOf (regs.filter (fun r => r.ev == preHandle)) ∧
    ∀ debug resolved outcome render,
      runWithDispatcher debug resolved regs outcome render =
      runWithDispatcher debug resolved regs' outcome render := by
  have key : ∀ (r1 r2 : List Registration),
      r1.filter (fun r => r.ev == preHandle) = r2.filter (fun r => r.ev == preHandle) →
      ∀ p, r1.filter (fun r => r.ev == preHandle && r.prio == p) =
           r2.filter (fun r => r.ev == preHandle && r.prio == p) := by
    intro r1 r2 h12 p
    have e : ∀ l : List Registration, l.filter (fun r => r.ev == preHandle && r.prio == p) =
        (l.filter (fun r => r.ev == preHandle)).filter (fun r => r.prio == p) := by
      intro l; rw [List.filter_filter]; congr 1; funext r; exact Bool.and_comm _ _
    rw [e r1, e r2, h12]
  have h1 := (registration_order_irrelevant_across_priorities regs regs').2.2.2 (key _ _ h)
  have h2 := (registration_order_irrelevant_across_priorities regs (regs.filter (fun r => r.ev == preHandle))).2.2.2
    (key _ _ (by rw [List.filter_filter]; simp))
  exact ⟨h1.1, h2.1, h1.2⟩

/-- **Marking the command handled does not stop the other listeners; the last status code wins.**
What `dispatchPre` does (and `Command._do_handle` + `EventDispatcher._do_dispatch` do: the loop only looks at
`event.is_propagation_stopped()`, `is_handled()` is read after the dispatch, `set_status_code` overwrites):
* the listeners behind a listener that handles without stopping are consulted as if it were not there, with
  its code on the event;
* if no listener stops or raises, all are consulted;
* the result is the exception of the listener that raised if the walk ended that way, otherwise the code set
  by the LAST consulted listener that marked the command handled (none: the event is not handled);
* once any consulted listener handled the command and none raised, the handler is not invoked. -/
theorem handled_does_not_stop (ls : List Listener) (h : Option RetVal) :
    (∀ pre c rest, ls = pre ++ .handled c false :: rest → (∀ x ∈ pre, halts x = false) →
      consulted ls = pre ++ .handled c false :: consulted rest ∧
      dispatchPre ls h = dispatchPre rest (some c)) ∧
    ((∀ x ∈ ls, halts x = false) → consulted ls = ls ∧ dispatchPre ls h = .ok (lastHandled ls h)) ∧
    (dispatchPre ls h = match (consulted ls).getLast? with
      | some (.fail e) => .error e
      | _ => .ok (lastHandled (consulted ls) h)) ∧
    (∀ a c s b, consulted ls = a ++ .handled c s :: b → (∀ x ∈ b, isHandled x = false) →
      lastHandled (consulted ls) h = some c) ∧
    (∀ debug resolved outcome render, (∃ x ∈ consulted ls, isHandled x = true) →
      (run debug resolved ls outcome render).handlerCalls = 0) := by
  have hres := dispatchPre_eq ls h
  rw [← consulted_eq] at hres
  refine ⟨?_, ?_, hres, ?_, ?_⟩
  · intro pre c rest hls hpre
    subst hls
    constructor
    · rw [consulted_eq, consulted_eq, takeThrough_append_of_false _ _ _ hpre]
      simp [Dispatcher.takeThrough, halts]
    · rw [dispatchPre_eq, dispatchPre_eq rest (some c), takeThrough_append_of_false _ _ _ hpre]
      have e : Dispatcher.takeThrough halts (Listener.handled c false :: rest) =
          .handled c false :: Dispatcher.takeThrough halts rest := by simp [Dispatcher.takeThrough, halts]
      rw [e, lastHandled_append]
      cases hr : Dispatcher.takeThrough halts rest with
      | nil => simp [lastHandled]
      | cons u v =>
        obtain ⟨z, hz⟩ : ∃ z, (u :: v).getLast? = some z := ⟨_, List.getLast?_eq_some_getLast (by simp)⟩
        simp [lastHandled, List.getLast?_cons_cons, hz]
  · intro hall
    have hc : consulted ls = ls := by rw [consulted_eq, takeThrough_all_false _ _ hall]
    refine ⟨hc, ?_⟩
    rw [hres, hc]
    cases hl : ls.getLast? with
    | none => rfl
    | some x =>
      have hx := hall x (List.mem_of_getLast? hl)
      cases x <;> simp_all [halts]
  · intro a c s b hc hb
    rw [hc, lastHandled_append]
    simp only [lastHandled]
    exact lastHandled_of_none_handled b (some c) hb
  · intro debug resolved outcome render hx
    have hle := (handler_once debug resolved ls outcome render).1
    have hiff := (handler_once debug resolved ls outcome render).2
    have hne : dispatchPre ls none ≠ .ok none := by
      have hres0 := dispatchPre_eq ls none
      rw [← consulted_eq] at hres0
      rw [hres0]
      have hs := lastHandled_isSome_of_mem (consulted ls) none (Or.inl hx)
      split
      · intro hcontra; cases hcontra
      · intro hcontra
        simp only [Except.ok.injEq] at hcontra
        rw [hcontra] at hs
        cases hs
    have : (run debug resolved ls outcome render).handlerCalls ≠ 1 := fun h1 => hne (hiff.1 h1).2
    omega

/-! Non-vacuity of the bridge (concrete histories, evaluated through C12's specification order) -/
def code3 : RetVal := { falsy := false, toInt := .ok 3 }
def code5 : RetVal := { falsy := false, toInt := .ok 5 }
/-- an event name that is not PRE_HANDLE -/
def otherEvent : Nat := 2

/-- `listeners_called_in_priority_order`: registered as (priority 1: pass), (9: handle 3, no stop),
(9: stop), (5: handle 5): the run consults positions 1 and 2 only, the status is 3 -/
example : listenerCalls (.ok ()) [⟨preHandle, 1, .pass⟩, ⟨preHandle, 9, .handled code3 false⟩,
      ⟨preHandle, 9, .stopOnly⟩, ⟨preHandle, 5, .handled code5 false⟩] = [1, 2] ∧
    (runWithDispatcher false (.ok ()) [⟨preHandle, 1, .pass⟩, ⟨preHandle, 9, .handled code3 false⟩,
      ⟨preHandle, 9, .stopOnly⟩, ⟨preHandle, 5, .handled code5 false⟩] (.raise boom) (fun _ => true)).status
      = some 3 := by
  simp only [listenerCalls, calledOf_eq, runWithDispatcher, orderOf_spec]
  decide

/-- **equal priorities: registration order matters.**  Two listeners of the same priority that both mark the
command handled without stopping: the LAST one's status wins, so swapping them changes the status
(stability is observable) ... -/
example :
    (runWithDispatcher false (.ok ()) [⟨preHandle, 4, .handled code3 false⟩, ⟨preHandle, 4, .handled code5 false⟩]
      (.ret vNone) (fun _ => true)).status = some 5 ∧
    (runWithDispatcher false (.ok ()) [⟨preHandle, 4, .handled code5 false⟩, ⟨preHandle, 4, .handled code3 false⟩]
      (.ret vNone) (fun _ => true)).status = some 3 := by
  simp only [runWithDispatcher, orderOf_spec]
  decide

/-- ... while with different priorities the swap changes nothing (instance of the theorem; the value is 3:
the listener of priority 2 runs last) -/
example :
    runWithDispatcher false (.ok ()) [⟨preHandle, 2, .handled code3 false⟩, ⟨preHandle, 7, .handled code5 false⟩]
      (.ret vNone) (fun _ => true) =
    runWithDispatcher false (.ok ()) [⟨preHandle, 7, .handled code5 false⟩, ⟨preHandle, 2, .handled code3 false⟩]
      (.ret vNone) (fun _ => true) :=
  registration_swap_across_priorities [] [] _ _ (Or.inl (by decide)) _ _ _ _
example :
    (runWithDispatcher false (.ok ()) [⟨preHandle, 2, .handled code3 false⟩, ⟨preHandle, 7, .handled code5 false⟩]
      (.ret vNone) (fun _ => true)).status = some 3 := by
  simp only [runWithDispatcher, orderOf_spec]
  decide

/-- `other_events_irrelevant`: a failing listener of top priority registered for ANOTHER event does not take
part: the run is the one of the PRE_HANDLE registration alone (status 5, handler not invoked) -/
example :
    runWithDispatcher false (.ok ()) [⟨otherEvent, 99, .fail boom⟩, ⟨preHandle, 0, .handled code5 true⟩,
      ⟨otherEvent, 0, .stopOnly⟩] (.raise boom) (fun _ => true) =
    runWithDispatcher false (.ok ()) [⟨preHandle, 0, .handled code5 true⟩] (.raise boom) (fun _ => true) :=
  (other_events_irrelevant _ _ (by simp [preHandle, otherEvent])).2.2 _ _ _ _
example :
    let r := runWithDispatcher false (.ok ()) [⟨otherEvent, 99, .fail boom⟩, ⟨preHandle, 0, .handled code5 true⟩,
      ⟨otherEvent, 0, .stopOnly⟩] (.raise boom) (fun _ => true)
    r.status = some 5 ∧ r.handlerCalls = 0 := by
  simp only [runWithDispatcher, orderOf_spec]
  decide

/-- `handled_does_not_stop`: handled(3) without stop, then pass, then handled(5) without stop, then pass:
all four are consulted, the status is the LAST code (5), the handler is not invoked; with the first one
stopping, only it is consulted and the status is 3 -/
example : consulted [.handled code3 false, .pass, .handled code5 false, .pass] =
      [.handled code3 false, .pass, .handled code5 false, .pass] ∧
    dispatchPre [.handled code3 false, .pass, .handled code5 false, .pass] none = .ok (some code5) :=
  have h := (handled_does_not_stop [.handled code3 false, .pass, .handled code5 false, .pass] none).2.1
    (by intro x hx; simp at hx; rcases hx with rfl | rfl | rfl | rfl <;> rfl)
  ⟨h.1, h.2⟩
example :
    let r := run false (.ok ()) [.handled code3 false, .pass, .handled code5 false, .pass] (.raise boom) (fun _ => true)
    r.status = some 5 ∧ r.handlerCalls = 0 := by decide
example : (run false (.ok ()) [.handled code3 false, .pass, .handled code5 false, .pass] (.raise boom)
    (fun _ => true)).handlerCalls = 0 :=
  (handled_does_not_stop _ none).2.2.2.2 _ _ _ _ ⟨.handled code3 false, by simp [consulted, dispatchPreLog], rfl⟩
example : let r := run false (.ok ()) [.handled code3 true, .pass, .handled code5 false] (.raise boom) (fun _ => true)
    r.status = some 3 ∧ r.handlerCalls = 0 := by decide

/-- the one registration of `DefaultApplicationConfig` (`print_version`, priority 0): the list `runApp` passes
to `Run.run` is the dispatcher's order of that history -/
example (l : Listener) : orderOf [⟨preHandle, 0, l⟩] = [l] := by
  rw [orderOf_spec]
  rfl

end Listeners

/-! ## How the handler is wired to the command (`Model/Wiring.lean`)

`set_handler` takes the handler itself or anything that can be called to build it (a function, the handler class, a
partial, an object with `__call__`), `set_handler_method` the name of the method to invoke.  The driver entries
`c04.run` / `c04.run_regs` take the wiring of a case and answer with `runWired`. -/
section Wiring

/-- **However the handler is wired, the run is the run of that handler**: a handler instance, and every lazy
factory that builds it (a function, the handler class itself, a partial, an object that can be called) give
exactly the run of the run model for the handler's outcome - same status, report, escape and number of
invocations; so every theorem about `run` (status_range, handler_once, run_contained, ...) holds for it. -/
theorem wired_handler_runs (debug : Bool) (resolved : Except Exc Unit) (ls : List Listener) (o : Outcome)
    (render : Exc → Bool) :
    runWired debug resolved ls (.object (.handler o)) render = run debug resolved ls o render ∧
    runWired debug resolved ls (.factory (.ok (.handler o))) render = run debug resolved ls o render := by
  constructor <;> simp [runWired, wiredResult, Stored.call, Stored.target]

/-- the handler is invoked exactly once iff the line resolved, no pre-handle listener handled the event or failed,
and the wiring reaches an object with the handler method; never more than once -/
theorem wired_handler_once (debug : Bool) (resolved : Except Exc Unit) (ls : List Listener) (s : Stored)
    (render : Exc → Bool) :
    (runWired debug resolved ls s render).handlerCalls ≤ 1 ∧
    ((runWired debug resolved ls s render).handlerCalls = 1 ↔
      (resolved = .ok () ∧ dispatchPre ls none = .ok none ∧ ∃ o, s.target = .ok (.handler o))) := by
  have h := handler_once debug resolved ls s.call.1 render
  have hc : s.call.2 = 1 ∧ (∃ o, s.target = .ok (.handler o)) ∨ s.call.2 = 0 ∧ ¬ (∃ o, s.target = .ok (.handler o)) := by
    unfold Stored.call
    cases ht : s.target with
    | error e => right; simp
    | ok t => cases t with
      | handler o => left; simp
      | broken e => right; simp
  simp only [runWired, wiredResult]
  rcases hc with ⟨h1, h2⟩ | ⟨h1, h2⟩
  · rw [h1, Nat.mul_one]
    exact ⟨h.1, by rw [h.2]; simp [h2]⟩
  · rw [h1, Nat.mul_zero]
    exact ⟨Nat.zero_le _, by simp [h2]⟩

/-- **A command without a usable handler is contained like any failing handler**: nothing set, a factory that
raises or builds an object without the handler method - when the line resolved and no listener took over, the
run ends in status 1 with a report (the renderer working), nothing escapes and no handler code ran -/
theorem wired_unusable_contained (debug : Bool) (ls : List Listener) (s : Stored) (render : Exc → Bool)
    (hr : ∀ e, render e = true) (hd : dispatchPre ls none = .ok none)
    (hs : ¬ ∃ o, s.target = .ok (.handler o))
    (hk : ∀ e, s.call.1 = .raise e → e.keyboardInterrupt = false) :
    (runWired debug (.ok ()) ls s render).status = some 1 ∧
    (runWired debug (.ok ()) ls s render).reported = true ∧
    (runWired debug (.ok ()) ls s render).escaped = none ∧
    (runWired debug (.ok ()) ls s render).handlerCalls = 0 := by
  obtain ⟨e, he⟩ : ∃ e, s.call.1 = .raise e := by
    unfold Stored.call
    cases ht : s.target with
    | error e => exact ⟨e, rfl⟩
    | ok t => cases t with
      | handler o => exact absurd ⟨o, ht⟩ hs
      | broken e => exact ⟨e, rfl⟩
  have hke := hk e he
  have hat : (attempt debug (.ok ()) ls s.call.1).1 = .error e := by
    simp [attempt, handle, doHandle, hd, he, hke]
  have h1 := exception_reported debug (.ok ()) ls s.call.1 render hr e hat
  have h2 := (run_contained debug (.ok ()) ls s.call.1 render hr).1
  have h3 := (wired_handler_once debug (.ok ()) ls s render)
  refine ⟨h1.1, ?_, h2, ?_⟩
  · have := h1.2
    simp only [hke, Bool.not_false] at this
    exact this
  · have : (runWired debug (.ok ()) ls s render).handlerCalls ≠ 1 := fun h => hs (h3.2.mp h).2.2
    omega

/-- a handler class given as the factory, its `handle` returns 300: status 255, one invocation -/
example : let r := runWired false (.ok ()) [] (.factory (.ok (.handler (.ret { falsy := false, toInt := .ok 300 })))) (fun _ => true)
    r.status = some 255 ∧ r.handlerCalls = 1 ∧ r.reported = false := by decide
/-- no handler set: status 1 with a report, nothing invoked; a factory that raises: the same -/
example : let r := runWired false (.ok ()) [] (.unset ⟨false, false, 98⟩) (fun _ => true)
    r.status = some 1 ∧ r.handlerCalls = 0 ∧ r.reported = true ∧ r.escaped = none := by decide
/-- the same through the theorem, all hypotheses discharged -/
example : (runWired false (.ok ()) [] (.unset ⟨false, false, 98⟩) (fun _ => true)).status = some 1 :=
  (wired_unusable_contained false [] (.unset ⟨false, false, 98⟩) _ (fun _ => rfl) rfl (by simp [Stored.target])
    (by intro e h; simp only [Stored.call, Stored.target] at h; cases h; rfl)).1
example : let r := runWired true (.ok ()) [.pass] (.factory (.error ⟨false, false, 97⟩)) (fun _ => true)
    r.status = some 1 ∧ r.handlerCalls = 0 ∧ r.reported = true := by decide
/-- a listener that handled the event: the wiring is never looked at -/
example : let r := runWired false (.ok ()) [.handled { falsy := false, toInt := .ok 5 } true] (.unset ⟨false, false, 98⟩) (fun _ => true)
    r.status = some 5 ∧ r.handlerCalls = 0 ∧ r.reported = false := by decide

end Wiring

/-! ## The selected command is ANY command of the tree (`Model/CommandTree.lean`)

The resolver may select a top-level command, a named / default / anonymous sub-command, or a sub-command of a
sub-command.  Every theorem above takes "the PRE_HANDLE listeners" as a parameter `ls`; these say that for the
command trees `ConsoleApplication` builds the parameter is the same for every command of the tree: the listeners
registered on the APPLICATION's dispatcher. -/

/-- Every command reached by descending into the tree `Command.__init__` builds for an application - at any
depth - belongs to that application and holds the application's dispatcher. -/
theorem sub_command_dispatcher (app : CommandTree.App) (tree : CommandTree.Cfg) (path : List Nat) (c : CommandTree.Cmd)
    (h : CommandTree.descend (CommandTree.build (some app) tree) path = some c) :
    c.dispatcher = some app.dispatcher ∧ c.application = some app := by
  rw [CommandTree.descend_build] at h
  cases hd : CommandTree.descendCfg tree path with
  | none => simp [hd] at h
  | some t =>
    simp only [hd, Option.map_some, Option.some.injEq] at h
    subst h
    exact ⟨by simp [CommandTree.build_dispatcher], by simp [CommandTree.build_application]⟩

/-- Hence the selected command - wherever it sits in the tree - consults exactly the listeners registered on the
application's dispatcher ... -/
theorem sub_command_listeners {α : Type} (app : CommandTree.App) (tree : CommandTree.Cfg) (path : List Nat) (ls : List α) :
    CommandTree.consultedAt app tree path ls = (CommandTree.descendCfg tree path).map (fun _ => ls) := by
  unfold CommandTree.consultedAt
  rw [CommandTree.descend_build]
  cases hd : CommandTree.descendCfg tree path with
  | none => simp
  | some t => simp [CommandTree.consulted, CommandTree.build_dispatcher]

/-- ... and its run is the run of the run model with those listeners: everything proved above about `Run.run`
(status range, containment, the handler invoked once iff no listener handled the event or failed, the listener
order of the bridge) holds for a run that selects a sub-command at any depth. -/
theorem sub_command_run (debug : Bool) (resolved : Except Exc Unit) (app : CommandTree.App) (tree : CommandTree.Cfg)
    (path : List Nat) (ls : List Listener) (h : Outcome) (render : Exc → Bool) :
    CommandTree.runAt debug resolved app tree path ls h render =
      (CommandTree.descendCfg tree path).map (fun _ => run debug resolved ls h render) := by
  unfold CommandTree.runAt
  rw [sub_command_listeners]
  cases CommandTree.descendCfg tree path <;> rfl

/-- (the other branch of `Command.__init__`) a command tree built WITHOUT an application has no dispatcher
anywhere: its commands consult no listener. -/
theorem command_without_application (tree : CommandTree.Cfg) (path : List Nat) (c : CommandTree.Cmd)
    (h : CommandTree.descend (CommandTree.build none tree) path = some c) (app : CommandTree.App) (ls : List Listener) :
    c.dispatcher = none ∧ CommandTree.consulted app c ls = [] := by
  rw [CommandTree.descend_build] at h
  cases hd : CommandTree.descendCfg tree path with
  | none => simp [hd] at h
  | some t =>
    simp only [hd, Option.map_some, Option.some.injEq] at h
    subst h
    simp [CommandTree.consulted, CommandTree.build_dispatcher]

/-- non-vacuity: `pkg` with sub-commands `add` and `repo`, `repo` with a sub-command of its own; the command two
levels down consults the application's listeners, a handling listener there replaces the handler (status 7, no
invocation) -/
example : ∃ r,
    CommandTree.runAt false (.ok ()) ⟨0, 5⟩ (.node [.node [], .node [.node []]]) [1, 0]
      [.handled ⟨false, .ok 7⟩ false] (.ret ⟨true, .ok 0⟩) (fun _ => true) = some r ∧
    r.status = some 7 ∧ r.reported = false ∧ r.handlerCalls = 0 := by
  rw [sub_command_run]
  exact ⟨_, rfl, by decide⟩

/-- ... and a path that names no command is no run -/
example : CommandTree.runAt false (.ok ()) ⟨0, 5⟩ (.node [.node []]) [3] [] (.ret ⟨true, .ok 0⟩) (fun _ => true) = none := by
  rw [sub_command_run]; rfl

/-! ## Non-vacuity of the theorems added in rounds 8-9 (hypothesis audit) -/

section AuditR9
open Clikit Clikit.Run

/-- `sub_command_dispatcher` / `command_without_application` applied (the hypothesis binds the command the path
reaches): `pkg` with sub-commands `add` and `repo`, `repo` with one of its own - the command two levels down holds the
application's dispatcher 5; the same tree built without an application consults nobody -/
example : ∃ c, CommandTree.descend (CommandTree.build (some ⟨0, 5⟩) (.node [.node [], .node [.node []]])) [1, 0] = some c ∧
    c.dispatcher = some 5 ∧ c.application = some ⟨0, 5⟩ :=
  ⟨_, rfl, sub_command_dispatcher ⟨0, 5⟩ (.node [.node [], .node [.node []]]) [1, 0] _ rfl⟩
example : ∃ c, CommandTree.descend (CommandTree.build none (.node [.node [], .node [.node []]])) [1, 0] = some c ∧
    c.dispatcher = none ∧ CommandTree.consulted ⟨0, 5⟩ c [Listener.pass] = [] :=
  ⟨_, rfl, command_without_application (.node [.node [], .node [.node []]]) [1, 0] _ rfl ⟨0, 5⟩ [.pass]⟩

end AuditR9

end Clikit.Props.C04
