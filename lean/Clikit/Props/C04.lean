import Clikit.Model.Run
/-!
# C04 - a run always ends in a valid exit status and never leaks a handler failure

Theorems about the model `Clikit.Run` of `ConsoleApplication.run` / `Command.handle`.  The status
normalisation `Gen.C04.clampStatus` is regenerated from `Command.handle` on every run.
-/
namespace Clikit.Props.C04
open Clikit Clikit.Run

/-- the generated expression is the clamp into 1..255 -/
theorem clampStatus_range (n : Int) :
    1 ≤ Gen.C04.clampStatus n ∧ Gen.C04.clampStatus n ≤ 255 ∧
    (1 ≤ n → n ≤ 255 → Gen.C04.clampStatus n = n) ∧ (n < 1 → Gen.C04.clampStatus n = 1) ∧
    (255 < n → Gen.C04.clampStatus n = 255) := by
  unfold Gen.C04.clampStatus
  omega

/-- **Exit status of a returned value**: 0 exactly for a false-y result, otherwise the integer
result clamped into 1..255 (or the exception `int()` raises). -/
theorem status_range (v : RetVal) (s : Nat) (h : normalize v = .ok s) :
    s ≤ 255 ∧ (s = 0 ↔ v.falsy = true) ∧
    (v.falsy = false → ∃ n, v.toInt = .ok n ∧ (s : Int) = Gen.C04.clampStatus n) := by
  unfold normalize at h
  cases hf : v.falsy with
  | true => simp [hf] at h; subst h; simp
  | false =>
    simp only [hf, Bool.false_eq_true, if_false] at h
    cases ht : v.toInt with
    | error e => simp [ht] at h
    | ok n =>
      simp only [ht, Except.ok.injEq] at h
      have hr := clampStatus_range n
      subst h
      refine ⟨by omega, ⟨fun h0 => by omega, fun h0 => by cases h0⟩, fun _ => ⟨n, rfl, by omega⟩⟩

/-- number of handler invocations in the `try` block -/
theorem attempt_calls (debug : Bool) (resolved : Except Exc Unit) (ls : List Listener) (h : Outcome) :
    (attempt debug resolved ls h).2 ≤ 1 ∧
    ((attempt debug resolved ls h).2 = 1 ↔ (resolved = .ok () ∧ dispatchPre ls none = .ok none)) := by
  cases resolved with
  | error e => simp [attempt]
  | ok u =>
    cases hd : dispatchPre ls none with
    | error e =>
      simp only [attempt, handle, doHandle, hd]
      split <;> simp
    | ok o =>
      cases o with
      | some c => simp [attempt, handle, doHandle, hd]
      | none =>
        cases h with
        | ret v => simp [attempt, handle, doHandle, hd]
        | raise e =>
          simp only [attempt, handle, doHandle, hd]
          split <;> simp

theorem conclude_calls (render : Exc → Bool) (r : Except Exc Nat) (n : Nat) : (conclude render r n).handlerCalls = n := by
  unfold conclude
  split
  · rfl
  · split
    · rfl
    · split <;> rfl

/-- **The handler is invoked at most once; exactly once iff resolution succeeded and no pre-handle
listener handled the event or failed** (no other handler exists in a run: the model has one call
site, as the code does). -/
theorem handler_once (debug : Bool) (resolved : Except Exc Unit) (ls : List Listener) (h : Outcome)
    (render : Exc → Bool) :
    (run debug resolved ls h render).handlerCalls ≤ 1 ∧
    ((run debug resolved ls h render).handlerCalls = 1 ↔ (resolved = .ok () ∧ dispatchPre ls none = .ok none)) := by
  simp only [run, conclude_calls]
  exact attempt_calls debug resolved ls h

/-- a status produced inside the `try` block is in range -/
theorem attempt_status_le (debug : Bool) (resolved : Except Exc Unit) (ls : List Listener) (h : Outcome) (s : Nat)
    (hs : (attempt debug resolved ls h).1 = .ok s) : s ≤ 255 := by
  cases resolved with
  | error e => simp [attempt] at hs
  | ok u =>
    simp only [attempt, handle] at hs
    split at hs
    · split at hs
      · simp at hs; omega
      · simp at hs
    · rename_i v n _
      exact (status_range v s hs).1

/-- **Containment**: if rendering the report does not itself fail, nothing escapes `run()`, the
status is in 0..255, every `Exception` ends in status 1 (non-zero) with a printed report, and a
`KeyboardInterrupt` in status 1 without one. -/
theorem run_contained (debug : Bool) (resolved : Except Exc Unit) (ls : List Listener) (h : Outcome)
    (render : Exc → Bool) (hr : ∀ e, render e = true) :
    (run debug resolved ls h render).escaped = none ∧
    ∃ s, (run debug resolved ls h render).status = some s ∧ s ≤ 255 ∧
      ((run debug resolved ls h render).reported = true → s = 1) := by
  simp only [run]
  cases ha : (attempt debug resolved ls h).1 with
  | ok s => exact ⟨rfl, s, rfl, attempt_status_le _ _ _ _ _ ha, by simp [conclude]⟩
  | error e =>
    simp only [conclude]
    split
    · exact ⟨rfl, 1, rfl, by omega, by simp⟩
    · simp [hr e]

/-- every exception of class `Exception` that reaches `run()` ends in a non-zero status together
with a printed report; `KeyboardInterrupt` in status 1 without a report -/
theorem exception_reported (debug : Bool) (resolved : Except Exc Unit) (ls : List Listener) (h : Outcome)
    (render : Exc → Bool) (hr : ∀ e, render e = true) (e : Exc)
    (he : (attempt debug resolved ls h).1 = .error e) :
    (run debug resolved ls h render).status = some 1 ∧
    ((run debug resolved ls h render).reported = !e.keyboardInterrupt) := by
  simp only [run, he, conclude]
  cases hk : e.keyboardInterrupt <;> simp [hr e]

/-- the run reports status 0 exactly when the value that reached the normalisation is false-y
(the handler's result, or the status code set by a pre-handle listener that handled the event) -/
theorem status_zero_iff (debug : Bool) (ls : List Listener) (h : Outcome) (render : Exc → Bool) (v : RetVal)
    (hv : (doHandle ls h).1 = .ok v) :
    (run debug (.ok ()) ls h render).status = some 0 ↔ v.falsy = true := by
  have hh : (attempt debug (.ok ()) ls h).1 = normalize v := by
    simp only [attempt, handle]
    cases hd : doHandle ls h with
    | mk r n =>
      rw [hd] at hv
      simp only at hv
      subst hv
      rfl
  simp only [run, hh]
  cases hn : normalize v with
  | ok s =>
    have := (status_range v s hn).2.1
    simp [conclude, this]
  | error e =>
    have hf : v.falsy = false := by
      unfold normalize at hn
      cases hf : v.falsy with
      | true => simp [hf] at hn
      | false => rfl
    simp only [conclude, hf]
    split <;> (try split) <;> simp

/-- a failing renderer is the only way an exception can escape (C20 characterises when rendering
fails; after the D9/D10/D27 repairs the message and the source can no longer make it fail) -/
theorem escape_only_by_render (debug : Bool) (resolved : Except Exc Unit) (ls : List Listener) (h : Outcome)
    (render : Exc → Bool) (e : Exc) (he : (run debug resolved ls h render).escaped = some e) :
    render e = false ∧ e.keyboardInterrupt = false := by
  simp only [run, conclude] at he
  split at he
  · cases he
  · split at he
    · cases he
    · split at he
      · cases he
      · rename_i e' hk hrd
        simp at he; subst he
        simp at hk hrd
        exact ⟨hrd, hk⟩

/-! Non-vacuity -/
def v300 : RetVal := { falsy := false, toInt := .ok 300 }
def vNone : RetVal := { falsy := true, toInt := .error ⟨false, false, 0⟩ }
def boom : Exc := ⟨false, false, 7⟩
example : (run false (.ok ()) [] (.ret v300) (fun _ => true)).status = some 255 := by decide
example : (run false (.ok ()) [] (.ret vNone) (fun _ => true)).status = some 0 := by decide
example : let r := run false (.ok ()) [.pass] (.raise boom) (fun _ => true)
    r.status = some 1 ∧ r.reported = true ∧ r.handlerCalls = 1 := by decide
example : (run false (.ok ()) [.handled v300 false] (.raise boom) (fun _ => true)).handlerCalls = 0 := by decide

/-! ## The renderer hypothesis, in its exact form

`run_contained` / `exception_reported` assume that rendering NEVER fails (`∀ e, render e = true`).
Only the report of the one exception that reaches the `except` clause matters; the theorems below
take exactly that (and the first one is an equivalence, so nothing weaker would do).  In the
correspondence the model is run with `render = fun _ => true` against the REAL renderer on every
case: a rendering failure of the real code shows up as an escaped exception, i.e. as a
disagreement (and as an oracle violation). -/

/-- **Nothing escapes `run()` exactly when** the report of the exception that reaches the `except`
clause (if any, and if it is not a `KeyboardInterrupt`) can be rendered. -/
theorem run_escapes_iff (debug : Bool) (resolved : Except Exc Unit) (ls : List Listener) (h : Outcome)
    (render : Exc → Bool) :
    (run debug resolved ls h render).escaped = none ↔
      (∀ e, (attempt debug resolved ls h).1 = .error e → e.keyboardInterrupt = false → render e = true) := by
  simp only [run]
  cases ha : (attempt debug resolved ls h).1 with
  | ok s => simp [conclude]
  | error e =>
    simp only [conclude]
    cases hk : e.keyboardInterrupt with
    | true =>
      simp only [if_true, true_iff]
      intro e' he' hk'
      cases he'
      rw [hk] at hk'; cases hk'
    | false =>
      cases hr : render e with
      | true =>
        simp only [Bool.false_eq_true, if_false, if_true, true_iff]
        intro e' he' _
        cases he'
        exact hr
      | false =>
        simp only [Bool.false_eq_true, if_false]
        constructor
        · intro h0; cases h0
        · intro hall
          have := hall e rfl hk
          rw [hr] at this; cases this

/-- `run_contained` under the exact hypothesis -/
theorem run_contained_exact (debug : Bool) (resolved : Except Exc Unit) (ls : List Listener) (h : Outcome)
    (render : Exc → Bool)
    (hr : ∀ e, (attempt debug resolved ls h).1 = .error e → e.keyboardInterrupt = false → render e = true) :
    (run debug resolved ls h render).escaped = none ∧
    ∃ s, (run debug resolved ls h render).status = some s ∧ s ≤ 255 ∧
      ((run debug resolved ls h render).reported = true → s = 1) := by
  simp only [run]
  cases ha : (attempt debug resolved ls h).1 with
  | ok s => exact ⟨rfl, s, rfl, attempt_status_le _ _ _ _ _ ha, by simp [conclude]⟩
  | error e =>
    simp only [conclude]
    cases hk : e.keyboardInterrupt with
    | true => exact ⟨rfl, 1, rfl, by omega, by simp⟩
    | false => simp [hr e ha hk]

/-- `exception_reported` needs the renderer to succeed on that one exception only -/
theorem exception_reported_exact (debug : Bool) (resolved : Except Exc Unit) (ls : List Listener) (h : Outcome)
    (render : Exc → Bool) (e : Exc) (he : (attempt debug resolved ls h).1 = .error e)
    (hr : e.keyboardInterrupt = false → render e = true) :
    (run debug resolved ls h render).status = some 1 ∧
    ((run debug resolved ls h render).reported = !e.keyboardInterrupt) := by
  simp only [run, he, conclude]
  cases hk : e.keyboardInterrupt with
  | true => simp
  | false => simp [hr hk]

/-! ## Non-vacuity of every theorem above that has hypotheses -/

/-- `status_range`: a result of 300 is normalised to 255, `None` to 0 -/
example : (255 : Nat) ≤ 255 ∧ ((255 : Nat) = 0 ↔ v300.falsy = true) ∧
    (v300.falsy = false → ∃ n, v300.toInt = .ok n ∧ ((255 : Nat) : Int) = Gen.C04.clampStatus n) :=
  status_range v300 255 rfl
example : normalize vNone = .ok 0 := rfl

/-- `attempt_status_le` -/
example : (255 : Nat) ≤ 255 := attempt_status_le false (.ok ()) [] (.ret v300) 255 rfl

/-- `run_contained` / `run_contained_exact`: a handler raising `boom` behind a passing listener, with
a renderer that works -/
example : (run false (.ok ()) [.pass] (.raise boom) (fun _ => true)).escaped = none :=
  (run_contained false (.ok ()) [.pass] (.raise boom) (fun _ => true) (fun _ => rfl)).1

/-- a renderer that fails on every exception EXCEPT the one raised: the exact hypothesis holds, the
blanket one does not -/
def renderOnlyBoom (e : Exc) : Bool := e.tag == 7
example : (run false (.ok ()) [.pass] (.raise boom) renderOnlyBoom).escaped = none :=
  (run_contained_exact false (.ok ()) [.pass] (.raise boom) renderOnlyBoom
    (by intro e he _; have : e = boom := by simpa [attempt, handle, doHandle, dispatchPre, boom] using he.symm
        subst this; rfl)).1
example : ¬ ∀ e, renderOnlyBoom e = true := fun h => by have := h ⟨false, false, 0⟩; simp [renderOnlyBoom] at this

/-- `exception_reported` / `exception_reported_exact` -/
example : (run false (.ok ()) [.pass] (.raise boom) (fun _ => true)).status = some 1 :=
  (exception_reported false (.ok ()) [.pass] (.raise boom) (fun _ => true) (fun _ => rfl) boom rfl).1
example : (run false (.ok ()) [.pass] (.raise boom) renderOnlyBoom).reported = true :=
  (exception_reported_exact false (.ok ()) [.pass] (.raise boom) renderOnlyBoom boom rfl (fun _ => rfl)).2

/-- `status_zero_iff`: the value that reaches the normalisation is the listener's `None` -/
example : (run false (.ok ()) [.handled vNone false] (.raise boom) (fun _ => true)).status = some 0 ↔ vNone.falsy = true :=
  status_zero_iff false [.handled vNone false] (.raise boom) (fun _ => true) vNone rfl

/-- `escape_only_by_render`: with a renderer that fails the exception does escape (the hypothesis of
the theorem is satisfiable) -/
example : (run false (.ok ()) [] (.raise boom) (fun _ => false)).escaped = some boom := by decide
example : (fun _ => false : Exc → Bool) boom = false ∧ boom.keyboardInterrupt = false :=
  escape_only_by_render false (.ok ()) [] (.raise boom) (fun _ => false) boom (by decide)

/-- `handler_once`, right to left: resolution succeeded and the listener passed, so exactly one call -/
example : (run false (.ok ()) [.pass] (.raise boom) (fun _ => true)).handlerCalls = 1 :=
  (handler_once false (.ok ()) [.pass] (.raise boom) (fun _ => true)).2.mpr ⟨rfl, rfl⟩

end Clikit.Props.C04
